"""Model-based verification machinery for PC-BASIC (see /verif/DESIGN.md)."""
