"""TLC-emitted transition graphs -> covering walks for behaviour replay (spec -> code direction).

A model's emit configuration prints, through an ACTION_CONSTRAINT, one line per transition:
    <<"TRANSITION", "<json {from, a, to, ...}>">>
Each view-state is expanded once by TLC, so every transition of the bounded model appears exactly once.
"""
import json, re, collections

_LINE = re.compile(r'^<<"TRANSITION", "(.*)">>\s*$')


def parse_transitions(tlc_stdout):
    res = []
    for line in tlc_stdout.splitlines():
        m = _LINE.match(line)
        if m:
            js = m.group(1).encode().decode('unicode_escape')
            res.append(json.loads(js))
    return res


def _key(state):
    return json.dumps(state, sort_keys=True)


def covering_walks(transitions, init_state, max_len=40, rng=None, limit=None):
    """Greedy edge cover: list of walks (each a list of transition dicts starting in init_state) that together
    traverse every transition reachable from init_state at least once."""
    out = collections.defaultdict(list)
    for t in transitions:
        out[_key(t['from'])].append(t)
    for k in out:
        if rng:
            rng.shuffle(out[k])
    init = _key(init_state)
    covered = set()
    total = sum(len(v) for v in out.values())

    def path_to_uncovered(src):
        # BFS over states to the nearest state having an uncovered out-edge; returns list of transitions
        seen = {src: None}
        dq = collections.deque([src])
        while dq:
            u = dq.popleft()
            for i, t in enumerate(out.get(u, ())):
                if (u, i) not in covered:
                    path = []
                    x = u
                    while seen[x] is not None:
                        pu, pi = seen[x]
                        path.append((pu, pi))
                        x = pu
                    path.reverse()
                    return path + [(u, i)]
            for i, t in enumerate(out.get(u, ())):
                v = _key(t['to'])
                if v not in seen:
                    seen[v] = (u, i)
                    dq.append(v)
        return None

    walks = []
    while len(covered) < total:
        cur = init
        walk = []
        while len(walk) < max_len:
            p = path_to_uncovered(cur)
            if p is None or len(walk) + len(p) > max_len:
                break
            for (u, i) in p:
                covered.add((u, i))
                t = out[u][i]
                walk.append(t)
                cur = _key(t['to'])
        if not walk:
            break   # remaining transitions unreachable within max_len
        walks.append(walk)
        if limit and len(walks) >= limit:
            break
    return walks, len(covered), total
