"""Driver helpers shared by C03, C05, C06 (MBF numbers): build values of the real interpreter from byte patterns,
call pcbasic.basic.values operators / the real expression parser, project outcomes to {k, t, b, c}, and generate
interesting byte patterns.  No judgement is made here: TLC judges every recorded outcome with spec/MBF*.tla."""
import signal
from .session import Sess, find_errors
from . import core

CALL_TIMEOUT = 60.0     # seconds of PROCESS CPU TIME (ITIMER_VIRTUAL: a starved process on a loaded machine must not look like a
                        # hang); an implementation call that burns that much is reported as k='internal' (hang)
MAX_HANGS = 3           # after that many hangs no further call is made (events marked SKIPPED are not validated)
SKIPPED = 'not executed: the implementation hung %d times before' % MAX_HANGS


class Hang(BaseException):
    """Raised by the watchdog inside an implementation call that does not return."""


def _on_alarm(signum, frame):
    raise Hang('implementation call did not return within %d s of CPU time' % CALL_TIMEOUT)

TNAME = {b'%': 'i', b'!': 's', b'#': 'd', b'$': 'str'}
SIZE = {'i': 2, 's': 4, 'd': 8}
PBITS = {'s': 24, 'd': 56}
CVFN = {'i': 'CVI', 's': 'CVS', 'd': 'CVD'}
MKFN = {'i': 'MKI$', 's': 'MKS$', 'd': 'MKD$'}


class Drv(object):
    """A real Session plus direct access to its value factory."""

    def __init__(self):
        self.sess = Sess()
        core.import_repo()
        from pcbasic.basic.values import values as bv
        from pcbasic.basic.base import error
        self.bv = bv
        self.error = error
        self.impl = self.sess.impl
        self.vm = self.impl.values
        # direct calls: floating-point errors are raised (as under ON ERROR GOTO), not soft-handled on the console
        self.vm.error_handler.suspend(True)
        self.ntext = 0
        self.ndirect = 0
        self.hangs = 0
        self.last_detail = ''
        # watchdog (main thread only): armed around every implementation call
        signal.signal(signal.SIGVTALRM, _on_alarm)

    def close(self):
        signal.setitimer(signal.ITIMER_VIRTUAL, 0)
        self.sess.close()

    def ev(self, expr):
        """Session.evaluate through vf.session.Sess.ev, under the watchdog."""
        if self.hangs >= MAX_HANGS:
            return ('internal', SKIPPED, b'')
        signal.setitimer(signal.ITIMER_VIRTUAL, CALL_TIMEOUT)
        try:
            r = self.sess.ev(expr)
        except Hang as e:
            r = ('internal', 'Hang: %s' % e, b'')
        finally:
            signal.setitimer(signal.ITIMER_VIRTUAL, 0)
        if r[0] == 'internal':
            self.last_detail = str(r[1])
            if self.last_detail.startswith('Hang'):
                self.hangs += 1
        return r

    # ---- values --------------------------------------------------------------
    def val(self, b):
        """Interpreter value object (Integer/Single/Double by length) holding exactly these bytes."""
        return self.vm.from_bytes(bytearray(b))

    def project(self, r):
        """Value object -> (type, bytes)."""
        t = TNAME.get(getattr(r, 'sigil', None), '?')
        if t == 'str':
            return t, list(bytearray(r.to_str()))
        return t, list(bytearray(r.to_bytes()))

    def call(self, fn, *args):
        """Direct call of a pcbasic.basic.values function -> outcome dict {k, t, b, c}."""
        if self.hangs >= MAX_HANGS:
            return {'k': 'internal', 't': '?', 'b': [], 'c': 0, 'detail': SKIPPED}
        self.ndirect += 1
        signal.setitimer(signal.ITIMER_VIRTUAL, CALL_TIMEOUT)
        try:
            r = fn(*args)
        except self.error.BASICError as e:
            return {'k': 'err', 't': '?', 'b': [], 'c': e.err}
        except BaseException as e:  # noqa  (an escaping Python exception or a hang: always a rejection)
            if isinstance(e, Hang):
                self.hangs += 1
            self.last_detail = '%s: %s' % (type(e).__name__, e)
            return {'k': 'internal', 't': '?', 'b': [], 'c': 0, 'detail': self.last_detail}
        finally:
            signal.setitimer(signal.ITIMER_VIRTUAL, 0)
        try:
            t, b = self.project(r)
        except BaseException as e:  # noqa
            self.last_detail = 'projection: %r' % (e,)
            return {'k': 'internal', 't': '?', 'b': [], 'c': 0, 'detail': self.last_detail}
        return {'k': 'val', 't': t, 'b': b, 'c': 0}

    def evalv(self, expr):
        """Evaluate BASIC text with the real tokeniser + expression parser (what Session.evaluate does) but keep the
        result's type and bytes instead of converting it to a Python value. Floating-point errors are soft-handled
        on the console here (direct mode), reported as k='soft' with the substituted value."""
        if self.hangs >= MAX_HANGS:
            return {'k': 'internal', 't': '?', 'b': [], 'c': 0, 'detail': SKIPPED}
        self.ntext += 1
        impl = self.impl
        s = self.sess
        if isinstance(expr, str):
            expr = expr.encode('latin-1')
        s.take()
        self.vm.error_handler.suspend(False)
        res = None
        signal.setitimer(signal.ITIMER_VIRTUAL, CALL_TIMEOUT)
        try:
            with impl.io_streams.activate():
                with impl._handle_exceptions():
                    tokens = impl.tokeniser.tokenise_line(b'?' + expr)
                    tokens.read(2)
                    res = self.project(impl.parser.parse_expression(tokens))
        except BaseException as e:  # noqa
            signal.setitimer(signal.ITIMER_VIRTUAL, 0)
            self.vm.error_handler.suspend(True)
            if isinstance(e, Hang):
                self.hangs += 1
            self.last_detail = '%s: %s' % (type(e).__name__, e)
            return {'k': 'internal', 't': '?', 'b': [], 'c': 0, 'detail': self.last_detail}
        signal.setitimer(signal.ITIMER_VIRTUAL, 0)
        self.vm.error_handler.suspend(True)
        errs = find_errors(s.take())
        if res is None:
            return {'k': 'err', 't': '?', 'b': [], 'c': errs[0][0] if errs else -1}
        if errs:
            return {'k': 'soft', 't': res[0], 'b': res[1], 'c': errs[0][0]}
        return {'k': 'val', 't': res[0], 'b': res[1], 'c': 0}

    def setstr(self, name, b):
        self.sess.s.set_variable(name, bytes(bytearray(b)))

    VARNAME = {'i': 'V%', 's': 'V!', 'd': 'V#'}

    def on_variable(self, tmpl, b):
        """The operand with encoding b is put in a numeric VARIABLE (V% / V! / V#) and `tmpl % variable` is evaluated twice.
        Returns (first outcome, note): note is None, or says that the second evaluation differs from the first or that the
        variable no longer holds its bytes - a function of a value must not depend on, or change, the variable it is read from.
        Returns (None, None) when the variable could not be set (the caller falls back to a temporary)."""
        t = typ(b)
        var = self.VARNAME[t]
        self.setstr('A$', b)
        if self.sess.ex('%s=%s(A$)' % (var, CVFN[t]))[0] != 'ok':
            return None, None
        before = self.evalv('%s(%s)' % (MKFN[t], var))
        o1 = self.evalv(tmpl % var)
        o2 = self.evalv(tmpl % var)
        after = self.evalv('%s(%s)' % (MKFN[t], var))
        key = lambda o: (o['k'], o['t'], o['b'], o['c'])
        note = None
        if key(o1) != key(o2):
            note = 'second evaluation of %s differs: %r then %r' % (tmpl % var, key(o1), key(o2))
        elif before['k'] == 'val' and key(before) != key(after):
            note = 'the variable changed from %r to %r by evaluating %s' % (before['b'], after['b'], tmpl % var)
        return o1, note

    def operand_text(self, var, b):
        """BASIC text denoting the value with encoding b: CVx(var$) with var$ set to the bytes."""
        self.setstr(var + '$', b)
        return '%s(%s$)' % (CVFN[typ(b)], var)


def typ(b):
    return {2: 'i', 4: 's', 8: 'd'}[len(b)]


# ---- byte patterns (generators may know the format; they judge nothing) ------------
def int_bytes(v):
    u = v & 0xffff
    return [u & 255, u >> 8]


def flt(t, mant, exp, neg=0):
    """Encoding of type t ('s'|'d') with p-bit mantissa `mant` (top bit set), exponent byte, sign."""
    p = PBITS[t]
    assert (1 << (p - 1)) <= mant < (1 << p) and 0 <= exp <= 255
    m = (mant & ((1 << (p - 1)) - 1)) | ((1 << (p - 1)) if neg else 0)
    return [(m >> (8 * i)) & 255 for i in range(p // 8)] + [exp]


def flt_of_int(t, v):
    """Encoding of the integer v (|v| < 2^24) as float of type t."""
    if v == 0:
        return [0] * SIZE[t]
    a = abs(v)
    L = a.bit_length()
    return flt(t, a << (PBITS[t] - L), 128 + L, v < 0)


def neighbour(b, d):
    """The encoding d mantissa steps away (same type, magnitude-wise), or None at the range ends."""
    t = typ(b)
    p = PBITS[t]
    if b[-1] == 0:
        return None
    neg = b[-2] >> 7
    mant = sum(x << (8 * i) for i, x in enumerate(b[:-1])) | (1 << (p - 1))
    mant &= (1 << p) - 1
    mant += d
    e = b[-1]
    if mant >= (1 << p):
        mant >>= 1
        e += 1
    elif mant < (1 << (p - 1)):
        mant = (mant << 1) | 1
        e -= 1
    if not 1 <= e <= 255:
        return None
    return flt(t, mant, e, neg)


def negated(b):
    if len(b) == 2:
        v = b[0] | b[1] << 8
        v = v - 65536 if v >= 32768 else v
        return int_bytes(-v) if v != -32768 else None
    c = list(b)
    c[-2] ^= 0x80
    return c


def rand_float(rng, t):
    """Random float encoding: mixture of uniform bytes, structured mantissas, extreme/neighbouring exponents."""
    p = PBITS[t]
    r = rng.random()
    if r < 0.35:
        return [rng.randrange(256) for _ in range(SIZE[t])]
    if r < 0.45:      # non-canonical zero: exponent byte 0, junk mantissa / sign
        b = [rng.randrange(256) for _ in range(SIZE[t])]
        b[-1] = 0
        if rng.random() < 0.3:
            b[-2] = rng.choice([0x80, 0xff, 0x00, 0x7f])
        return b
    mant = rng.choice([
        1 << (p - 1), (1 << p) - 1, (1 << (p - 1)) + 1, (1 << p) - 2,
        (1 << (p - 1)) | (1 << rng.randrange(p - 1)),
        ((1 << p) - 1) ^ (1 << rng.randrange(p - 1)),
        (1 << (p - 1)) | rng.getrandbits(p - 1),
        (1 << (p - 1)) | (rng.getrandbits(p - 1) & ~((1 << rng.randrange(p)) - 1)),   # trailing zeros
        (1 << (p - 1)) | (rng.getrandbits(24) << (p - 24)) & ((1 << p) - 1),          # single-like
    ])
    mant |= 1 << (p - 1)
    e = rng.choice([1, 2, 3, 127, 128, 129, 130, 254, 255, rng.randrange(1, 256), rng.randrange(120, 160),
                    rng.randrange(1, 40), rng.randrange(216, 256)])
    return flt(t, mant, e, rng.random() < 0.5)


def rand_int(rng):
    return rng.choice([rng.randint(-32768, 32767), rng.randint(-32768, 32767), rng.randint(-300, 300),
                       rng.choice([0, 1, -1, 2, -2, 255, 256, -256, 32767, -32768, -32767, 32766, 16384, -16384])])


def rand_value(rng, t):
    return int_bytes(rand_int(rng)) if t == 'i' else rand_float(rng, t)


def near_integer(rng, t, ebits=None, n=None):
    """A float encoding with a chosen integer part and a boundary-rich fraction (for CINT/FIX/INT):
    integer part of `ebits` bits, fraction in {0, lowest bit, just below 1/2, 1/2, just above 1/2, all ones, random}."""
    p = PBITS[t]
    if ebits is None:
        ebits = rng.choice([rng.randrange(1, 18), rng.randrange(1, p + 3), 15, 16, 17, p - 1, p, p + 1])
    if n is None:
        n = (1 << (ebits - 1)) | rng.getrandbits(ebits - 1) if ebits > 1 else 1
        if rng.random() < 0.3:
            n = rng.choice([(1 << ebits) - 1, 1 << (ebits - 1), (1 << ebits) - 2, (1 << (ebits - 1)) + 1])
    n = max(1, n)
    ebits = n.bit_length()
    f = p - ebits
    if f <= 0:
        mant = (n >> -f) | (1 << (p - 1))
        return flt(t, mant & ((1 << p) - 1), min(255, 128 + ebits), rng.random() < 0.5)
    half = 1 << (f - 1)
    frac = rng.choice([0, 1, half - 1 if half > 1 else 0, half, half + 1 if f > 1 else half, (1 << f) - 1,
                       rng.getrandbits(f), half | rng.getrandbits(f), rng.getrandbits(f) >> 1,
                       1 << rng.randrange(f)])
    return flt(t, (n << f) | (frac & ((1 << f) - 1)), 128 + ebits, rng.random() < 0.5)


def small_magnitude(rng, t):
    """|x| < 1: exponents at and below 128 (CINT rounds [0.5,1) away from zero, everything smaller to 0)."""
    p = PBITS[t]
    mant = rng.choice([1 << (p - 1), (1 << p) - 1, (1 << (p - 1)) | rng.getrandbits(p - 1), (1 << (p - 1)) + 1])
    return flt(t, mant, rng.choice([128, 128, 127, 127, 126, 120, 1, 2, rng.randrange(1, 129)]), rng.random() < 0.5)


# ---- batched, pipelined trace validation ------------------------------------------------
class Pipeline(object):
    """Collects events and validates them with a total oracle trace spec in batches; TLC runs (subprocesses) overlap
    with the generation of the next batch. Verdict handling and all bookkeeping on ctx happen in the calling thread.
    Same contract as ctx.validate (the trace spec must consume every event, else MachineryError)."""

    def __init__(self, ctx, module, on_reject, count_key, size=150000, parallel=2, strip=('via', 'detail')):
        import concurrent.futures
        self.ctx, self.module, self.on_reject, self.count_key = ctx, module, on_reject, count_key
        self.size, self.strip = size, strip
        self.buf = []
        self.n = 0
        self.seq = 0
        self.pending = []
        self.parallel = parallel
        self.pool = concurrent.futures.ThreadPoolExecutor(max_workers=parallel)
        self.by = {}
        self.rejected = 0
        self.dropped = 0

    MIN_SPLIT = 2000
    SATURATED = 30000      # after that many rejections further events are not recorded (the verdict is settled: exit 1)

    def add(self, e, group=None):
        if self.rejected >= self.SATURATED:
            self.dropped += 1
            return
        self.buf.append(e)
        self.n += 1
        self.ctx.count(self.count_key(e))
        if group is not None:
            self.by[group] = self.by.get(group, 0) + 1
        if len(self.buf) >= self.size:
            self.flush()

    def _job(self, events, tf):
        import json, os
        of = tf + '.out'
        with open(tf, 'w') as f:
            json.dump({'header': {}, 'events': [{k: v for k, v in e.items() if k not in self.strip} for e in events]}, f)
        # a private stand-in for ctx: TLC's metadir then lives in the run's scratch dir (removed at exit even when interrupted)
        r = core.run_tlc(self.module, None, env={'TRACE_FILE': tf, 'OUT_FILE': of}, workers=1, ctx=_JobCtx(self.ctx.tmp))
        res = None
        if r['ok'] and os.path.exists(of):
            with open(of) as f:
                res = json.load(f)
        for p in (tf, of):
            if os.path.exists(p):
                os.remove(p)
        return r, res

    def flush(self):
        if not self.buf:
            return
        events, self.buf = self.buf, []
        self.seq += 1
        fut = self.pool.submit(self._job, events, self.ctx.path('%s_%d.json' % (self.module, self.seq)))
        self.pending.append((fut, events))
        while len(self.pending) >= self.parallel + 1:
            self._collect()

    def _collect(self):
        fut, events = self.pending.pop(0)
        r, res = fut.result()
        ctx = self.ctx
        ctx.cov['tlc_runs'].append({'module': self.module, 'cfg': self.module + '.cfg', 'generated': r['generated'],
                                    'distinct': r['distinct'], 'ok': r['ok'], 'wall_s': r['wall'], 'tag': 'trace', 'actions': None})
        if res is None and len(events) > self.MIN_SPLIT:
            # most likely the verdict list grew too long for one TLC run (a badly broken tree rejects nearly every event and
            # the list is part of every TLC state): validate the batch again in ten pieces
            step = (len(events) + 9) // 10
            for at in range(0, len(events), step):
                self.seq += 1
                self.pending.insert(0, (_Done(self._job(events[at:at + step], ctx.path('%s_%d.json' % (self.module, self.seq)))),
                                        events[at:at + step]))
            for _ in range(0, len(events), step):
                self._collect()
            return
        if res is None:
            raise core.MachineryError('trace validation run of %s failed: %s\n%s' % (self.module, r['error'], r['out'][-3000:]))
        if res.get('n') != len(events):
            raise core.MachineryError('trace spec %s consumed %s of %d events' % (self.module, res.get('n'), len(events)))
        ctx.cov['states'] += r['distinct']
        ctx.cov['transitions'] += r['generated']
        ctx.cov['traces_validated_against_impl'] += 1
        for v in res.get('viol', []):
            self.rejected += 1
            self.on_reject(v[1], events[v[0] - 1])

    def finish(self):
        self.flush()
        while self.pending:
            self._collect()
        self.pool.shutdown()
        if self.dropped:
            self.ctx.cov['events_not_recorded_after_%d_rejections' % self.SATURATED] = self.dropped
        if self.n == 0:
            raise core.MachineryError('no events were generated (vacuous run)')


class _JobCtx(object):
    """What core.run_tlc needs from a context (scratch dir, a run log), private to one worker thread."""

    def __init__(self, tmp):
        self.tmp = tmp
        self.cov = {'tlc_runs': []}


class _Done(object):
    """A finished job in the shape of a future."""

    def __init__(self, value):
        self.value = value

    def result(self):
        return self.value


class Sink(object):
    """events.append(e) -> pipeline, keeping the first event of each wanted group as an evidence sample."""

    def __init__(self, ctx, pipe, group, sample_groups=(), drv=None):
        self.ctx, self.pipe, self.group, self.drv = ctx, pipe, group, drv
        self.want = list(sample_groups)

    def append(self, e):
        if self.drv is not None and 'detail' not in e and 'internal' in (e.get('k'), e.get('k1'), e.get('k2'), e.get('bk')):
            e['detail'] = self.drv.last_detail      # what escaped from the implementation (shown with the rejection)
        if SKIPPED in str(e.get('detail', '')):
            return                      # not executed (see Drv.hangs): nothing was observed, nothing to judge
        g = self.group(e)
        if g in self.want:
            self.want.remove(g)
            self.ctx.sample({k: v for k, v in e.items() if k != 'detail'}, limit=8)
        self.pipe.add(e, g)
