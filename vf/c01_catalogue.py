"""Generator of spec/catalogue.json, the statement/function catalogue read by SessionModes_MC.tla and by vf/props/C01.py.

Run `/venv/bin/python -m vf.c01_catalogue` in /verif to regenerate the file after editing this list.

An item is (name, kind, template, slots, needs, keywords, flags):
  kind      'stmt' | 'fn'
  template  text with {0},{1}.. replaced by a representative of the argument class chosen for the slot
  slots     class kind per slot (key of CLASSES)
  needs     abstract state dimensions the statement is sensitive to (TLC emits the statement only in states that
            differ from the default state in these dimensions; dimension 'mode' = direct/run/handler is always varied)
  keywords  parser keywords this item covers (for the completeness guard)
  flags     'block' (may wait for input/time: scripted closing input + QUIT timer), 'env' (touches os.environ),
            'quick' (in the anchor files: always part of the quick sample), 'pcjr' (pcjr/tandy syntax only),
            'eff:<effect>' abstract effect understood by SessionModes.tla
"""
import json, os

INT = ['-32769', '-32768', '-1', '0', '1', '255', '256', '32767', '32768', '65535', '65536', '1E38', '-1E38', '1D300', '-65536', '-65537']
STR = ['""', '"A"', 'STRING$(255,"A")', '"A"+CHR$(0)+"B"', 'CHR$(255)+"X"', '"A=B"', '"A\\B"']
LINE = ['0', '1000', '15', '65529', '65530']            # 1000 = existing line of every skeleton, 15 = missing
FNUM = ['0', '1', '2', '3', '4', '255', '256', '-1']
# file names: F1..F3 are created by the harness before every case; PROG.BAS / PROT.BAS / ASC.BAS are program files
NAME = ['"F1"', '"NOFILE"', '""', 'STRING$(255,"A")', '"A"+CHR$(0)+"B"', '"A:X"', '"..\\X"', '"COM1:"', '"LPT1:"',
        '"SCRN:"', '"KYBD:"', '"CAS1:"', '"C:\\"', '"*.*"', '"PROG.BAS"', '"PROT.BAS"', '"ASC.BAS"', '"SUB\\X"', 'CHR$(255)']
VAR = ['A', 'A%', 'A$', 'A#', 'B(1)', 'B$(1)', 'B(99)', 'A!']
# memory offsets: low memory / sentinel bytes, keyboard buffer pointers, video mode/colour info bytes (1097, 1125, 1126), FIELD buffers and the file headers between them,
# program code, variable space, top of the segment
ADDR = ['0', '4', '44', '1050', '1052', '3429', '4073', '4330', '4588', '4718', '30000', '65535', '-1', '1097', '1125', '1126']
CLASSES = {'i': INT, 's': STR, 'l': LINE, 'f': FNUM, 'n': NAME, 'v': VAR, 'a': ADDR}
NOMINAL = {'i': 4, 's': 1, 'l': 1, 'f': 1, 'n': 0, 'v': 0, 'a': 0}       # 0-based index of the nominal representative

F = 'files'
G = ['screen', 'view', 'window']
P = ['prog', 'prot', 'trap']

ITEMS = []


def it(name, kind, tmpl, slots='', needs=(), kw=(), flags=()):
    ITEMS.append({'name': name, 'kind': kind, 'tmpl': tmpl, 'slots': list(slots), 'needs': list(needs),
                  'kw': list(kw) if kw else [name.split('_')[0]], 'flags': list(flags)})


def S(name, tmpl, slots='', needs=(), kw=(), flags=()):
    it(name, 'stmt', tmpl, slots, needs, kw, flags)


def Fn(name, tmpl, slots='', needs=(), kw=(), flags=()):
    it(name, 'fn', tmpl, slots, needs, kw, flags)


# ---------------------------------------------------------------- program control / interpreter.py
S('DATA', 'DATA 1,"A",,{0}', 'i')
S('COMMON', 'COMMON A,B$,C()', '')
S('REM', "REM {0}:' x", 's', kw=['REM', "'"])
S('ELSE', 'IF {0} THEN PRINT 1 ELSE PRINT 2', 'i', kw=['ELSE', 'IF', 'THEN'])
S('IF_GOTO', 'IF {0} GOTO {1} ELSE {1}', 'il', P, kw=['IF', 'GOTO'])
S('CONT', 'CONT', '', P, flags=['quick'])
S('TRON', 'TRON:PRINT 1:TROFF', '', kw=['TRON', 'TROFF'])
S('WHILE', 'WHILE {0}:X=X+1:IF X>2 THEN X={0}:WEND', 'i', kw=['WHILE', 'WEND'])
S('WEND', 'WEND', '', kw=['WEND'])
S('WHILE_OPEN', 'WHILE {0}', 'i', kw=['WHILE'])
S('RESET', 'RESET', '', [F], flags=['eff:closeall'])
S('END', 'END', '', [F] + P)
S('STOP', 'STOP', '', P)
S('NEW', 'NEW', '', [F] + P, flags=['eff:new', 'quick'])
S('SYSTEM', 'SYSTEM', '', [F])
S('FOR', 'FOR I={0} TO {1} STEP {2}:NEXT', 'iii', kw=['FOR', 'NEXT', 'TO', 'STEP'])
S('FOR_INT', 'FOR I%={0} TO {1}:NEXT I%', 'ii', kw=['FOR', 'NEXT'])
S('FOR_OPEN', 'FOR {0}=1 TO 2', 'v', kw=['FOR'])
S('NEXT', 'NEXT {0}', 'v', kw=['NEXT'])
S('INPUT', 'INPUT {0}', 'v', flags=['block'])
S('INPUT_PROMPT', 'INPUT;{0};{1},B$', 'sv', flags=['block'], kw=['INPUT'])
S('INPUT_FILE', 'INPUT#{0},{1}', 'fv', [F], kw=['INPUT'], flags=['block'])
S('DIM', 'DIM Q({0},{1})', 'ii')
S('DIM_STR', 'DIM Q$({0}):Q$({0})="A"', 'i', kw=['DIM'])
S('READ', 'READ {0}', 'v', P)
S('LET', 'LET {0}={1}', 'vi')
S('LET_STR', '{0}={1}', 'vs', kw=['LET'])
S('LET_ARR', 'B({0},{1})=1', 'ii', kw=['LET'])
S('GOTO', 'GOTO {0}', 'l', P, flags=['quick'])
S('RUN', 'RUN {0}', 'l', [F] + P, flags=['quick'])
S('RUN_BARE', 'RUN', '', [F] + P, kw=['RUN'])
S('RUN_FILE', 'RUN {0}', 'n', [F] + P, kw=['RUN'])
S('RUN_FILE_R', 'RUN {0},R', 'n', [F], kw=['RUN'])
S('RESTORE', 'RESTORE {0}', 'l', P)
S('GOSUB', 'GOSUB {0}', 'l', P, flags=['quick'])
S('RETURN', 'RETURN {0}', 'l', P, flags=['quick'])
S('RETURN_BARE', 'RETURN', '', P, kw=['RETURN'])
S('PRINT', 'PRINT {0};{1},', 'is')
S('PRINT_TAB', 'PRINT TAB({0});SPC({1});1', 'ii', kw=['PRINT', 'TAB(', 'SPC('])
S('PRINT_USING', 'PRINT USING {0};{1},{1}', 'si', kw=['PRINT', 'USING'])
S('PRINT_USING_STR', 'PRINT USING "\\ \\!&##.##^^^^";{0},{0}', 's', kw=['PRINT', 'USING'])
S('PRINT_FILE', 'PRINT#{0},{1};{2}', 'fis', [F], kw=['PRINT'])
S('PRINT_FILE_USING', 'PRINT#{0},USING "##.#";{1}', 'fi', [F], kw=['PRINT', 'USING'])
S('CLEAR', 'CLEAR {0},{1},{2}', 'iii', [F] + P + G, flags=['quick'])
S('CLEAR_MEM', 'CLEAR ,{0}', 'i', [F], kw=['CLEAR'], flags=['quick'])
S('CLEAR_VIDEO', 'CLEAR ,,,{0}', 'i', G, kw=['CLEAR'], flags=['pcjr'])
S('CLEAR_VIDEO_STR', 'CLEAR ,,,{0}', 's', G, kw=['CLEAR'], flags=['pcjr'])
S('LIST', 'LIST {0}-{1}', 'll', P, flags=['quick'])
S('LIST_FILE', 'LIST {0}-,{1}', 'ln', [F] + P, kw=['LIST'])
S('LIST_DOT', 'LIST .', '', P, kw=['LIST'])
S('WAIT', 'WAIT {0},{1},{2}', 'iii', flags=['block', 'quick'])
S('POKE', 'POKE {0},{1}', 'ii', ['seg'] + P, flags=['quick'])
S('POKE_ADDR', 'POKE {0},{1}', 'ai', ['seg'] + P + [F], kw=['POKE'], flags=['quick'])
S('POKE_VARPTR', 'A$="ABC":POKE VARPTR({0})+{1},{2}:PRINT A;A%;A$;A#;B(1);B$(1)', 'vii', kw=['POKE', 'VARPTR'], flags=['quick'])
S('OUT', 'OUT {0},{1}', 'ii', G, flags=['quick'])
S('OUT_VIDEO', 'OUT &H3D8,{0}:OUT &H3D9,{0}:OUT &H3C5,{0}:OUT &H3CF,{0}:OUT &H201,{0}', 'i', G, kw=['OUT'])
S('LPRINT', 'LPRINT {0};{1}', 'is')
S('LPRINT_USING', 'LPRINT USING {0};{1}', 'si', kw=['LPRINT', 'USING'])
S('LLIST', 'LLIST {0}-{1}', 'll', P, flags=['quick'])
S('WIDTH', 'WIDTH {0},{1}', 'ii', G)
S('WIDTH_CURSOR', 'LOCATE {0},{1}:KEY ON:WIDTH 40:WIDTH 80:KEY OFF', 'ii', G, kw=['WIDTH', 'LOCATE', 'KEY'])
S('WIDTH_DEV', 'WIDTH {0},{1}', 'ni', [F], kw=['WIDTH'])
S('WIDTH_FILE', 'WIDTH #{0},{1}', 'fi', [F], kw=['WIDTH'])
S('WIDTH_LPRINT', 'WIDTH LPRINT {0}', 'i', kw=['WIDTH', 'LPRINT'])
# a device / file width followed by output that computes columns from it (width 0 made SPC/TAB divide by zero)
S('WIDTH_FILE_TAB', 'WIDTH #{0},{1}:PRINT#{0},TAB({2});SPC({2});1,2', 'fii', [F], kw=['WIDTH', 'PRINT', 'TAB(', 'SPC('])
S('WIDTH_DEV_TAB', 'WIDTH "LPT1:",{0}:LPRINT TAB({1});SPC({1});1,2:WIDTH LPRINT {0}:LPRINT TAB({1}),3', 'ii', kw=['WIDTH', 'LPRINT', 'TAB(', 'SPC('])
S('WIDTH_SCRN_TAB', 'WIDTH "SCRN:",{0}:PRINT TAB({1});SPC({1});1,2', 'ii', G, kw=['WIDTH', 'PRINT', 'TAB(', 'SPC('])
S('SWAP', 'SWAP {0},{1}', 'vv')
S('ERASE', 'ERASE B,{0}', 'v')
S('EDIT', 'EDIT {0}', 'l', P, flags=['quick'])
S('EDIT_DOT', 'EDIT .', '', P, kw=['EDIT'])
S('ERROR', 'ERROR {0}', 'i', P, flags=['quick', 'eff:error'])
S('RESUME', 'RESUME {0}', 'l', P, flags=['quick'])
S('RESUME_NEXT', 'RESUME NEXT', '', P, kw=['RESUME', 'NEXT'], flags=['quick', 'eff:resume'])
S('RESUME_BARE', 'RESUME', '', P, kw=['RESUME'], flags=['quick'])
S('DELETE', 'DELETE {0}-{1}', 'll', P, flags=['quick'])
S('DELETE_ONE', 'DELETE {0}', 'l', P, kw=['DELETE'], flags=['quick'])
S('AUTO', 'AUTO {0},{1}', 'll', P, flags=['block'])
S('RENUM', 'RENUM {0},{1},{2}', 'lli', P, flags=['quick'])
S('RENUM_2', 'RENUM {0},{1}', 'll', P, kw=['RENUM'], flags=['quick'])
S('RENUM_BARE', 'RENUM', '', P, kw=['RENUM'], flags=['quick'])
S('DEFSTR', 'DEFSTR A-C:DEFINT {0}:DEFSNG X-Z:DEFDBL D', 'v', kw=['DEFSTR', 'DEFINT', 'DEFSNG', 'DEFDBL'])
S('DEFINT_RANGE', 'DEFINT Z-A:A={0}', 'i', kw=['DEFINT'])
S('CALL', 'CALL {0}({1})', 'vv', ['seg'])
S('CALLS', 'CALLS {0}', 'v', ['seg'])
S('WRITE', 'WRITE {0},{1}', 'is')
S('WRITE_FILE', 'WRITE#{0},{1},{2}', 'fis', [F], kw=['WRITE'])
S('OPTION', 'OPTION BASE {0}', 'i', kw=['OPTION'])
S('RANDOMIZE', 'RANDOMIZE {0}', 'i')
S('RANDOMIZE_BARE', 'RANDOMIZE', '', kw=['RANDOMIZE'], flags=['block'])
S('ON_ERROR', 'ON ERROR GOTO {0}', 'l', P, kw=['ON', 'ERROR', 'GOTO'], flags=['quick'])
S('ON_ERROR_SET', 'ON ERROR GOTO 1000', '', P, kw=['ON', 'ERROR'], flags=['quick', 'eff:trapset'])
S('ON_ERROR_OFF', 'ON ERROR GOTO 0', '', P, kw=['ON', 'ERROR'], flags=['quick', 'eff:trapoff'])
S('ON_GOTO', 'ON {0} GOTO {1},{2}', 'ill', P, kw=['ON', 'GOTO'], flags=['quick'])
S('ON_GOSUB', 'ON {0} GOSUB {1},{2}', 'ill', P, kw=['ON', 'GOSUB'], flags=['quick'])
S('ON_KEY', 'ON KEY({0}) GOSUB {1}', 'il', P + ['ev'], kw=['ON', 'KEY', 'GOSUB'])
S('ON_TIMER', 'ON TIMER({0}) GOSUB {1}', 'il', P + ['ev'], kw=['ON', 'TIMER'])
S('ON_PEN', 'ON PEN GOSUB {0}', 'l', P + ['ev'], kw=['ON', 'PEN'])
S('ON_PLAY', 'ON PLAY({0}) GOSUB {1}', 'il', P + ['ev'], kw=['ON', 'PLAY'])
S('ON_COM', 'ON COM({0}) GOSUB {1}', 'il', P + ['ev'], kw=['ON', 'COM'])
S('ON_STRIG', 'ON STRIG({0}) GOSUB {1}', 'il', P + ['ev'], kw=['ON', 'STRIG'])
S('DEF_FN', 'DEF FNA(X,Y$)=X+{0}:PRINT FNA(1,"A")', 'i', P, kw=['DEF', 'FN'])
S('DEF_FN_STR', 'DEF FNS$(X$)=X$+{0}:PRINT FNS$({0})', 's', P, kw=['DEF', 'FN'])
S('DEF_FN_REC', 'DEF FNR(X)=FNR(X)+1:PRINT FNR({0})', 'i', P, kw=['DEF', 'FN'])
S('DEF_FN_CHAIN', 'DEF FNS$(X$)=X$+"":A$=FNS$("A"):CHAIN "PROG.BAS",{0},ALL', 'l', P + [F], kw=['DEF', 'FN', 'CHAIN'])
S('DEF_USR', 'DEF USR{0}={1}', 'ii', ['seg'], kw=['DEF', 'USR'])
S('DEF_SEG', 'DEF SEG={0}', 'i', ['seg'], kw=['DEF'], flags=['quick'])
S('DEF_SEG_BARE', 'DEF SEG', '', ['seg'], kw=['DEF'], flags=['quick', 'eff:seg_data'])
S('DEF_SEG_0', 'DEF SEG=0', '', ['seg'], kw=['DEF'], flags=['quick', 'eff:seg_zero'])
S('DEF_SEG_VIDEO', 'DEF SEG=&HB800', '', ['seg'], kw=['DEF'], flags=['quick', 'eff:seg_video'])
S('DEF_SEG_ROM', 'DEF SEG=&HF000', '', ['seg'], kw=['DEF'], flags=['quick', 'eff:seg_rom'])
# ---------------------------------------------------------------- files
for m, kwm in (('I', 'INPUT'), ('O', 'OUTPUT'), ('A', 'APPEND'), ('R', 'RANDOM')):
    for n in (1, 2, 3):
        S('OPEN_%s_%d' % (m, n), 'OPEN "F%d" FOR %s AS #%d' % (n, kwm, n) + (' LEN=32' if m == 'R' else ''), '', [F],
          kw=['OPEN', 'FOR', 'AS'], flags=['eff:open_%s_%d' % (m, n)])
S('OPEN_NAME', 'OPEN {0} FOR OUTPUT AS #{1}', 'nf', [F], kw=['OPEN'])
S('OPEN_IN', 'OPEN {0} FOR INPUT AS {1}', 'nf', [F], kw=['OPEN'])
S('OPEN_RANDOM', 'OPEN {0} FOR RANDOM ACCESS READ WRITE LOCK READ WRITE AS {1} LEN={2}', 'nfi', [F], kw=['OPEN'])
S('OPEN_SHORT', 'OPEN {0},#{1},{2},{3}', 'sfni', [F], kw=['OPEN'])
S('OPEN_SHARED', 'OPEN {0} AS {1} LEN={2}', 'nfi', [F], kw=['OPEN'])
for n in (1, 2, 3):
    S('CLOSE_%d' % n, 'CLOSE #%d' % n, '', [F], kw=['CLOSE'], flags=['eff:close_%d' % n])
S('CLOSE_ALL', 'CLOSE', '', [F], kw=['CLOSE'], flags=['eff:closeall'])
S('CLOSE', 'CLOSE #{0},{1}', 'ff', [F])
S('LOAD', 'LOAD {0}', 'n', [F] + P, flags=['quick'])
S('LOAD_R', 'LOAD {0},R', 'n', [F] + P, kw=['LOAD'])
S('LOAD_PROG', 'LOAD "PROG.BAS"', '', [F] + P, kw=['LOAD'], flags=['eff:load'])
S('LOAD_PROT', 'LOAD "PROT.BAS"', '', [F] + P, kw=['LOAD'], flags=['eff:loadprot', 'quick'])
S('MERGE', 'MERGE {0}', 'n', [F] + P, flags=['quick'])
S('SAVE', 'SAVE {0}', 'n', [F] + P)
S('SAVE_A', 'SAVE {0},A', 'n', [F] + P, kw=['SAVE'])
S('SAVE_P', 'SAVE {0},P', 'n', [F] + P, kw=['SAVE'])
S('CHAIN', 'CHAIN {0},{1},ALL', 'nl', [F] + P, flags=['quick'])
S('CHAIN_MERGE', 'CHAIN MERGE {0},{1},DELETE {1}-{1}', 'nl', [F] + P, kw=['CHAIN', 'MERGE', 'DELETE'], flags=['quick'])
S('BSAVE', 'BSAVE {0},{1},{2}', 'nii', ['seg', F] + G, flags=['quick'])
S('BLOAD', 'BLOAD {0},{1}', 'ni', ['seg', F] + G, flags=['quick'])
S('BSAVE_BLOAD', 'BSAVE "M.BIN",{0},{1}:BLOAD "M.BIN"', 'ii', ['seg'] + G, kw=['BSAVE', 'BLOAD'], flags=['quick'])
S('BSAVE_ADDR', 'BSAVE "M.BIN",{0},{1}', 'ai', ['seg', F] + G, kw=['BSAVE'], flags=['quick'])
S('BLOAD_ADDR', 'BSAVE "M.BIN",0,64:BLOAD "M.BIN",{0}', 'a', ['seg', F] + G, kw=['BSAVE', 'BLOAD'], flags=['quick'])
S('FILES', 'FILES {0}', 'n', [F])
S('FILES_BARE', 'FILES', '', [F], kw=['FILES'])
S('FIELD', 'FIELD #{0},{1} AS A$,{2} AS B$', 'fii', [F])
S('FIELD_BARE', 'FIELD #{0}', 'f', [F], kw=['FIELD'])
S('NAME', 'NAME {0} AS {1}', 'nn', [F])
S('LSET', 'LSET {0}={1}', 'vs', [F])
S('RSET', 'RSET {0}={1}', 'vs', [F])
S('LSET_FIELD', 'FIELD #{0},8 AS A$:LSET A$={1}:RSET A$={1}:PUT #{0}', 'fs', [F], kw=['LSET', 'RSET', 'FIELD'])
S('KILL', 'KILL {0}', 'n', [F])
S('CHDIR', 'CHDIR {0}', 'n')
S('MKDIR', 'MKDIR {0}', 'n')
S('RMDIR', 'RMDIR {0}', 'n')
S('PUT_FILE', 'PUT #{0},{1}', 'fi', [F], kw=['PUT'])
S('GET_FILE', 'GET #{0},{1}', 'fi', [F], kw=['GET'])
S('PUT_BARE', 'PUT {0}', 'f', [F], kw=['PUT'])
S('GET_BARE', 'GET {0}', 'f', [F], kw=['GET'])
S('PUT_COM', 'PUT #{0},,{1}', 'fi', [F], kw=['PUT'])
S('LOCK', 'LOCK #{0},{1} TO {2}', 'fii', [F], kw=['LOCK', 'TO'])
S('UNLOCK', 'UNLOCK #{0},{1} TO {2}', 'fii', [F], kw=['UNLOCK'])
S('LOCK_BARE', 'LOCK {0}:UNLOCK {0}', 'f', [F], kw=['LOCK', 'UNLOCK'])
S('LINE_INPUT', 'LINE INPUT {0};{1}', 'sv', kw=['LINE', 'INPUT'], flags=['block'])
S('LINE_INPUT_FILE', 'LINE INPUT#{0},{1}', 'fv', [F], kw=['LINE', 'INPUT'], flags=['block'])
S('IOCTL', 'IOCTL #{0},{1}', 'fs', [F])
S('MOTOR', 'MOTOR {0}', 'i')
S('LCOPY', 'LCOPY {0}', 'i')
S('SHELL', 'SHELL {0}', 's', flags=['block'])
S('SHELL_BARE', 'SHELL', '', kw=['SHELL'], flags=['block'])
S('ENVIRON', 'ENVIRON {0}', 's', flags=['env', 'quick'])
S('ENVIRON_SET', 'ENVIRON "VFX="+{0}', 's', kw=['ENVIRON'], flags=['env', 'quick'])
S('DATE', 'DATE$={0}', 's', kw=['DATE$'], flags=['quick'])
S('DATE_FMT', 'DATE$="{0}-{1}-{2}"', 'iii', kw=['DATE$'], flags=['quick'])
S('TIME', 'TIME$={0}', 's', kw=['TIME$'], flags=['quick'])
S('TIME_FMT', 'TIME$="{0}:{1}:{2}"', 'iii', kw=['TIME$'], flags=['quick'])
S('TERM', 'TERM', '', flags=['pcjr', 'block'])
# ---------------------------------------------------------------- display, graphics, sound, events
S('COLOR', 'COLOR {0},{1},{2}', 'iii', G)
S('COLOR_1', 'COLOR {0}', 'i', G, kw=['COLOR'])
S('CLS', 'CLS {0}', 'i', G)
S('SOUND', 'SOUND {0},{1}', 'ii')
S('SOUND_VOICE', 'SOUND {0},{1},{2},{3}', 'iiii', kw=['SOUND'], flags=['pcjr'])
S('SOUND_ON', 'SOUND ON:SOUND OFF', '', kw=['SOUND', 'ON', 'OFF'], flags=['pcjr'])
S('NOISE', 'NOISE {0},{1},{2}', 'iii', flags=['pcjr'])
S('BEEP', 'BEEP', '')
S('BEEP_ON', 'BEEP ON:BEEP OFF', '', kw=['BEEP'], flags=['pcjr'])
S('PSET', 'PSET ({0},{1}),{2}', 'iii', G)
S('PSET_STEP', 'PSET STEP({0},{1})', 'ii', G, kw=['PSET', 'STEP'])
S('PRESET', 'PRESET ({0},{1}),{2}', 'iii', G)
for md in (0, 1, 2):
    S('SCREEN_%d' % md, 'SCREEN %d' % md, '', G, kw=['SCREEN'], flags=['eff:screen_%d' % md])
S('SCREEN', 'SCREEN {0},{1},{2},{3}', 'iiii', G)
S('SCREEN_1ARG', 'SCREEN {0}', 'i', G, kw=['SCREEN'])
S('SCREEN_ERASE', 'SCREEN {0},,,,{1}', 'ii', G, kw=['SCREEN'], flags=['pcjr'])
S('LOCATE', 'LOCATE {0},{1},{2},{3},{4}', 'iiiii', G)
S('LOCATE_2', 'LOCATE {0},{1}', 'ii', G, kw=['LOCATE'])
S('PAINT', 'PAINT ({0},{1}),{2},{3}', 'iiii', G)
S('PAINT_TILE', 'PAINT (5,5),{0},{1},{0}', 'si', G, kw=['PAINT'])
S('COM_ON', 'COM({0}) ON:COM({0}) OFF:COM({0}) STOP', 'i', ['ev'], kw=['COM', 'ON', 'OFF', 'STOP'])
S('CIRCLE', 'CIRCLE ({0},{1}),{2},{3}', 'iiii', G)
S('CIRCLE_ARC', 'CIRCLE (50,50),20,1,{0},{1},{2}', 'iii', G, kw=['CIRCLE'])
S('CIRCLE_STEP', 'CIRCLE STEP({0},{1}),{2}', 'iii', G, kw=['CIRCLE', 'STEP'])
S('DRAW', 'DRAW {0}', 's', G)
S('DRAW_CMD', 'DRAW "BM{0},{1} U{2} M+{0},-{1} A{2} TA{2} S{2} C{2} P{2},{2}"', 'iii', G, kw=['DRAW'])
S('DRAW_VAR', 'A={0}:A$="U10":DRAW "U=A; XA$; R=" + VARPTR$(A)', 'i', G, kw=['DRAW', 'VARPTR'])
S('TIMER_ON', 'TIMER ON:TIMER STOP:TIMER OFF', '', ['ev'], kw=['TIMER'])
S('TIMER_SET', 'ON TIMER(1) GOSUB 1000:TIMER ON', '', P + ['ev'], kw=['TIMER', 'ON'], flags=['eff:evon'])
S('TIMER_OFF', 'TIMER OFF', '', ['ev'], kw=['TIMER', 'OFF'], flags=['eff:evoff'])
S('WINDOW', 'WINDOW ({0},{1})-({2},{3})', 'iiii', G)
S('WINDOW_SCREEN', 'WINDOW SCREEN ({0},{1})-({2},{3})', 'iiii', G, kw=['WINDOW', 'SCREEN'])
S('WINDOW_SET', 'WINDOW (0,0)-(10,10)', '', G, kw=['WINDOW'], flags=['eff:window_on'])
S('WINDOW_BARE', 'WINDOW', '', G, kw=['WINDOW'], flags=['eff:window_off'])
S('PCOPY', 'PCOPY {0},{1}', 'ii', G)
S('MID', 'MID$({0},{1},{2})={3}', 'viis', kw=['MID$'])
S('MID_2', 'A$="ABCDEF":MID$(A$,{0})={1}', 'is', kw=['MID$'])
S('PEN_ON', 'PEN ON:PEN STOP:PEN OFF', '', ['ev'], kw=['PEN'])
S('LINE', 'LINE ({0},{1})-({2},{3}),{4},BF', 'iiiii', G)
S('LINE_STYLE', 'LINE -({0},{1}),,B,{2}', 'iii', G, kw=['LINE'])
S('LINE_STEP', 'LINE STEP({0},{1})-STEP({2},{3})', 'iiii', G, kw=['LINE', 'STEP'])
S('KEY_ON', 'KEY ON:KEY OFF:KEY LIST', '', G, kw=['KEY', 'ON', 'OFF', 'LIST'])
S('KEY_MACRO', 'KEY {0},{1}', 'is', kw=['KEY'])
S('KEY_TRAP_DEF', 'KEY {0},CHR$({1})+CHR$({2})', 'iii', ['ev'], kw=['KEY'])
S('KEY_EVENT', 'KEY({0}) ON:KEY({0}) STOP:KEY({0}) OFF', 'i', ['ev'], kw=['KEY'])
S('PUT_GRAPH', 'DIM G%(200):GET (0,0)-(10,10),G%:PUT ({0},{1}),G%,{2}', 'iiv', G, kw=['PUT', 'GET'])
S('PUT_GRAPH_OP', 'DIM G%(200):GET (0,0)-(10,10),G%:PUT ({0},{1}),G%,XOR:PUT (1,1),G%,PSET:PUT (1,1),G%,PRESET:PUT (1,1),G%,AND:PUT (1,1),G%,OR', 'ii', G,
  kw=['PUT', 'XOR', 'AND', 'OR', 'PSET', 'PRESET'])
S('GET_GRAPH', 'DIM G%({4}):GET ({0},{1})-({2},{3}),G%', 'iiiii', G, kw=['GET'])
S('GET_GRAPH_VAR', 'GET (0,0)-(5,5),{0}', 'v', G, kw=['GET'])
S('PLAY', 'PLAY {0}', 's', flags=['block'])
S('PLAY_MML', 'PLAY "MB T{0} O{1} L{2} N{0} C#. P{2} > < MF MN ML MS"', 'iii', kw=['PLAY'], flags=['block'])
S('PLAY_VAR', 'A={0}:A$="CDE":PLAY "T=A; XA$;"', 'i', kw=['PLAY'], flags=['block'])
S('PLAY_3', 'PLAY {0},{1},{2}', 'sss', kw=['PLAY'], flags=['pcjr', 'block'])
S('PLAY_ON', 'PLAY ON:PLAY STOP:PLAY OFF', '', ['ev'], kw=['PLAY'])
S('VIEW_PRINT', 'VIEW PRINT {0} TO {1}', 'ii', G, kw=['VIEW', 'PRINT', 'TO'])
S('VIEW_PRINT_BARE', 'VIEW PRINT', '', G, kw=['VIEW', 'PRINT'])
S('VIEW', 'VIEW ({0},{1})-({2},{3}),{4},{4}', 'iiiii', G)
S('VIEW_SCREEN', 'VIEW SCREEN ({0},{1})-({2},{3})', 'iiii', G, kw=['VIEW', 'SCREEN'])
S('VIEW_SET', 'VIEW (10,10)-(100,100)', '', G, kw=['VIEW'], flags=['eff:view_on'])
S('VIEW_BARE', 'VIEW', '', G, kw=['VIEW'], flags=['eff:view_off'])
S('PALETTE', 'PALETTE {0},{1}', 'ii', G)
S('PALETTE_BARE', 'PALETTE', '', G, kw=['PALETTE'])
S('PALETTE_USING', 'DIM P%(20):PALETTE USING P%({0})', 'i', G, kw=['PALETTE', 'USING'])
S('PALETTE_USING_VAR', 'PALETTE USING {0}', 'v', G, kw=['PALETTE', 'USING'])
S('STRIG_ON', 'STRIG ON:STRIG OFF', '', ['ev'], kw=['STRIG'])
S('STRIG_EVENT', 'STRIG({0}) ON:STRIG({0}) STOP:STRIG({0}) OFF', 'i', ['ev'], kw=['STRIG'])
S('EXTENSION', '_FOO {0}', 'i', kw=['_'])
# ---------------------------------------------------------------- operators (as statements: PRINT expr)
S('OP_ARITH', 'PRINT {0}+{1};{0}-{1};{0}*{1};{0}/{1};{0}^{1};{0}\\{1};{0} MOD {1}', 'ii', kw=['+', '-', '*', '/', '^', '\\', 'MOD'])
S('OP_LOGIC', 'PRINT {0} AND {1};{0} OR {1};{0} XOR {1};{0} EQV {1};{0} IMP {1};NOT {0}', 'ii',
  kw=['AND', 'OR', 'XOR', 'EQV', 'IMP', 'NOT'])
S('OP_CMP', 'PRINT {0}<{1};{0}>{1};{0}={1};{0}<={1};{0}>={1};{0}<>{1};-{0}', 'ii', kw=['<', '>', '='])
S('OP_STR', 'PRINT {0}+{1};{0}<{1};{0}={1};{0}>{1}', 'ss', kw=['+', '<', '=', '>'])
S('OP_MIXED', 'PRINT {0}+{1}', 'si', kw=['+'])
# ---------------------------------------------------------------- functions
for nm in ('SGN', 'INT', 'FIX', 'ABS', 'SQR', 'SIN', 'LOG', 'EXP', 'COS', 'TAN', 'ATN', 'CINT', 'CSNG', 'CDBL', 'RND'):
    Fn(nm, nm + '({0})', 'i')
    Fn(nm + '_STR', nm + '({0})', 's', kw=[nm])
Fn('RND_BARE', 'RND', '', kw=['RND'])
Fn('PEEK', 'PEEK({0})', 'i', ['seg'] + P + [F], flags=['quick'])
Fn('PEEK_ADDR', 'PEEK({0})', 'a', ['seg'] + P + [F], kw=['PEEK'], flags=['quick'])
Fn('PEEK_VARPTR', 'PEEK(VARPTR({0})+{1})', 'vi', kw=['PEEK', 'VARPTR'], flags=['quick'])
Fn('FRE', 'FRE({0})', 'i')
Fn('FRE_STR', 'FRE({0})', 's', kw=['FRE'])
Fn('INP', 'INP({0})', 'i', G, flags=['quick'])
Fn('POS', 'POS({0})', 'i')
Fn('LEN', 'LEN({0})', 's')
Fn('LEN_NUM', 'LEN({0})', 'i', kw=['LEN'])
Fn('STR', 'STR$({0})', 'i', kw=['STR$'])
Fn('VAL', 'VAL({0})', 's')
Fn('VAL_NUM', 'VAL("&H"+HEX$({0})+"1E40")', 'i', kw=['VAL'])
Fn('ASC', 'ASC({0})', 's')
Fn('CHR', 'CHR$({0})', 'i', kw=['CHR$'], flags=['quick'])
Fn('SPACE', 'SPACE$({0})', 'i', kw=['SPACE$'])
Fn('OCT', 'OCT$({0})', 'i', kw=['OCT$'])
Fn('HEX', 'HEX$({0})', 'i', kw=['HEX$'])
Fn('PEN', 'PEN({0})', 'i', ['ev'])
Fn('STICK', 'STICK({0})', 'i')
Fn('STRIG', 'STRIG({0})', 'i')
Fn('EOF', 'EOF({0})', 'f', [F])
Fn('LOC', 'LOC({0})', 'f', [F])
Fn('LOF', 'LOF({0})', 'f', [F])
Fn('EOF_INT', 'EOF({0})', 'i', [F], kw=['EOF'])
Fn('LPOS', 'LPOS({0})', 'i')
Fn('EXTERR', 'EXTERR({0})', 'i')
Fn('PLAY_FN', 'PLAY({0})', 'i', kw=['PLAY'])
Fn('STRING', 'STRING$({0},{1})', 'ii', kw=['STRING$'])
Fn('STRING_STR', 'STRING$({0},{1})', 'is', kw=['STRING$'])
Fn('PMAP', 'PMAP({0},{1})', 'ii', G)
Fn('LEFT', 'LEFT$({0},{1})', 'si', kw=['LEFT$'])
Fn('RIGHT', 'RIGHT$({0},{1})', 'si', kw=['RIGHT$'])
Fn('POINT', 'POINT({0},{1})', 'ii', G)
Fn('POINT_1', 'POINT({0})', 'i', G, kw=['POINT'])
Fn('MID_FN', 'MID$({0},{1},{2})', 'sii', kw=['MID$'])
Fn('MID_FN2', 'MID$({0},{1})', 'si', kw=['MID$'])
Fn('SCREEN_FN', 'SCREEN({0},{1},{2})', 'iii', G, kw=['SCREEN'])
Fn('INSTR', 'INSTR({0},{1},{2})', 'iss')
Fn('INSTR_2', 'INSTR({0},{1})', 'ss', kw=['INSTR'])
Fn('CVI', 'CVI({0})', 's')
Fn('CVS', 'CVS({0})', 's')
Fn('CVD', 'CVD({0})', 's')
Fn('CVS_LONG', 'CVS({0}+"AAAA")+CVD({0}+"AAAAAAAA")+CVI({0}+"AA")', 's', kw=['CVS', 'CVD', 'CVI'])
Fn('MKI', 'MKI$({0})', 'i', kw=['MKI$'])
Fn('MKS', 'MKS$({0})', 'i', kw=['MKS$'])
Fn('MKD', 'MKD$({0})', 'i', kw=['MKD$'])
Fn('USR', 'USR({0})', 'i', ['seg'])
Fn('USR_N', 'USR{0}({1})', 'ii', ['seg'], kw=['USR'])
Fn('IOCTL_FN', 'IOCTL$(#{0})', 'f', [F], kw=['IOCTL'])
Fn('ENVIRON_FN', 'ENVIRON$({0})', 's', kw=['ENVIRON'], flags=['env', 'quick'])
Fn('ENVIRON_FN_N', 'ENVIRON$({0})', 'i', kw=['ENVIRON'], flags=['env', 'quick'])
Fn('INPUT_FN', 'INPUT$({0})', 'i', kw=['INPUT'], flags=['block'])
Fn('INPUT_FN_FILE', 'INPUT$({0},#{1})', 'if', [F], kw=['INPUT'], flags=['block'])
Fn('ERDEV', 'ERDEV', '')
Fn('ERDEV_STR', 'ERDEV$', '', kw=['ERDEV'])
Fn('VARPTR', 'VARPTR({0})', 'v')
Fn('VARPTR_FILE', 'VARPTR(#{0})', 'f', [F], kw=['VARPTR'])
Fn('VARPTR_STR', 'VARPTR$({0})', 'v', kw=['VARPTR'])
Fn('ERL', 'ERL', '', P)
Fn('ERR', 'ERR', '', P)
Fn('CSRLIN', 'CSRLIN', '')
Fn('INKEY', 'INKEY$', '', kw=['INKEY$'])
Fn('DATE_FN', 'DATE$', '', kw=['DATE$'])
Fn('TIME_FN', 'TIME$', '', kw=['TIME$'])
Fn('TIMER_FN', 'TIMER', '', kw=['TIMER'])
Fn('FN_UNDEF', 'FNQ({0})', 'i', kw=['FN'])
Fn('EXTENSION_FN', '_FOO({0})', 'i', kw=['_'])
Fn('LITERAL_BLANKS', '&O1 {0}+&H1 {0}+1 {0}+&O 7+& 7', 'i', kw=[])
Fn('LITERALS', '&H{0}+&O7+&7+1.5D3+1E-40+.1#+1!+1%', 'i', kw=[])


def effect(flags):
    """'eff:open_O_1' -> {'op': 'open', 'm': 'O', 'n': 1}; every item gets a record of the same shape (TLC-friendly)."""
    e = {'op': 'none', 'm': '', 'n': 0}
    for f in flags:
        if f.startswith('eff:'):
            parts = f[4:].split('_')
            e['op'] = parts[0]
            if parts[0] == 'open':
                e['m'], e['n'] = parts[1], int(parts[2])
            elif parts[0] in ('close', 'screen'):
                e['n'] = int(parts[1])
            elif len(parts) > 1:
                e['m'] = parts[1]
    return e


def build():
    for i in ITEMS:
        i['eff'] = effect(i['flags'])
        # a file-name slot can name KYBD: / COM1: / CAS1: -> the statement may wait for input
        if 'n' in i['slots'] and 'block' not in i['flags']:
            i['flags'].append('block')
    names = [i['name'] for i in ITEMS]
    assert len(names) == len(set(names)), [n for n in names if names.count(n) > 1]
    for i in ITEMS:
        for k in range(len(i['slots'])):
            assert '{%d}' % k in i['tmpl'], i
    return {'classes': CLASSES, 'nominal': NOMINAL, 'items': ITEMS}


def path():
    return os.path.join(os.path.dirname(os.path.dirname(os.path.abspath(__file__))), 'spec', 'catalogue.json')


if __name__ == '__main__':
    cat = build()
    with open(path(), 'w') as f:
        json.dump(cat, f, indent=0, sort_keys=True)
    print('catalogue: %d items (%d statements, %d functions)' % (
        len(ITEMS), sum(i['kind'] == 'stmt' for i in ITEMS), sum(i['kind'] == 'fn' for i in ITEMS)))
