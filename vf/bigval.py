"""Helper of the BigNat-based oracle checks (C04, C07): validate a long list of independent oracle events in several
TLC processes at once.  Each event costs ~1 ms of TLC time (exact big-natural arithmetic interpreted by TLC), a JVM start
several seconds, so the events are cut into `jobs` equal batches, one single-worker TLC run (ctx.validate) per batch."""
import threading
from fractions import Fraction
from concurrent.futures import ThreadPoolExecutor


def validate_parallel(ctx, module, events, jobs=4, max_batch=60000, cfg=None):
    """-> list of (1-based global event index, clause), like ctx.validate."""
    n = len(events)
    if not n:
        return []
    nb = max(jobs, -(-n // max_batch))
    size = -(-n // nb)
    parts = [(off, events[off:off + size]) for off in range(0, n, size)]
    base_states, base_trans = ctx.cov['states'], ctx.cov['transitions']
    first_run = len(ctx.cov['tlc_runs'])
    lock = threading.Lock()
    res = []

    def one(arg):
        k, (off, part) = arg
        v = ctx.validate(module, part, cfg=cfg, name='%s_b%03d' % (module, k))
        with lock:
            res.extend((i + off, c) for (i, c) in v)
        return len(part)

    with ThreadPoolExecutor(max_workers=jobs) as ex:
        done = list(ex.map(one, enumerate(parts)))   # re-raises MachineryError of any batch
    assert sum(done) == n
    # the counters are updated by ctx.validate without a lock: recompute them from the per-run records
    runs = ctx.cov['tlc_runs'][first_run:]
    ctx.cov['states'] = base_states + sum(r['distinct'] for r in runs)
    ctx.cov['transitions'] = base_trans + sum(r['generated'] for r in runs)
    ctx.cov['traces_validated_against_impl'] += len(parts)
    return sorted(res)


def mbf_bytes(x, n):
    """Bytes of the MBF number of n bytes nearest to the Fraction/int x (generator helper; None if out of range)."""
    x = Fraction(x)
    if x == 0:
        return [0] * n
    neg = x < 0
    x = abs(x)
    w = 8 * (n - 1)
    e = 0
    # x = m * 2^(e - w) with 2^(w-1) <= m < 2^w
    num, den = x.numerator, x.denominator
    e = num.bit_length() - den.bit_length()
    while Fraction(2) ** e <= x:
        e += 1
    while Fraction(2) ** (e - 1) > x:
        e -= 1
    m = x / Fraction(2) ** (e - w)
    m = int(m + Fraction(1, 2))
    if m >= 1 << w:
        m >>= 1
        e += 1
    eb = e + 128
    if not 1 <= eb <= 255:
        return None
    b = list((m & ((1 << (w - 1)) - 1)).to_bytes(n - 1, 'little'))
    if neg:
        b[n - 2] |= 0x80
    return b + [eb]
