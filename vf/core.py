"""Shared machinery: context, TLC runner, evidence, known findings, verdict reporting."""
import os, sys, json, time, re, subprocess, tempfile, shutil, hashlib, random

VERIF = os.path.dirname(os.path.dirname(os.path.abspath(__file__)))
SPEC = os.path.join(VERIF, 'spec')
REPO = os.environ.get('PCBASIC_REPO', '/repo')
JAVA_CP = '/opt/veriftools/tla/tla2tools.jar:/opt/veriftools/tla/CommunityModules-deps.jar'
SCRATCH_BASE = os.environ.get('VERIF_SCRATCH', '/var/tmp')
# where evidence/ and replays/ are written (redirected when testing mutants in scratch worktrees)
OUTDIR = os.environ.get('VERIF_OUT', VERIF)


class MachineryError(Exception):
    """The machinery (TLC, harness) failed; exit code 2."""


def import_repo():
    """Make /repo's working tree importable (fresh process = fresh build)."""
    os.environ['PCBASIC_VERIF'] = '1'
    if REPO not in sys.path:
        sys.path.insert(0, REPO)


def limbs(n, base=32768):
    """Non-negative int -> little-endian base-2^15 limb list (TLC ints are 32-bit)."""
    assert n >= 0
    out = []
    while True:
        out.append(n % base)
        n //= base
        if not n:
            return out


class Ctx(object):
    """One invocation of one property check."""

    def __init__(self, pid, tier, seed, level='exploration'):
        self.pid = pid
        self.tier = tier
        self.seed = seed
        self.level = level
        self.rng = random.Random(seed * 1000003 + int(pid[1:]))
        self.t0 = time.time()
        self.tmp = tempfile.mkdtemp(prefix='vf_%s_' % pid, dir=SCRATCH_BASE)
        self.violations = []     # list of dict(what, key, data)
        self.known_met = {}      # finding id -> count
        self.cov = {
            'evaluations': 0, 'distinct_nontrivial': 0, 'rule': '', 'samples': [],
            'states': 0, 'transitions': 0, 'traces_validated_against_impl': 0,
            'tlc_runs': [],
        }
        self.assumptions = []
        self._distinct = set()
        self.findings = [f for f in load_findings() if f['property'] == pid]

    # ---- bookkeeping -------------------------------------------------------
    def quick(self):
        return self.tier == 'quick'

    def pick(self, quick, thorough):
        return quick if self.tier == 'quick' else thorough

    def count(self, event, nontrivial=True):
        """Count one evaluated case; distinctness by hash of the normalised event."""
        self.cov['evaluations'] += 1
        if nontrivial:
            h = hashlib.blake2b(json.dumps(event, sort_keys=True, default=str).encode(),
                                digest_size=8).digest()
            self._distinct.add(h)

    def sample(self, obj, limit=6):
        if len(self.cov['samples']) < limit:
            self.cov['samples'].append(obj)

    def path(self, name):
        return os.path.join(self.tmp, name)

    # ---- verdicts ----------------------------------------------------------
    def reject(self, what, key=None, data=None):
        """A rejected event. key: dict matched against KNOWN_FINDINGS 'match'."""
        key = key or {}
        for f in self.findings:
            if f.get('status') == 'open' and _matches(f.get('match', {}), key):
                self.known_met[f['id']] = self.known_met.get(f['id'], 0) + 1
                return False
        self.violations.append({'what': what, 'key': key, 'data': data})
        return True

    def finish(self):
        self.cov['distinct_nontrivial'] = len(self._distinct)
        if 'exhaustive' in self.cov and not isinstance(self.cov['exhaustive'], bool):
            # the evidence schema wants one boolean: partial statements go to exhaustive_parts
            self.cov['exhaustive_parts'] = self.cov['exhaustive']
            self.cov['exhaustive'] = False
        wall = time.time() - self.t0
        replay = None
        if self.violations:
            d = os.path.join(OUTDIR, 'replays', self.pid)
            os.makedirs(d, exist_ok=True)
            replay = os.path.join(d, '%s_seed%d_%s.json' % (self.tier, self.seed,
                                  time.strftime('%Y%m%d%H%M%S')))
            with open(replay, 'w') as f:
                json.dump({'property': self.pid, 'tier': self.tier, 'seed': self.seed,
                           'violations': self.violations[:200]}, f, indent=1, default=str)
        ev = {
            'property_id': self.pid, 'tier': self.tier, 'seed': self.seed,
            'level': self.level, 'coverage': self.cov, 'assumptions': self.assumptions,
            'wall_s': round(wall, 2), 'violations': len(self.violations),
            'known_findings_met': self.known_met,
        }
        os.makedirs(os.path.join(OUTDIR, 'evidence'), exist_ok=True)
        with open(os.path.join(OUTDIR, 'evidence', self.pid + '.json'), 'w') as f:
            json.dump(ev, f, indent=1, default=str)
        for f in self.findings:
            if f.get('status') == 'open' and f['id'] in self.known_met:
                print('KNOWN-FINDING: property=%s %s [%s, %d events]' % (
                    self.pid, f['what'], f['id'], self.known_met[f['id']]))
        shutil.rmtree(self.tmp, ignore_errors=True)
        if self.violations:
            for v in self.violations[:10]:
                print('  rejected: %s' % (v['what'],))
            print('VIOLATION property=%s replay=%s' % (self.pid, replay))
            return 1
        print('OK property=%s tier=%s seed=%d evaluations=%d distinct=%d states=%d traces=%d wall=%.1fs' % (
            self.pid, self.tier, self.seed, self.cov['evaluations'], self.cov['distinct_nontrivial'],
            self.cov['states'], self.cov['traces_validated_against_impl'], wall))
        return 0

    # ---- TLC ---------------------------------------------------------------
    def tlc(self, module, cfg=None, env=None, workers=1, extra=(), timeout=3600,
            simulate=None, depth_first=False, coverage=False, expect_fail=False, tag=None):
        """Run TLC on spec/<module>.tla with spec/<cfg>. Returns dict(out, states, distinct, ok, cov)."""
        return run_tlc(module, cfg, env=env, workers=workers, extra=extra, timeout=timeout,
                       simulate=simulate, depth_first=depth_first, coverage=coverage,
                       ctx=self, expect_fail=expect_fail, tag=tag)

    def model_check(self, module, cfg=None, workers=8, timeout=3000, require_actions=True, extra=()):
        """Exhaustive bounded model check; invariant violation => property violation."""
        # -coverage makes RECURSIVE-heavy specs much slower: only when the per-action vacuity guard is wanted
        r = self.tlc(module, cfg, workers=workers, coverage=bool(require_actions), timeout=timeout, extra=extra)
        self.cov['states'] += r['distinct']
        self.cov['transitions'] += r['generated']
        if not r['ok']:
            self.reject('TLC model check of %s failed: %s' % (module, r['error']),
                        key={'clause': 'model_check', 'module': module}, data=r['out'][-4000:])
        if require_actions:
            dead = [a for a, n in r['actions'].items() if n == 0]
            if dead:
                raise MachineryError('vacuity: actions never taken in %s: %s' % (module, dead))
        return r

    def validate_stateless(self, module, events, chunk=100000, **kw):
        """validate() for oracle specs whose verdict on an event does not depend on earlier events: bounded batches (one JSON
        file per TLC run has to stay loadable by the JVM); event numbers in the verdicts are those of the whole list."""
        out = []
        for i in range(0, len(events), chunk):
            out += [(i + j, c) for (j, c) in self.validate(module, events[i:i + chunk], **kw)]
        return out

    def validate(self, module, events, cfg=None, header=None, extra_env=None, timeout=3600,
                 depth_first=False, name='trace'):
        """Trace validation: write events as JSON, run the total trace spec, return verdict list.

        The trace spec writes [[index, clause], ...] (1-based event index) to OUT_FILE.
        """
        tf = self.path('%s_%d.json' % (name, len(self.cov['tlc_runs'])))
        of = tf + '.out'
        with open(tf, 'w') as f:
            json.dump({'header': header or {}, 'events': events}, f)
        env = {'TRACE_FILE': tf, 'OUT_FILE': of}
        env.update(extra_env or {})
        r = self.tlc(module, cfg, env=env, workers=1, timeout=timeout, depth_first=depth_first)
        if not r['ok'] or not os.path.exists(of):
            raise MachineryError('trace validation run of %s failed: %s\n%s' % (
                module, r['error'], r['out'][-3000:]))
        with open(of) as f:
            res = json.load(f)
        os.remove(tf)
        os.remove(of)
        if res.get('n') != len(events):
            raise MachineryError('trace spec %s consumed %s of %d events' % (module, res.get('n'), len(events)))
        self.cov['states'] += r['distinct']
        self.cov['transitions'] += r['generated']
        return [(v[0], v[1]) for v in res.get('viol', [])]


def run_tlc(module, cfg=None, env=None, workers=1, extra=(), timeout=3600, simulate=None,
            depth_first=False, coverage=False, ctx=None, expect_fail=False, tag=None):
    cfg = cfg or (module + '.cfg')
    meta = tempfile.mkdtemp(prefix='tlc_', dir=ctx.tmp if ctx else SCRATCH_BASE)
    jopts = ['-XX:+UseParallelGC', '-Xss16m', '-Xmx%s' % os.environ.get('VERIF_TLC_XMX', '4g')]
    if depth_first:
        jopts.append('-Dtlc2.tool.queue.IStateQueue=StateDeque')
    cmd = ['java'] + jopts + ['-cp', JAVA_CP, 'tlc2.TLC', '-workers', str(workers), '-metadir', meta,
           '-noGenerateSpecTE', '-config', cfg]
    if coverage:
        cmd += ['-coverage', '1']
    if simulate:
        cmd += ['-simulate', simulate]
    cmd += list(extra) + [module]
    e = dict(os.environ)
    e.update(env or {})
    t0 = time.time()
    try:
        p = subprocess.run(cmd, cwd=SPEC, env=e, stdout=subprocess.PIPE, stderr=subprocess.STDOUT,
                           timeout=timeout, text=True, errors='replace')
        out, rc = p.stdout, p.returncode
    except subprocess.TimeoutExpired as ex:
        out = (ex.stdout or b'')
        out = out.decode('utf8', 'replace') if isinstance(out, bytes) else out
        rc = -9
    shutil.rmtree(meta, ignore_errors=True)
    gen = dist = 0
    m = re.findall(r'(\d+) states generated, (\d+) distinct states found', out)
    if m:
        gen, dist = int(m[-1][0]), int(m[-1][1])
    err = None
    if rc != 0:
        em = re.search(r'Error: (.*)', out)
        err = 'exit %s: %s' % (rc, em.group(1) if em else 'see output')
        im = re.search(r'Invariant (\S+) is violated', out)
        if im:
            err = 'invariant %s violated' % im.group(1)
        am = re.search(r'Action property (\S+) is violated', out)
        if am:
            err = 'action property %s violated' % am.group(1)
    actions = {}
    if coverage:
        for am in re.finditer(r'^<(\w+) line \d+, col \d+ to line \d+, col \d+ of module (\w+)>: (\d+):(\d+)', out, re.M):
            nm = am.group(1)
            if nm in ('Init',):
                continue
            actions[nm] = actions.get(nm, 0) + int(am.group(4))
    r = {'out': out, 'rc': rc, 'ok': rc == 0, 'generated': gen, 'distinct': dist, 'error': err,
         'actions': actions, 'wall': round(time.time() - t0, 2)}
    if ctx is not None:
        ctx.cov['tlc_runs'].append({'module': module, 'cfg': cfg, 'generated': gen, 'distinct': dist,
                                    'ok': rc == 0, 'wall_s': r['wall'], 'tag': tag,
                                    'actions': actions or None})
    return r


def _matches(match, key):
    for k, want in match.items():
        if k not in key:
            return False
        have = key[k]
        if isinstance(want, dict) and 'range' in want:
            lo, hi = want['range']
            if not (isinstance(have, (int, float)) and lo <= have <= hi):
                return False
        elif isinstance(want, list):
            if have not in want:
                return False
        elif have != want:
            return False
    return True


def load_findings():
    res = []
    p = os.path.join(VERIF, 'KNOWN_FINDINGS.json')
    if os.path.exists(p):
        with open(p) as f:
            res += json.load(f).get('findings', [])
    # per-property staging files (merged into KNOWN_FINDINGS.json by tools/merge_findings.py)
    d = os.path.join(VERIF, 'known_findings.d')
    if os.path.isdir(d):
        for fn in sorted(os.listdir(d)):
            if fn.endswith('.json'):
                with open(os.path.join(d, fn)) as f:
                    res += json.load(f).get('findings', [])
    # one entry per (property, id): the staging file wins over the merged copy
    uniq = {}
    for f in res:
        uniq[(f['property'], f['id'])] = f
    return list(uniq.values())
