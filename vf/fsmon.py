"""Host file-system monitor and sandbox helpers for C27/C28 (harness side only, nothing in /repo changes).

The monitor is a `sys.addaudithook` hook (audit hooks cannot be removed, hence a switchable module-global).
While recording it logs every host file-system operation the recording thread issues (the Session executes statements
in the calling thread; other harness threads, e.g. the TLC runner, are ignored): abstract operation, real path and the
kind of the target at the moment the operation is issued (an audit event fires BEFORE the operation).
Read-only accesses below the interpreter / package / repository prefixes (imports, pcbasic's data files) are not
caused by BASIC file statements and are ignored (counted).
"""
import os, sys, hashlib, threading

_ST = {'on': False, 'log': None, 'installed': False, 'ignored': 0, 'busy': False, 'thread': None}
_WFLAGS = os.O_WRONLY | os.O_RDWR | os.O_CREAT | os.O_TRUNC | os.O_APPEND

_LIST = {'os.listdir', 'os.scandir', 'os.walk', 'os.fwalk', 'glob.glob', 'glob.glob/2', 'pathlib.Path.glob',
         'pathlib.Path.rglob'}
_SIMPLE = {'os.mkdir': 'mkdir', 'os.rmdir': 'rmdir', 'os.remove': 'remove', 'os.unlink': 'remove',
           'os.truncate': 'write', 'os.chdir': 'chdir', 'shutil.rmtree': 'remove'}
_PAIR = {'os.rename', 'os.replace', 'shutil.move', 'shutil.copyfile', 'shutil.copytree', 'os.link', 'os.symlink'}
_OTHER_PREFIX = ('os.chmod', 'os.chown', 'os.utime', 'os.mkfifo', 'os.mknod', 'os.setxattr', 'os.removexattr',
                 'os.chflags', 'os.lchmod', 'os.lchown', 'shutil.', 'tempfile.')


def _whitelist():
    import vf.core as core
    pre = {os.path.realpath(core.REPO), os.path.realpath(sys.prefix), os.path.realpath(sys.base_prefix),
           os.path.realpath(sys.exec_prefix), os.path.realpath(os.path.dirname(os.__file__)),
           os.path.realpath(core.VERIF)}
    return tuple(p.rstrip(os.sep) + os.sep for p in pre)


def kind_of(path):
    """Kind of a host path: file | dir | emptydir | none (projection of the host state, no semantics)."""
    try:
        if os.path.isdir(path):
            with os.scandir(path) as it:
                for _ in it:
                    return 'dir'
            return 'emptydir'
        if os.path.lexists(path):
            return 'file'
    except OSError:
        pass
    return 'none'


def _real(p):
    if isinstance(p, int) or p is None:
        return None
    try:
        p = os.fspath(p)
    except TypeError:
        return None
    if isinstance(p, bytes):
        p = os.fsdecode(p)
    if '\0' in p:
        return None
    return os.path.realpath(p)


def _rec(op, path, kind=None):
    rp = _real(path)
    if rp is None:
        return
    if op in ('read', 'list') and (rp + os.sep).startswith(_ST['white']):
        _ST['ignored'] += 1
        return
    _ST['log'].append((op, rp, kind if kind is not None else kind_of(rp)))


def _hook(event, args):
    if not _ST['on'] or _ST['busy']:
        return
    if threading.get_ident() != _ST['thread']:
        return      # another thread of the harness (e.g. the TLC runner); the interpreter runs in the recording thread
    if event != 'open' and not (event.startswith('os.') or event.startswith('shutil.') or event.startswith('glob.')
                                or event.startswith('pathlib.') or event.startswith('tempfile.')):
        return
    _ST['busy'] = True
    try:
        if event == 'open':
            path, mode, flags = (tuple(args) + (None, None, None))[:3]
            if mode is not None:
                w = any(c in mode for c in 'wax+')
            else:
                w = bool((flags or 0) & _WFLAGS)
            _rec('write' if w else 'read', path)
        elif event in _LIST:
            _rec('list', args[0] if args and args[0] is not None else '.')
        elif event in _SIMPLE:
            _rec(_SIMPLE[event], args[0])
        elif event in _PAIR:
            k = kind_of(_real(args[0]) or '')
            _rec('rename_from', args[0], k)
            _rec('rename_to', args[1], k)
        elif event.startswith(_OTHER_PREFIX):
            for a in args:
                if isinstance(a, (str, bytes)) or hasattr(a, '__fspath__'):
                    _rec(event, a)
    finally:
        _ST['busy'] = False


def install():
    if not _ST['installed']:
        _ST['white'] = _whitelist()
        sys.addaudithook(_hook)
        _ST['installed'] = True


class recording(object):
    """with recording() as log: ... -> log is the list of (op, realpath, kind) issued inside the block."""

    def __enter__(self):
        install()
        self.log = []
        _ST['log'] = self.log
        _ST['thread'] = threading.get_ident()
        _ST['on'] = True
        return self.log

    def __exit__(self, *a):
        _ST['on'] = False
        _ST['log'] = None


def ignored():
    return _ST['ignored']


# ---------------------------------------------------------------------------- sandbox

def nm(b):
    """name (str or bytes) -> list of byte values"""
    return list(os.fsencode(b))


def comps(top, realpath):
    """real path -> list of names (byte lists) from the sandbox top; outside the sandbox: [[0], names...]"""
    if realpath == top:
        return []
    if realpath.startswith(top + os.sep):
        return [nm(x) for x in realpath[len(top) + 1:].split(os.sep)]
    return [[0]] + [nm(x) for x in realpath.strip(os.sep).split(os.sep)]


class Sandbox(object):
    """A directory tree top/... with mounts; snapshots as (dirs, files) lists of name lists + outside digest."""

    def __init__(self, top, roots):
        self.top = os.path.realpath(top)
        self.roots = roots          # {b'C': [names (str)] relative to top}
        self.rootpaths = [os.path.join(self.top, *r) for r in roots.values()]

    def path(self, names):
        return os.path.join(self.top, *names)

    def inside(self, p):
        return any(p == r or p.startswith(r + os.sep) for r in self.rootpaths)

    def snapshot(self):
        """-> (dirs, files, outside_digest); dirs/files: sorted lists of tuples of names (str).
        The digest covers everything outside the mounts: name, type, size, modification time (ns) and link target of
        every entry, so that any creation, deletion, renaming or modification there changes it."""
        dirs, files, sig = [], [], []
        top = self.top
        roots = self.rootpaths
        stack = [(top, (), not self.inside(top))]
        while stack:
            dp, rel, outside = stack.pop()
            try:
                entries = sorted(os.scandir(dp), key=lambda e: e.name)
            except OSError as ex:
                sig.append(('E', rel, ex.errno))
                continue
            for e in entries:
                r = rel + (e.name,)
                if e.is_dir(follow_symlinks=False):
                    dirs.append(r)
                    out = outside and e.path not in roots
                    if out:
                        sig.append(('D', r))
                    stack.append((e.path, r, out))
                else:
                    files.append(r)
                    if outside:
                        st = e.stat(follow_symlinks=False)
                        sig.append(('F', r, st.st_size, st.st_mtime_ns, st.st_mode,
                                    os.readlink(e.path) if e.is_symlink() else None))
        sig.sort(key=repr)
        return sorted(dirs), sorted(files), hashlib.blake2b(repr(sig).encode('utf8', 'surrogateescape'), digest_size=12).hexdigest()


def jpaths(paths):
    return [[nm(x) for x in p] for p in paths]
