"""Driving and projecting the stored program of a real Session (shared by the C13 and C14 checks).

A program text is a list of segments {'s': literal piece, 'n': line-number reference or -1}, exactly the `Text` of
spec/ProgramStore.tla; `render` only concatenates the pieces to form the line that is typed in (input formation,
no semantics).  All judgements on what is observed are made by TLC.
"""
import os, re, copy, struct
from .session import Sess

NOREF = -1
SAFE = ''.join(chr(c) for c in range(32, 127) if chr(c) != '"')


def lit(s):
    return [{'s': s, 'n': NOREF}]


def render(text):
    return ''.join(g['s'] + ('' if g['n'] == NOREF else str(g['n'])) for g in text)


def typed_line(n, text):
    """The line as typed: number, one blank, text.  Line 0 is typed without the blank: GW-BASIC and PC-BASIC keep
    the blank after the number 0 as part of the text (it reappears once the line has another number)."""
    return ('%d%s%s' % (n, '' if n == 0 else ' ', render(text)))


def rnd_chars(rng, k, alphabet=SAFE):
    s = ''.join(rng.choice(alphabet) for _ in range(k)).strip()
    return s or 'x'


def parse_list(out):
    """LIST output bytes -> [[number, text], ...] (text = everything after the single blank following the number)."""
    res = []
    for ln in out.replace(b'\x1a', b'').split(b'\r\n'):
        ln = ln.rstrip(b'\r')
        if not ln:
            continue
        m = re.match(br'^(\d+) ?(.*)$', ln, re.S)
        if not m:
            res.append([-1, ln.decode('latin-1')])
        else:
            res.append([int(m.group(1)), m.group(2).decode('latin-1')])
    return res


_TRON = re.compile(br'\[(\d+)\]')


class Store(object):
    """A real Session plus the projections of its stored program."""

    def __init__(self, **kw):
        self.s = None
        self.kw = kw
        self.fault = ''
        self.fresh()

    def fresh(self):
        if self.s:
            self.s.close()
        # peek_values={} : the default None makes every PEEK raise TypeError (C01 finding, not the subject here)
        self.s = Sess(peek_values={}, **self.kw)
        self.s.ex('TRON')
        self.reset = True
        return self.s

    def close(self):
        if self.s:
            self.s.close()
            self.s = None

    # ---- driving ------------------------------------------------------------
    def write_ascii(self, name, lines):
        with open(os.path.join(self.s.mount, name), 'wb') as f:
            for (n, text) in lines:
                f.write(typed_line(n, text).encode('latin-1') + b'\r\n')
            f.write(b'\x1a')

    # ---- projections --------------------------------------------------------
    def peek(self, a):
        r = self.s.ev('PEEK(%d)' % a)
        if r[0] != 'ok':
            # not a harness failure: the walk left the program (or PEEK itself broke); reported through obs.fault
            self.fault = 'PEEK(%d) -> %s %s' % (a, r[0], r[1])
            return 0
        return int(r[1])

    def peek16(self, a):
        return self.peek(a) + 256 * self.peek(a + 1)

    def listing(self, screen=False):
        if screen:
            r = self.s.ex('LIST')
            return parse_list(r[2]) if r[0] == 'ok' else [[-2, repr(r)]]
        r = self.s.ex('LIST ,"LISTING.TXT"')
        if r[0] != 'ok':
            return [[-2, repr(r)]]
        with open(os.path.join(self.s.mount, 'LISTING.TXT'), 'rb') as f:
            return parse_list(f.read())

    def chain(self, limit=400):
        """PEEK walk of the line links from the program start (default segment = BASIC data segment)."""
        start = self.peek16(0x30)
        addr, res, term = start, [], False
        while len(res) < limit and 0 <= addr < 65530 and not self.fault:
            link = self.peek16(addr)
            if link == 0:
                term = True
                break
            res.append([addr, link, self.peek16(addr + 2)])
            addr = link
        return start, res, term, addr

    def index(self):
        p = self.s.impl.program
        idx = sorted([k, v] for k, v in p.line_numbers.items())
        # a fresh scan of a copy of the buffer
        from pcbasic.basic.base import codestream
        p2 = copy.copy(p)
        p2.bytecode = codestream.TokenisedStream(p.code_start)
        p2.bytecode.write(p.bytecode.getvalue())
        p2.line_numbers = {}
        p2.rebuild_line_dict()
        rescan = sorted([k, v] for k, v in p2.line_numbers.items())
        code = p2.bytecode.getvalue()
        relinks = [struct.unpack('<H', code[v + 1:v + 3])[0] for k, v in sorted(p2.line_numbers.items(), key=lambda kv: kv[1])
                   if k != 65536]
        return idx, rescan, relinks

    def goto(self, n):
        """Direct-mode GOTO n under TRON, stopped after the first statement of the target: first line executed."""
        r = self.s.ex('GOTO %d' % n, budget=3)
        m = _TRON.search(r[2] if len(r) > 2 and isinstance(r[2], bytes) else b'')
        return [n, int(m.group(1)) if m else -1]

    def observe(self, probes=(), screen=False):
        self.fault = ''
        lst = self.listing(screen)
        start, ch, term, end = self.chain()
        if self.fault:
            term = False
        try:
            idx, rescan, relinks = self.index()
        except Exception as ex:     # the rescan of a corrupt buffer may fail: a finding, not a harness failure
            self.fault = self.fault or 'rescan: %s: %s' % (type(ex).__name__, ex)
            idx, rescan, relinks = [], [], []
        return {'fault': self.fault, 'list': lst, 'start': start, 'chain': ch, 'term': term, 'end': end, 'idx': idx, 'rescan': rescan,
                'relinks': relinks, 'goto': [self.goto(n) for n in probes]}


def patch_links(image, value=0x0101):
    """A tokenised program file with every line link replaced by an arbitrary non-zero value (as a file saved from
    another memory layout has); the loader must recompute them."""
    b = bytearray(image)
    p = 1
    while p + 2 <= len(b) and (b[p] or b[p + 1]):
        b[p:p + 2] = struct.pack('<H', value)
        p += 4
        while p < len(b) and b[p] != 0:
            # skip embedded number constants that may contain NUL bytes
            c = b[p]
            p += {0x0b: 3, 0x0c: 3, 0x0d: 3, 0x0e: 3, 0x0f: 2, 0x1c: 3, 0x1d: 5, 0x1f: 9}.get(c, 1)
        p += 1
    return bytes(b)


def model_check(ctx, module, cfg, workers=6, timeout=3000):
    """Exhaustive bounded model check without per-action coverage collection (which more than doubles the run time);
    bookkeeping as in Ctx.model_check: an invariant violation is a rejection."""
    r = ctx.tlc(module, cfg, workers=workers, timeout=timeout, tag='model_check')
    ctx.cov['states'] += r['distinct']
    ctx.cov['transitions'] += r['generated']
    if not r['ok']:
        ctx.reject('TLC model check of %s (%s) failed: %s' % (module, cfg, r['error']),
                   key={'clause': 'model_check', 'module': module}, data=r['out'][-4000:])
    elif r['distinct'] < 100:
        from . import core
        raise core.MachineryError('vacuous model check of %s: %d states' % (module, r['distinct']))
    return r
