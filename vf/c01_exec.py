"""C01 executor: brings a real Session into an abstract state, executes one case under a watchdog and classifies
the outcome (ok / err / exit / internal / cut / hang).  Used by vf/props/C01.py inside worker processes.

A case is a dict:
  {'arm': 'T', 'st': [mode, prog, trap, prot, files, screen, view, window, ev, seg], 'text': stmt, 'fn': bool,
   'flags': [...], 'item': name, 'args': [...], 'check': bool}        catalogue transition
  {'arm': 'L', 'lines': [direct lines]}                                  direct-mode lines (grammar / soup)
  {'arm': 'P', 'lines': [program lines], 'cmd': 'RUN'}                   stored program + command
  {'arm': 'F', 'name': 'X.BAS', 'data': bytes(list), 'cmd': 'LOAD "X.BAS"', 'pre': [lines]}   byte string as program file
Every case runs on a FRESH Session (creation costs ~3 ms) over a per-worker mount directory that is restored first.
"""
import os, sys, signal, shutil, tempfile, threading, traceback, time, io
from . import core
from .session import Sess, find_errors

STD_PROGRAM = ['10 REM', '20 DATA 1,2,"A"', '1000 REM', '1010 RESUME NEXT']
DATA_FILE = b'1,2,"A"\r\n3.5,"B C",-7\r\nline three\r\n' + b'X' * 64 + b'\r\n'
SCRIPT = u'1\r2,3\rA\rY\r\r'
CASE_TIMEOUT = float(os.environ.get('VERIF_C01_CASE_TIMEOUT', '6'))
QUIT_AFTER = 0.6
SEGS = {'data': 'DEF SEG', 'zero': 'DEF SEG=0', 'video': 'DEF SEG=&HB800', 'rom': 'DEF SEG=&HF000'}
OPEN_STMT = {'I': 'OPEN "F%d" FOR INPUT AS #%d', 'O': 'OPEN "F%d" FOR OUTPUT AS #%d', 'A': 'OPEN "F%d" FOR APPEND AS #%d',
             'R': 'OPEN "F%d" FOR RANDOM AS #%d LEN=32'}


class Hang(BaseException):
    pass


def _alarm(signum, frame):
    raise Hang()


def crash_key(exc):
    """(exception type, innermost pcbasic frame 'file:function') of an escaping exception."""
    tb = traceback.extract_tb(exc.__traceback__)
    where = '?'
    for fr in tb:
        if os.sep + 'pcbasic' + os.sep in fr.filename:
            where = '%s:%s' % (os.path.basename(fr.filename), fr.name)
    return type(exc).__name__, where


class Runner(object):
    def __init__(self, base=None, syntax='advanced', video='cga'):
        core.import_repo()
        self.base = tempfile.mkdtemp(prefix='vfc01_', dir=base or core.SCRATCH_BASE)
        self.mount = os.path.join(self.base, 'mnt')
        os.mkdir(self.mount)
        self.syntax, self.video = syntax, video
        self.sess = None
        self.progfiles = None
        self.env = dict(os.environ)
        signal.signal(signal.SIGALRM, _alarm)
        import logging
        logging.disable(logging.CRITICAL)       # "statement not implemented" warnings of the interpreter

    # ---- environment ------------------------------------------------------
    def _make_progfiles(self):
        s = Sess(mount=self.mount, hide_protected=True)
        s.s.execute('\n'.join(STD_PROGRAM))
        s.ex('SAVE "PROG.BAS"'); s.ex('SAVE "PROT.BAS",P'); s.ex('SAVE "ASC.BAS",A')
        s.close()
        self.progfiles = {}
        for n in ('PROG.BAS', 'PROT.BAS', 'ASC.BAS'):
            with open(os.path.join(self.mount, n), 'rb') as f:
                self.progfiles[n] = f.read()

    def restore_mount(self):
        for n in os.listdir(self.mount):
            p = os.path.join(self.mount, n)
            if os.path.isdir(p) and not os.path.islink(p):
                shutil.rmtree(p, ignore_errors=True)
            else:
                os.remove(p)
        if self.progfiles is None:
            self._make_progfiles()
            return self.restore_mount()
        for n, d in self.progfiles.items():
            with open(os.path.join(self.mount, n), 'wb') as f:
                f.write(d)
        for n in ('F1', 'F2', 'F3'):
            with open(os.path.join(self.mount, n), 'wb') as f:
                f.write(DATA_FILE)
        os.mkdir(os.path.join(self.mount, 'SUB'))

    def fresh(self, **kw):
        if self.sess is not None:
            self.sess.close()
            self.sess = None
        if os.environ != self.env:          # ENVIRON writes os.environ
            os.environ.clear()
            os.environ.update(self.env)
        self.restore_mount()
        args = dict(mount=self.mount, syntax=self.syntax, video=self.video)
        args.update(kw)
        self.sess = Sess(**args)
        self.sess.autocls = False
        return self.sess

    def close(self):
        if self.sess is not None:
            self.sess.close()
        shutil.rmtree(self.base, ignore_errors=True)

    # ---- guarded execution ------------------------------------------------
    def guarded(self, fn, budget=400, block=False):
        """Run fn() under the statement budget and the wall-clock watchdog -> outcome dict."""
        s = self.sess
        s.take()
        s.budget, s.cut = budget, False
        timer = None
        if block:
            from pcbasic.basic.base import signals
            q = s.impl.queues.inputs
            q.put(signals.Event(signals.STREAM_CHAR, (SCRIPT,)))
            q.put(signals.Event(signals.STREAM_CLOSED))
            timer = threading.Timer(QUIT_AFTER, lambda: q.put(signals.Event(signals.QUIT)))
            timer.daemon = True
            timer.start()
        res = {'kind': 'ok', 'code': 0, 'detail': ''}
        # repeating timer: a Hang raised inside a destructor / weakref callback is swallowed by Python, the next tick lands in normal code
        signal.setitimer(signal.ITIMER_REAL, CASE_TIMEOUT, 0.5)
        try:
            fn()
        except Hang:
            signal.setitimer(signal.ITIMER_REAL, 0)
            res = {'kind': 'hang', 'code': 0, 'detail': 'wall-clock watchdog'}
        except BaseException as e:      # noqa
            signal.setitimer(signal.ITIMER_REAL, 0)
            if type(e).__name__ == 'Exit':
                res = {'kind': 'exit', 'code': 0, 'detail': ''}
            else:
                et, where = crash_key(e)
                res = {'kind': 'internal', 'code': 0, 'detail': '%s: %s' % (et, str(e)[:160]), 'exc': et, 'where': where,
                       'tb': ''.join(traceback.format_exception(type(e), e, e.__traceback__)[-6:])[-1500:]}
        finally:
            signal.setitimer(signal.ITIMER_REAL, 0)
            if timer:
                timer.cancel()
        s.budget = 0
        try:
            out = s.out.getvalue()
            s.out.seek(0); s.out.truncate()
        except Exception:
            out = b''
        if res['kind'] == 'ok':
            if s.cut:
                res['kind'] = 'cut'
            else:
                errs = find_errors(out)
                if errs:
                    res['kind'], res['code'] = 'err', errs[-1][0]
        res['out'] = out[-120:].decode('latin-1')
        return res

    # ---- abstract state ---------------------------------------------------
    def project(self):
        """Abstract state of the session (direct mode), same layout as StTuple in SessionModes_MC."""
        im = self.sess.impl
        files = []
        for n in (1, 2, 3):
            f = im.files.files.get(n)
            m = getattr(f, 'mode', None)
            files.append('closed' if f is None else (m.decode() if isinstance(m, bytes) else str(m)))
        # SCREEN class: text, 320-pixel-wide (SCREEN 1), 640-pixel-wide (SCREEN 2) graphics; mode names differ between adapters
        md = im.display.mode
        screen = 0 if md.is_text_mode else {320: 1, 640: 2}.get(md.pixel_width, 9)
        gv = im.graphics.graph_view
        seg = im.all_memory.segment
        segc = {im.memory.data_segment: 'data', 0: 'zero', 0xb800: 'video', 0xf000: 'rom'}.get(seg, 'other')
        return ['direct', any(k != 65536 for k in im.program.line_numbers),
                'set' if im.interpreter.on_error not in (None, 0) else 'none', bool(im.program.protected), files, screen,
                bool(gv is not None and gv.active), im.graphics._window_bounds is not None,
                im.basic_events.timer in im.basic_events.enabled, segc]

    @staticmethod
    def setup_statements(st):
        """BASIC statements establishing files, screen, viewport, window, event trap and segment of abstract state st."""
        mode, prog, trap, prot, files, screen, view, window, ev, seg = st
        out = []
        if screen:
            out.append('SCREEN %d' % screen)
        if view:
            out.append('VIEW (10,10)-(100,100)')
        if window:
            out.append('WINDOW (0,0)-(10,10)')
        for n, m in enumerate(files, 1):
            if m != 'closed':
                out.append(OPEN_STMT[m] % (n, n))
        if seg != 'data':
            out.append(SEGS[seg])
        if ev:
            out.append('ON TIMER(1) GOSUB 1000:TIMER ON')
        return out

    def run_transition(self, case):
        mode, prog, trap, prot, files, screen, view, window, ev, seg = st = case['st']
        # protection is only honoured with hide_protected=True (the command line's default is off); the prot dimension needs it
        s = self.fresh(hide_protected=True)
        text = ('PRINT ' + case['text'] + ';') if case['fn'] else case['text']
        block = 'block' in case['flags']
        setup = self.setup_statements(st)
        established = True
        if mode == 'direct':
            if prot:
                s.s.execute('LOAD "PROT.BAS"')
            elif prog:
                s.s.execute('\n'.join(STD_PROGRAM))
            for x in setup:
                s.s.execute(x)
            if trap == 'set':
                s.s.execute('ON ERROR GOTO 1000')
            s.take()
            if case.get('check'):
                established = self.project() == list(st)
            res = self.guarded(lambda: s.s.execute(text), block=block)
            if res['kind'] in ('ok', 'err'):
                try:
                    res['post'] = self.project()
                except Exception as e:      # noqa  (projection of a session left in an odd state)
                    res['post'] = None
        else:
            lines = ['1 ' + ':'.join(setup or ['REM'])]
            if trap != 'none':
                lines.append('2 ON ERROR GOTO 1000')
            if trap == 'inHandler':
                lines += ['3 ERROR 5', '20 END', '1000 ' + text, '1010 RESUME NEXT']
            else:
                lines += ['10 ' + text, '20 END', '1000 REM', '1010 RESUME NEXT']
            lines.append('25 DATA 1,2,"A"')
            s.s.execute('\n'.join(lines))
            if prot:
                s.s.execute('SAVE "TMP.BAS",P'); s.s.execute('NEW'); s.s.execute('LOAD "TMP.BAS"')
                established = bool(s.impl.program.protected)
            s.take()
            res = self.guarded(lambda: s.s.execute('RUN'), block=block)
        res['established'] = established
        return res

    def run_lines(self, case):
        s = self.fresh(**case.get('kw', {}))
        res = None
        for ln in case['lines']:
            res = self.guarded(lambda: s.s.execute(ln), block=True, budget=case.get('budget', 300))
            if res['kind'] in ('internal', 'exit', 'hang'):
                res['at'] = ln
                break
        return res or {'kind': 'ok', 'code': 0, 'detail': '', 'out': ''}

    def run_program(self, case):
        s = self.fresh(**case.get('kw', {}))
        for n, d in case.get('files', {}).items():
            with open(os.path.join(self.mount, n), 'wb') as f:
                f.write(bytes(d))
        res = self.guarded(lambda: s.s.execute('\n'.join(case['lines'])), block=False)
        if res['kind'] in ('internal', 'exit', 'hang'):
            res['at'] = 'store'
            return res
        return self.guarded(lambda: s.s.execute(case.get('cmd', 'RUN')), block=True, budget=case.get('budget', 600))

    def run_file(self, case):
        s = self.fresh(**case.get('kw', {}))
        with open(os.path.join(self.mount, case['name']), 'wb') as f:
            f.write(bytes(case['data']))
        for ln in case.get('pre', []):
            s.s.execute(ln)
        s.take()
        res = self.guarded(lambda: s.s.execute(case['cmd']), block=True, budget=300)
        if res['kind'] in ('ok', 'err') and case.get('post'):
            for ln in case['post']:
                res = self.guarded(lambda: s.s.execute(ln), block=True, budget=300)
                if res['kind'] not in ('ok', 'err', 'cut'):
                    res['at'] = ln
                    break
        return res

    def run(self, case):
        try:
            fn = {'T': self.run_transition, 'L': self.run_lines, 'P': self.run_program, 'F': self.run_file}[case['arm']]
            return fn(case)
        except Hang:
            signal.setitimer(signal.ITIMER_REAL, 0)
            return {'kind': 'hang', 'code': 0, 'detail': 'watchdog during setup', 'out': ''}
        except BaseException as e:     # noqa   exception while ESTABLISHING the state: also an escaping exception
            if type(e).__name__ == 'Exit':
                return {'kind': 'exit', 'code': 0, 'detail': 'during setup', 'out': ''}
            et, where = crash_key(e)
            return {'kind': 'internal', 'code': 0, 'detail': 'during setup: %s: %s' % (et, str(e)[:160]), 'exc': et,
                    'where': where, 'tb': ''.join(traceback.format_exception(type(e), e, e.__traceback__)[-6:])[-1500:], 'out': ''}


_RUNNER = None


def _worker_chunk(arg):
    """Pool task: run a chunk of cases on this process's Runner."""
    global _RUNNER
    syntax, video, base, cases = arg
    import os
    try:
        os.chdir(base)          # programs that write to an unmounted current directory stay inside the check's scratch space
    except OSError:
        pass
    if _RUNNER is None or (_RUNNER.syntax, _RUNNER.video) != (syntax, video):
        if _RUNNER is not None:
            _RUNNER.close()
        _RUNNER = Runner(base=base, syntax=syntax, video=video)     # scratch below the check's own tmp dir
    out = []
    for c in cases:
        r = _RUNNER.run(c)
        out.append(r)
    # keep the scratch dir small and never leave a session open between chunks
    if _RUNNER.sess is not None:
        _RUNNER.sess.close()
        _RUNNER.sess = None
    return out


def run_cases(cases, base, procs=6, syntax='advanced', video='cga', chunk=40, timeout=900):
    """Run cases in worker processes; returns the list of outcome dicts in the order of `cases`."""
    import multiprocessing as mp
    ctx = mp.get_context('fork')
    chunks = [(i, cases[i:i + chunk]) for i in range(0, len(cases), chunk)]
    results = [None] * len(cases)
    pending = list(chunks)
    while pending:
        pool = ctx.Pool(processes=procs)
        handles = [(i, cs, pool.apply_async(_worker_chunk, ((syntax, video, base, cs),))) for i, cs in pending]
        pending = []
        broken = False
        for i, cs, h in handles:
            if broken:
                if h.ready():
                    try:
                        for k, r in enumerate(h.get(0)):
                            results[i + k] = r
                        continue
                    except Exception:
                        pass
                pending.append((i, cs))
                continue
            try:
                for k, r in enumerate(h.get(timeout)):
                    results[i + k] = r
            except mp.TimeoutError:
                for k in range(len(cs)):
                    results[i + k] = {'kind': 'hang', 'code': 0, 'detail': 'chunk timeout (worker killed)', 'out': ''}
                broken = True
        if not broken:
            pool.close()
        else:
            pool.terminate()
        pool.join()
    return results
