"""Shared helpers of the graphics checks C30..C33: adapter/mode table, a graphics session wrapper that reads the pixel
buffers (visible page through the public Session.get_pixels(), all pages through Display.pages[p].pixels, the accessor
get_pixels() itself uses) and pixel-diff utilities.  No drawing semantics live here: only driving and projection."""
import logging
from .session import Sess
from . import core

logging.getLogger().setLevel(logging.ERROR)     # "No 14-pixel font available" warnings of font-less sessions

# (label, Session keyword arguments, SCREEN numbers that are graphics modes of that adapter)
ADAPTERS = [
    ('cga', dict(video='cga'), [1, 2]),
    ('ega', dict(video='ega'), [1, 2, 7, 8, 9]),
    ('ega64k', dict(video='ega', video_memory=65536), [7, 8, 9]),          # SCREEN 9 = 640x350x4c
    ('egamono', dict(video='ega', monitor='mono'), [10]),
    ('vga', dict(video='vga'), [1, 2, 7, 8, 9]),
    ('hercules', dict(video='hercules', monitor='mono'), [3]),
    ('olivetti', dict(video='olivetti'), [1, 2, 3]),
    ('pcjr', dict(video='pcjr', syntax='pcjr'), [1, 2, 3, 4, 5, 6]),
    ('tandy', dict(video='tandy', syntax='tandy'), [1, 2, 3, 4, 5, 6]),
]
ADAPTER_KW = {a: kw for a, kw, _ in ADAPTERS}
ALL_MODES = [(a, n) for a, _, ns in ADAPTERS for n in ns]


class GSess(Sess):
    """Sess + graphics projection."""

    def __init__(self, adapter, **kw):
        args = dict(ADAPTER_KW[adapter])
        args.update(kw)
        Sess.__init__(self, **args)
        self.adapter = adapter
        self.autocls = False
        self.screen_nr = 0
        self._refresh()

    def _refresh(self):
        d = self.impl.display
        self.text = bool(d.mode.is_text_mode)
        self.W, self.H = d.mode.pixel_width, d.mode.pixel_height
        self.npages = d.mode.num_pages
        self.modename = d.mode.name
        self.nattr = 0 if self.text else d.colourmap.num_attr
        self.bpp = 0 if self.text else d.mode.bitsperpixel

    def screen(self, n, rest=''):
        r = self.ex('SCREEN %d%s' % (n, rest))
        if r[0] == 'ok':
            self.screen_nr = n
        self._refresh()
        return r

    @property
    def apage(self):
        return self.impl.display.apagenum

    @property
    def vpage(self):
        return self.impl.display.vpagenum

    # ---- pixel buffers -----------------------------------------------------
    def visible(self):
        """Visible page through the public API, as bytes (row-major)."""
        return b''.join(bytes(r) for r in self.s.get_pixels())

    def page(self, p):
        return self.impl.display.pages[p].pixels[:, :].to_bytes()

    def pages(self):
        return [bytes(pg.pixels[:, :].to_bytes()) for pg in self.impl.display.pages]


def diff(a, b, W, limit=None):
    """Changed pixels between two row-major byte images: list of (x, y, new value), sorted by (y, x)."""
    if a == b:
        return []
    out = []
    H = len(a) // W
    for y in range(H):
        ra, rb = a[y * W:(y + 1) * W], b[y * W:(y + 1) * W]
        if ra != rb:
            for x in range(W):
                if ra[x] != rb[x]:
                    out.append((x, y, rb[x]))
            if limit and len(out) > limit:
                break
    return out


def bbox(a, b, W):
    """(count, x0, y0, x1, y1) of the changed pixels between two images, or None if equal."""
    if a == b:
        return None
    H = len(a) // W
    n = 0
    x0 = y0 = 1 << 30
    x1 = y1 = -1
    for y in range(H):
        ra, rb = a[y * W:(y + 1) * W], b[y * W:(y + 1) * W]
        if ra != rb:
            xs = [x for x in range(W) if ra[x] != rb[x]]
            n += len(xs)
            x0 = min(x0, xs[0]); x1 = max(x1, xs[-1])
            y0 = min(y0, y); y1 = max(y1, y)
    return (n, x0, y0, x1, y1)


def rect(img, W, x0, y0, x1, y1):
    """Rows (lists of ints) of the inclusive rectangle of a row-major image."""
    return [list(img[y * W + x0:y * W + x1 + 1]) for y in range(y0, y1 + 1)]
