"""Random BASIC program text for the program-file checks (C15, C16): input generators only, no semantics.

Lines are produced as bytes WITHOUT terminator; they are entered through Session.execute (one line per call), so
they must not contain CR or LF.  `rich` lines need not be runnable (C15 only stores, saves, loads and lists them);
`runnable_program` builds small deterministic programs whose run leaves a known footprint (C16).
"""

KEYWORD_STMTS = [
    b'CLS', b'BEEP', b'RANDOMIZE 5', b'WIDTH 80', b'KEY OFF', b'RESTORE', b'RETURN', b'WEND', b'STOP', b'END',
    b'TRON', b'TROFF', b'SCREEN 0,0,0', b'LOCATE 1,1', b'COLOR 7,0', b'DEFINT I-K', b'DEFSTR S', b'DEFDBL D',
    b'OPTION BASE 1', b'ON ERROR GOTO 0', b'RESUME NEXT', b'CLOSE', b'RESET', b'SOUND 440,1', b'PLAY "CDE"',
    b'DRAW "U10R10"', b'VIEW PRINT 1 TO 24', b'ERASE A', b'SWAP A,B', b'OUT 97,1', b'WAIT 97,1', b'DEF SEG=0',
    b'DEF SEG', b'POKE 1000,1', b'CALL X', b'FILES', b'SYSTEM', b'CHAIN "X",100,ALL', b'COMMON A,B$',
    b'OPEN "F" FOR INPUT AS #1', b'OPEN "R",#2,"F",128', b'FIELD #1,10 AS A$', b'LSET A$="X"', b'GET #1,5',
    b'PUT #1', b'LINE INPUT "?";A$', b'INPUT #1,A,B$', b'WRITE #1,A;B', b'PRINT #1,USING "##.##";A',
    b'LINE (1,2)-(30,40),1,BF', b'CIRCLE (100,100),50,1,,,.5', b'PSET (1,1)', b'PAINT (5,5),1,2', b'GET (0,0)-(9,9),A%',
    b'ON KEY(1) GOSUB 100', b'KEY(1) ON', b'ON TIMER(5) GOSUB 200', b'TIMER ON', b'DATE$="01-01-1990"',
    b'MID$(A$,2,1)="X"', b'ENVIRON "A=B"', b'SHELL', b'LCOPY', b'MOTOR', b'PCOPY 0,1', b'LOCK #1', b'UNLOCK #1',
]
FUNCS = [b'ABS(%s)', b'INT(%s)', b'SQR(%s)', b'SIN(%s)', b'CINT(%s)', b'FIX(%s)', b'SGN(%s)', b'PEEK(%s)', b'RND(%s)',
         b'LEN(STR$(%s))', b'ASC(CHR$(%s))', b'VAL(HEX$(%s))', b'FRE(%s)', b'POS(%s)', b'CSNG(%s)', b'CDBL(%s)',
         b'INSTR(A$,CHR$(%s))', b'CVI(MKI$(%s))', b'LOC(%s)', b'EOF(%s)', b'POINT(%s,1)', b'USR(%s)', b'FNA(%s)']
NAMES = [b'A', b'B', b'I', b'J', b'X1', b'Y2', b'TOTAL', b'COUNT.1', b'ZZ', b'K9', b'NAME1', b'Q', b'I%', b'X!', b'D#', b'V(1)',
         b'W%(I,2)']
SNAMES = [b'A$', b'B$', b'S1$', b'NAME.X$', b'T$(3)']


def number(rng):
    """A positive number literal of a random token class."""
    k = rng.randrange(12)
    if k == 0:
        return b'%d' % rng.randint(0, 10)
    if k == 1:
        return b'%d' % rng.randint(11, 255)
    if k == 2:
        return b'%d' % rng.randint(256, 32767)
    if k == 3:
        return b'&H%X' % rng.randint(0, 65535)
    if k == 4:
        return b'&O%o' % rng.randint(0, 65535)
    if k == 5:
        return b'%d' % rng.randint(32768, 9999999)
    if k == 6:
        return b'%d.%d' % (rng.randint(0, 999), rng.choice([5, 25, 125, 75, 375]))
    if k == 7:
        return b'%dE+%02d' % (rng.randint(1, 9), rng.randint(1, 30))
    if k == 8:
        return b'%d#' % rng.randint(0, 99999999)
    if k == 9:
        return b'%d.%dD-%02d' % (rng.randint(1, 9), rng.randint(0, 99999999), rng.randint(1, 30))
    if k == 10:
        return b'%d!' % rng.randint(0, 999999)
    return b'.%d' % rng.randint(1, 999)


def str_bytes(rng, n, special=0.0, quote=False):
    """Bytes for string literals / comments: printable ASCII and high bytes; `special`: chance per byte of a
    control byte (01-09, 0B-1F incl. the EOF byte 1A) that the lister does not show verbatim."""
    out = bytearray()
    for _ in range(n):
        r = rng.random()
        if r < special:
            out.append(rng.choice([1, 2, 7, 8, 9, 0x0b, 0x0c, 0x0e, 0x0f, 0x11, 0x1a, 0x1a, 0x1a, 0x1b, 0x1c, 0x1d, 0x1f, 0x10, 0x1e]))
        elif r < special + 0.2:
            out.append(rng.randint(0x80, 0xff))
        else:
            c = rng.randint(0x20, 0x7e)
            if c == 0x22 and not quote:
                c = 0x27
            out.append(c)
    return bytes(out)


def string_lit(rng, special=0.0):
    return b'"' + str_bytes(rng, rng.randint(0, 12), special) + b'"'


def expr(rng, depth=0):
    k = rng.randrange(9 if depth < 2 else 4)
    if k <= 1:
        return number(rng)
    if k <= 3:
        return rng.choice(NAMES)
    if k == 4:
        return b'(' + expr(rng, depth + 1) + rng.choice([b'+', b'-', b'*', b'/', b'\\', b'^', b' MOD ', b' AND ', b' OR ',
                                                         b' XOR ', b'=', b'<', b'>', b'<=', b'<>', b' EQV ', b' IMP ']) + expr(rng, depth + 1) + b')'
    if k == 5:
        return rng.choice(FUNCS) % expr(rng, depth + 1)
    if k == 6:
        return b'-' + expr(rng, depth + 1)
    if k == 7:
        return b'NOT ' + expr(rng, depth + 1)
    return expr(rng, depth + 1) + rng.choice([b'+', b'-', b'*']) + expr(rng, depth + 1)


def sexpr(rng, special=0.0):
    k = rng.randrange(6)
    if k <= 1:
        return string_lit(rng, special)
    if k == 2:
        return rng.choice(SNAMES)
    if k == 3:
        return rng.choice([b'CHR$(%s)', b'STR$(%s)', b'HEX$(%s)', b'OCT$(%s)', b'SPACE$(%s)', b'MKS$(%s)', b'INPUT$(%s)']) % expr(rng, 2)
    if k == 4:
        return rng.choice([b'LEFT$(%s,%s)', b'RIGHT$(%s,%s)', b'STRING$(%s,%s)'][:2]) % (sexpr(rng, special), number(rng))
    return rng.choice([b'INKEY$', b'DATE$', b'TIME$', b'MID$(A$,1,2)'])


def statement(rng, lines=(10, 20, 30), special=0.0):
    k = rng.randrange(20)
    jump = lambda: b'%d' % rng.choice(lines)
    if k == 0:
        return rng.choice(KEYWORD_STMTS)
    if k == 1:
        return rng.choice([b'PRINT ', b'?', b'LPRINT ', b'PRINT']) + rng.choice([b'', expr(rng), sexpr(rng, special),
                                                                                 expr(rng) + b';' + sexpr(rng, special), b'TAB(5);' + expr(rng), b'SPC(3)' + sexpr(rng, special),
                                                                                 b'USING "###.##";' + expr(rng)])
    if k == 2:
        return rng.choice([b'', b'LET ']) + rng.choice(NAMES) + b'=' + expr(rng)
    if k == 3:
        return rng.choice(SNAMES) + b'=' + sexpr(rng, special)
    if k == 4:
        return rng.choice([b'GOTO ', b'GOSUB ', b'GO TO ', b'RUN ', b'RESTORE ', b'RESUME ', b'RETURN ']) + jump()
    if k == 5:
        return b'IF ' + expr(rng) + rng.choice([b' THEN ' + jump(), b' GOTO ' + jump(), b' THEN ' + statement(rng, lines, special),
                                                b' THEN ' + jump() + b' ELSE ' + jump(),
                                                b' THEN ' + rng.choice(NAMES) + b'=1 ELSE ' + statement(rng, lines, special)])
    if k == 6:
        v = rng.choice([b'I', b'J', b'K%', b'X!'])
        return b'FOR ' + v + b'=' + expr(rng, 2) + b' TO ' + expr(rng, 2) + rng.choice([b'', b' STEP ' + expr(rng, 2)])
    if k == 7:
        return rng.choice([b'NEXT', b'NEXT I', b'NEXT J,I', b'WHILE ' + expr(rng), b'WHILE(' + expr(rng) + b')'])
    if k == 8:
        return b'ON ' + expr(rng, 2) + rng.choice([b' GOTO ', b' GOSUB ']) + b','.join(jump() for _ in range(rng.randint(1, 4)))
    if k == 9:
        return b'REM' + rng.choice([b'', b' ' + str_bytes(rng, rng.randint(0, 20), special, quote=True)])
    if k == 10:
        return b"'" + str_bytes(rng, rng.randint(0, 20), special, quote=True)
    if k == 11:
        items = []
        for _ in range(rng.randint(1, 5)):
            items.append(rng.choice([number(rng), string_lit(rng, special), b'abc', b' Mixed Case ', b'-12', b'', b'x y']))
        return b'DATA ' + b','.join(items)
    if k == 12:
        return b'READ ' + b','.join(rng.choice(NAMES + SNAMES) for _ in range(rng.randint(1, 3)))
    if k == 13:
        return b'DIM ' + rng.choice([b'A(%d)', b'B$(%d,%d)', b'C%%(%d)']).replace(b'%d', b'%d' % rng.randint(1, 20))
    if k == 14:
        return b'DEF FNA(X)=' + expr(rng, 1)
    if k == 15:
        return b'INPUT ' + rng.choice([b'', b'"prompt";', b'"p",']) + rng.choice(NAMES)
    if k == 16:
        return b'POKE ' + expr(rng, 2) + b',' + expr(rng, 2)
    if k == 17:
        return b'IF ERL=' + jump() + b' THEN ' + jump()
    if k == 18:
        return b'LIST ' + jump() + b'-' + jump()
    return rng.choice([b'ON ERROR GOTO ' + jump(), b'ERROR ' + number(rng), b'CLEAR ,' + number(rng), b'KEY 1,' + sexpr(rng, special),
                       b'NAME ' + sexpr(rng) + b' AS ' + sexpr(rng), b'KILL ' + sexpr(rng), b'BSAVE "M",0,' + number(rng)])


def line_body(rng, lines=(10, 20, 30), special=0.0):
    n = rng.choice([1, 1, 1, 2, 2, 3, 5])
    parts = []
    for _ in range(n):
        s = statement(rng, lines, special)
        parts.append(s)
        if s[:3] == b'REM' or s[:1] == b"'" :
            break
    sep = rng.choice([b':', b':', b' : ', b': '])
    body = sep.join(parts)
    if rng.random() < 0.1:
        body = body.lower() if rng.random() < 0.5 else body.swapcase()
    if rng.random() < 0.08:
        body = rng.choice([b' ', b'  ', b'\t']) + body
    if rng.random() < 0.05:
        body += rng.choice([b' ', b'  '])
    return body[:240]


def program(rng, nlines=None, special=0.0, maxnum=65529):
    """Random stored-program source: list of (number, full line text) with ascending distinct numbers."""
    nlines = nlines if nlines is not None else rng.choice([1, 2, 3, 5, 8, 12, 20])
    style = rng.randrange(4)
    if style == 0:
        nums = [10 * (k + 1) for k in range(nlines)]
    elif style == 1:
        nums = sorted(rng.sample(range(1, 200), nlines))
    elif style == 2:
        nums = sorted(rng.sample(range(0, maxnum + 1), nlines))
    else:
        nums = sorted(set([rng.choice([0, 1, maxnum, maxnum - 1, 255, 256, 6552, 6553, 32767, 32768, 65280]) for _ in range(nlines)]))
    out = []
    for n in nums:
        body = line_body(rng, nums, special)
        if not body.strip(b' \t'):
            body = b'REM'
        if body[:1] in b'0123456789':
            body = b':' + body
        out.append((n, b'%d %s' % (n, body)))
    return out


def long_line(rng, number, total_len):
    """A comment line whose listing is exactly total_len characters long (line buffer boundary 255)."""
    head = b'%d REM ' % number
    return (number, head + bytes(rng.choice(b'abcdefghijklmnopqrstuvwxyz 0123456789') for _ in range(total_len - len(head))))


def trap_line(rng, number):
    """A line that is hard for scanners of tokenised code: bytes with token values (REM 8F, DATA 84, quote-less high bytes) inside a
    string literal or comment, followed in the same line by number tokens whose payload contains zero bytes."""
    lit = b'"' + bytes(rng.choice([0x8f, 0x8f, 0x84, 0xd9, 0x3a, 0xa1, 0xcd]) for _ in range(rng.randint(1, 3))) + rng.choice([b'', b'x', b' REM ']) + b'"'
    tail = rng.choice([b'X=256', b'GOTO 1', b'IF ERL=1 THEN 256', b'Y=1024:Z=&H100', b'A!=2', b'D#=4#', b'ON X GOTO 256,512', b"X=256:'" + lit,
                       b'DATA 8,"' + bytes([0x8f]) + b'":X=768'])
    head = rng.choice([b'PRINT ', b'A$=', b'IF A$=', b'LINE INPUT ', b'PRINT "ok";'])
    body = head + lit + (b' THEN ' if head == b'IF A$=' else b':') + tail
    return (number, b'%d %s' % (number, body))
