"""CLI: ./check <ID> [--tier quick|thorough] [--seed N] [--replay PATH] | --selftest | --list"""
import os, sys, argparse, importlib, traceback
sys.path.insert(0, os.path.dirname(os.path.dirname(os.path.abspath(__file__))))
from vf import core


def main():
    ap = argparse.ArgumentParser()
    ap.add_argument('pid')
    ap.add_argument('--tier', default=os.environ.get('VERIF_TIER', 'quick'), choices=['quick', 'thorough'])
    ap.add_argument('--seed', type=int, default=int(os.environ.get('VERIF_SEED', '0') or 0))
    ap.add_argument('--replay', default=None)
    a = ap.parse_args()
    try:
        mod = importlib.import_module('vf.props.' + a.pid)
    except ImportError:
        traceback.print_exc()
        print('no check for %s' % a.pid)
        return 2
    if a.replay:
        # a replay file records tier, seed and the rejected events; all drivers are deterministic functions of
        # (tier, seed), so re-running with them re-executes the recorded operations on the current tree
        import json
        with open(a.replay) as f:
            rec = json.load(f)
        a.tier, a.seed = rec.get('tier', a.tier), rec.get('seed', a.seed)
        print('replaying %s: tier=%s seed=%s (%d recorded rejections)' % (a.replay, a.tier, a.seed, len(rec.get('violations', []))))
    ctx = core.Ctx(a.pid, a.tier, a.seed, level=getattr(mod, 'LEVEL', 'exploration'))
    try:
        core.import_repo()
        if a.replay and hasattr(mod, 'replay'):
            mod.replay(ctx, a.replay)
        else:
            mod.run(ctx)
        return ctx.finish()
    except core.MachineryError as e:
        print('MACHINERY-FAILURE property=%s %s' % (a.pid, e))
        return 2
    except Exception:
        traceback.print_exc()
        print('MACHINERY-FAILURE property=%s unexpected exception in harness' % a.pid)
        return 2
    finally:
        import shutil
        shutil.rmtree(ctx.tmp, ignore_errors=True)


if __name__ == '__main__':
    sys.exit(main())
