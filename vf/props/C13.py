"""C13 — the stored program equals the entered lines after any edit history.
Spec ProgramStore.tla; models ProgramStore_MC*.cfg; trace spec ProgramStore_Trace."""
import os
from .. import graph, core
from ..progstore import model_check, Store, lit, render, typed_line, rnd_chars, patch_links, NOREF

LEVEL = 'model_checking'
META = {
    'technique': 'TLC exhaustive model check of ProgramStore.tla (reference layer vs implementation-shaped layer) + replay of every '
                 'transition of a small model into the real interpreter + TLC trace validation of long random edit histories',
    'text': 'ProgramStore.tla has a reference layer (function line number -> text; Listing = ascending enumeration) and a layer shaped like '
            'program.py (line records with link addresses, the line-number index with the 65536 sentinel; store_line/find_pos_line_dict/'
            'update_line_dict/delete/renum/rebuild_line_dict transcribed). TLC checks on every reachable state of the bounded model (line numbers '
            '{0,10,20,30,65529}, 3 texts of different length one of them with a line reference, bare numbers, DELETE ranges incl. open ones, '
            'RENUM argument sets, MERGE/LOAD files, NEW, histories of <= 5/6 edits) that the second layer refines the first (listing, index = fresh scan, '
            'links chain to the terminator, GOTO lands). Every transition of a smaller model is replayed on a real Session and long random histories '
            '(line numbers over 0..65529, random statement text up to 240 characters, re-insertions, empty ranges, RENUM, MERGE, LOAD, SAVE/LOAD/MERGE of '
            'saved files, tokenised files with foreign link values, NEW) are validated event by event by ProgramStore_Trace.tla: LIST output = Listing(ref), '
            'PEEK walk of the links = reference lines in order ending in 00 00, index = walk = fresh rescan, probed GOTOs land on their lines.',
    'note': 'Trusted: TLC; projection of LIST (to the screen or to a file), PEEK, Program.line_numbers (named in observe_at) and a rebuild_line_dict on a copy. '
            'Texts are generated in the canonical form LIST prints (tokenise/list consistency is C17); line 0 is typed without the blank after the number and is '
            'not written to ASCII files (GW quirk: that blank belongs to the text). Out of memory, lines > 255 characters and protected programs are outside the fragment. '
            'Whether a RENUM is accepted is judged by C14; here its effect is demanded given the outcome.',
}

BOUND = [0, 1, 2, 9, 10, 11, 99, 100, 255, 256, 257, 32767, 32768, 65280, 65527, 65528, 65529]


def gen_text(rng, nums):
    """A statement in the form LIST prints it, as segments."""
    def target():
        return rng.choice(nums) if nums and rng.random() < 0.7 else rng.choice(BOUND + [rng.randint(0, 65529)])
    k = rng.random()
    if k < 0.22:
        return lit('PRINT "%s"' % rnd_chars(rng, rng.choice([1, 3, 8, 20, 60])))
    if k < 0.40:
        return lit('REM ' + rnd_chars(rng, rng.choice([1, 2, 5, 17, 40, 120, 240])))
    if k < 0.47:
        return lit('%s=%d' % (rng.choice(['A', 'B1', 'XY', 'Q%']), rng.randint(0, 32767)))
    if k < 0.52:
        return lit('LET B$="%s"' % rnd_chars(rng, rng.randint(1, 30)))
    if k < 0.57:
        return lit('X=X+1:Y=Y*2')
    if k < 0.62:
        return lit('DATA ' + ','.join(str(rng.randint(0, 999)) for _ in range(rng.randint(1, 12))))
    if k < 0.66:
        return lit(rng.choice(['END', 'FOR I=1 TO 10:NEXT', "'" + rnd_chars(rng, 9), 'WHILE X<3:X=X+1:WEND', 'DIM A(10)', 'X=1.5']))
    if k < 0.76:
        return [{'s': rng.choice(['GOTO ', 'GOSUB ', 'RESTORE ']), 'n': target()}]
    if k < 0.86:
        return [{'s': 'IF X>1 THEN ', 'n': target()}, {'s': ' ELSE ', 'n': target()}]
    if k < 0.93:
        segs = [{'s': 'ON X %s ' % rng.choice(['GOTO', 'GOSUB']), 'n': target()}]
        for _ in range(rng.randint(1, 5)):
            segs.append({'s': ',', 'n': target()})
        return segs
    return [{'s': 'IF ERL=', 'n': target()}, {'s': ' THEN ', 'n': target()}]


class Driver(object):
    def __init__(self, ctx):
        self.ctx = ctx
        self.st = Store()
        self.helper = None
        self.events = []
        self.nums = []

    def fresh(self):
        self.st.fresh()
        self.nums = []

    def image(self, lines):
        """Tokenised program file of `lines` (ascending) with foreign link values, made by a second session."""
        if self.helper is None:
            self.helper = Store()
        h = self.helper.s
        h.ex('NEW')
        for (n, t) in lines:
            h.ex(typed_line(n, t))
        h.ex('SAVE "IMG"')
        with open(os.path.join(h.mount, 'IMG.BAS'), 'rb') as f:
            img = f.read()
        with open(os.path.join(self.st.s.mount, 'IMG.BAS'), 'wb') as f:
            f.write(patch_links(img, self.ctx.rng.choice([0x0101, 0x1234, 0xfffe, 0x126f])))

    def do(self, a, probes=None, screen=False, model=None):
        op = a['op']
        s = self.st.s
        if op == 'store':
            stmt = typed_line(a['n'], a['text']) if a['text'] else str(a['n'])
        elif op == 'delete':
            lo, hi = a['lo'], a['hi']
            if lo == hi and lo != -1 and a.get('form'):
                stmt = 'DELETE %d' % lo
            else:
                stmt = 'DELETE %s-%s' % ('' if lo == -1 else lo, '' if hi == -1 else hi)
        elif op == 'renum':
            args = ['' if a[k] == -1 else str(a[k]) for k in ('new', 'old', 'inc')]
            while args and args[-1] == '':
                args.pop()
            stmt = 'RENUM ' + ','.join(args)
        elif op in ('merge', 'load'):
            self.st.write_ascii('M.BAS', [(x['n'], x['text']) for x in a['lines']])
            stmt = '%s "M"' % op.upper()
        elif op == 'loadb':
            self.image([(x['n'], x['text']) for x in a['lines']])
            stmt = 'LOAD "IMG"'
        elif op == 'new':
            stmt = 'NEW'
        elif op == 'save':
            stmt = 'SAVE "%s"%s' % (a['name'], ',A' if a['name'].startswith('T') else '')
        elif op == 'loadf':
            stmt = 'LOAD "%s"' % a['name']
        elif op == 'mergef':
            stmt = 'MERGE "%s"' % a['name']
        r = s.ex(stmt)
        e = dict(a)
        e.update(stmt=stmt, ok=(r[0] == 'ok'), code=(r[1] if r[0] == 'err' else 0), kind=r[0], reset=self.st.reset)
        if r[0] == 'internal':
            e['internal'] = r[1]
        self.st.reset = False
        s.ex('TRON')      # NEW and LOAD switch the trace off
        if probes is None:
            probes = []
        e['obs'] = self.st.observe(probes=probes, screen=screen)
        if model is not None:
            e['model'] = model
        self.nums = [p[0] for p in e['obs']['list'] if p[0] >= 0]
        self.events.append(e)
        return e

    def close(self):
        self.st.close()
        if self.helper:
            self.helper.close()


def pick_line(rng, nums, hot):
    k = rng.random()
    if k < 0.35 and hot:
        return rng.choice(hot)
    if k < 0.55 and nums:
        return rng.choice(nums)
    if k < 0.70 and nums:
        return min(65529, max(0, rng.choice(nums) + rng.choice([-1, 1, -10, 10])))
    if k < 0.82:
        return rng.choice(BOUND)
    return rng.randint(0, 65529)


def random_action(rng, d, hot, saved):
    nums = d.nums
    k = rng.random()
    if len(nums) > 28:
        k = 0.66 + rng.random() * 0.12          # shrink large programs with DELETE ranges
    if k < 0.56 or not nums:
        n = pick_line(rng, nums, hot)
        return {'op': 'store', 'n': n, 'text': gen_text(rng, nums)}
    if k < 0.66:
        n = rng.choice(nums) if rng.random() < 0.7 else pick_line(rng, nums, hot)
        return {'op': 'store', 'n': n, 'text': []}
    if k < 0.78:
        c = rng.random()
        if c < 0.5:
            lo = pick_line(rng, nums, hot)
            hi = pick_line(rng, nums, hot)
            lo, hi = min(lo, hi), max(lo, hi)
            if len(nums) > 28 and rng.random() < 0.7:
                i = rng.randrange(len(nums))
                lo, hi = nums[i], nums[min(len(nums) - 1, i + rng.randint(3, 12))]
        elif c < 0.65:
            lo = hi = pick_line(rng, nums, hot)
        elif c < 0.8:
            lo, hi = pick_line(rng, nums, hot), -1
        else:
            lo, hi = -1, pick_line(rng, nums, hot)
        return {'op': 'delete', 'lo': lo, 'hi': hi, 'form': rng.randint(0, 1)}
    if k < 0.85:
        c = rng.random()
        if c < 0.25:
            return {'op': 'renum', 'new': -1, 'old': -1, 'inc': -1}
        old = rng.choice(nums + [-1]) if rng.random() < 0.8 else rng.randint(0, 65529)
        kept = [x for x in nums if x < old]
        if rng.random() < 0.75:
            new = (max(kept) + rng.choice([1, 1, 2, 10, 100])) if kept else rng.choice([-1, 0, 1, 10, 100, 1000, 30000])
        else:
            new = rng.choice([-1] + BOUND + [rng.randint(0, 65529)])
        inc = rng.choice([-1, -1, 1, 1, 2, 5, 10, 10, 100, 0, 1000, 20000, 65529])
        return {'op': 'renum', 'new': min(65529, new), 'old': old, 'inc': inc}
    if k < 0.91:
        # ASCII files hold no line 0 (see META.note)
        lines = [{'n': max(1, pick_line(rng, nums, hot)), 'text': gen_text(rng, nums)} for _ in range(rng.randint(1, 7))]
        return {'op': rng.choice(['merge', 'merge', 'merge', 'load']), 'lines': lines}
    if k < 0.93:
        ns = sorted(set(pick_line(rng, nums, hot) for _ in range(rng.randint(1, 6))))
        return {'op': 'loadb', 'lines': [{'n': n, 'text': gen_text(rng, ns)} for n in ns]}
    if k < 0.94:
        return {'op': 'new'}
    if k < 0.97 or not saved:
        name = rng.choice(['S0', 'S1', 'T0', 'T1'])
        if name.startswith('T') and 0 in nums:
            name = 'S0'
        return {'op': 'save', 'name': name}
    name = rng.choice(sorted(saved))
    return {'op': 'mergef' if (name.startswith('T') and rng.random() < 0.7) else 'loadf', 'name': name}


KEEP = ('op', 'n', 'text', 'lo', 'hi', 'new', 'old', 'inc', 'lines', 'name', 'ok', 'code', 'kind', 'reset', 'obs', 'model')


def run(ctx):
    rng = ctx.rng
    ctx.cov['rule'] = ('events = edits (line entry, bare number, DELETE, RENUM, MERGE, LOAD, NEW, SAVE) executed on a real Session, each followed by '
                       'the full projection; distinct by (listing before is implied) action + listing after; non-trivial = edits that change the program or are refused')
    # 1. design: exhaustive bounded model check
    model_check(ctx, 'ProgramStore_MC', ctx.pick('ProgramStore_MC.cfg', 'ProgramStore_MC_big.cfg'), workers=ctx.pick(6, 8))
    # 2. spec -> code: every transition of the small model, with the predicted memory layout
    r = ctx.tlc('ProgramStore_MC', ctx.pick('ProgramStore_MC_emit_q.cfg', 'ProgramStore_MC_emit.cfg'), workers=1, tag='emit')
    if not r['ok']:
        raise core.MachineryError('emit run failed: %s\n%s' % (r['error'], r['out'][-2000:]))
    trans = graph.parse_transitions(r['out'])
    walks, cov, total = graph.covering_walks(trans, [], max_len=40, rng=rng)
    ctx.cov['model_transitions'] = total
    ctx.cov['model_transitions_replayed'] = cov
    if cov < total or total == 0:
        raise core.MachineryError('edge cover incomplete: %d of %d' % (cov, total))
    d = Driver(ctx)
    for w in walks:
        d.fresh()
        for t in w:
            a = {k: v for k, v in t['a'].items() if k not in ('res', 'must', 'legal')}
            e = d.do(a, probes=[p[0] for p in t['to']][:2], model={'chain': t['chain']})
            e['model_res'] = t['a']['res']
    nwalk = len(walks)
    # 3. code -> spec: long random edit histories
    nhist = ctx.pick(20, 120)
    nedit = ctx.pick(100, 200)
    for h in range(nhist):
        d.fresh()
        hot = sorted(set(pick_line(rng, [], []) for _ in range(rng.randint(4, 14))))
        saved = set()
        for step in range(nedit):
            a = random_action(rng, d, hot, saved)
            before = list(d.nums)
            probes = []
            if a['op'] == 'store' and a['text']:
                probes.append(a['n'])
            e = d.do(a, probes=[], screen=False)
            # probe the entered line, the neighbours in the listing and two random lines
            ns = d.nums
            if ns:
                cand = set(rng.sample(ns, 1))
                if probes and probes[0] in ns:
                    i = ns.index(probes[0])
                    cand.update(ns[max(0, i - 1):i + 2] if rng.random() < 0.25 else [probes[0]])
                if len(ns) <= 6 and rng.random() < 0.3:
                    cand.update(ns)
                e['obs']['goto'] = [d.st.goto(n) for n in sorted(cand)]
            if len(ns) <= 8 and rng.random() < 0.15:
                # the same listing through the screen path of LIST
                e['obs']['list'] = d.st.listing(screen=True)
            if a['op'] == 'save' and e['ok']:
                saved.add(a['name'])
    d.close()
    events = d.events
    verdicts = []
    # batches of whole histories (the trace spec carries the program from event to event; a history starts with reset)
    starts = [i for i, e in enumerate(events) if e['reset']] + [len(events)]
    lo = 0
    for k in range(1, len(starts)):
        if starts[k] - lo >= 4000 or k == len(starts) - 1:
            part = events[lo:starts[k]]
            vs = ctx.validate('ProgramStore_Trace', [{q: e[q] for q in KEEP if q in e} for e in part], name='c13')
            verdicts += [(lo + j, c) for (j, c) in vs]
            lo = starts[k]
    ctx.cov['traces_validated_against_impl'] += nwalk + nhist
    byop = {}
    for e in events:
        byop[e['op']] = byop.get(e['op'], 0) + 1
        ctx.count([e['op'], e.get('n'), e.get('lo'), e.get('hi'), e.get('new'), e.get('old'), e.get('inc'), e['ok'], e['obs']['list']],
                  nontrivial=True)
    ctx.cov['events_by_op'] = byop
    ctx.cov['max_program_lines'] = max(len(e['obs']['list']) for e in events)
    ctx.cov['goto_probes'] = sum(len(e['obs']['goto']) for e in events)
    ctx.cov['refused_edits'] = sum(1 for e in events if not e['ok'])
    for e in (events[5], events[len(events) // 2], events[-1]):
        ctx.sample({'stmt': e['stmt'][:80], 'ok': e['ok'], 'code': e['code'], 'list': e['obs']['list'][:4], 'chain': e['obs']['chain'][:4]})
    for (i, clause) in verdicts:
        e = events[i - 1]
        j = i - 1
        while j > 0 and not events[j]['reset']:
            j -= 1
        hist = [x['stmt'] for x in events[j:i]]
        ctx.reject('C13 %s after %r (ok=%s code=%s), history of %d edits; listing %s' % (
                       clause, e['stmt'][:70], e['ok'], e['code'], len(hist), e['obs']['list'][:6]),
                   key={'clause': clause, 'op': e['op']}, data={'event': e, 'history': hist})
    if byop.get('renum', 0) == 0 or not any(e['op'] == 'renum' and e['ok'] for e in events):
        raise core.MachineryError('vacuous: no RENUM accepted')
    if ctx.cov['goto_probes'] == 0:
        raise core.MachineryError('vacuous: no GOTO probe')
