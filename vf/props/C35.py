"""C35 - the displayed picture equals the emulator's screen state. Spec VideoSignals.tla; models VideoSignals_MC*; trace spec VideoSignals_Trace."""
import logging, queue
from ..session import Sess
from .. import core

LEVEL = 'model_checking'
META = {
    'technique': 'TLC exhaustive bounded model check of the signal protocol (VideoSignals.tla: emulator operations -> signals -> reference consumer) '
                 '+ TLC trace validation: the video signals recorded from the real interpreter are applied by the consumer of the specification '
                 'and compared, after every statement, with the visible page the interpreter reports',
    'text': 'VideoSignals.tla defines the reference display: what mode / update / clear_rows / scroll signals do to a canvas of cells '
            '<<character, pixel-block class>> (semantics of interface/video_sdl2.py and video_curses.py). VideoSignals_MC checks on every history of '
            '<= D emulator operations (put character, graphics rectangle, clear rows, scroll up/down, attribute, page switch, page copy; 3x2 cells, 2 pages) '
            'that the consumer shows exactly the visible page (and finds the counterexample when scrolling is modelled as coded before the repair). '
            'For the code, a recording video queue is installed in a real Session; random histories of PRINT (wrapping, scrolling), CLS, COLOR, LOCATE, '
            'VIEW PRINT, WIDTH, SCREEN mode and page switches, PCOPY, KEY ON/OFF, typed INPUT lines (scroll down), PSET/LINE/CIRCLE/PAINT/VIEW on all adapters '
            'and a redraw as done by a resumed session are run; Python only cuts sprites and get_pixels()/get_chars() into cells and interns pixel blocks; '
            'VideoSignals_Trace.tla applies the signals and demands display = emulator after every statement.',
    'note': 'Trusted: TLC; the reduction of pixel payloads to per-cell classes (equal class <=> equal bytes); Display.vpage.pixels[:, :] is read instead of '
            'Session.get_pixels() (same buffer, without the conversion to tuples; cross-checked once per history). Not covered: cursor, palette and border signals '
            '(overlays/colours, not cells), DBCS code pages, the real SDL2/curses plug-ins themselves (their semantics are transcribed into the specification).',
}
META['text'] += ' After every statement the two character views the interpreter reports (get_chars() bytes / unicode) must agree on printable ASCII; each history has a hidden-page scroll probe (long PRINT on the bottom row of a hidden active page, then flip / PCOPY / redraw).'

ADAPTER_MODES = {
    'cga': [0, 1, 2], 'ega': [0, 1, 2, 7, 8, 9], 'vga': [0, 1, 2, 7, 8, 9], 'mda': [0], 'hercules': [0, 3],
    'tandy': [0, 1, 2, 3, 4, 5, 6], 'pcjr': [0, 1, 2, 3, 4, 5, 6], 'olivetti': [0, 1, 2, 3],
}


class RecQueue(queue.Queue):
    """A recording video queue. qsize() reports 0 so that EventQueues.check_events never waits for an interface to drain it."""

    def qsize(self):
        return 0

    def drain(self):
        res = []
        while True:
            try:
                res.append(self.get_nowait())
            except queue.Empty:
                return res


class Recorder(object):
    """Real Session + recording video queue + reduction of payloads / of the visible page to cells."""

    def __init__(self, ctx):
        self.ctx = ctx
        self.s = None
        self.events = []
        self.intern = {}
        self.rowcache = {}

    # -- reduction to cells ------------------------------------------------------
    def pixclass(self, key):
        if key.count(key[:1]) == len(key):
            return key[0] if key else 0
        v = self.intern.get(key)
        if v is None:
            v = self.intern[key] = 256 + len(self.intern)
        return v

    @staticmethod
    def txt(t):
        if len(t) == 1:
            return ord(t)
        if not t:
            return 0
        return 0x200000 + (hash(t) & 0xffff)

    def cells_of(self, text_rows, pixrows, fh, fw):
        """text_rows: list of lists of unicode cells; pixrows: list of bytes-like pixel rows covering them from the top left."""
        out = []
        for i, trow in enumerate(text_rows):
            prs = pixrows[i * fh:(i + 1) * fh]
            ncol = len(trow)
            key = (ncol, fw, tuple(trow), b'\n'.join(bytes(p[:ncol * fw]) for p in prs))
            row = self.rowcache.get(key)
            if row is None:
                row = []
                for j, t in enumerate(trow):
                    blk = b''.join(bytes(p[j * fw:(j + 1) * fw]) for p in prs)
                    row.append([self.txt(t), self.pixclass(blk)])
                if len(self.rowcache) > 20000:
                    self.rowcache.clear()
                self.rowcache[key] = row
            out.append(row)
        return out

    # -- session -------------------------------------------------------------------
    def fresh(self, adapter):
        if self.s:
            self.s.close()
        self.adapter = adapter
        self.s = Sess(video=adapter)
        self.s.autocls = False
        self.q = RecQueue()
        qs = self.s.impl.queues
        qs.set(inputs=qs.inputs, video=self.q, audio=qs.audio)
        self.geom = None
        self.prev = None
        # a display attached now is brought up to date the way a resumed session does it
        self.s.impl.display.rebuild()
        self.record('(new session %s; redraw)' % adapter, 'init', True)

    def reduce(self, sig):
        from pcbasic.basic.base import signals
        t, p = sig.event_type, sig.params
        if t == signals.VIDEO_SET_MODE:
            ph, pw, th, tw = p
            self.geom = (-(-ph // th), pw // tw)
            return {'t': 'mode', 'ph': ph, 'pw': pw, 'th': th, 'tw': tw}
        if t == signals.VIDEO_UPDATE:
            row, col, text, attrs, y0, x0, sprite = p
            fh, fw = self.geom or (1, 1)
            prs = sprite._rows
            return {'t': 'update', 'row': row, 'col': col, 'y0': y0, 'x0': x0, 'sh': sprite.height, 'sw': sprite.width,
                    'cells': self.cells_of([list(r) for r in text], prs, fh, fw)}
        if t == signals.VIDEO_CLEAR_ROWS:
            back, a, b = p
            return {'t': 'clear', 'back': back, 'a': a, 'b': b}
        if t == signals.VIDEO_SCROLL:
            d, a, b, back = p
            return {'t': 'scroll', 'dir': d, 'a': a, 'b': b, 'back': back}
        return None

    def emu(self):
        disp = self.s.impl.display
        mode = disp.mode
        th, tw, ph, pw = mode.height, mode.width, mode.pixel_height, mode.pixel_width
        fh, fw = -(-ph // th), pw // tw
        text = self.s.s.get_chars(as_type=type(u''))
        # the two views the interpreter reports of the visible page's characters (raw bytes / unicode) must agree; compared on
        # printable ASCII, where the code page cannot matter (the display is compared with the unicode view by the trace spec)
        raw = self.s.s.get_chars()
        self.rawdiff = []
        for i, (rr, ur) in enumerate(zip(raw, text)):
            for j, (b, u) in enumerate(zip(rr, ur)):
                bo = b[0] if b else 0
                if (32 <= bo <= 126 and u != chr(bo)) or (len(u) == 1 and 32 <= ord(u) <= 126 and bo != ord(u)):
                    self.rawdiff.append([i + 1, j + 1, bo, u])
        pix = disp.vpage.pixels[:, :]
        rows = self.cells_of([list(r) for r in text], pix._rows, fh, fw)
        if self.prev is None or len(self.prev) != len(rows) or len(self.prev[0]) != tw:
            changed = [[i + 1, r] for i, r in enumerate(rows)]
        else:
            changed = [[i + 1, r] for i, r in enumerate(rows) if r != self.prev[i]]
        self.prev = rows
        return {'th': th, 'tw': tw, 'ph': ph, 'pw': pw, 'rows': changed}

    def record(self, stmt, kind, ok, code=0):
        raw = self.q.drain()
        sigs = []
        nother = 0
        for sg in raw:
            r = self.reduce(sg)
            if r is None:
                nother += 1
            else:
                sigs.append(r)
        disp = self.s.impl.display
        e = {'stmt': stmt, 'kind': kind, 'ok': ok, 'code': code, 'sigs': sigs, 'emu': self.emu(), 'rawdiff': self.rawdiff[:8], 'other_signals': nother,
             'adapter': self.adapter, 'mode': disp.mode.name, 'text': bool(disp.mode.is_text_mode),
             'vpage': disp.vpagenum, 'apage': disp.apagenum, 'attr': disp.attr}
        self.events.append(e)
        return e

    def do(self, stmt, keys=None):
        if keys is not None:
            self.s.s.press_keys(keys)
        r = self.s.ex(stmt, budget=3000)
        return self.record(stmt, r[0], r[0] == 'ok', r[1] if r[0] == 'err' else 0)

    def redraw(self):
        self.s.impl.display.rebuild()
        return self.record('(redraw as after resume)', 'ok', True)

    def crosscheck(self):
        """get_pixels() (the API named in the property) and the buffer read by emu() are the same picture."""
        a = self.s.s.get_pixels()
        b = self.s.impl.display.vpage.pixels[:, :]
        if tuple(tuple(r) for r in a) != tuple(tuple(r) for r in b._rows):
            raise core.MachineryError('Session.get_pixels() differs from Display.vpage.pixels')

    def close(self):
        if self.s:
            self.s.close()
            self.s = None


def random_statement(rng, rec):
    disp = rec.s.impl.display
    mode = disp.mode
    w, h = mode.width, mode.height
    text = mode.is_text_mode
    k = rng.random()
    if k < 0.34:
        n = rng.choice([0, 1, 3, 10, rng.randint(1, 40), w - 1, w, w + 1, rng.randint(60, 250)])
        base = rng.choice([65, 97, 48])
        s = ''.join(chr(base + (i % 20)) for i in range(n))
        return 'PRINT "%s"%s' % (s, rng.choice(['', '', ';']))
    if k < 0.40:
        ch = rng.choice([32, 219, 65, 7, 13, 10, 12, 11, 28, 31])
        # (a line end scrolls the whole window: keep the runs of those short, each scroll costs milliseconds)
        # (and every BEL waits for the beep to finish: one at most)
        n = 1 if ch == 7 else rng.choice([1, 3, 30]) if ch in (13, 10, 31) else rng.choice([1, w, 2 * w, 255])
        return 'PRINT STRING$(%d,%d)%s' % (n, ch, rng.choice(['', ';']))
    if k < 0.48:
        return rng.choice(['CLS', 'CLS', 'CLS 0', 'CLS 1', 'CLS 2'])
    if k < 0.58:
        if text:
            return 'COLOR %d,%d%s' % (rng.randint(0, 31), rng.randint(0, 7), rng.choice(['', '', ',%d' % rng.randint(0, 15)]))
        return 'COLOR %d,%d' % (rng.randint(0, 15), rng.randint(0, 15))
    if k < 0.66:
        return 'LOCATE %d,%d' % (rng.choice([1, h - 1, h, rng.randint(1, h)]), rng.choice([1, w, rng.randint(1, w)]))
    if k < 0.71:
        if rng.random() < 0.25:
            return 'VIEW PRINT'
        t = rng.randint(1, 24)
        return 'VIEW PRINT %d TO %d' % (t, rng.choice([t, 24, rng.randint(t, 24)]))
    if k < 0.74:
        return 'WIDTH %d' % rng.choice([40, 80])
    if k < 0.78:
        return 'SCREEN %d' % rng.choice(ADAPTER_MODES[rec.adapter])
    if k < 0.84:
        np_ = mode.num_pages
        if rng.random() < 0.3:
            # keep the visible page, write elsewhere
            return 'SCREEN ,,%d,%d' % (rng.randrange(np_), disp.vpagenum)
        return 'SCREEN ,,%d,%d' % (rng.randrange(np_ + (rng.random() < 0.1)), rng.randrange(np_ + (rng.random() < 0.1)))
    if k < 0.87:
        np_ = mode.num_pages
        if rng.random() < 0.5:
            # onto the visible page (must be redrawn), preferably from the page that was written to
            return 'PCOPY %d,%d' % (disp.apagenum if rng.random() < 0.6 else rng.randrange(np_), disp.vpagenum)
        return 'PCOPY %d,%d' % (rng.randrange(np_), rng.randrange(np_))
    if k < 0.89:
        return rng.choice(['KEY ON', 'KEY OFF'])
    if k < 0.91:
        return ('INPUT', ''.join(chr(rng.randint(97, 122)) for _ in range(rng.choice([3, 30, w, w + 5]))) + '\r')
    # graphics (refused in text mode)
    pw, ph = mode.pixel_width, mode.pixel_height
    x, y = rng.randint(-5, pw + 5), rng.randint(-5, ph + 5)
    x2, y2 = rng.randint(0, pw - 1), rng.randint(0, ph - 1)
    c = rng.randint(0, 15)
    g = rng.random()
    if g < 0.3:
        return 'PSET (%d,%d),%d' % (x, y, c)
    if g < 0.65:
        return 'LINE (%d,%d)-(%d,%d),%d%s' % (x, y, x2, y2, c, rng.choice(['', ',B', ',BF']))
    if g < 0.85:
        return 'CIRCLE (%d,%d),%d,%d' % (x2, y2, rng.randint(1, 60), c)
    if g < 0.93:
        return 'VIEW (%d,%d)-(%d,%d),%d,%d' % (min(x2, pw // 2), min(y2, ph // 2), pw - 1 - rng.randint(0, 20), ph - 1 - rng.randint(0, 20), c, rng.randint(0, 15)) if rng.random() < 0.7 else 'VIEW'
    return 'PAINT (%d,%d),%d' % (x2, y2, c)


def random_history(rec, rng, adapter, nsteps):
    rec.fresh(adapter)
    for i in range(nsteps):
        st = random_statement(rng, rec)
        if isinstance(st, tuple):
            rec.do('INPUT A$', keys=st[1])
            rec.events[-1]['stmt'] = 'INPUT A$ <- %r' % st[1]
        else:
            rec.do(st)
        if rng.random() < 0.02:
            rec.redraw()
        if i == nsteps // 2:
            # page copy probe: write on a hidden page, copy it onto the visible one (which must then show it), write on
            # the source again (which must not show)
            disp = rec.s.impl.display
            np_ = disp.mode.num_pages
            if np_ > 1:
                v = disp.vpagenum
                a = (v + 1 + rng.randrange(np_ - 1)) % np_
                rec.do('SCREEN ,,%d,%d' % (a, v))
                rec.do('LOCATE %d,%d: PRINT "page%d";' % (rng.randint(1, 20), rng.randint(1, 10), a))
                rec.do('PCOPY %d,%d' % (a, v))
                rec.do('PRINT "hidden"')
        if i == nsteps // 3:
            # hidden-scroll probe: on a hidden active page, one PRINT item that crosses the right margin on the bottom row of the
            # scroll area (the page scrolls in the middle of the write); the page is then shown by a flip, a copy or a redraw
            # (round-2 seeded change C35b skipped the drawing of pending rows when a hidden page scrolls)
            disp = rec.s.impl.display
            np_ = disp.mode.num_pages
            if np_ > 1:
                v = disp.vpagenum
                a = (v + 1 + rng.randrange(np_ - 1)) % np_
                w = disp.mode.width
                rec.do('SCREEN ,,%d,%d' % (a, v))
                rec.do('LOCATE %d,%d' % (rec.s.impl.text_screen.scroll_area.bottom, rng.choice([1, 1, w - 3, w])))
                rec.do('PRINT STRING$(%d,%d)%s' % (rng.choice([w + 20, w + 1, 2 * w + 5, 100]), rng.choice([65, 219, 97]), rng.choice(['', ';'])))
                how = rng.random()
                if how < 0.5:
                    rec.do('SCREEN ,,%d,%d' % (a, a))
                elif how < 0.8:
                    rec.do('PCOPY %d,%d' % (a, v))
                else:
                    rec.do('SCREEN ,,%d,%d' % (a, a))
                    rec.redraw()
    rec.crosscheck()


KEEP = ('sigs', 'emu')


def classify(events, i):
    """Context of a rejected event for the finding key (never used to judge)."""
    e = events[i]
    kinds = [s['t'] for s in e['sigs']]
    backs = [s['back'] for s in e['sigs'] if s['t'] == 'scroll']
    singles = [s for s in e['sigs'] if s['t'] == 'scroll' and s['a'] == s['b']]
    return {'scrolled': 'scroll' in kinds, 'scroll_back_nonzero': any(b != 0 for b in backs), 'single_row_scroll': bool(singles),
            'text_mode': e['text'], 'visible_is_active': e['vpage'] == e['apage']}


def run(ctx):
    logging.disable(logging.WARNING)
    ctx.cov['rule'] = ('events = BASIC statements executed on a real Session with a recording video queue, each followed by a snapshot of the visible page; '
                       'distinct by (statement, reduced signals, changed rows); non-trivial = statements that emitted at least one picture signal')
    # 1. design: the signal protocol on the small model; selftest: the scrolling as coded before the repair is caught
    ctx.model_check('VideoSignals_MC', cfg=ctx.pick('VideoSignals_MC.cfg', 'VideoSignals_MC_deep.cfg'), workers=4, require_actions=False)
    r = ctx.tlc('VideoSignals_MC', 'VideoSignals_MC_ascoded.cfg', workers=2, tag='selftest: scrolling as coded before the repair')
    if r['ok'] or 'DisplayEqualsEmulator' not in (r['error'] or ''):
        raise core.MachineryError('selftest: TLC did not find the scroll counterexample in the as-coded model')
    # 2. code -> spec
    rec = Recorder(ctx)
    rng = ctx.rng
    nhist = ctx.pick(24, 200)
    adapters = list(ADAPTER_MODES)
    for hno in range(nhist):
        random_history(rec, rng, adapters[hno % len(adapters)], rng.randint(*ctx.pick((20, 55), (25, 70))))
    rec.close()
    events = rec.events
    # chunks start at session boundaries
    chunks, cur = [], []
    for e in events:
        if e['kind'] == 'init' and len(cur) >= 1500:
            chunks.append(cur)
            cur = []
        cur.append(e)
    if cur:
        chunks.append(cur)
    verdicts, base = [], 0
    for ch in chunks:
        vs = ctx.validate('VideoSignals_Trace', [{k: e[k] for k in KEEP} for e in ch])
        verdicts += [(base + i, c) for (i, c) in vs]
        base += len(ch)
    ctx.cov['traces_validated_against_impl'] += nhist
    stats = {'mode': 0, 'update': 0, 'clear': 0, 'scroll': 0}
    reported_rawdiff = []
    for e in events:
        for sg in e['sigs']:
            stats[sg['t']] += 1
        ctx.count([e['stmt'], [[s['t'], s.get('row'), s.get('col'), s.get('a'), s.get('b'), s.get('back')] for s in e['sigs']], len(e['emu']['rows'])],
                  nontrivial=bool(e['sigs']))
        if e['kind'] == 'internal':
            ctx.reject('C35 internal error on %s' % e['stmt'], key={'clause': 'internal'}, data={'stmt': e['stmt']})
        if e.get('rawdiff') and not reported_rawdiff:
            # once per history is enough (the difference persists until the row is written again)
            reported_rawdiff.append(1)
            ctx.reject('C35 reported_characters_disagree (get_chars() bytes vs unicode: [row, col, byte, unicode]) %s at %r adapter=%s mode=%s vpage=%s apage=%s' % (
                e['rawdiff'][:4], e['stmt'][:80], e['adapter'], e['mode'], e['vpage'], e['apage']),
                key={'clause': 'reported_characters_disagree', 'text_mode': e['text']},
                data={'stmt': e['stmt'], 'rawdiff': e['rawdiff'], 'adapter': e['adapter'],
                      'history': [x['stmt'][:160] for x in events[max(0, events.index(e) - 80):events.index(e) + 1]]})
        if e['kind'] == 'init':
            del reported_rawdiff[:]
    ctx.cov['signals'] = stats
    ctx.cov['pixel_block_classes'] = len(rec.intern)
    ctx.cov['events_with_hidden_active_page'] = sum(1 for e in events if e['vpage'] != e['apage'])
    for e in (events[3], events[len(events) // 2], events[-1]):
        ctx.sample({'stmt': e['stmt'][:100], 'mode': e['mode'], 'signals': [s['t'] for s in e['sigs']][:12], 'rows_changed': len(e['emu']['rows'])})
    for (i, v) in verdicts:
        e = events[i - 1]
        j = i - 1
        while events[j]['kind'] != 'init':
            j -= 1
        hist = [x['stmt'][:120] for x in events[j:i]]
        clause = v[0]
        key = {'clause': clause}
        key.update(classify(events, i - 1))
        ctx.reject('C35 %s %s at %r adapter=%s mode=%s attr=%s vpage=%s apage=%s signals=%s after %s' % (
            clause, v[1:], e['stmt'][:80], e['adapter'], e['mode'], e['attr'], e['vpage'], e['apage'],
            [(s['t'], s.get('a'), s.get('b'), s.get('back')) if s['t'] != 'update' else ('update', s['row'], s['col']) for s in e['sigs']][:6], hist[-4:-1]),
            key=key, data={'verdict': v, 'stmt': e['stmt'], 'adapter': e['adapter'], 'mode': e['mode'], 'history': hist[-60:]})
    if stats['scroll'] == 0 or stats['clear'] == 0 or stats['update'] == 0 or stats['mode'] == 0:
        raise core.MachineryError('vacuous: a kind of signal never occurred: %s' % stats)
