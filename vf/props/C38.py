"""C38 — event traps. Spec Interp.tla (Occur / Dispatch / TRAP commands / RETURN re-arming / error-handler suspension);
model Interp_MC_trap explores every schedule with ghost-variable properties; enumerated schedules are run on the real code."""
import re, json, itertools
from .. import interp_check, core
from .. import interp_gen as G

LEVEL = 'model_checking'
META = {
    'technique': 'TLC explores every interleaving of event occurrences with statement boundaries on Interp.tla and checks the trap properties on ghost variables; '
                 'enumerated and random occurrence schedules are injected into the real interpreter at exact statement boundaries (hook H1) and the traces validated by TLC',
    'text': 'Interp_MC_trap: 144 programs (KEY(1) ON/OFF/STOP twice in the main line, handler doing nothing/ON/OFF/STOP, optional second trap, optional trapped error) x every schedule of up to 3 occurrences '
            '(2 in the quick tier) of 2 events at any statement boundary; invariants OnlyIfOccurred, OnlyWhenOn, NotInErrorHandler, NoReentry, Prompt over independently maintained ghost state. '
            'Code side: for every family program all schedules with one occurrence (event x boundary) and sampled/all pairs are executed on the real interpreter by putting real KEYB_DOWN / PEN_DOWN / STICK_DOWN signals '
            'in the input queue at that boundary; random trap programs with random schedules add loops, subroutines and error handlers. Every boundary (position, output of handlers, variables) must be a step of Interp.tla; '
            'the dispatch order of simultaneously pending traps is left open.',
    'note': 'Trusted: TLC, hook H1 (injection happens before the interpreter polls its queue at that boundary), signals for KEY(1), KEY(2), PEN, STRIG(0). TIMER/PLAY/COM use the same handler '
            'logic in the code (EventHandler) but are not injected (COM needs a serial endpoint, TIMER/PLAY real time). STOP of a trap that is OFF is treated as OFF (GW-BASIC semantics).',
}
META['text'] += ' For every family program the first occurrence that made handler 1 run is repeated with a second occurrence at every boundary inside the handler (before/after its own KEY(1) ON/OFF/STOP).'


def schedules_for(ctx, n, quick):
    out = [{}]
    single = [(b, k) for b in range(1, n + 1) for k in (1, 2)]
    out += [{b: [k]} for (b, k) in single]
    pairs = [(x, y) for x in single for y in single if x <= y]
    if quick:
        pairs = ctx.rng.sample(pairs, min(len(pairs), 12))
    else:
        pairs = ctx.rng.sample(pairs, min(len(pairs), 150))
    for (x, y) in pairs:
        s = {}
        s.setdefault(x[0], []).append(x[1])
        s.setdefault(y[0], []).append(y[1])
        out.append(s)
    return out


def run(ctx):
    ctx.cov['rule'] = ('one case = one (program, occurrence schedule) executed on the real interpreter; evaluations = statement boundaries validated; '
                       'distinct = distinct (program, schedule) pairs')
    r = ctx.model_check(ctx.pick("Interp_MC_trap2", "Interp_MC_trap"), cfg=ctx.pick("Interp_MC_trap2.cfg", "Interp_MC_trap.cfg"), workers=ctx.pick(4, 8),
                        require_actions=False, timeout=3000)
    progs = []
    for m in re.finditer(r'^<<"PROGRAM", "(.*)">>\s*$', r['out'], re.M):
        progs.append(json.loads(m.group(1).encode().decode('unicode_escape')))
    if len(progs) < 100:
        raise core.MachineryError('trap family not emitted')
    if ctx.quick():
        # the programs that remove and re-install a trap line (ON KEY(1) GOSUB 0) are always run; a sample of the others
        special = [q for q in progs if any(st.get('op') == 'ONTRAP' and st.get('n') == 0 for ln in q['lines'] for st in ln['s'])]
        rest = [q for q in progs if q not in special]
        progs = special + ctx.rng.sample(rest, 44)
    runner = G.Runner()
    events, owner, cases = [], [], []
    ndisp = 0
    nreentry = [0]
    for pi, prog in enumerate(progs):
        prog.pop('tag', None)
        text = G.render(prog)
        if runner.load(text)[0] != 'ok':
            raise core.MachineryError('family program rejected: %r' % text)
        base = runner.run(pi + 1, prog['vars'])
        n = sum(1 for e in base if e['a'] == 'b')
        reentry = None
        todo = list(schedules_for(ctx, n, ctx.quick()))
        while todo:
            sched = todo.pop(0)
            ev = runner.run(pi + 1, prog['vars'], schedule=sched)
            cases.append((pi, sched, text))
            owner += [len(cases) - 1] * len(ev)
            events += ev
            ndisp += sum(1 for e in ev if any(x in (9, 7) for x in e.get('out', [])))
            ctx.count([text, sorted(sched.items())])
            if reentry is None and len(sched) == 1 and list(sched.values()) == [[1]]:
                # handler-reentry schedules (choice of inputs only): the first single occurrence of event 1 that made handler 1
                # (line 100) run is repeated with a second occurrence of the same event at every boundary inside the handler,
                # i.e. before and after the handler's own KEY(1) ON / OFF / STOP
                bs = [e for e in ev if e['a'] == 'b']
                inside = [i + 1 for i, e in enumerate(bs) if e['line'] == 100]
                if inside:
                    b0 = list(sched)[0]
                    reentry = [{b0: [1], k: [1]} if k != b0 else {b0: [1, 1]} for k in inside[:4] + [inside[-1] + 1]]
                    todo += reentry
                    nreentry[0] += len(reentry)
        if runner.count > 400:
            runner.close()
            runner = G.Runner()
            runner.load(text)
    runner.close()
    ctx.cov['handler_entries_observed'] = ndisp
    ctx.cov['handler_reentry_schedules'] = nreentry[0]
    if ndisp < 20:
        raise core.MachineryError('vacuous: handlers almost never ran')
    slim = [{k: v for k, v in e.items() if k not in ('raw', 'detail')} for e in events]
    CH = 60000
    i0 = 0
    while i0 < len(slim):
        # cut at a run boundary
        i1 = min(len(slim), i0 + CH)
        while i1 < len(slim) and slim[i1]['a'] != 'run':
            i1 += 1
        verdicts = ctx.validate('Interp_Trace', slim[i0:i1], header={'progs': progs}, timeout=3000)
        seen = set()
        for (i, clause) in verdicts:
            ci = owner[i0 + i - 1]
            if ci in seen or clause == 'outside_fragment':
                continue
            seen.add(ci)
            e = events[i0 + i - 1]
            pi, sched, text = cases[ci]
            ctx.reject('C38 %s with schedule %s at event %s' % (clause, sched, {k: e[k] for k in e if k != 'vars'}),
                       key={'clause': clause}, data={'program': text, 'schedule': sched})
        i0 = i1
    ctx.cov['traces_validated_against_impl'] += len(cases)
    ctx.sample({'program': cases[1][2], 'schedule': cases[1][1]})
    # random trap programs with random schedules

    def rs(rng, prog):
        s = {}
        for _ in range(rng.randint(0, 6)):
            s.setdefault(rng.randint(1, 45), []).append(rng.choice([1, 2, 3, 4]))
        return s
    interp_check.run_family(ctx, {'ctl', 'trap', 'err'}, ctx.pick(150, 4000), size=10, schedules=rs,
                            focus={'trap': 25, 'for': 10, 'simple': 25, 'err': 5, 'gosub': 8}, direct=0.6)
