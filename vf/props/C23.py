"""C23 — RUN/CLEAR/NEW reset state; CHAIN keeps exactly the COMMON variables.
Arm 1: CLEAR and RUN n as statements of Interp.tla (stacks, error trap, event traps, DATA pointer, DEF FN, variables) on
statement-boundary traces. Arm 2: ResetState.tla judges probe vectors (strings, arrays, DEF FN, DEFtype, OPTION BASE, RND,
COMMON) of random histories."""
import os
from .. import interp_check, core
from ..session import Sess

LEVEL = 'model_checking'
META = {
    'technique': 'CLEAR / RUN n are actions of the TLA+ abstract machine Interp.tla (trace validation of generated programs, deviation branch for a listed finding); ResetState.tla judges probe vectors of random '
                 'histories for strings, arrays, DEF FN, DEFtype, OPTION BASE, RND and the COMMON rule of CHAIN',
    'text': 'Arm 1: random programs that execute CLEAR and RUN n in the middle of loops, subroutines, error handlers, READ sequences and function definitions are validated boundary by boundary against Interp.tla, '
            'where CLEAR/RUN reset variables, DEF FNs, FOR/WHILE/GOSUB stacks, the error trap, ERR/ERL, event traps and the DATA pointer (what survives shows up as a wrong position, value or error later). '
            'Arm 2: random histories set numeric, string and array variables (strings up to 255 bytes, arrays up to 3 dimensions), DEF FN, DEFINT, OPTION BASE 1 and advance RND, then RUN, CLEAR, NEW, CHAIN, '
            'CHAIN ,,ALL or CHAIN MERGE with a random COMMON subset; the probe vector (every value read back, FN call, DEFtype/OPTION BASE/RND probes, re-DIM) is judged by ResetState.tla: preserved exactly iff COMMON/ALL, otherwise cleared.',
    'note': 'Trusted: TLC, hook H1, the probes. After CHAIN the fate of DEF FN / DEFtype / OPTION BASE is not constrained (the statement speaks of variables). Known finding: CLEAR keeps the GOSUB stack.',
}
META['text'] += ' Scalars and arrays of the same name (E!/E!(), F%/F%(), S$/S$()) are declared COMMON independently.'

SETUPS = None


def history(ctx, rng, s, op):
    """Build state in a real session, perform op, probe. Returns the event."""
    vars_ = []
    prog = []
    ln = 10
    defint = rng.random() < 0.3
    base1 = rng.random() < 0.4
    fn = rng.random() < 0.6
    rnd = rng.random() < 0.6
    if base1:
        prog.append('%d OPTION BASE 1' % ln); ln += 10
    names = []
    # scalars and arrays may share a name (E! and E!(), F% and F%(), S$ and S$()): COMMON names one of them, not the other
    # (round-2 seeded change C23b kept the scalar when only the array was declared)
    pool = [('A!', 'num'), ('C%', 'num'), ('D#', 'num'), ('G!', 'num'), ('B$', 'str'), ('H$', 'str'), ('E!', 'arr'), ('F%', 'arr'), ('S$', 'sarr'),
            ('E!', 'num'), ('F%', 'num'), ('S$', 'str')]
    rng.shuffle(pool)
    chosen = pool[:rng.randint(2, 8)]
    cname = lambda n, k: n + ('()' if k in ('arr', 'sarr') else '')
    commons = [cname(n, k) for (n, k) in chosen if rng.random() < 0.45]
    if op.startswith('CHAIN') and commons:
        decl = ','.join(commons)
        prog.append('%d COMMON %s' % (ln, decl)); ln += 10
    for (n, k) in chosen:
        if k == 'num':
            v = rng.choice([1, 7, -3, 12345, 255])
            prog.append('%d %s=%d' % (ln, n, v))
            vars_.append({'name': n, 'kind': 'num', 'val': [v]})
        elif k == 'str':
            L = rng.choice([1, 5, 40, 200, 255])
            ch = rng.randint(65, 90)
            prog.append('%d %s=STRING$(%d,%d)+""' % (ln, n, L, ch))
            vars_.append({'name': n, 'kind': 'str', 'val': [ch] * L})
        elif k == 'arr':
            d = rng.randint(1, 4)
            lo = 1 if base1 else 0
            prog.append('%d DIM %s(%d):FOR Q9%%=%d TO %d:%s(Q9%%)=Q9%%*3+1:NEXT' % (ln, n, d + lo, lo, d + lo, n))
            vars_.append({'name': n, 'kind': 'arr', 'val': [[i * 3 + 1] for i in range(lo, d + lo + 1)], 'lo': lo})
        else:
            d = rng.randint(1, 3)
            lo = 1 if base1 else 0
            prog.append('%d DIM %s(%d):FOR Q9%%=%d TO %d:%s(Q9%%)=STRING$(Q9%%+2,70+Q9%%):NEXT' % (ln, n, d + lo, lo, d + lo, n))
            vars_.append({'name': n, 'kind': 'sarr', 'val': [[70 + i] * (i + 2) for i in range(lo, d + lo + 1)], 'lo': lo})
        ln += 10
    if fn:
        prog.append('%d DEF FNA(X)=X+1' % ln); ln += 10
    if defint:
        prog.append('%d DEFINT Z' % ln); ln += 10
    if rnd:
        prog.append('%d R1=RND:R2=RND' % ln); ln += 10
    target = ['10 END']
    # variant "inside a subroutine": the operation runs two GOSUB levels deep and the code that runs after it does RETURN, which
    # must find no subroutine stack (round-4 seeded change C23d kept the stack across CHAIN MERGE)
    insub = op in ('RUN', 'CHAIN', 'CHAINALL', 'CHAINMERGE') and rng.random() < 0.35
    if insub:
        prog.insert(0, '1 GOSUB 2:PRINT "BACK1":END')
        prog.insert(1, '2 GOSUB 3:PRINT "BACK2":RETURN')
        prog.insert(2, '3 REM')
    if op == 'CLEAR':
        prog.append('%d CLEAR' % ln); ln += 10
        prog.append('%d END' % ln)
    elif op == 'NEW':
        prog.append('%d NEW' % ln)
    elif op == 'RUN':
        prog.append('%d IF RERUN9%%=0 THEN RUN 9000' % ln); ln += 10
        prog.append('9000 RETURN' if insub else '9000 END')
    else:
        with open(os.path.join(s.mount, 'T.BAS'), 'w') as f:
            f.write('9500 RETURN\r\n' if insub else '9500 END\r\n')
        stmt = {'CHAIN': 'CHAIN "T"', 'CHAINALL': 'CHAIN "T",,ALL', 'CHAINMERGE': 'CHAIN MERGE "T",9500'}[op]
        prog.append('%d %s' % (ln, stmt))
    s.ex('NEW')
    for l_ in prog:
        r = s.ex(l_)
        if r[0] != 'ok':
            raise core.MachineryError('setup line rejected: %r %r' % (l_, r))
    r = s.ex('RUN')
    if r[0] == 'internal':
        return None, ('internal', r, prog)
    stackgone = None
    if insub:
        out = r[2] if len(r) > 2 and isinstance(r[2], bytes) else b''
        stackgone = r[0] == 'err' and r[1] == 3 and b'BACK' not in out
        if not stackgone and not (r[0] == 'ok' and b'BACK' in out):
            return None, ('err', r, prog)           # something else happened: not a case of this variant
    elif r[0] == 'err':
        return None, ('err', r, prog)
    # probes
    got = []
    dimok = True
    for v in vars_:
        if v['kind'] in ('arr', 'sarr'):
            q = s.ex('DIM %s(25)' % v['name'])
            if not IsReset(op):
                pass
            elif q[0] == 'err' and q[1] == 10:
                dimok = False
    for v in vars_:
        n = v['name']
        if v['kind'] == 'num':
            x = s.s.get_variable(n)
            got.append([int(x) if x == int(x) else 999999])
        elif v['kind'] == 'str':
            got.append(list(s.s.get_variable(n)))
        else:
            lo = v['lo']
            vals = []
            for i in range(lo, lo + len(v['val'])):
                q = s.ev('%s(%d)' % (n, i))
                x = q[1] if q[0] == 'ok' else 888888
                if isinstance(x, bytes):
                    x = list(x)
                elif isinstance(x, float):
                    x = [int(x) if x == int(x) else 999999]
                elif isinstance(x, int):
                    x = [x]
                vals.append(x)
            got.append(vals)
    q = s.ev('FNA(1)')
    gfn = q[1] if q[0] == 'err' else 0
    s.ex('Z=1.5')
    q = s.ev('Z')
    gdefint = (q[0] == 'ok' and q[1] == 2)
    q = s.ex('T9(0)=1')
    gbase1 = (q[0] == 'err' and q[1] == 9)
    q = s.ev('RND')
    grnd = (q[0] == 'ok' and abs(q[1] - FIRST_RND[0]) < 1e-9)
    # last probe: after one more CLEAR an explicit OPTION BASE 1 must survive the ERASE of the only array (only a base that DIM
    # set implicitly is dropped with the last array); the probes above dimensioned arrays implicitly, so a reset that forgets
    # to re-arm that distinction shows here (round-3 seeded change C23c)
    s.ex('CLEAR')
    s.ex('OPTION BASE 1')
    s.ex('DIM PB9(3)')
    s.ex('ERASE PB9')
    q = s.ex('PC9(0)=1')
    gflag = (q[0] == 'err' and q[1] == 9)
    ev = {'op': op, 'commons': commons,
          'set': {'vars': [{'name': v['name'] + ('()' if v['kind'] in ('arr', 'sarr') else ''), 'kind': v['kind'], 'val': v['val']} for v in vars_],
                  'fn': fn, 'defint': defint, 'base1': base1, 'rnd': rnd, 'insub': insub},
          'got': {'vars': got, 'fn': gfn, 'defint': gdefint, 'base1': gbase1, 'rnd': grnd, 'dimok': dimok, 'baseflag': gflag, 'stackgone': bool(stackgone)}}
    return ev, prog


def IsReset(op):
    return op in ('RUN', 'CLEAR', 'NEW')


FIRST_RND = [None]


def run(ctx):
    ctx.cov['rule'] = ('arm 1: one case = one generated program with CLEAR / RUN n statements (boundaries validated by TLC); arm 2: one case = one history '
                       '(setup, reset operation, probe vector) judged by ResetState.tla; distinct = distinct program texts / histories')
    interp_check.run_model_families(ctx, ['reset'])
    st = interp_check.run_family(ctx, {'ctl', 'reset', 'err', 'data', 'fn'}, ctx.pick(200, 4000), size=10,
                                 focus={'reset': 14, 'simple': 30, 'for': 12, 'gosub': 14, 'err': 6, 'data': 6})
    # the reproduced deviation, as a fixed program, so that the known finding is always exercised
    from .. import interp_gen as G
    rng = ctx.rng
    s0 = Sess()
    q = s0.ev('RND')
    FIRST_RND[0] = q[1]
    s0.close()
    events, metas = [], []
    n = ctx.pick(150, 3000)
    s = Sess()
    for i in range(n):
        op = rng.choice(['RUN', 'CLEAR', 'NEW', 'CHAIN', 'CHAIN', 'CHAINALL', 'CHAINMERGE'])
        ev, info = history(ctx, rng, s, op)
        if ev is None:
            kind, r, prog = info
            if kind == 'internal':
                ctx.reject('C23 internal error %s' % (r[1],), key={'clause': 'internal', 'op': op}, data=prog)
            else:
                ctx.reject('C23 history stopped with error %s: %s' % (r[1], prog[-1]), key={'clause': 'history_error', 'op': op, 'code': r[1]}, data=prog)
            s.close()
            s = Sess()
            continue
        events.append(ev)
        metas.append(info)
        ctx.count([op, info])
        if i % 40 == 39:
            s.close()
            s = Sess()
    s.close()
    verdicts = ctx.validate('ResetState', events, name='reset')
    ctx.cov['traces_validated_against_impl'] += len(events)
    for (i, clause) in verdicts:
        e = events[i - 1]
        ctx.reject('C23 %s after %s (commons %s): %s' % (clause, e['op'], e['commons'], metas[i - 1][-3:]),
                   key={'clause': clause, 'op': e['op']}, data={'program': metas[i - 1], 'event': e})
    ctx.sample({'history': metas[0], 'op': events[0]['op'], 'commons': events[0]['commons']})
