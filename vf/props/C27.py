"""C27 - BASIC file access stays inside the mounted drives.
Spec DosPath.tla; models DosPath_MC*.cfg; trace spec DosPath_Trace; monitor vf/fsmon.py (sys.addaudithook)."""
import os, re, json, shutil, tempfile, threading, logging
from ..session import Sess
from .. import core, fsmon

LEVEL = 'model_checking'
META = {
    'technique': 'TLC exhaustive model check of DosPath.tla (path resolution with clamping, every file statement as a set of host '
                 'operations) + replay of every model transition on a real Session inside a sandbox + TLC trace validation of '
                 'enumerated, fragment-random and garbage path strings; host operations observed by an audit-hook monitor',
    'text': 'DosPath.tla models the host file system as a tree, one current directory per drive and Apply(st, statement) for OPEN/LOAD/'
            'SAVE/MERGE/CHAIN/RUN/BLOAD/BSAVE/KILL/NAME/FILES/MKDIR/RMDIR/CHDIR as the set of host operations (op, path, kind of target). '
            'Invariants: every operation that can have an effect lies below a mount root, no current directory leaves its root. TLC checks them for '
            'every path string of <= 3 (quick) / 4 (thorough) elements over {.., ., "", A, B, F, "A ", ".. ", ". "} from every reachable current '
            'directory; every transition of the 2-element model is replayed on a real Session whose host operations are recorded by a '
            'sys.addaudithook monitor, and DosPath_Trace.tla judges each statement (containment of effective operations, sentinels outside '
            'the mounts unchanged, cwd inside, sandbox/cwd after the statement = Apply() of the state before).',
    'note': 'Trusted: TLC, the audit-hook monitor (Python-level open/os.*/shutil.* only; os.stat-family calls are not audit events and are not '
            'observed), realpath. An operation the host must refuse because of the kind of its target (mkdir/rmdir/open-for-write on the '
            'existing non-empty directory above the mount, reached by a final element "..") reads/creates/modifies nothing and is counted, '
            'not rejected. Symbolic links inside a mount and mount specifications that carry their own start directory are outside the fragment.',
}

TEMPLATES = {
    'OPENI': 'OPEN P$ FOR INPUT AS 1:CLOSE 1', 'OPENO': 'OPEN P$ FOR OUTPUT AS 1:CLOSE 1',
    'OPENA': 'OPEN P$ FOR APPEND AS 1:CLOSE 1', 'OPENR': 'OPEN P$ FOR RANDOM AS 1:CLOSE 1',
    'LOAD': 'LOAD P$', 'MERGE': 'MERGE P$', 'CHAIN': 'CHAIN P$', 'RUN': 'RUN P$', 'BLOAD': 'BLOAD P$',
    'SAVE': 'SAVE P$', 'BSAVE': 'BSAVE P$,0,16', 'KILL': 'KILL P$', 'FILES': 'FILES P$', 'MKDIR': 'MKDIR P$',
    'RMDIR': 'RMDIR P$', 'CHDIR': 'CHDIR P$', 'NAME': 'NAME P$ AS Q$',
}
ALL_STMTS = sorted(TEMPLATES)
MUTATING = {'OPENO', 'OPENA', 'OPENR', 'SAVE', 'BSAVE', 'KILL', 'MKDIR', 'RMDIR', 'NAME'}
# names that select a non-disk device: reading the keyboard would block, printers/serial ports are not files
_DEVS = {b'KYBD', b'SCRN', b'LPT1', b'LPT2', b'LPT3', b'COM1', b'COM2', b'CAS1'}
_DOSDEV = {b'CON', b'AUX', b'PRN', b'NUL'}
_DOTBLANK = re.compile(rb'^\.+[ \t\n\r\x0b\x0c]+$')


def is_device(p):
    head = p.split(b':', 1)
    if len(head) > 1 and head[0].upper() in _DEVS:
        return True
    return p.upper().strip() in _DOSDEV or p.upper() in _DOSDEV


def dev_prefix_class(p):
    """input class of the device prefix (text before the first colon)"""
    sp = p.split(b':', 1)
    if len(sp) == 1:
        return 'none'
    d = sp[0].upper()
    if len(d) == 1 and d in b'@ABCDEFGHIJKLMNOPQRSTUVWXYZ':
        return 'drive'
    if d in b'@ABCDEFGHIJKLMNOPQRSTUVWXYZ':
        return 'empty_or_run_of_drive_letters'
    return 'other'


def dot_blank(p):
    """input class of the reproduced defect: some path element is dots followed by blanks"""
    rest = p.split(b':', 1)[-1]
    return any(_DOTBLANK.match(e) for e in re.split(rb'[\\/]', rest))


class Box(object):
    """A sandbox directory + a real Session whose drives are mounted inside it + the event recorder."""

    def __init__(self, ctx, dirs, files, roots, cur=b'C', content=None):
        self.ctx = ctx
        self.top = os.path.realpath(tempfile.mkdtemp(prefix='sb_', dir=ctx.tmp))
        self.dirs = sorted(tuple(d) for d in dirs)
        self.files = sorted(tuple(f) for f in files)
        self.roots = {k: list(v) for k, v in roots.items()}
        self.cur = cur
        self.content = content or (lambda f: b'10 REM ' + os.fsencode(f[-1]) + b'\r\n')
        self.sb = fsmon.Sandbox(self.top, self.roots)
        self.events = []
        self.sess = None
        self.restore(force=True)
        self.new_session()

    def header(self):
        return {'roots': [[k[0], fsmon.jpaths([v])[0]] for k, v in sorted(self.roots.items())], 'cur': self.cur[0]}

    def new_session(self):
        if self.sess:
            self.sess.close()
        devs = {k: self.sb.path(v) for k, v in self.roots.items()}
        devs[b'Z'] = None
        self.sess = Sess(mount=self.sb.path(self.roots[self.cur]), devices=devs, current_device=self.cur, peek_values={})
        self.sess.impl.queues.tick = 0       # FILES sleeps one tick per four lines
        self.sess.autocls = False            # every statement starts with LOCATE 1,1 instead (CLS costs ~10 ms)
        self.devs = {k: self.sess.impl.files.get_device(k + b':') for k in self.roots}
        self.need_pre = True
        self.taint = False
        self.snap = self.observe()

    def restore(self, force=False):
        """make the sandbox equal to its definition again"""
        dirs, files, _ = self.sb.snapshot()
        want_d, want_f = set(self.dirs), set(self.files)
        for f in files:
            if f not in want_f:
                os.remove(self.sb.path(f))
        for d in sorted(dirs, key=len, reverse=True):
            if d not in want_d:
                shutil.rmtree(self.sb.path(d), ignore_errors=True)
        for d in self.dirs:
            os.makedirs(self.sb.path(d), exist_ok=True)
        for f in self.files:
            p = self.sb.path(f)
            c = self.content(f)
            if force or not os.path.isfile(p) or os.path.getsize(p) != len(c):
                with open(p, 'wb') as fh:
                    fh.write(c)
        self.need_pre = True

    def observe(self):
        dirs, files, od = self.sb.snapshot()
        cwd = []
        for k, dev in sorted(self.devs.items()) if self.sess else []:
            root = self.sb.path(self.roots[k])
            nc = dev.get_native_cwd()
            rel = nc[len(root):] if nc.startswith(root) else nc
            cwd.append([k[0], [fsmon.nm(x) for x in rel.split(os.sep) if x]])
        return {'dirs': dirs, 'files': files, 'od': od, 'cwd': cwd}

    def jstate(self, o):
        return {'dirs': fsmon.jpaths(o['dirs']), 'files': fsmon.jpaths(o['files']), 'cwd': o['cwd']}

    def chdir_home(self, cwds=None):
        """harness-side reset of the current directories (not an event)"""
        for k in sorted(self.roots):
            rel = (cwds or {}).get(k, [])
            self.sess.ex('CHDIR "%s:\\%s"' % (k.decode(), '\\'.join(rel)))
        self.need_pre = True
        self.taint = False
        self.snap = self.observe()

    def do(self, stmt, path, path2=None, tag=None):
        s = self.sess
        if self.need_pre:
            self.snap = self.observe()
        pre = self.snap
        s.s.set_variable('P$', path)
        if path2 is not None:
            s.s.set_variable('Q$', path2)
        with fsmon.recording() as log:
            r = s.ex('LOCATE 1,1:' + TEMPLATES[stmt], budget=400)
        post = self.observe()
        e = {'stmt': stmt, 'path': list(path), 'od0': pre['od'], 'od1': post['od'],
             'ops': [{'op': o, 'path': fsmon.comps(self.top, rp), 'kind': k} for (o, rp, k) in log]}
        if path2 is not None:
            e['path2'] = list(path2)
        if self.need_pre:
            e['pre'] = self.jstate(pre)
            self.need_pre = False
        if (post['dirs'], post['files'], post['cwd']) != (pre['dirs'], pre['files'], pre['cwd']):
            e['post'] = self.jstate(post)
        db = dot_blank(path) or (path2 is not None and dot_blank(path2))
        cls = 'dot_blank' if db else ('after_dot_blank' if self.taint else 'plain')
        if db and stmt == 'CHDIR' and r[0] == 'ok':
            self.taint = True
        self.snap = post
        info = {'kind': r[0], 'code': r[1] if r[0] == 'err' else 0, 'cls': cls, 'tag': tag, 'box': self,
                'cwd0': pre['cwd'], 'out': (r[2] if len(r) > 2 else b'')[:200], 'exc': r[1] if r[0] == 'internal' else None,
                'pre': pre}
        if r[0] in ('internal', 'exit', 'cut'):
            s.ex('CLOSE')
        self.events.append((e, info))
        return e, info

    def close(self):
        if self.sess:
            self.sess.close()
            self.sess = None


def s2n(js):
    return tuple(bytes(n).decode('latin-1') for n in js)


# ---------------------------------------------------------------------------------------------------------------
def replay_model(ctx, cfg, workers):
    """spec -> code: every transition TLC emits from the (file-system-frozen) model, each from its own model state"""
    r = ctx.tlc('DosPath_MC', cfg, workers=workers, tag='emit')
    if not r['ok']:
        raise core.MachineryError('emit run %s failed: %s\n%s' % (cfg, r['error'], r['out'][-2000:]))
    trans, sandbox = [], None
    for line in r['out'].splitlines():
        m = re.match(r'^<<"(TRANSITION|SANDBOX)", "(.*)">>\s*$', line)
        if m:
            doc = json.loads(m.group(2).encode().decode('unicode_escape'))
            if m.group(1) == 'SANDBOX':
                sandbox = doc
            else:
                trans.append(doc)
    if not sandbox or not trans:
        raise core.MachineryError('no transitions emitted by %s' % cfg)
    ctx.cov['states'] += r['distinct']
    ctx.cov['transitions'] += r['generated']
    roots = {bytes([d]): list(s2n(p)) for d, p in sandbox['roots']}
    box = Box(ctx, [s2n(d) for d in sandbox['dirs']], [s2n(f) for f in sandbox['files']], roots, cur=bytes([sandbox['cur']]))
    trans.sort(key=lambda t: json.dumps(t['cwd']))
    cur_from = None
    n = 0
    for t in trans:
        frm = {bytes([d]): list(s2n(c)) for d, c in t['cwd']}
        a = t['a']
        dirty = False
        if box.snap['dirs'] != box.dirs or box.snap['files'] != box.files or getattr(box, 'rewrite', False):
            box.restore(force=True)
            box.rewrite = False
            dirty = True
        now = {bytes([d]): [bytes(x).decode('latin-1') for x in c] for d, c in box.snap['cwd']}
        if now != frm or dirty:
            box.chdir_home(frm)
            now = {bytes([d]): [bytes(x).decode('latin-1') for x in c] for d, c in box.snap['cwd']}
            if now != frm:
                raise core.MachineryError('cannot bring the session into model state cwd=%r (is %r)' % (frm, now))
        e, info = box.do(a['stmt'], bytes(a['path']), bytes(a['path2']) if 'path2' in a else None, tag='replay')
        info['model_ok'] = t['ok']
        if a['stmt'] in MUTATING and info['kind'] == 'ok':
            box.rewrite = True     # contents may have changed (OUTPUT truncates)
        n += 1
    ctx.cov['model_transitions'] = ctx.cov.get('model_transitions', 0) + len(trans)
    ctx.cov['model_transitions_replayed'] = ctx.cov.get('model_transitions_replayed', 0) + n
    return box


RICH_DIRS = [('S',), ('S', 'M'), ('S', 'M', 'A'), ('S', 'M', 'A', 'B'), ('S', 'M', 'A', 'A'), ('S', 'M', 'B'),
             ('S', 'M', 'LongDirectoryName'), ('S', 'M', 'Sub Dir'), ('S', 'M2'), ('S', 'M2', 'A'), ('S', 'MX'),
             ('S', 'SIB'), ('S', 'SIB', 'A'), ('S', 'SECRETS')]
RICH_FILES = [('T',), ('TOP.TXT',), ('S', 'X'), ('S', 'SECRET.TXT'), ('S', 'F'), ('S', 'N'), ('S', 'A.BAS'), ('S', 'MX', 'F'),
              ('S', 'SIB', 'F'), ('S', 'SIB', 'A', 'F'), ('S', 'SECRETS', 'F.BAS'),
              ('S', 'M', 'F'), ('S', 'M', 'F.BAS'), ('S', 'M', 'A', 'F'), ('S', 'M', 'A', 'B', 'N'), ('S', 'M', 'B', 'F'),
              ('S', 'M', 'LongFileName.text'), ('S', 'M', 'caf\u00e9.txt'), ('S', 'M', '.hidden'), ('S', 'M', 'Mixed.Cas'),
              ('S', 'M', 'LongDirectoryName', 'F'), ('S', 'M2', 'F'), ('S', 'M2', 'A', 'N')]
RICH_ROOTS = {b'C': ['S', 'M'], b'D': ['S', 'M2'], b'E': ['S', 'M', 'A']}      # E: is nested inside C:
FRAG_ELEMS = [b'..', b'.', b'', b'A', b'B', b'F', b'N', b'a', b'A ', b'.. ', b'. ', b'..  ', b'N.A', b'F.', b'...', b' A', b'AA', b'B.B']
FRAG_CHARS = b'ABFNa. \\ABFNa. \\/'
GARBAGE = b'ABCDEFGHIJKLMNOPQRSTUVWXYZ@:\\/.*? '


def frag_path(rng, maxel=5):
    c = rng.random()
    if c < 0.25:
        s = bytes(rng.choice(FRAG_CHARS) for _ in range(rng.randint(1, 9)))
    else:
        s = b'\\'.join(rng.choice(FRAG_ELEMS) for _ in range(rng.randint(0, maxel)))
        if rng.random() < 0.3:
            s = b'\\' + s
    if rng.random() < 0.12 and b'\\' in s:
        i = rng.choice([k for k, ch in enumerate(s) if ch == 92])
        s = s[:i] + b'/' + s[i + 1:]
    if s[:2] in (b'\\\\', b'//', b'\\/', b'/\\') and rng.random() < 0.9:
        s = s[1:]
    c = rng.random()
    if c < 0.25:
        s = rng.choice([b'C:', b'c:', b'D:', b'd:', b'E:', b'G:', b'@:']) + s
    return s


def garbage_path(rng):
    c = rng.random()
    if c < 0.45:
        s = bytes(rng.choice(GARBAGE) for _ in range(rng.randint(1, 14)))
    elif c < 0.75:
        # structured: escape-looking elements mixed with noise
        el = [b'..', b'.. ', b'..\t', b'...', b'. .', b'.', b'', b'A', b'*', b'?', b'*.*', b'SECRET.TXT', b'X', b'SIB', b'MX', b'M',
              b'..\\..', b'LongDirectoryName', b'LONGDIRE', b'Sub Dir', b'caf\x82.txt', b' ..', b'..\xff', b'\x00', b'..\x00',
              b'C:', b'D:', b'E:', b':', b'/', b'//', b'\\\\?', b'\\\\.', b'%2e%2e', b'..;', b'AUXX', b'S', b'M2', b'T', b'TOP.TXT']
        sep = rng.choice([b'\\', b'\\', b'\\', b'/', b'\\\\', b''])
        s = sep.join(rng.choice(el) for _ in range(rng.randint(1, 6)))
        if rng.random() < 0.3:
            s = rng.choice([b'\\', b'\\\\', b'/', b'C:\\', b'D:', b'E:..\\', b'c:..', b'@:', b'Z:', b'A:']) + s
    elif c < 0.85:
        # long names
        n = rng.randint(60, 250)
        s = (rng.choice([b'..\\', b'A\\', b'.. \\', b'', b'\\']) + bytes(rng.choice(b'AB.\\ ') for _ in range(n)))[:255]
    else:
        s = bytes(rng.randrange(256) for _ in range(rng.randint(1, 12)))
        if rng.random() < 0.5:
            s = rng.choice([b'..\\', b'.. \\', b'\\', b'A\\']) + s
    s = s[:255]
    return s


def model_check(ctx, module, cfg, workers):
    """exhaustive TLC run (like ctx.model_check but without -coverage: with ~10^5 successors per state the coverage
    bookkeeping exhausts the heap); an invariant / action-property violation is a rejection"""
    r = ctx.tlc(module, cfg, workers=workers, timeout=3000, tag='model check')
    ctx.cov['states'] += r['distinct']
    ctx.cov['transitions'] += r['generated']
    if not r['ok']:
        if r['error'] and 'violated' not in r['error']:
            raise core.MachineryError('TLC run %s/%s failed: %s\n%s' % (module, cfg, r['error'], r['out'][-1500:]))
        ctx.reject('TLC model check of %s (%s) failed: %s' % (module, cfg, r['error']),
                   key={'clause': 'model_check', 'module': module}, data=r['out'][-4000:])
    if r['generated'] < 1000:
        raise core.MachineryError('vacuous model check %s/%s: %d transitions' % (module, cfg, r['generated']))
    return r


def run(ctx):
    ctx.cov['rule'] = ('events = BASIC file statements executed on a real Session in a sandbox; distinct by (statement form, path string(s), '
                       'current directories before); non-trivial = statements that issued at least one host operation or changed a cwd')
    rng = ctx.rng
    quick = ctx.quick()
    logging.disable(logging.ERROR)     # pcbasic logs every unmapped errno of a refused host operation
    # 1. design: exhaustive bounded model check (+ in the thorough tier: all statement forms, two drives, nested mount,
    #    evolving file system, and the as-coded configuration in which TLC must find the reproduced escape)
    dev = bool(os.environ.get('C27_DEV'))
    bg, bg_err = [], []

    def background(fn):
        def wrap():
            try:
                fn()
            except BaseException as ex:  # noqa
                bg_err.append(ex)
        t = threading.Thread(target=wrap)
        t.start()
        bg.append(t)

    def all_model_checks():
        # (TLC runs are subprocesses: they proceed while this process drives the interpreter)
        model_check(ctx, 'DosPath_MC', ctx.pick('DosPath_MC.cfg', 'DosPath_MC_big.cfg'), ctx.pick(8, 12))
        if not quick:
            for cfg in ('DosPath_MC_all.cfg', 'DosPath_MC_2drv.cfg', 'DosPath_MC_nested.cfg', 'DosPath_MC_dyn.cfg'):
                model_check(ctx, 'DosPath_MC', cfg, 12)
        r = ctx.tlc('DosPath_MC', 'DosPath_MC_ascoded.cfg', workers=1, tag='ascoded (must fail)')
        if r['ok'] or 'CwdInside' not in (r['error'] or ''):
            raise core.MachineryError('selftest: TLC did not find the ".. " escape in the as-coded model: %s' % r['error'])
        ctx.cov['ascoded_counterexample_found'] = True
    if not dev:
        background(all_model_checks)
    val = Validation(ctx)
    boxes = []
    # 2. spec -> code: replay every transition
    boxes.append(replay_model(ctx, 'DosPath_MC_emit.cfg', workers=4))
    val.submit(boxes[-1])          # validated by TLC while the next arms are driven
    if not quick:
        boxes.append(replay_model(ctx, 'DosPath_MC_emit_big.cfg', workers=4))
        val.submit(boxes[-1])
    # 3. code -> spec
    # (a) every string over { \ . blank A } up to a length, as CHDIR / OPEN / FILES / KILL argument from three current directories
    box = Box(ctx, RICH_DIRS, RICH_FILES, RICH_ROOTS)
    boxes.append(box)
    alpha = b'\\. A'
    strings = [b'']
    for ln in range(ctx.pick(4, 6)):
        strings = strings + [s + bytes([c]) for s in strings if len(s) == ln for c in alpha]
    strings = [s for s in strings if s]
    # ... and with the forward slash (a separator for ntpath.split, Bad file number elsewhere) up to length 3
    sl = [b'']
    for ln in range(3):
        sl = sl + [s + bytes([c]) for s in sl if len(s) == ln for c in alpha + b'/']
    strings += [s for s in sl if b'/' in s]
    for cwd in ([], ['A'], ['A', 'B']):
        for s in strings:
            for stmt in ('CHDIR', rng.choice(['OPENI', 'FILES', 'KILL', 'RMDIR', 'OPENO', 'MKDIR'])):
                dirty = box.snap['dirs'] != box.dirs or box.snap['files'] != box.files
                if dirty:
                    box.restore()
                now = [bytes(x).decode('latin-1') for x in box.snap['cwd'][0][1]]
                if dirty or now != cwd or box.taint:
                    box.chdir_home({b'C': cwd})
                box.do(stmt, s, tag='enum')
    # (a2) every drive prefix x a few paths x the statement classes, cwd's of all drives compared with the model
    for pre in (b'C:', b'c:', b'D:', b'd:', b'E:', b'e:', b'G:', b'@:'):
        box.restore()
        box.chdir_home()
        for pth in (b'A', b'..', b'\\A', b'A\\..', b'N', b'', b'\\', b'.. ', b'F'):
            for stmt in ('CHDIR', 'MKDIR', 'OPENO', 'FILES', 'OPENI', 'KILL', 'RMDIR', 'CHDIR'):
                box.do(stmt, pre + pth, tag='drives')
    # (b) random histories inside the modelled fragment, file system and current directories evolving
    nhist = ctx.pick(40, 400)
    for h in range(nhist):
        box.restore(force=True)
        if h % 10 == 0:
            box.new_session()
        box.chdir_home()
        for step in range(rng.randint(5, 40)):
            stmt = rng.choice(ALL_STMTS + ['CHDIR'] * 6)
            p = frag_path(rng)
            if not p or is_device(p):
                continue
            q = None
            if stmt == 'NAME':
                q = frag_path(rng, 2)
                if not q or is_device(q):
                    continue
            box.do(stmt, p, q, tag='frag')
    # (c) garbage path strings x every statement x CHDIR histories x several drives (one nested)
    nhist = ctx.pick(60, 700)
    for h in range(nhist):
        box.restore(force=True)
        if h % 10 == 0:
            box.new_session()
        box.chdir_home()
        for step in range(rng.randint(10, 50)):
            stmt = rng.choice(ALL_STMTS + ['CHDIR'] * 5)
            p = garbage_path(rng)
            if not p or is_device(p):
                continue
            q = None
            if stmt == 'NAME':
                q = garbage_path(rng)
                if not q or is_device(q):
                    continue
            box.do(stmt, p, q, tag='garbage')
    # behaviours validated: one per replayed transition (each starts in its own model state), one per enumeration start
    # directory / drive prefix, one per random history
    ctx.cov['traces_validated_against_impl'] += ctx.cov.get('model_transitions_replayed', 0) + 3 + 8 + ctx.pick(40, 400) + nhist
    # 4. validation by TLC, one run per chunk, chunks in parallel
    val.submit(box)
    for t in bg:
        t.join()
    if bg_err:
        raise bg_err[0]
    report(ctx, boxes, val.finish())
    for b in boxes:
        b.close()


class Validation(object):
    """TLC trace validation of finished boxes: one TLC run per chunk of events, at most 8 at a time, in the background"""

    def __init__(self, ctx):
        self.ctx = ctx
        self.chunks = []
        self.results = {}
        self.errors = []
        self.threads = []
        self.sem = threading.Semaphore(8)

    def submit(self, b, size=3000):
        evs = b.events
        for i in range(0, len(evs), size):
            part = evs[i:i + size]
            js = [dict(e) for e, _ in part]
            if 'pre' not in js[0]:
                # a chunk must start from an observed state: the previous event's observed state
                js[0]['pre'] = prev_state(evs, i)
            k = len(self.chunks)
            self.chunks.append((b, part, js))
            t = threading.Thread(target=self.work, args=(k,))
            t.start()
            self.threads.append(t)

    def work(self, k):
        b, part, js = self.chunks[k]
        with self.sem:
            try:
                self.results[k] = self.ctx.validate('DosPath_Trace', js, header=b.header(), name='c27_%d' % k)
            except BaseException as ex:  # noqa
                self.errors.append(ex)

    def finish(self):
        for t in self.threads:
            t.join()
        if self.errors:
            raise self.errors[0]
        return self.chunks, self.results


def judge(ctx, boxes):
    val = Validation(ctx)
    for b in boxes:
        val.submit(b)
    report(ctx, boxes, val.finish())


def report(ctx, boxes, done):
    chunks, results = done
    nops = nout = 0
    bytag = {}
    for k, (b, part, js) in enumerate(chunks):
        for e, info in part:
            bytag[info['tag']] = bytag.get(info['tag'], 0) + 1
            nops += len(e['ops'])
            root_js = [h[1] for h in b.header()['roots']]
            for o in e['ops']:
                if not any(o['path'][:len(rj)] == rj for rj in root_js):
                    nout += 1
            ctx.count([e['stmt'], e['path'], e.get('path2'), info['cwd0']], nontrivial=bool(e['ops']) or 'post' in e)
            if info['kind'] == 'internal':
                ctx.reject('C27 internal error on %s %r%s: %s' % (e['stmt'], bytes(e['path']),
                                                                  (' AS %r' % bytes(e['path2'])) if 'path2' in e else '', info['exc']),
                           key={'clause': 'internal', 'stmt': e['stmt'], 'exc': str(info['exc']).split(':')[0],
                                'devprefix': ('empty_or_run_of_drive_letters' if 'path2' in e and dev_prefix_class(bytes(e['path2'])) ==
                                              'empty_or_run_of_drive_letters' else dev_prefix_class(bytes(e['path'])))},
                           data=replay_data(e, info, []))
        for (i, clause) in results[k]:
            e, info = part[i - 1]
            hist = [(x['stmt'], bytes(x['path'])) for x, _ in part[max(0, i - 6):i - 1]]
            outside = [(o['op'], [bytes(n).decode('latin-1') for n in o['path']], o['kind']) for o in e['ops']]
            ctx.reject('C27 %s at %s %r%s (%s %s) cwd before %s ops %s' % (
                clause, e['stmt'], bytes(e['path']), (' AS %r' % bytes(e['path2'])) if 'path2' in e else '', info['kind'], info['code'],
                [(chr(d), [bytes(n).decode('latin-1') for n in c]) for d, c in info['cwd0']], outside[:6]),
                key={'clause': clause, 'stmt': e['stmt'], 'cls': info['cls']},
                data=replay_data(e, info, hist))
    ctx.cov['host_operations_observed'] = nops
    ctx.cov['host_operations_outside_mounts_without_effect_or_rejected'] = nout
    ctx.cov['events_by_arm'] = bytag
    ctx.cov['monitor_ignored_readonly_accesses_under_python_or_repo'] = fsmon.ignored()
    allev = [x for b in boxes for x in b.events]
    for e, info in (allev[5], allev[len(allev) // 2], allev[-1]):
        ctx.sample({'stmt': e['stmt'], 'path': bytes(e['path']).decode('latin-1'), 'outcome': [info['kind'], info['code']],
                    'ops': [(o['op'], '/'.join(bytes(n).decode('latin-1') for n in o['path']), o['kind']) for o in e['ops']]})
    nchanged = sum(1 for e, _ in allev if 'post' in e)
    ctx.cov['statements_that_changed_sandbox_or_cwd'] = nchanged
    if nops == 0 or nchanged == 0:
        raise core.MachineryError('vacuous: the monitor saw no host operation / no statement had an effect')


def prev_state(evs, i):
    """observed state before event i = last observed `post`/`pre` walking backwards"""
    for j in range(i - 1, -1, -1):
        e = evs[j][0]
        if 'post' in e:
            return e['post']
        if 'pre' in e:
            return e['pre']
    raise core.MachineryError('no observed state before event %d' % i)


def replay_data(e, info, hist):
    b = info['box']
    return {'event': {k: e[k] for k in ('stmt', 'path', 'path2') if k in e}, 'ops': e['ops'], 'history': hist, 'tag': info['tag'],
            'cwd0': info['cwd0'], 'outcome': [info['kind'], info['code']],
            'sandbox': {'dirs': info['pre']['dirs'], 'files': info['pre']['files'],
                        'roots': {k.decode(): v for k, v in b.roots.items()}, 'cur': b.cur.decode()}}


def replay(ctx, path):
    """./check C27 --replay FILE: rebuild the sandbox and the current directories of every recorded rejection, execute the
    statement again on the current tree and judge it again."""
    logging.disable(logging.ERROR)
    with open(path) as f:
        doc = json.load(f)
    boxes = []
    for v in doc['violations'][:40]:
        d = v.get('data')
        if not isinstance(d, dict) or 'sandbox' not in d:
            continue
        sb = d['sandbox']
        box = Box(ctx, [tuple(x) for x in sb['dirs']], [tuple(x) for x in sb['files']],
                  {k.encode(): val for k, val in sb['roots'].items()}, cur=sb['cur'].encode())
        for drv, rel in d['cwd0']:
            letter = chr(drv)
            box.sess.ex('CHDIR "%s:\\"' % letter)
            for el in rel:
                name = bytes(el).decode('latin-1')
                box.sess.ex('CHDIR "%s:%s"' % (letter, name + ' ' if name in ('.', '..') else name))
        box.need_pre = True
        ev = d['event']
        e, info = box.do(ev['stmt'], bytes(ev['path']), bytes(ev['path2']) if 'path2' in ev else None, tag='replayed')
        print('replayed %s %r -> %s %s, host operations %s' % (ev['stmt'], bytes(ev['path']), info['kind'], info['code'],
              [(o['op'], '/'.join(bytes(n).decode('latin-1') for n in o['path']), o['kind']) for o in e['ops']]))
        boxes.append(box)
    if not boxes:
        raise core.MachineryError('nothing to replay in %s' % path)
    judge(ctx, boxes)
    for b in boxes:
        b.close()
