"""C21 — error trapping and RESUME. Spec Interp.tla (TrapError/Raise, ONERR, RESUME forms, ERR/ERL); families Interp_MC_err."""
from .. import interp_check, core

LEVEL = 'model_checking'
META = {
    'technique': 'TLA+ abstract machine Interp.tla: TLC checks a declarative family of trap/RESUME programs, replays every family program on the real interpreter, and validates statement-boundary traces of random error-heavy programs',
    'text': 'The family Interp_MC_err (7 kinds of runtime fault x {no handler, RESUME NEXT, RESUME n, RESUME after repair / repeated, error inside the handler, ON ERROR GOTO 0 inside the handler, '
            'falling off the end} + RESUME outside a handler) states the expected ERR, ERL, continuation and final message declaratively; TLC checks Interp.tla against it on all executions, every family program '
            'is then run on the real interpreter, and random programs with ERROR n, integer overflow, division by zero, undefined lines, stray NEXT/RETURN/WEND, Out of DATA inside loops, subroutines and multi-statement '
            'lines are validated boundary by boundary (ERR/ERL are printed by handlers, resume positions show as positions).',
    'note': 'Trusted: TLC, hook H1, the program renderer. Errors raised in direct mode and string/float faults are outside the fragment; the line reported for No RESUME is not constrained.',
}


def run(ctx):
    ctx.cov['rule'] = ('one case = one program run on the real interpreter; evaluations = statement boundaries validated by TLC; distinct = distinct program texts')
    interp_check.run_model_families(ctx, ['err', 'data'])
    st = interp_check.run_family(ctx, {'ctl', 'err', 'stray', 'data'}, ctx.pick(220, 5000), size=12,
                                 focus={'err': 30, 'for': 10, 'gosub': 10, 'simple': 20, 'data': 4}, direct=0.6)
    ends = st['ended']
    if sum(v for k, v in ends.items() if k.startswith('error')) < 5:
        raise core.MachineryError('vacuous: almost no program ended with an error')
