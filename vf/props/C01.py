"""C01 — no BASIC input ever produces an internal interpreter error.
Spec SessionModes.tla (+ catalogue.json), generator model SessionModes_MC, trace spec SessionModes_Trace."""
import os, sys, json, re, random, subprocess, time
from .. import core, graph, c01_exec, c01_catalogue

LEVEL = 'exploration'
META = {
    'technique': 'TLC generation with state (SessionModes.tla x statement catalogue) replayed on real Sessions + TLC trace validation '
                 'of outcome kinds and abstract effects; grammar / corpus-mutation / token-soup / program-file / default-configuration arms',
    'text': 'SessionModes.tla models the abstract session state (direct/run, program, error trap, protection, files 1..3, screen class, '
            'viewport/window, event trap, DEF SEG class) under a catalogue of statement and function templates whose argument slots range over '
            'boundary classes. TLC enumerates every (abstract state, statement) transition up to the depth bound and the argument class tuples '
            'of every statement; each generated transition is executed on a fresh real Session brought into that abstract state (in child '
            'processes, under a statement budget and a wall-clock watchdog) and SessionModes_Trace.tla judges every recorded case: the only '
            'acceptable outcome kinds are ok / BASIC error / exit, and where the catalogue defines an abstract effect the projected '
            'post-state must equal the model\'s. The same trace spec judges generated multi-statement lines and programs, mutated corpus '
            'programs, token soup, random/mutated byte strings loaded as program files, and every catalogue function on a Session() '
            'built with no keyword arguments in a child process.',
    'note': 'Input-quantified property: exploration (model-guided sampling), not a proof. Trusted: TLC, the outcome classification of the '
            'harness (BASIC errors read from console messages), the projection of the abstract state from documented attributes. '
            'Cases cut by the harness (statement budget, QUIT injected into waiting statements, watchdog) observe nothing after the cut. '
            'interact()/the SDL interfaces/the command-line front end are not driven; only Session.execute/evaluate.',
}
META['text'] += ' A value-history arm runs sessions of 8..30 string / array / FRE / DEF FN statements (re-assignment out of creation order, SWAP, ERASE, garbage collections) that are judged by the same trace spec.'
KEYWORD_SOUP = None


def fill(item, tup, classes):
    return item['tmpl'].format(*[classes[k][c - 1] for k, c in zip(item['slots'], tup)])


def argclass(item, tup, classes):
    return ','.join(classes[k][c - 1] for k, c in zip(item['slots'], tup))


# --------------------------------------------------------------------------- arm T: catalogue transitions
def transition_cases(ctx, cat, trans, args, dialect_items, budget):
    """(from-state, item) pairs x argument tuples -> cases; quick: seeded sample, thorough: everything up to the budget."""
    rng = ctx.rng
    classes = cat['classes']
    items = cat['items']
    pairs = [(t[0], t[1], t[3]) for t in trans if items[t[1] - 1]['name'] in dialect_items]
    by_item = {}
    for p in pairs:
        by_item.setdefault(p[1], []).append(p)
    chosen = set()

    def add(p, tup):
        chosen.add((json.dumps(p[0]), p[1], tuple(tup), p[2]))

    for p in pairs:                                   # thorough: every transition of the model at least once;
        it = items[p[1] - 1]                          # quick: those of the anchor-file statements and a seeded third of the rest
        if not ctx.quick() or 'quick' in it['flags'] or rng.random() < 0.34:
            add(p, rng.choice(args[p[1] - 1]))
    for i, ps in by_item.items():                     # every argument class tuple of every statement at least once
        it = items[i - 1]
        for tup in args[i - 1]:
            add(rng.choice(ps), tup)
            if 'quick' in it['flags']:                # anchor-file statements: in more states
                for p in rng.sample(ps, min(len(ps), ctx.pick(4, 30))):
                    add(p, tup)
    if len(chosen) < budget:
        total = sum(len(args[p[1] - 1]) for p in pairs)
        if total <= budget:
            for p in pairs:
                for tup in args[p[1] - 1]:
                    add(p, tup)
        else:
            while len(chosen) < budget:
                p = rng.choice(pairs)
                add(p, rng.choice(args[p[1] - 1]))
    cases = []
    for (stj, i, tup, checked) in sorted(chosen):
        it = items[i - 1]
        cases.append({'arm': 'T', 'st': json.loads(stj), 'item': i, 'name': it['name'], 'args': list(tup),
                      'text': fill(it, tup, classes), 'fn': it['kind'] == 'fn', 'flags': it['flags'], 'check': True,
                      'argclass': argclass(it, tup, classes)})
    rng.shuffle(cases)
    return cases, len(pairs)


# --------------------------------------------------------------------------- arm L/P: grammar
def gen_statement(rng, cat, pool):
    it = rng.choice(pool)
    tup = [rng.randint(1, len(cat['classes'][k])) for k in it['slots']]
    txt = fill(it, tup, cat['classes'])
    return ('PRINT ' + txt) if it['kind'] == 'fn' else txt


def grammar_cases(ctx, cat, n_lines, n_progs):
    rng = ctx.rng
    pool = [i for i in cat['items'] if 'pcjr' not in i['flags'] and i['name'] not in ('SYSTEM',)]
    setup = ['OPEN "F1" FOR INPUT AS 1', 'OPEN "F2" FOR OUTPUT AS 2', 'OPEN "F3" FOR RANDOM AS 3 LEN=16', 'SCREEN 1', 'SCREEN 2',
             'VIEW (5,5)-(50,50)', 'WINDOW (-1,-1)-(1,1)', 'DEF SEG=0', 'DEF SEG=&HB800', 'KEY ON', 'WIDTH 40', 'OPTION BASE 1',
             'DIM B(5),B$(5)', 'A$="HELLO":A=5:A%=7:A#=1D10', 'ON ERROR GOTO 1000', 'FIELD #3,8 AS A$,8 AS B$', 'DEFINT A-Z',
             'DEF FNA(X)=X*2', 'LOCATE 25,80', 'COLOR 15,1', 'PLAY "MB"', 'CLEAR ,20000', 'VIEW PRINT 5 TO 10',
             'WIDTH "LPT2:",80', 'WIDTH "LPT3:",40', 'WIDTH "COM1:",80', 'WIDTH "CAS1:",80', 'OPEN "LPT2:" FOR OUTPUT AS 2',
             'OPEN "COM2:" AS 2', 'LPRINT "X"', 'PRINT FNC', 'A=FND+1']
    cases = []
    for _ in range(n_lines):
        lines = rng.sample(setup, rng.randint(0, 3))
        for _ in range(rng.randint(1, 3)):
            lines.append(':'.join(gen_statement(rng, cat, pool) for _ in range(rng.randint(1, 4)))[:250])
        cases.append({'arm': 'L', 'sub': 'grammar-line', 'lines': lines})
    flow = ['FOR I=1 TO 3', 'NEXT', 'NEXT I', 'WHILE I<3:I=I+1', 'WEND', 'GOSUB 1000', 'RETURN', 'IF A THEN 40 ELSE 60', 'ON A GOTO 20,40,60',
            'ON ERROR GOTO 1000', 'RESUME NEXT', 'RESUME', 'ERROR 5', 'READ A,B$', 'DATA 1,X,"Y",', 'RESTORE', 'END', 'STOP', 'CLEAR', 'RUN 40',
            'ON TIMER(1) GOSUB 1000:TIMER ON', 'KEY(1) ON', 'CHAIN "PROG.BAS"', 'COMMON A,B$', 'DEF FNB(X)=FNB(X)', 'DEF FNC=FNC+1', 'DEF FND=FNE:DEF FNE=FND',
            'PRINT FNB(1)', 'PRINT FNC', 'A=FND', 'GOTO 20', 'NEW', 'CONT',
            'DELETE 20-40', 'RENUM', 'RENUM 100,40', 'LIST', 'EDIT 10', 'AUTO', 'MERGE "ASC.BAS"', 'LOAD "PROG.BAS",R', 'SAVE "Q",A']
    # scripted programs run in every tier and with every seed: self-referencing DEF FN in all its forms (with and without
    # parameters, directly and through a cycle), called from the program, under ON ERROR, and from direct mode after the run
    for body in (['10 DEF FNC=FNC+1', '20 PRINT FNC'], ['10 DEF FND=FNE:DEF FNE=FND', '20 A=FND'],
                 ['10 DEF FNB(X)=FNB(X)', '20 PRINT FNB(1)'], ['10 DEF FNA(X)=FNB(X)+1:DEF FNB(Y)=FNA(Y)*2', '20 PRINT FNA(2)'],
                 ['10 ON ERROR GOTO 1000', '20 DEF FNC=FNC+1', '30 PRINT FNC', '40 PRINT "after"'],
                 ['10 DEF FNS$=FNS$+"a"', '20 A$=FNS$'], ['10 DEF FNC=FNC+1', '20 END', '30 PRINT FNC']):
        for cmd in ('RUN', 'RUN:PRINT FNC:PRINT FND', 'GOTO 10'):
            cases.append({'arm': 'P', 'sub': 'scripted-program', 'lines': body + ['1000 RESUME NEXT'], 'cmd': cmd})
    for _ in range(n_progs):
        nl = rng.randint(2, 9)
        lines = []
        for k in range(nl):
            parts = []
            for _ in range(rng.randint(1, 3)):
                r = rng.random()
                parts.append(rng.choice(flow) if r < 0.4 else rng.choice(setup) if r < 0.55 else gen_statement(rng, cat, pool))
            lines.append(('%d ' % (10 * (k + 1)) + ':'.join(parts))[:250])
        lines.append('1000 ' + rng.choice(['RETURN', 'RESUME NEXT', 'REM', 'RESUME 20', gen_statement(rng, cat, pool) + ':RESUME NEXT']))
        cases.append({'arm': 'P', 'sub': 'grammar-program', 'lines': lines, 'cmd': rng.choice(['RUN', 'RUN', 'RUN', 'RUN 20', 'GOTO 20', 'LIST:RUN'])})
    return cases


def history_cases(ctx, n):
    """Value histories: sessions of 8..30 statements that create, re-assign (out of creation order), swap, erase and use string
    and array values, interleaved with garbage collections (FRE) and DEF FN calls. The outcome class of every statement depends on
    the string space / variable memory left by the whole history, which single statements on a fresh session never reach."""
    rng = ctx.rng
    sv = ['A$', 'B$', 'C$', 'S$(0)', 'S$(1)', 'S$(2)', 'T$(1,1)', 'T$(0,2)']
    nv = ['X', 'Y%', 'Z#', 'N(1)', 'N(2)', 'M%(0,1,2)']

    def sx(d=0):
        r = rng.random()
        if d > 1 or r < 0.2:
            return rng.choice(['"ab"', '"q"', '""', 'CHR$(65)', 'SPACE$(3)', 'STRING$(%d,"x")' % rng.choice([0, 1, 40, 200, 255]), 'HEX$(255)',
                               'STR$(X)', 'MKS$(1.5)', 'DATE$', 'INKEY$'])
        if r < 0.5:
            return rng.choice(sv)
        if r < 0.75:
            return '%s+%s' % (sx(d + 1), sx(d + 1))
        return rng.choice(['MID$(%s,%d)', 'LEFT$(%s,%d)', 'RIGHT$(%s,%d)']) % (sx(d + 1), rng.choice([1, 2, 3, 255])) if r < 0.9 else \
            rng.choice(['FNS$(%s)' % sx(d + 1), 'FNT$(%s,%s)' % (sx(d + 1), sx(d + 1))])

    def nx():
        return rng.choice(['LEN(%s)' % sx(), 'ASC(%s+"a")' % sx(), 'VAL(%s)' % sx(), 'INSTR(%s,%s)' % (sx(), sx()), 'FRE("")', 'FRE(0)',
                           'X+1', 'N(1)*2', '(%s=%s)' % (sx(), sx()), '(%s<%s)' % (sx(), sx()), 'FNN(%s)' % rng.choice(nv), 'CVI(%s+"ab")' % sx()])

    def st():
        r = rng.random()
        if r < 0.30:
            return '%s=%s' % (rng.choice(sv), sx())
        if r < 0.40:
            a, b = rng.sample(sv, 2)
            return 'SWAP %s,%s' % (a, b)
        if r < 0.52:
            return '%s=%s' % (rng.choice(nv), nx())
        if r < 0.62:
            return 'PRINT %s;%s' % (rng.choice(sv), nx())
        if r < 0.70:
            return rng.choice(['X=FRE("")', 'PRINT FRE("")', 'X=FRE(A$)', 'Y%=FRE(0)'])
        if r < 0.78:
            return rng.choice(['MID$(%s,%d)=%s' % (rng.choice(sv), rng.choice([1, 2, 9]), sx()), 'LSET %s=%s' % (rng.choice(sv), sx()),
                               'RSET %s=%s' % (rng.choice(sv), sx())])
        if r < 0.84:
            return rng.choice(['ERASE S$', 'ERASE T$', 'ERASE N', 'DIM S$(3)', 'DIM T$(2,2)', 'DIM N(4)', 'ERASE S$:DIM S$(%d)' % rng.randint(2, 9),
                               'OPTION BASE 1', 'OPTION BASE 0',
                               # allocations that fail (Out of memory) and later references to those arrays
                               'DIM HG(20000)', 'DIM HS$(30000)', 'DIM HD#(9000)', 'HG(1)=1', 'PRINT HG(2);HS$(1)', 'ERASE HG', 'ERASE HS$',
                               'HS$(3)=A$', 'X=HD#(1)', 'SWAP HG(1),X', 'DIM HG(3)', 'ERASE HD#'])
        if r < 0.90:
            return rng.choice(['DEF FNS$(P$)=P$+A$', 'DEF FNT$(P$,Q$)=Q$+P$+S$(1)', 'DEF FNN(P)=P+LEN(B$)', 'DEF FNS$(A$)=A$+A$', 'DEFSTR P-Q',
                               'DEFINT P', 'DEFSNG A-Z'])
        if r < 0.94:
            return rng.choice(['CLEAR', 'CLEAR ,%d' % rng.choice([20000, 30000, 60000]), 'CLEAR ,,%d' % rng.choice([256, 1000]), 'ON ERROR GOTO 0'])
        if r < 0.97:
            return rng.choice(['FIELD #3,8 AS A$,8 AS S$(1)', 'OPEN "F3" FOR RANDOM AS 3 LEN=16', 'CLOSE', 'GET #3,1', 'PUT #3,1'])
        return rng.choice(['READ %s' % rng.choice(sv), 'RESTORE', 'LINE INPUT#1,%s' % rng.choice(sv), 'INPUT#1,%s' % rng.choice(sv),
                           'OPEN "F1" FOR INPUT AS 1'])
    cases = []
    for _ in range(n):
        lines = []
        for _ in range(rng.randint(8, 30)):
            lines.append(':'.join(st() for _ in range(rng.choice([1, 1, 1, 2, 3])))[:250])
        cases.append({'arm': 'L', 'sub': 'value-history', 'lines': lines})
    return cases


# --------------------------------------------------------------------------- arm P: corpus mutation, soup
_TOK = re.compile(r'"[^"\r\n]*"?|[A-Za-z][A-Za-z0-9.]*[$%!#]?|&[HhOo]?[0-9A-Fa-f]+|\d+\.?\d*(?:[EeDd][+-]?\d+)?[%!#]?|\s+|.', re.S)
BOUNDARY = c01_catalogue.INT + ['32767', '-32768', '255', '256', '65535', '0', '""', 'CHR$(0)', '1E-39', '.', '&HFFFF', '&O177777', '65529',
                                '65530', '1#', '3.4E38', '1.7D38']


def soup_tokens():
    global KEYWORD_SOUP
    if KEYWORD_SOUP is None:
        from pcbasic.basic.base import tokens as tk
        kws = sorted(k.decode('latin-1') for k in tk.TokenKeywordDict('tandy').to_token)
        KEYWORD_SOUP = kws + list('()[],;:#$%!&=+-*/\\^<>?\'"._ ') + ['A', 'A$', 'B(', 'FN', 'X%', '1', '0', '-1', '255', '32768', '1E38', '"S"', '65529',
                                                                  '&H', '10', '1000', 'TO', 'STEP', 'THEN', 'GOTO', 'AS', 'USING', ' ', ' ']
    return KEYWORD_SOUP


def mutate_line_text(rng, text, nmut):
    toks = _TOK.findall(text)
    for _ in range(nmut):
        if not toks:
            break
        k = rng.randrange(len(toks))
        op = rng.random()
        if op < 0.22:
            del toks[k]
        elif op < 0.44:
            toks.insert(k, rng.choice(soup_tokens() if rng.random() < 0.7 else BOUNDARY))
        elif op < 0.62 and k + 1 < len(toks):
            toks[k], toks[k + 1] = toks[k + 1], toks[k]
        else:
            nums = [j for j, t in enumerate(toks) if t[:1].isdigit() or t[:1] == '&' or t[:1] == '"']
            if nums:
                j = rng.choice(nums)
                if j == 0 and toks[0][:1].isdigit():
                    continue       # keep line numbers (changing them is the insert/delete operators' business)
                toks[j] = rng.choice(BOUNDARY)
            else:
                toks.insert(k, rng.choice(BOUNDARY))
    return ''.join(toks)


def corpus_programs():
    base = os.path.join(core.REPO, 'tests', 'basic')
    res = []
    for root, dirs, files in os.walk(base):
        if os.path.basename(root) == 'model':
            continue
        for f in files:
            if f.upper().endswith('.BAS'):
                res.append(os.path.join(root, f))
    return sorted(res)


def corpus_cases(ctx, n):
    rng = ctx.rng
    progs = corpus_programs()
    cases = []
    if not progs:
        raise core.MachineryError('no corpus programs found under tests/basic')
    tries = 0
    while len(cases) < n and tries < n * 5:
        tries += 1
        p = rng.choice(progs)
        with open(p, 'rb') as f:
            data = f.read()
        d = os.path.dirname(p)
        side = {}
        for fn in os.listdir(d):
            fp = os.path.join(d, fn)
            if os.path.isfile(fp) and fn != os.path.basename(p) and fn.upper() not in ('OUTPUT.TXT', 'PCBASIC.INI') \
                    and os.path.getsize(fp) < 32768 and len(side) < 8:
                with open(fp, 'rb') as f:
                    side[fn.upper()] = list(f.read())
        syntax = 'tandy' if os.sep + 'tandy' + os.sep in p else 'pcjr' if os.sep + 'pcjr' + os.sep in p else 'advanced'
        if data[:1] in (b'\xff', b'\xfe'):
            # tokenised corpus program: mutate bytes, load as a file
            b = bytearray(data)
            for _ in range(rng.randint(1, 4)):
                k = rng.randrange(1, len(b))
                r = rng.random()
                if r < 0.3:
                    del b[k]
                elif r < 0.6:
                    b.insert(k, rng.randrange(256))
                else:
                    b[k] = rng.choice([0, 255, 0x0e, 0x0f, 0x1c, 0x1d, 0x1f, 0x11, 0x8f, 0xfd, 0xfe, 0xff, rng.randrange(256)])
            cases.append({'arm': 'F', 'sub': 'corpus-tokenised', 'name': 'X.BAS', 'data': list(b), 'cmd': 'LOAD "X.BAS"', 'post': ['LIST', 'RUN'],
                          'src': os.path.relpath(p, core.REPO)})
            continue
        text = data.decode('latin-1').replace('\x1a', '')
        lines = [l for l in re.split(r'\r\n|\r|\n', text) if l.strip()]
        if not lines or len(lines) > 400:
            continue
        for _ in range(rng.randint(1, 3)):
            k = rng.randrange(len(lines))
            lines[k] = mutate_line_text(rng, lines[k], rng.randint(1, 2))[:254]
        cases.append({'arm': 'P', 'sub': 'corpus-mutant', 'lines': lines, 'cmd': 'RUN', 'files': side, 'budget': 500,
                      'src': os.path.relpath(p, core.REPO), 'kw': {'syntax': syntax, 'video': {'tandy': 'tandy', 'pcjr': 'pcjr'}.get(syntax, 'cga')}})
    return cases


def soup_cases(ctx, n):
    rng = ctx.rng
    toks = soup_tokens()
    cases = []
    for k in range(n):
        s = ''
        for _ in range(rng.randint(1, 9)):
            t = rng.choice(toks)
            s += t + (' ' if rng.random() < 0.5 and t.isalnum() else '')
        s = s[:250]
        if k % 2:
            cases.append({'arm': 'L', 'sub': 'soup-direct', 'lines': [s]})
        else:
            cases.append({'arm': 'P', 'sub': 'soup-program', 'lines': ['10 ' + s, '20 ' + rng.choice(toks) + ' ' + rng.choice(toks)], 'cmd': 'RUN',
                          'budget': 200})
    return cases


# --------------------------------------------------------------------------- arm F: byte strings as program files
def file_cases(ctx, n, seedfiles):
    rng = ctx.rng
    cases = []
    cmds = [('LOAD "X.BAS"', ['LIST', 'RUN']), ('RUN "X.BAS"', None), ('MERGE "X.BAS"', ['LIST']), ('CHAIN "X.BAS"', None),
            ('CHAIN MERGE "X.BAS",10', None), ('LOAD "X.BAS",R', None), ('BLOAD "X.BAS"', None), ('LOAD "X.BAS"', ['SAVE "Y.BAS"', 'LOAD "Y.BAS"', 'LIST']),
            ('LOAD "X.BAS"', ['RENUM', 'LIST']), ('LOAD "X.BAS"', ['DELETE 10-', 'LIST']), ('LOAD "X.BAS"', ['EDIT 10']),
            ('OPEN "X.BAS" FOR INPUT AS 1:LINE INPUT#1,A$:INPUT#1,B,C$:PRINT EOF(1);LOC(1);LOF(1)', None)]
    for k in range(n):
        magic = rng.choice([b'\xff', b'\xff', b'\xfe', b'\xfe', b'\xfd', b'', b'', b'\xfc', b'\x1a', b'\x00'])
        r = rng.random()
        if r < 0.35:
            body = bytes(rng.randrange(256) for _ in range(rng.choice([0, 1, 2, 3, 5, 10, 40, 200, 2000])))
        elif r < 0.7 and seedfiles:
            body = bytearray(rng.choice(seedfiles)[1:])
            for _ in range(rng.randint(0, 5)):
                if not body:
                    break
                j = rng.randrange(len(body))
                q = rng.random()
                if q < 0.3:
                    del body[j:j + rng.randint(1, 4)]
                elif q < 0.6:
                    body[j:j] = bytes(rng.randrange(256) for _ in range(rng.randint(1, 3)))
                else:
                    body[j] = rng.choice([0, 0xff, 0x0b, 0x0c, 0x0e, 0x0f, 0x1c, 0x1d, 0x1f, 0x8f, 0x3a, 0x22, rng.randrange(256)])
            if rng.random() < 0.3:
                body = body[:rng.randint(0, len(body))]
            body = bytes(body)
        else:
            # ascii-ish program text with odd line numbers / long lines / control characters
            ls = []
            for _ in range(rng.randint(1, 6)):
                ln = rng.choice(['', '0 ', '10 ', '65529 ', '65530 ', '99999 ', '-1 ', '10', ' 20 ', '1e3 '])
                ls.append(ln + ''.join(rng.choice(soup_tokens()) + ' ' for _ in range(rng.randint(0, 8))) * rng.choice([1, 1, 1, 40]))
            body = rng.choice(['\r\n', '\n', '\r', '\r\n\x1a', '\x00']).join(ls).encode('latin-1')
            magic = rng.choice([b'', b'', magic])
        cmd, post = rng.choice(cmds)
        kw = rng.choice([{}, {}, {'hide_protected': True}, {'hide_listing': 100}, {'allow_code_poke': True}, {'rebuild_offsets': False}])
        cases.append({'arm': 'F', 'sub': 'program-file', 'name': 'X.BAS', 'data': list(magic + body), 'cmd': cmd, 'post': post,
                      'pre': rng.choice([[], [], ['10 PRINT 1', '20 GOTO 10'], ['ON ERROR GOTO 10']]), 'kw': kw})
    return cases


# --------------------------------------------------------------------------- arm D: Session() with no keyword arguments
DEFAULT_CHILD = r'''
import sys, json, signal, os
sys.path.insert(0, sys.argv[1])
os.environ['PCBASIC_VERIF'] = '1'
from pcbasic.basic import Session
jobs = json.load(open(sys.argv[2]))
class Hang(BaseException): pass
def al(s, f): raise Hang()
signal.signal(signal.SIGALRM, al)
import traceback
res = []
s = None
for kind, text in jobs:
    if s is None:
        s = Session()
    r = {'kind': 'ok', 'detail': ''}
    signal.setitimer(signal.ITIMER_REAL, 5)
    try:
        if kind == 'eval':
            s.evaluate(text)
        else:
            s.execute(text)
    except Hang:
        r = {'kind': 'hang', 'detail': ''}
    except BaseException as e:
        signal.setitimer(signal.ITIMER_REAL, 0)
        if type(e).__name__ == 'Exit':
            r = {'kind': 'exit', 'detail': ''}
        else:
            tb = traceback.extract_tb(e.__traceback__)
            where = '?'
            for fr in tb:
                if os.sep + 'pcbasic' + os.sep in fr.filename:
                    where = os.path.basename(fr.filename) + ':' + fr.name
            r = {'kind': 'internal', 'detail': type(e).__name__ + ': ' + str(e)[:120], 'exc': type(e).__name__, 'where': where}
        try:
            s.close()
        except BaseException:
            pass
        s = None
    finally:
        signal.setitimer(signal.ITIMER_REAL, 0)
    res.append(r)
json.dump(res, open(sys.argv[3], 'w'))
'''


def default_arm(ctx, cat):
    classes = cat['classes']
    jobs, meta = [], []
    for it in cat['items']:
        if 'block' in it['flags'] or 'pcjr' in it['flags']:
            continue
        nom = [cat['nominal'][k] + 1 for k in it['slots']]
        if it['kind'] == 'stmt':
            # statements: nominal arguments only, through execute()
            jobs.append(('exec', fill(it, nom, classes))); meta.append((it, nom, 'execute'))
            continue
        tups = [nom]
        if ctx.rng.random() < 0.5 or not ctx.quick():
            tups.append([ctx.rng.randint(1, len(classes[k])) for k in it['slots']])
        for tup in tups:
            txt = fill(it, tup, classes)
            jobs.append(('eval', txt)); meta.append((it, tup, 'evaluate'))
            if not ctx.quick() or tup is nom:
                jobs.append(('exec', 'PRINT ' + txt + ';')); meta.append((it, tup, 'execute'))
    scratch = os.path.join(ctx.tmp, 'default_cwd')
    os.makedirs(scratch, exist_ok=True)
    jf, rf, sf = ctx.path('default_jobs.json'), ctx.path('default_res.json'), ctx.path('default_child.py')
    with open(jf, 'w') as f:
        json.dump(jobs, f)
    with open(sf, 'w') as f:
        f.write(DEFAULT_CHILD)
    env = dict(os.environ, PYTHONHASHSEED='0')
    with open(os.devnull, 'rb') as devnull:
        p = subprocess.run([sys.executable, sf, core.REPO, jf, rf], cwd=scratch, stdin=devnull, stdout=subprocess.PIPE,
                           stderr=subprocess.PIPE, env=env, timeout=1200)
    if p.returncode != 0 or not os.path.exists(rf):
        raise core.MachineryError('default-configuration child failed: rc=%s %s' % (p.returncode, p.stderr[-600:]))
    with open(rf) as f:
        res = json.load(f)
    out = []
    for (it, tup, how), r in zip(meta, res):
        r = dict(r)
        r.update({'arm': 'D', 'sub': 'default-session-' + how, 'name': it['name'], 'text': fill(it, tup, classes),
                  'argclass': argclass(it, tup, classes)})
        out.append(r)
    return out


# --------------------------------------------------------------------------- completeness guard
def completeness(ctx, cat):
    from pcbasic.basic.base import tokens as tk
    from pcbasic.basic import implementation
    covered = set()
    for it in cat['items']:
        covered.update(it['kw'])
    report = {}
    for syn in ('advanced', 'pcjr', 'tandy'):
        kws = sorted(k.decode('latin-1') for k in tk.TokenKeywordDict(syn).to_token)
        report['keywords_uncovered_' + syn] = [k for k in kws if k not in covered]
    # statement heads and function tokens the parser of this tree dispatches on
    im = implementation.Implementation(syntax='tandy', output_streams=None, input_streams=None)
    d = tk.TokenKeywordDict('tandy')
    def name(tok):
        return d.to_keyword.get(tok, tok).decode('latin-1') if isinstance(d.to_keyword.get(tok, tok), bytes) else str(tok)
    st = im.parser
    heads = set(st._simple) | set(st._complex)
    fns = set(st.expression_parser._simple) | set(st.expression_parser._complex)
    hs = sorted(name(t) for t in heads)
    fs = sorted(name(t) for t in fns)
    report['statement_heads'] = len(hs)
    report['functions'] = len(fs)
    report['statement_heads_uncovered'] = [h for h in hs if h not in covered]
    report['functions_uncovered'] = [h for h in fs if h not in covered]
    try:
        im.close()
    except Exception:
        pass
    ctx.cov['completeness'] = report
    return report


# --------------------------------------------------------------------------- minimisation of multi-line failures
def minimise(case, res, base):
    """Greedy line removal keeping the same crash site (parent-side, own Runner)."""
    if case['arm'] not in ('L', 'P') or len(case['lines']) < 2:
        return case
    r = c01_exec.Runner(base=base, syntax=case.get('kw', {}).get('syntax', 'advanced'), video=case.get('kw', {}).get('video', 'cga'))
    try:
        cur = dict(case)
        budget = 40
        changed = True
        while changed and budget > 0:
            changed = False
            for k in range(len(cur['lines'])):
                if len(cur['lines']) < 2 or budget <= 0:
                    break
                trial = dict(cur, lines=cur['lines'][:k] + cur['lines'][k + 1:])
                budget -= 1
                rr = r.run(trial)
                if rr['kind'] == 'internal' and rr.get('where') == res.get('where') and rr.get('exc') == res.get('exc'):
                    cur = trial
                    changed = True
                    break
        return cur
    finally:
        r.close()


# --------------------------------------------------------------------------- main
def run(ctx):
    import logging
    logging.disable(logging.CRITICAL)
    ctx.cov['rule'] = ('one event per case executed on a fresh real Session; distinct by (arm, abstract state, statement text / lines / file bytes); '
                       'non-trivial = every case except those cut by the harness (budget, watchdog)')
    cat = c01_catalogue.build()
    with open(c01_catalogue.path()) as f:
        ondisk = json.load(f)
    if json.loads(json.dumps(cat, sort_keys=True)) != ondisk:
        raise core.MachineryError('spec/catalogue.json is stale: run /venv/bin/python -m vf.c01_catalogue')
    comp = completeness(ctx, cat)
    # 1. TLC: generation with state
    argsf = ctx.path('args.json')
    r = ctx.tlc('SessionModes_MC', ctx.pick('SessionModes_MC.cfg', 'SessionModes_MC_big.cfg'), workers=1, env={'ARGS_FILE': argsf}, tag='emit')
    if not r['ok'] or not os.path.exists(argsf):
        raise core.MachineryError('SessionModes_MC emit run failed: %s\n%s' % (r['error'], r['out'][-1500:]))
    ctx.cov['states'] += r['distinct']
    ctx.cov['transitions'] += r['generated']
    trans = graph.parse_transitions(r['out'])
    with open(argsf) as f:
        args = json.load(f)
    if len(trans) < 2000 or len(args) != len(cat['items']):
        raise core.MachineryError('too few model transitions (%d) / argument tables (%d)' % (len(trans), len(args)))
    ctx.cov['model_transitions'] = len(trans)
    ctx.cov['model_states'] = r['distinct']
    ctx.cov['argument_tuples'] = sum(len(a) for a in args)
    base_items = set(i['name'] for i in cat['items'] if 'pcjr' not in i['flags'])
    pcjr_items = set(i['name'] for i in cat['items'] if 'pcjr' in i['flags'])
    batches = []       # (syntax, video, cases)
    scale = float(os.environ.get('VERIF_C01_SCALE', '1'))        # development aid: shrink every arm

    def vol(q, t):
        return max(1, int(ctx.pick(q, t) * scale))
    t_cases, npairs = transition_cases(ctx, cat, trans, args, base_items, vol(11000, 120000))
    batches.append(('advanced', 'cga', t_cases))
    pj, _ = transition_cases(ctx, cat, trans, args, pcjr_items, 0)
    batches.append(('pcjr', 'pcjr', pj[:vol(600, 5000)]))
    # other dialects / adapters: a sample of the advanced cases
    extra = ctx.rng.sample(t_cases, min(len(t_cases), vol(900, 10000)))
    batches.append(('tandy', 'tandy', [dict(c) for c in extra[:len(extra) // 2]]))
    batches.append(('advanced', 'vga', [dict(c) for c in extra[len(extra) // 2:]]))
    # 2. other arms
    others = (grammar_cases(ctx, cat, vol(900, 9000), vol(900, 9000)) + corpus_cases(ctx, vol(700, 7000))
              + soup_cases(ctx, vol(1200, 12000)) + history_cases(ctx, vol(500, 8000)))
    seedfiles = []
    for p in corpus_programs():
        with open(p, 'rb') as f:
            d = f.read(1)
            if d == b'\xff':
                seedfiles.append(d + f.read())
    rr = c01_exec.Runner(base=ctx.tmp)
    rr.restore_mount()
    seedfiles += [rr.progfiles['PROG.BAS'], rr.progfiles['PROT.BAS']]
    rr.close()
    others += file_cases(ctx, vol(1200, 12000), seedfiles)
    ctx.rng.shuffle(others)
    batches.append(('advanced', 'cga', others))
    only_arms = os.environ.get('VERIF_C01_ARMS')            # development aid (defect hunting): 'T', 'O' (other arms), 'D' or a combination
    if only_arms:
        batches = ([b for b in batches[:-1] if 'T' in only_arms]) + ([batches[-1]] if 'O' in only_arms else [])
        scale_o = float(os.environ.get('VERIF_C01_SCALE_O', '1'))
        if 'O' in only_arms and scale_o != 1:
            n = int(scale_o)
            big = (grammar_cases(ctx, cat, 900 * n, 900 * n) + corpus_cases(ctx, 700 * n) + soup_cases(ctx, 1200 * n) + history_cases(ctx, 500 * n)
                   + file_cases(ctx, 1200 * n, seedfiles))
            batches[-1] = ('advanced', 'cga', big)
    procs = int(os.environ.get('VERIF_C01_PROCS', ctx.pick(8, 12)))
    t0 = time.time()
    allcases, allres = [], []
    for syntax, video, cases in batches:
        if not cases:
            continue
        for c in cases:
            c['syntax'], c['video'] = c.get('kw', {}).get('syntax', syntax), c.get('kw', {}).get('video', video)
        res = c01_exec.run_cases(cases, ctx.tmp, procs=procs, syntax=syntax, video=video, chunk=ctx.pick(40, 100))
        allcases += cases
        allres += res
    # 3. default-configuration arm (its own child process)
    dres = default_arm(ctx, cat) if (not only_arms or 'D' in only_arms) else []
    ctx.cov['impl_wall_s'] = round(time.time() - t0, 1)
    # 4. events -> TLC
    events, owners = [], []
    hangs = []
    for c, r_ in zip(allcases, allres):
        if r_ is None or r_['kind'] == 'hang':
            hangs.append({'arm': c['arm'], 'what': c.get('text') or c.get('cmd') or c.get('lines', [''])[-1], 'st': c.get('st'),
                          'detail': (r_ or {}).get('detail')})
            continue
        e = {'arm': c['arm'], 'kind': r_['kind'], 'code': r_.get('code', 0)}
        if c['arm'] == 'T':
            e.update({'st': c['st'], 'item': c['item'], 'established': bool(r_.get('established', True))})
            if r_.get('post') is not None:
                e['post'] = r_['post']
        events.append(e)
        owners.append((c, r_))
    for d in dres:
        if d['kind'] == 'hang':
            hangs.append({'arm': 'D', 'what': d['text'], 'detail': ''})
            continue
        events.append({'arm': 'D', 'kind': d['kind'], 'code': 0})
        owners.append((d, d))
    ctx.cov['hangs_skipped'] = hangs[:60]
    ctx.cov['hang_count'] = len(hangs)
    verdicts = []
    step = 150000
    for i in range(0, len(events), step):
        verdicts += [(i + j, cl) for (j, cl) in ctx.validate('SessionModes_Trace', events[i:i + step])]
    ctx.cov['traces_validated_against_impl'] += len(events)
    kinds, arms = {}, {}
    for (c, r_), e in zip(owners, events):
        kinds[e['kind']] = kinds.get(e['kind'], 0) + 1
        sub = c.get('sub') or ('transition-%s-%s' % (c.get('syntax'), c.get('video')))
        arms[sub] = arms.get(sub, 0) + 1
        ident = [e['arm'], c.get('st'), c.get('text') or c.get('lines') or c.get('cmd'), c.get('syntax'), c.get('video')]
        if c.get('data') is not None:
            ident.append(c['data'][:64]); ident.append(len(c['data']))
        ctx.count(ident, nontrivial=e['kind'] != 'cut')
    ctx.cov['outcome_kinds'] = kinds
    ctx.cov['cases_by_arm'] = arms
    ctx.cov['model_pairs_replayed'] = npairs
    for c, r_ in owners[:3] + owners[len(owners) // 2:len(owners) // 2 + 2]:
        ctx.sample({'arm': c['arm'], 'st': c.get('st'), 'text': c.get('text') or c.get('lines') or c.get('cmd'), 'kind': r_['kind'],
                    'code': r_.get('code'), 'post': r_.get('post')})
    seen = {}
    for (i, clause) in verdicts:
        c, r_ = owners[i - 1]
        if clause == 'harness_state_outside_model':
            raise core.MachineryError('harness state outside the model: %r' % (c,))
        if clause == 'escaping_exception':
            sig = (c['arm'], r_.get('exc'), r_.get('where'))
            seen[sig] = seen.get(sig, 0) + 1
            mc = c
            if c['arm'] in ('L', 'P') and seen[sig] == 1:
                try:
                    mc = minimise(c, r_, ctx.tmp)
                except BaseException:
                    mc = c
            what = mc.get('text') or mc.get('lines') or mc.get('cmd')
            key = {'clause': clause, 'arm': c['arm'], 'sub': c.get('sub', 'transition'), 'item': c.get('name', ''), 'exc': r_.get('exc', ''),
                   'where': r_.get('where', ''), 'argclass': c.get('argclass', ''), 'mode': (c.get('st') or [''])[0],
                   'trap': (c.get('st') or ['', '', ''])[2] if c.get('st') else '', 'syntax': c.get('syntax', '')}
            ctx.reject('C01 escaping exception %s at %s: %s %r state=%s [%s]' % (
                r_.get('detail'), r_.get('where'), c.get('sub', 'transition'), what, c.get('st'), c.get('syntax', 'default')),
                key=key, data={'case': {k: v for k, v in mc.items() if k not in ('data', 'files')} , 'data': mc.get('data'),
                               'result': r_})
        else:
            ctx.reject('C01 %s: %r in state %s -> kind=%s post=%s' % (clause, c.get('text'), c.get('st'), r_['kind'], r_.get('post')),
                       key={'clause': clause, 'item': c.get('name', ''), 'mode': (c.get('st') or [''])[0]},
                       data={'case': c, 'result': r_})
    if not only_arms and (kinds.get('ok', 0) < 1000 or kinds.get('err', 0) < 1000):
        raise core.MachineryError('vacuous: outcome kinds %r' % kinds)
    if len(hangs) > max(50, len(events) // 100):
        raise core.MachineryError('too many cases lost to the watchdog: %d' % len(hangs))
    ctx.assumptions += ['BASIC errors are recognised by their console messages', 'a case cut by the statement budget / QUIT / watchdog '
                        'shows no exception up to the cut', 'each case runs on a fresh Session(devices={C: scratch}, current_device C, '
                        'captured output, no input stream) except the default-configuration arm']
