"""C03 — numeric conversions and binary encodings. Spec: MBF.tla + MBFConv.tla; oracle self-checks MBFConv_MC (and MBF_MC);
trace spec C03_Trace."""
import os
import time
from ..mbfdrv import (Drv, Pipeline, Sink, typ, int_bytes, flt, flt_of_int, neighbour, rand_float, rand_value, near_integer,
                      small_magnitude, CVFN, MKFN, PBITS, SIZE)

LEVEL = 'exploration'
META = {
    'technique': 'TLA+ oracle (MBF.tla, MBFConv.tla) evaluated by TLC on recorded interpreter calls; the oracle itself is '
                 'model-checked against native integer arithmetic on a reduced format (2-bit bytes)',
    'text': 'CINT/FIX/INT, MKx$/CVx, CSNG/CDBL, HEX$/OCT$ with &H/&O of the real interpreter (pcbasic.basic.values functions called '
            'directly and BASIC text through the real tokeniser/expression parser) are recorded as byte patterns in / out and every '
            'record is judged by TLC with the defining equations of MBFConv.tla (integer part and any-fraction-bit of byte-tuple '
            'mantissas, round-half-away, Overflow exactly when the rounded value leaves -32768..32767, the two-neighbour rule for '
            'double->single with the 1/256 tolerance). All 65536 integers are enumerated for HEX$/OCT$/&H/&O, MKI$/CVI and CINT of '
            'integral values; float patterns are boundary-dense (every integer-part width, fractions 0 / 1 ulp / just below, at, just '
            'above one half / all ones, CINT range ends, non-canonical zeros, extreme exponents, halfway doubles) plus random. '
            'The conversion operators are model-checked on every 14-bit mantissa x 20 exponents x sign of the reduced format.',
    'note': 'Input-quantified: exploration, not exhaustive over 2^32 / 2^64 patterns. Trusted: TLC, JSON plumbing, reading the error '
            'kind from the console message on the text path. CVx of strings longer/shorter than the type size and MKx$ of a value of '
            'another type are not constrained by the statement and not generated.',
}


PURITY = {'rng': None, 'n': 0, 'notes': []}


def conv_events(d, fn, b, text):
    t = typ(b)
    o = None
    if text and PURITY['rng'].random() < 0.3:
        # operand in a numeric variable, function applied twice (see Drv.on_variable)
        o, note = d.on_variable(fn.upper() + '(%s)', b)
        if o is not None:
            PURITY['n'] += 1
            if note:
                PURITY['notes'].append((fn, b, note))
    if o is not None:
        pass
    elif text:
        o = d.evalv('%s(%s)' % (fn.upper(), d.operand_text('A', b)))
    else:
        o = d.call(getattr(d.bv, fn + '_'), [d.val(b)])
    e = {'fn': fn, 't': t, 'x': b, 'k': o['k'], 'rt': o['t'], 'r': o['b'], 'c': o['c'], 'via': 'text' if text else 'direct'}
    if 'detail' in o:
        e['detail'] = o['detail']
    return e


def run(ctx):
    ctx.cov['rule'] = ('recorded conversions of the real interpreter judged by TLC with MBFConv.tla; distinct = distinct '
                       '(fn, operand bytes, route) tuples; non-trivial = all (every tuple exercises a defining equation)')
    quick = ctx.quick()
    rng = ctx.rng
    PURITY.update(rng=rng, n=0, notes=[])
    # development knob only (smoke-testing the thorough code paths quickly); evidence records it when used
    scale = float(os.environ.get('VF_MBF_SCALE', '1'))
    if scale != 1:
        ctx.cov['volume_scale'] = scale
    # oracle self-checks (reduced format, native arithmetic as reference)
    ctx.model_check('MBFConv_MC', 'MBFConv_MC_quick.cfg' if quick else 'MBFConv_MC.cfg', require_actions=False, workers=4)
    if not quick:
        ctx.model_check('MBF_MC', 'MBF_MC_quick.cfg', require_actions=False, workers=4)
    t0 = time.time()
    d = Drv()
    bv = d.bv

    def on_reject(clause, e):
        key = {'clause': clause, 'fn': e['fn'], 't': e.get('t', 'i'), 'k': e['k'], 'c': e.get('c', 0), 'via': e['via']}
        ctx.reject('C03 %s: %s(%s %s) -> %s %s %s' % (clause, e['fn'], e.get('t', ''), e.get('x', e.get('v')), e['k'],
                                                      e.get('r', e.get('s')), e.get('detail', e.get('back', ''))),
                   key=key, data=e)

    pipe = Pipeline(ctx, 'C03_Trace', on_reject, lambda e: [e['fn'], e.get('x', e.get('v')), e['via']],
                    parallel=2 if quick else 4)
    events = Sink(ctx, pipe, lambda e: e['fn'], ['cint', 'int', 'd2s', 'hex', 'cv', 'mki'], drv=d)
    ptext = 0.08 if quick else 0.04      # share of float cases driven through BASIC text

    # ---- all 65536 integers ------------------------------------------------
    stride_txt = 9 if quick else 1
    for v in range(-32768, 32768):
        iv = d.val(int_bytes(v))      # (built from the encoding: a failing Integer.from_int must not stop the harness)
        for fn, base, pre in (('hex', 16, '&H'), ('oct', 8, '&O')):
            if (v % stride_txt == 0) or abs(v) < 300 or abs(v) > 32500:
                r = d.ev('%s$(%d)' % (fn.upper(), v))
                o = ({'k': 'val', 'b': list(bytearray(r[1]))} if r[0] == 'ok' and isinstance(r[1], bytes)
                     else {'k': 'internal' if r[0] == 'internal' else 'err', 'b': [], 'detail': repr(r[1])})
                via = 'text'
            else:
                o = d.call(getattr(bv, fn + '_'), [iv])
                via = 'direct'
            e = {'fn': fn, 'v': v, 'k': o['k'], 's': o['b'], 'bk': 'none', 'back': 0, 'via': via}
            if o['k'] == 'val' and o['b'] and len(o['b']) <= 6:
                rr = d.ev(pre + bytes(bytearray(o['b'])).decode('latin-1'))       # re-read with &H / &O
                if rr[0] == 'ok' and isinstance(rr[1], int) and not isinstance(rr[1], bool):
                    e['bk'], e['back'] = 'val', rr[1]
                else:
                    e['bk'] = 'internal' if rr[0] == 'internal' else 'err'
                    if rr[0] == 'internal':
                        e['k'] = 'internal'
                    e['detail'] = repr(rr[1])
            elif 'detail' in o:
                e['detail'] = o['detail']
            events.append(e)
        # MKI$ by value / CVI by bytes
        if v % stride_txt == 0 or abs(v) < 300 or abs(v) > 32500:
            r = d.ev('MKI$(%d)' % v)
            ok = r[0] == 'ok' and isinstance(r[1], bytes)
            events.append({'fn': 'mki', 'v': v, 'k': 'val' if ok else ('internal' if r[0] == 'internal' else 'err'),
                           'r': list(bytearray(r[1])) if ok else [], 'via': 'text'})
            b = int_bytes(v)
            d.setstr('A$', b)
            r = d.ev('CVI(A$)')
            ok = r[0] == 'ok' and isinstance(r[1], int)
            events.append({'fn': 'cvi', 'x': b, 'k': 'val' if ok else ('internal' if r[0] == 'internal' else 'err'),
                           'v': r[1] if ok else 0, 'via': 'text'})
        else:
            o = d.call(bv.mki_, [iv])
            events.append({'fn': 'mki', 'v': v, 'k': o['k'], 'r': o['b'], 'via': 'direct'})
            b = int_bytes(v)
            o = d.call(bv.cvi_, [d.vm.new_string().from_str(bytes(bytearray(b)))])
            ok = o['k'] == 'val' and o['t'] == 'i'
            events.append({'fn': 'cv', 't': 'i', 'x': b, 'k': o['k'], 'rt': o['t'], 'r': o['b'], 'c': o['c'], 'via': 'direct'})
        # CINT / FIX / INT of integral values, as integer, single and double
        if v % (3 if quick else 1) == 0 or abs(v) > 32700:
            for t in ('s', 'd'):
                events.append(conv_events(d, 'cint', flt_of_int(t, v), False))
        if v % (41 if quick else 7) == 0:
            events.append(conv_events(d, rng.choice(['cint', 'fix', 'int']), int_bytes(v), rng.random() < 0.2))
            # integer -> single / double is exact
            for to, f in (('s', bv.csng_), ('d', bv.cdbl_)):
                o = d.call(f, [iv])
                events.append({'fn': 'widen', 't': 'i', 'x': int_bytes(v), 'to': to, 'k': o['k'], 'rt': o['t'], 'r': o['b'],
                               'c': o['c'], 'via': 'direct'})

    # ---- CINT / FIX / INT on singles and doubles -----------------------------
    nflt = max(10, int(ctx.pick(25000, 400000) * scale))
    edge_n = [32767, 32768, 32769, 32766, 65535, 65536, 65537, 16384, 1, 2, 3, 255, 256]
    for t in ('s', 'd'):
        pats = []
        for _ in range(nflt):
            r = rng.random()
            if r < 0.45:
                pats.append(near_integer(rng, t))
            elif r < 0.65:
                pats.append(near_integer(rng, t, n=rng.choice(edge_n)))
            elif r < 0.8:
                pats.append(small_magnitude(rng, t))
            else:
                pats.append(rand_float(rng, t))
        # every integer-part width with every listed fraction shape, both signs (deterministic sweep)
        p = PBITS[t]
        for eb in range(1, p + 2):
            f = p - eb
            for n in {(1 << eb) - 1, 1 << (eb - 1), (1 << (eb - 1)) | 1}:
                if n.bit_length() != eb:
                    continue
                fracs = [0] if f <= 0 else sorted({0, 1, (1 << (f - 1)) - 1 if f > 1 else 0, 1 << (f - 1),
                                                   ((1 << (f - 1)) + 1) & ((1 << f) - 1), (1 << f) - 1})
                for fr in fracs:
                    mant = ((n << f) | fr) if f >= 0 else (n >> -f)
                    for neg in (0, 1):
                        pats.append(flt(t, mant, 128 + eb, neg))
        if not quick:
            # thorough: ALL 2^16 patterns of the 16 mantissa bits around the binary point, at 8 integer-part widths
            for eb in (1, 2, 8, 15, 16, 17, p - 1, p):
                lo = max(0, min(p - 17, p - eb - 8))
                base = rng.getrandbits(p)
                neg = rng.random() < 0.5
                for w in range(65536):
                    pats.append(flt(t, ((base & ~(0xffff << lo)) | (w << lo) | (1 << (p - 1))) & ((1 << p) - 1), 128 + eb, neg))
            ctx.cov['exhaustive_16bit_windows_%s' % t] = 8
        for b in pats:
            for fn in ('cint', 'fix', 'int'):
                events.append(conv_events(d, fn, b, rng.random() < ptext))

    # ---- CVx / MKx$ byte identity ---------------------------------------------
    ncv = max(10, int(ctx.pick(5000, 150000) * scale))
    for t in ('i', 's', 'd'):
        for i in range(ncv):
            b = [rng.randrange(256) for _ in range(SIZE[t])] if i % 3 else rand_value(rng, t)
            if rng.random() < (0.3 if quick else 0.1):
                d.setstr('A$', b)
                o = d.evalv('%s(A$)' % CVFN[t])
                events.append({'fn': 'cv', 't': t, 'x': b, 'k': o['k'], 'rt': o['t'], 'r': o['b'], 'c': o['c'], 'via': 'text'})
                r = d.ev('%s(%s(A$))' % (MKFN[t], CVFN[t]))        # the real Session.evaluate
                ok = r[0] == 'ok' and isinstance(r[1], bytes)
                events.append({'fn': 'mk', 't': t, 'x': b, 'k': 'val' if ok else ('internal' if r[0] == 'internal' else 'err'),
                               'r': list(bytearray(r[1])) if ok else [], 'via': 'text'})
            else:
                o = d.call(getattr(bv, CVFN[t].lower() + '_'), [d.vm.new_string().from_str(bytes(bytearray(b)))])
                events.append({'fn': 'cv', 't': t, 'x': b, 'k': o['k'], 'rt': o['t'], 'r': o['b'], 'c': o['c'], 'via': 'direct'})
                o = d.call(getattr(bv, MKFN[t][:3].lower() + '_'), [d.val(b)])
                events.append({'fn': 'mk', 't': t, 'x': b, 'k': o['k'] if o['t'] == 'str' or o['k'] != 'val' else 'err',
                               'r': o['b'], 'via': 'direct'})

    # ---- single -> double (exact), double -> single (neighbour rule) ----------
    nsd = max(10, int(ctx.pick(20000, 300000) * scale))
    for _ in range(nsd):
        b = rand_float(rng, 's')
        text = rng.random() < ptext
        o = d.evalv('CDBL(%s)' % d.operand_text('A', b)) if text else d.call(bv.cdbl_, [d.val(b)])
        events.append({'fn': 'widen', 't': 's', 'x': b, 'to': 'd', 'k': o['k'], 'rt': o['t'], 'r': o['b'], 'c': o['c'],
                       'via': 'text' if text else 'direct'})
    for i in range(nsd * 2):
        r = rng.random()
        if r < 0.5:
            # dropped fraction at / around one half of a single ulp: byte m4 in 125..131, rest zero / non-zero
            hi = rand_float(rng, 's')
            if hi[-1] == 0:
                hi[-1] = rng.randrange(1, 256)
            if rng.random() < 0.3:
                hi[0:2] = [0xff, 0xff]
                hi[2] |= 0x7f if rng.random() < 0.5 else 0
            m4 = rng.choice([125, 126, 127, 127, 128, 128, 128, 129, 129, 130, 131, 0, 1, 255])
            rest = rng.choice([[0, 0, 0], [1, 0, 0], [0, 0, 1], [255, 255, 255], [rng.randrange(256) for _ in range(3)]])
            b = rest + [m4] + hi
        elif r < 0.6:
            b = [rng.choice([0, 0xff, 0x80, 0x7f, 1, rng.randrange(256)]) for _ in range(4)] + \
                [0xff, 0xff, rng.choice([0x7f, 0xff]), rng.choice([0xff, 0xfe, 1])]      # carries up to the exponent / overflow
        else:
            b = rand_float(rng, 'd')
        text = rng.random() < ptext
        o = None
        if text and rng.random() < 0.4:
            o, note = d.on_variable('CSNG(%s)', b)
            if o is not None:
                PURITY['n'] += 1
                if note:
                    PURITY['notes'].append(('csng', b, note))
        if o is None:
            o = d.evalv('CSNG(%s)' % d.operand_text('A', b)) if text else d.call(bv.csng_, [d.val(b)])
        events.append({'fn': 'd2s', 't': 'd', 'x': b, 'k': o['k'], 'rt': o['t'], 'r': o['b'], 'c': o['c'],
                       'via': 'text' if text else 'direct'})
    d.close()
    ctx.cov['impl_wall_s'] = round(time.time() - t0, 1)
    pipe.finish()
    ctx.cov['conversions_applied_twice_to_a_variable'] = PURITY['n']
    for (fn, b, note) in PURITY['notes'][:50]:
        ctx.reject('C03 conversion_depends_on_or_changes_its_operand_variable: %s of %s: %s' % (fn, b, note),
                   key={'clause': 'conversion_not_a_function_of_the_value', 'fn': fn}, data={'fn': fn, 'x': b, 'note': note})
    ctx.cov['calls_direct'] = d.ndirect
    ctx.cov['calls_via_basic_text'] = d.ntext
    ctx.cov['events_by_fn'] = pipe.by
    ctx.assumptions += ['TLC evaluates MBF.tla/MBFConv.tla correctly (self-checked against native arithmetic on the reduced '
                        'format by MBFConv_MC / MBF_MC)',
                        'error kind on the BASIC-text path is read from the console message; direct calls run with the '
                        'floating-point error handler in raising mode (as under ON ERROR GOTO)']
