"""C36 - text cursor and screen content. Spec TextScreen.tla; models TextScreen_MC / TextScreen_Sim; trace spec TextScreen_Trace."""
import json, re, logging
from ..session import Sess, MESSAGES
from .. import core

LEVEL = 'model_checking'
META = {
    'technique': 'TLC exhaustive bounded model check of TextScreen.tla on a 5x4 screen (+ deep random simulation of the same model) '
                 '+ TLC-generated behaviours at the real screen size replayed on the real interpreter '
                 '+ TLC trace validation of these and of random statement histories',
    'text': 'TextScreen.tla is the reference text screen: cursor <<row, col, overflow>>, scroll window, character buffer; statements '
            'PRINT (plain text, control codes, line ends), LOCATE, CLS, VIEW PRINT, WIDTH, SCREEN as Must/Effect. TLC checks on every '
            'history of <= D statements of the 5x4 model that the cursor and CSRLIN/POS stay inside the screen, that LOCATE r,c is '
            'reported back, that PRINT/CLS never change rows outside the window and that plain text printed after CLS sits at the '
            'reference cells (declarative placement law with wrapping at the width and scrolling inside the window). '
            'TLC -simulate generates boundary-dense behaviours of the same spec at 80x25 which are replayed statement by statement on a '
            'real Session; these and random histories on all adapters (40/80/20 columns, text and graphics modes) are validated by '
            'TextScreen_Trace.tla on CSRLIN, POS(0), Session.get_chars(), SCREEN(r,c) samples, the window and the outcome.',
    'note': 'Trusted: TLC; projection reads TextScreen.current_row/current_col/overflow/_bottom_row_allowed, ScrollArea bounds and page wrap flags '
            'only to test "cursor inside the screen" and to re-synchronise the model after refused statements (their error message is printed). '
            'Not covered: KEY ON bar, INPUT/line editing, DBCS code pages, LOCATE cursor-shape arguments, other pages than page 0, '
            'WRITE/PRINT USING/TAB/SPC/comma zones, VIEW PRINT to row 25 on Tandy/PCjr.',
}
META['text'] += ' A refused statement is modelled too (cursor to the start of the next line unless in column 1, message + CHR$(255) + line end written as console output): the model is not re-synchronised from the observation, so state leaked by a refusal is detected.'

ADAPTER_MODES = {
    'cga': [0, 1, 2], 'ega': [0, 1, 2, 7, 8, 9], 'vga': [0, 1, 2, 7, 8, 9], 'mda': [0], 'hercules': [0, 3],
    'tandy': [0, 1, 2, 3, 4, 5, 6], 'pcjr': [0, 1, 2, 3, 4, 5, 6], 'olivetti': [0, 1, 2, 3],
}
_BEH = re.compile(r'^<<"BEHAVIOUR", "(.*)">>\s*$')
PRINTABLE = set(range(32, 127)) - {34}


def parse_behaviours(out):
    res = []
    for line in out.splitlines():
        m = _BEH.match(line)
        if m:
            res.append(json.loads(m.group(1).encode().decode('unicode_escape')))
    return res


class Driver(object):
    """Runs statements of the TextScreen fragment on a real Session and projects the text screen."""

    def __init__(self, ctx, nscr=3):
        self.ctx = ctx
        self.s = None
        self.events = []
        self.nscr = nscr
        self.prev = None

    def fresh(self, adapter='cga'):
        if self.s:
            self.s.close()
        self.adapter = adapter
        self.s = Sess(video=adapter)
        self.s.autocls = False
        core.import_repo()
        from pcbasic.basic.display import modes
        self.name2num = {}
        for k, v in modes._MODES[adapter].items():
            self.name2num.setdefault(v, 0 if isinstance(k, tuple) else k)
        self.prev = None
        self.events.append({'op': 'init', 'ok': True, 'code': 0, 'adapter': adapter, 'stmt': '(new session %s)' % adapter,
                            'obs': self.observe(scr=False)})

    def observe(self, scr=True):
        ts = self.s.impl.display.text_screen
        mode = ts.mode
        w, h = mode.width, mode.height
        page = ts._apage
        chars = self.s.s.get_chars()
        rows = [[ord(c) for c in row] for row in chars]
        if self.prev is None or len(self.prev) != len(rows) or len(self.prev[0]) != w:
            changed = [[i + 1, r] for i, r in enumerate(rows)]
        else:
            changed = [[i + 1, r] for i, r in enumerate(rows) if r != self.prev[i]]
        self.prev = rows
        top, bot = ts.scroll_area.bounds
        view = bool(ts.scroll_area.active)
        obs = {'w': w, 'h': h, 'mode': self.name2num.get(mode.name, 0), 'top': top, 'bot': bot, 'view': view,
               'row': ts.current_row, 'col': ts.current_col, 'ovf': bool(ts.overflow), 'bra': bool(ts._bottom_row_allowed),
               'wrap': [bool(page.wraps(r)) for r in range(1, h + 1)], 'rows': changed, 'scr': []}
        r1 = self.s.ev('CSRLIN')
        r2 = self.s.ev('POS(0)')
        obs['csrlin'] = r1[1] if r1[0] == 'ok' else -1
        obs['pos'] = r2[1] if r2[0] == 'ok' else -1
        if scr:
            rng = self.ctx.rng
            cells = [(rng.randint(1, h), rng.randint(1, w)) for _ in range(self.nscr)]
            cells.append((ts.current_row, max(1, ts.current_col - 1)))
            for (r, c) in cells:
                if view and not (top <= r <= bot):
                    continue        # SCREEN() outside an active window is refused (and the message would be printed)
                v = self.s.ev('SCREEN(%d,%d)' % (r, c))
                obs['scr'].append([r, c, v[1] if v[0] == 'ok' else -1])
        return obs

    def stmt(self, a):
        op = a['op']
        if op == 'print':
            b = bytes(a['s'])
            if len(b) <= 60 and all(x in PRINTABLE for x in b):
                arg = '"%s"' % b.decode('latin-1')
            else:
                self.s.s.set_variable('A$', b)
                arg = 'A$'
            return 'PRINT %s%s' % (arg, '' if a['nl'] else ';')
        if op == 'locate':
            r, c = a['r'], a['c']
            return 'LOCATE %s%s' % (r if r != -1 else '', (',%d' % c) if c != -1 else (',' if r == -1 else ''))
        if op == 'cls':
            return 'CLS'
        if op == 'viewprint':
            return 'VIEW PRINT' if (a['t'] == 0 and a['b'] == 0) else 'VIEW PRINT %d TO %d' % (a['t'], a['b'])
        if op == 'width':
            return 'WIDTH %d' % a['n']
        if op == 'screen':
            return 'SCREEN %d' % a['m']
        raise ValueError(op)

    def do(self, a):
        st = self.stmt(a)
        page0 = self.s.impl.display.text_screen._apage
        r = self.s.ex(st)
        e = dict(a)
        e.pop('done', None)
        e['stmt'] = st if 'A$' not in st else st.replace('A$', 'A$ [%s]' % ','.join(map(str, a['s'][:300])))
        e['ok'] = r[0] == 'ok'
        e['code'] = r[1] if r[0] == 'err' else 0
        e['kind'] = r[0]
        if r[0] == 'err' and r[1] in MSG_OF:
            e['msg'] = list(MSG_OF[r[1]])        # (the documented message table: input to the model, not an observation)
        e['obs'] = self.observe()
        if a['op'] in ('width', 'screen'):
            # the mode tables of the adapter are not part of the property: the width/mode reached are taken from the observation
            e['nw'] = e['obs']['w']
            e['nmode'] = e['obs']['mode']
            e['fresh'] = self.s.impl.display.text_screen._apage is not page0
        self.events.append(e)
        return e

    def close(self):
        if self.s:
            self.s.close()
            self.s = None


def random_string(rng, w, col):
    k = rng.random()
    if k < 0.25:
        n = rng.choice([w - col, w - col + 1, w - col + 2, w, w + 1, 1, 2, 2 * w])
    elif k < 0.9:
        n = rng.randint(0, 30)
    else:
        n = rng.randint(100, 255)
    n = max(0, min(255, n))
    base = rng.choice([65, 97, 48, 176])
    s = [base + (i % 23) for i in range(n)]
    if rng.random() < 0.35 and n:
        for _ in range(rng.randint(1, 3)):
            s[rng.randrange(n)] = rng.choice([9, 10, 13, 11, 12, 28, 29, 30, 31, 8, 0, 255, 7, 32, 34, 13])
    return s


def scripted_overflow(d, adapter):
    """Every run, independent of the seed: a full row printed without line end (the cursor waits past the last column), then each
    kind of statement that moves or uses the cursor, then a short PRINT - from the top row and from a row in the middle."""
    d.fresh(adapter)
    o = d.events[-1]['obs']
    w, h = o['w'], o['h']
    follow = [{'op': 'viewprint', 't': 3, 'b': 8}, {'op': 'viewprint', 't': 1, 'b': 1}, {'op': 'viewprint', 't': 0, 'b': 0},
              {'op': 'locate', 'r': 5, 'c': -1}, {'op': 'locate', 'r': -1, 'c': w}, {'op': 'locate', 'r': -1, 'c': 3},
              {'op': 'cls'}, {'op': 'print', 's': [], 'nl': True}, {'op': 'print', 's': [13], 'nl': False}]
    for f in follow:
        for row in (1, 7):
            d.do({'op': 'viewprint', 't': 0, 'b': 0})
            d.do({'op': 'cls'})
            d.do({'op': 'locate', 'r': row, 'c': 1})
            d.do({'op': 'print', 's': [65 + (i % 20) for i in range(w)], 'nl': False})
            d.do(dict(f))
            d.do({'op': 'print', 's': [120, 121, 122], 'nl': False})
            d.do({'op': 'print', 's': [49], 'nl': True})


def scripted_refused(d, adapter):
    """Every run: statements that are refused with the cursor on the last row of the window (and elsewhere), each followed by
    output - the refusal prints its message and must leave nothing else behind (see Refused in TextScreen_Trace)."""
    d.fresh(adapter)
    o = d.events[-1]['obs']
    w, h = o['w'], o['h']
    last = h - 1
    for (vp, row, col, bad) in [(None, last, 5, {'op': 'locate', 'r': h, 'c': w + 1}), (None, last, 1, {'op': 'locate', 'r': h, 'c': w + 1}),
                                ((5, last), last, 7, {'op': 'locate', 'r': h, 'c': 1}), ((5, last), last, 1, {'op': 'locate', 'r': h, 'c': 1}),
                                (None, 12, 9, {'op': 'locate', 'r': 12, 'c': w + 1}), (None, last, w, {'op': 'locate', 'r': h + 1, 'c': 1}),
                                ((3, 9), 9, 4, {'op': 'viewprint', 't': 9, 'b': 3}), (None, last, 3, {'op': 'viewprint', 't': 0, 'b': 30})]:
        d.do({'op': 'viewprint', 't': 0, 'b': 0})
        d.do({'op': 'cls'})
        if vp:
            d.do({'op': 'viewprint', 't': vp[0], 'b': vp[1]})
        d.do({'op': 'locate', 'r': row, 'c': col})
        d.do(dict(bad))
        d.do({'op': 'print', 's': [], 'nl': True})
        d.do({'op': 'print', 's': [120, 121, 122], 'nl': True})


def random_history(d, rng, adapter, nsteps):
    d.fresh(adapter)
    modes = ADAPTER_MODES[adapter]
    tandy = adapter in ('tandy', 'pcjr')
    for _ in range(nsteps):
        o = d.events[-1]['obs']
        w, h = o['w'], o['h']
        k = rng.random()
        if o['ovf'] and rng.random() < 0.65:
            # from the overflow position (a character was just printed in the last column): every kind of statement that moves or
            # uses the cursor (the round-1 seeded change of C36 kept the overflow flag across VIEW PRINT)
            t = rng.choice([1, 2, rng.randint(1, 23)])
            a = rng.choice([{'op': 'locate', 'r': rng.choice([-1, rng.randint(o['top'], o['bot'])]), 'c': w},
                            {'op': 'viewprint', 't': t, 'b': rng.choice([t, min(24, t + 3), 24 if not tandy else h - 1])},
                            {'op': 'viewprint', 't': t, 'b': rng.choice([t, min(24, t + 3), 24 if not tandy else h - 1])},
                            {'op': 'viewprint', 't': 0, 'b': 0},
                            {'op': 'print', 's': [65, 66, 67], 'nl': False},
                            {'op': 'print', 's': [], 'nl': True},
                            {'op': 'locate', 'r': rng.randint(o['top'], o['bot']), 'c': -1},
                            {'op': 'cls'}])
            if a['op'] == 'viewprint' and a['b'] and tandy and a['b'] >= h:
                a['b'] = h - 1
        elif o['bra'] and o['row'] == h and not o['view'] and rng.random() < 0.5:
            # the cursor was put on the bottom row: a one-row window directly above it, then a line end
            d.do({'op': 'viewprint', 't': h - 1, 'b': h - 1})
            a = {'op': 'print', 's': [], 'nl': True}
        elif k < 0.55:
            a = {'op': 'print', 's': random_string(rng, w, o['col']), 'nl': rng.random() < 0.5}
        elif k < 0.75:
            if rng.random() < 0.8:
                r = rng.choice([-1, 1, o['top'], o['bot'], h - 1, h, rng.randint(1, h), rng.randint(1, h)])
                c = rng.choice([-1, 1, w, w - 1, rng.randint(1, w), rng.randint(1, w)])
            else:
                r = rng.choice([h + 1, 26, 255, 0, 1, -1])
                c = rng.choice([w + 1, 81, 255, 0, 1, -1])
            a = {'op': 'locate', 'r': r, 'c': c}
        elif k < 0.80:
            a = {'op': 'cls'}
        elif k < 0.92:
            if rng.random() < 0.2:
                a = {'op': 'viewprint', 't': 0, 'b': 0}
            else:
                t = rng.choice([1, 2, rng.randint(1, 24), 23, 24])
                b = rng.choice([t, t + 1, rng.randint(t, 24), 24, 24, rng.randint(1, 25)])
                if tandy and b >= h:
                    b = h - 1
                a = {'op': 'viewprint', 't': t, 'b': min(b, 25)}
        elif k < 0.96:
            a = {'op': 'width', 'n': rng.choice([40, 80, 40, 80, 20 if tandy else 40])}
        else:
            a = {'op': 'screen', 'm': rng.choice(modes)}
        d.do(a)


KEEP = ('op', 's', 'nl', 'r', 'c', 't', 'b', 'n', 'm', 'nw', 'nmode', 'fresh', 'ok', 'code', 'msg', 'obs')
MSG_OF = {code: text for text, code in MESSAGES.items()}


def run(ctx):
    logging.disable(logging.WARNING)      # pcbasic warns about missing 14/16-pixel fonts on every mode switch
    ctx.cov['rule'] = ('events = BASIC statements executed on a real Session, each followed by CSRLIN, POS(0), get_chars() and SCREEN(r,c) samples; '
                       'distinct by (statement, observed cursor, window, changed rows); non-trivial = everything except refused statements')
    # 1. design: exhaustive bounded check of the 5x4 model + deep random walks of the same model
    r = ctx.model_check('TextScreen_MC', cfg=ctx.pick('TextScreen_MC.cfg', 'TextScreen_MC_deep.cfg'), workers=4, require_actions=False)
    if r['distinct'] < 1000:
        raise core.MachineryError('model check explored only %d states' % r['distinct'])
    wcfg = ctx.path('walk.cfg')
    with open(wcfg, 'w') as f:
        f.write(open(core.SPEC + '/TextScreen_MC_walk.cfg').read().replace('NWalks = 300', 'NWalks = %d' % ctx.pick(150, 4000)).replace('Seed = 1', 'Seed = %d' % (ctx.seed % 60000)))
    r = ctx.tlc('TextScreen_MC', wcfg, workers=1, tag='small-model random walks', timeout=1500)
    if not r['ok']:
        ctx.reject('TLC random walks of TextScreen_MC failed: %s' % r['error'], key={'clause': 'model_check'}, data=r['out'][-3000:])
    ctx.cov['states'] += r['generated']
    # 2. spec -> code: behaviours generated by TLC at the real size, replayed on the interpreter
    d = Driver(ctx)
    nbeh = 0
    for (w, modes, adapter) in ((80, '{0, 1, 2, 7, 8, 9}', 'ega'),):
        cfg = ctx.path('sim_%d.cfg' % w)
        with open(cfg, 'w') as f:
            f.write('SPECIFICATION Spec\nCONSTANTS\n  TextWidths = {40, 80}\n  W = %d\n  H = 25\n  D = %d\n  N = %d\n  Seed = %d\n  Modes = %s\n'
                    'INVARIANT Emit\nCHECK_DEADLOCK FALSE\n' % (w, 30, ctx.pick(24, 300), (ctx.seed * 2 + w) % 60000, modes))
        r = ctx.tlc('TextScreen_Sim', cfg, workers=1, tag='behaviour generation %dx25' % w, timeout=1500)
        if not r['ok']:
            raise core.MachineryError('behaviour generation failed: %s\n%s' % (r['error'], r['out'][-2000:]))
        behs = parse_behaviours(r['out'])
        if not behs:
            raise core.MachineryError('no behaviours generated')
        for i, beh in enumerate(behs):
            d.fresh(('ega', 'vga', 'cga')[i % 3])
            for a in beh:
                d.do(a)
            nbeh += 1
    ctx.cov['model_behaviours_replayed'] = nbeh
    nreplayed = len(d.events)
    # 3. code -> spec: random histories on every adapter
    rng = ctx.rng
    nhist = ctx.pick(24, 600)
    adapters = list(ADAPTER_MODES)
    for ad in adapters[:2]:
        scripted_overflow(d, ad)
        scripted_refused(d, ad)
    for hno in range(nhist):
        random_history(d, rng, adapters[hno % len(adapters)], rng.randint(20, 60))
    d.close()
    events = d.events
    ctx.cov['replayed_model_steps'] = nreplayed
    verdicts = []
    CH = 4000
    # cut into chunks at session boundaries (a chunk starts with an init event = full observation)
    chunks, cur = [], []
    for e in events:
        if e['op'] == 'init' and len(cur) >= CH:
            chunks.append(cur)
            cur = []
        cur.append(e)
    if cur:
        chunks.append(cur)
    base = 0
    for ch in chunks:
        vs = ctx.validate('TextScreen_Trace', [{k: e[k] for k in KEEP if k in e} for e in ch])
        verdicts += [(base + i, c) for (i, c) in vs]
        base += len(ch)
    ctx.cov['traces_validated_against_impl'] += nbeh + nhist
    nscroll = nerr = novf = 0
    for e in events:
        if e['op'] == 'init':
            continue
        o = e['obs']
        ctx.count([e['stmt'], o['csrlin'], o['pos'], o['top'], o['bot'], o['w'], o['rows']], nontrivial=e['ok'])
        nscroll += len(o['rows']) > 3
        nerr += not e['ok']
        novf += o['ovf']
        if e['kind'] == 'internal':
            ctx.reject('C36 internal error on %s' % e['stmt'], key={'clause': 'internal'}, data=e)
    ctx.cov['events_scrolling'] = nscroll
    ctx.cov['events_refused'] = nerr
    ctx.cov['refused_events_with_message_judged'] = sum(1 for e in events if 'msg' in e)
    ctx.cov['refused_on_bottom_window_row'] = sum(1 for e in events if 'msg' in e and e['op'] == 'locate' and e.get('r') == e['obs']['h'])
    ctx.cov['events_in_overflow_position'] = novf
    for e in (events[5], events[len(events) // 2], events[-1]):
        ctx.sample({'stmt': e['stmt'][:120], 'ok': e['ok'], 'code': e['code'],
                    'obs': {k: e['obs'][k] for k in ('csrlin', 'pos', 'top', 'bot', 'w', 'scr')}})
    for (i, clause) in verdicts:
        e = events[i - 1]
        j = i - 1
        while events[j]['op'] != 'init':
            j -= 1
        hist = [x['stmt'][:200] for x in events[j:i]]
        o = e['obs']
        before = events[i - 2]['obs']
        ctx.reject('C36 %s at %r (ok=%s code=%s csrlin=%s pos=%s) adapter=%s after %s' % (
            clause, e['stmt'][:80], e['ok'], e['code'], o['csrlin'], o['pos'], events[j]['adapter'], hist[-4:-1]),
            key={'clause': clause, 'op': e['op'], 'ovf_before': before['ovf'], 'bra_before': before['bra'],
                 'col_is_width': e.get('c') == before['w']},
            data={'event': {k: e[k] for k in e if k != 'obs'}, 'obs': {k: o[k] for k in o if k != 'rows'},
                  'before': {k: before[k] for k in before if k not in ('rows',)}, 'history': hist[-40:]})
    if nscroll == 0:
        raise core.MachineryError('vacuous: no statement scrolled the screen')
