"""C33 - DRAW pen movement. Spec Draw.tla; generator/self-check Draw_MC; two-pass trace spec Draw_Trace."""
import re, json, time
from .. import gfx, core

LEVEL = 'model_checking'
META = {
    'technique': 'TLC enumerates every DRAW string of a bounded command alphabet (Draw_MC, laws of Draw.tla checked on each) and replays all of them on the real '
                 'interpreter; random longer strings validated by the total trace spec Draw_Trace (compile pass: model segments; judge pass: observations)',
    'text': 'Draw.tla defines the pen state machine (pos, scale, colour; U D L R E F G H with counts, M absolute/relative, prefixes B and N, S, C, X substrings; '
            'offsets trunc(scale*n/4)). Draw_MC enumerates ALL strings of <= 3 (thorough <= 5) commands over a 12 (8)-command alphabet, checks Run against the '
            'declarative reading of the statement (final position = fold of the offsets, one segment per non-B move, N returns, X = expansion) and prints each; '
            'each is executed by a real Session (DRAW, then POINT(0)/POINT(1) and PSET STEP(0,0) with a marker attribute) and the model segments are rendered with '
            'LINE statements on a cleared screen; Draw_Trace judges pen position, marker position and pixel equality. Random strings (counts up to 300, signs, scales '
            '1..255, blanks/semicolons/lower case, =variable; references, VARPTR$ references, X substrings nested twice, pen leaving the screen) run in every graphics mode.',
    'note': 'Trusted: TLC, JSON plumbing, pixel read-back, the rendering of command records to DRAW text (checked indirectly: a wrong rendering is rejected). '
            'Angle commands (A, TA), P, WINDOW, VIEW and non-integer variable values are outside the fragment. Scale and pen colour persist between DRAW statements (part of the model).',
}
META['text'] += ' A scale outside 1..255 is refused: the string stops, earlier segments stay, the scale in force is unchanged (Draw.tla err); refused strings are judged on outcome and pen position.'
_CASE = re.compile(r'^<<"CASE", "(.*)">>\s*$')
MOVES = 'UDLREFGH'


# ---------------------------------------------------------------------------------------------------------
# rendering command records to DRAW text (generator knowledge of the syntax; the semantics live in Draw.tla)

class Renderer(object):
    """Renders command records; numeric arguments may be literals, =VAR; references or VARPTR$ references."""
    NUMVARS = ['N0%', 'N1%', 'N2%', 'F0!', 'F1!', 'D0#']
    ARRS = ['B%(2)', 'B%(0)', 'C!(1)']
    STRVARS = ['S0$', 'S1$', 'S2$', 'S3$']

    def __init__(self, rng, plain=False, strvars=None):
        self.rng, self.plain = rng, plain
        self.pre = []           # LET statements to run before the DRAW
        self.nv = 0
        # string variables still free for substrings (shared with the renderers of nested substrings: one variable per substring)
        self.strvars = list(self.STRVARS) if strvars is None else strvars

    def num(self, n, allow_ref=True, force_sign=False, no_plus=False):
        rng = self.rng
        if self.plain or not allow_ref or rng.random() < 0.75:
            s = str(abs(n))
            if n < 0:
                return '-' + s
            return ('+' + s) if (force_sign or (rng.random() < 0.08 and not self.plain and not no_plus)) else s
        sign = ''
        v = n
        if n < 0 or force_sign:
            # the sign is part of the macro text, the variable holds the magnitude
            sign = '-' if n < 0 else '+'
            v = abs(n)
        k = rng.random()
        if k < 0.45 and self.nv < len(self.NUMVARS):
            var = self.NUMVARS[self.nv]; self.nv += 1
            self.pre.append('%s=%d' % (var, v))
            return '%s=%s;' % (sign, var)
        if k < 0.6:
            var = rng.choice(self.ARRS)
            if any(p.startswith(var + '=') for p in self.pre):
                return sign + str(v)
            self.pre.append('%s=%d' % (var, v))
            return '%s=%s;' % (sign, var)
        if self.nv < len(self.NUMVARS):
            var = self.NUMVARS[self.nv]; self.nv += 1
            self.pre.append('%s=%d' % (var, v))
            return '%s="+VARPTR$(%s)+"' % (sign, var)
        return sign + str(v)

    def cmd(self, c, depth=0):
        rng = self.rng
        up = (lambda s: s) if (self.plain or rng.random() < 0.8) else (lambda s: s.lower())
        sp = '' if self.plain else rng.choice(['', '', '', ' '])
        pre = ('B' if c.get('b') else '') + ('N' if c.get('nn') else '')
        if c.get('b') and c.get('nn') and rng.random() < 0.5:
            pre = 'NB'
        if c['c'] in MOVES:
            if c['n'] == 1 and (self.plain or rng.random() < 0.5):
                arg = ''
            else:
                arg = self.num(c['n'])
            return up(pre + sp + c['c']) + sp + arg
        if c['c'] == 'M':
            if c['rel']:
                return up(pre + 'M') + sp + self.num(c['x'], force_sign=True) + sp + ',' + sp + self.num(c['y'])
            return up(pre + 'M') + sp + self.num(c['x'], allow_ref=False, no_plus=True) + ',' + sp + self.num(c['y'])
        if c['c'] in 'SC':
            return up(c['c']) + sp + self.num(c['n'])
        if c['c'] == 'X':
            inner = Renderer(rng, plain=True, strvars=self.strvars)         # substrings: literal text
            text = inner.text(c['sub'], depth + 1)
            if not self.strvars:
                # no string variable left: the substring is written in place (same command records, X dropped)
                self.pre += inner.pre
                return text
            var = self.strvars.pop(0)
            self.pre += inner.pre
            self.pre.append('%s="%s"' % (var, text))
            if rng.random() < 0.5 or depth > 0:
                return 'X%s;' % var
            return 'X"+VARPTR$(%s)+"' % var
        raise ValueError(c)

    def text(self, cmds, depth=0):
        rng = self.rng
        out = []
        for c in cmds:
            out.append(self.cmd(c, depth))
            if not self.plain and not out[-1].endswith('"') and rng.random() < 0.15:
                out.append(rng.choice([';', ' ', ' ;']))
        return ''.join(out)


def flat_has_x(cmds):
    return any(c['c'] == 'X' for c in cmds)


# ---------------------------------------------------------------------------------------------------------

def tlc_strings(ctx):
    r = ctx.tlc('Draw_MC', ctx.pick('Draw_MC.cfg', 'Draw_MC_big.cfg'), workers=ctx.pick(1, 4), tag='enumerate')
    ctx.cov['states'] += r['distinct']
    ctx.cov['transitions'] += r['generated']
    if not r['ok']:
        ctx.reject('Draw_MC laws violated: %s' % r['error'], key={'clause': 'model_check'}, data=r['out'][-3000:])
        return []
    cases = []
    for line in r['out'].splitlines():
        m = _CASE.match(line)
        if m:
            cases.append(json.loads(m.group(1).encode().decode('unicode_escape'))['cmds'])
    return cases


_SEGS = re.compile(r'^<<"SEGS", "(.*)">>\s*$')


def compile_segments(ctx, events):
    """Compile pass of Draw_Trace: event index (0-based) -> {segs, pos} as computed by the specification."""
    tf = ctx.path('compile.json')
    with open(tf, 'w') as f:
        json.dump({'header': {'compile': True}, 'events': events}, f)
    r = ctx.tlc('Draw_Trace', 'Draw_Trace.cfg', env={'TRACE_FILE': tf, 'OUT_FILE': tf + '.out'}, workers=1, tag='compile')
    if not r['ok']:
        raise core.MachineryError('compile pass of Draw_Trace failed: %s\n%s' % (r['error'], r['out'][-2000:]))
    ctx.cov['states'] += r['distinct']
    ctx.cov['transitions'] += r['generated']
    model = {}
    for line in r['out'].splitlines():
        m = _SEGS.match(line)
        if m:
            d = json.loads(m.group(1).encode().decode('unicode_escape'))
            model[d['i'] - 1] = d
    return model


class Tests(object):
    """Builds the event list of one mode: reset, then per test setpos + draw."""

    def __init__(self, ctx, adapter, nr):
        self.ctx, self.rng = ctx, ctx.rng
        self.adapter, self.nr = adapter, nr
        self.g = g = gfx.GSess(adapter)
        if g.screen(nr)[0] != 'ok' or g.text:
            raise core.MachineryError('cannot enter SCREEN %d on %s' % (nr, adapter))
        g.ex('KEY OFF')
        g.ex('DIM B%(5),C!(5)')
        g.ex('N0%=0:N1%=0:N2%=0:F0!=0:F1!=0:D0#=0:S0$="":S1$="":S2$="":S3$="":P0=0:P1=0')
        self.tag = '%s/%d' % (adapter, nr)
        n = g.nattr
        self.marker = n - 1 if n > 2 else None
        self.cols = list(range(1, n - 1)) if n > 2 else [1]
        p0, p1 = g.ev('POINT(0)'), g.ev('POINT(1)')
        self.events = [{'op': 'reset', 'pos': [int(p0[1]), int(p1[1])], 'scale': 4, 'col': 0}]
        self.tests = []         # dicts: start, cmds, text, pre, cell, ev (index of the draw event)

    def colour(self, k):
        return self.cols[(k - 1) % len(self.cols)]

    def fix_colours(self, cmds):
        out = []
        for c in cmds:
            c = dict(c)
            if c['c'] == 'C':
                c['n'] = self.colour(c['n'])
            elif c['c'] == 'X':
                c['sub'] = self.fix_colours(c['sub'])
            out.append(c)
        return out

    def add(self, start, cmds, cell, plain=False, label='', oor=False):
        r = Renderer(self.rng, plain=plain)
        text = r.text(cmds)
        if len(text) > 240 or sum(len(p) for p in r.pre) > 200:
            r = Renderer(self.rng, plain=True)
            text = r.text(cmds)
        self.events.append({'op': 'setpos', 'x': start[0], 'y': start[1],
                            'col': cmds[0]['n'] if cmds and cmds[0]['c'] == 'C' and not oor else self.cols[0]})
        self.events.append({'op': 'draw', 'cmds': cmds})
        self.tests.append({'start': start, 'cmds': cmds, 'text': text, 'pre': r.pre, 'cell': cell, 'ev': len(self.events) - 1,
                           'label': label, 'oor': oor})

    # ---- execution ----------------------------------------------------------
    def execute(self, model):
        """model: event index -> {segs, pos} from the compile pass.  Tests are grouped by screenful (cells)."""
        g = self.g
        W, H = g.W, g.H
        groups = []
        cur, used = [], set()
        for t in self.tests:
            if t['cell'] is None or t['cell'] in used or (cur and cur[0]['cell'] is None):
                if cur:
                    groups.append(cur)
                cur, used = [], set()
            cur.append(t)
            used.add(t['cell'])
            if t['cell'] is None:
                groups.append(cur); cur, used = [], set()
        if cur:
            groups.append(cur)
        for grp in groups:
            g.ex('LINE (0,0)-(%d,%d),0,BF' % (W - 1, H - 1))
            for t in grp:
                e = self.events[t['ev']]
                sx, sy = t['start']
                if t['pre']:
                    g.ex(':'.join(t['pre']))
                # (no marker for the out-of-range colour tests: a clipped attribute may coincide with the marker attribute)
                use_marker = self.marker is not None and not t['oor']
                t['use_marker'] = use_marker
                mark = ':PSET STEP(0,0),%d' % self.marker if use_marker else ''
                st = 'PSET (%d,%d),%d:DRAW "%s":P0=POINT(0):P1=POINT(1)%s' % (sx, sy, self.events[t['ev'] - 1]['col'], t['text'], mark)
                st = st.replace('+""', '').replace('""+', '')
                r = g.ex(st)
                if r[0] == 'err':
                    # the DRAW was refused: the rest of the line did not run; observe the pen all the same. The error message is
                    # written over the graphics screen, so only the pen position is judged (such tests have a screenful of their own)
                    g.ex('P0=POINT(0):P1=POINT(1)')
                    e['noref'] = True
                    t['use_marker'] = False
                e['stmt'] = st
                e['kind'] = r[0]
                e['ok'] = r[0] == 'ok'
                e['code'] = r[1] if r[0] == 'err' else 0
                if r[0] == 'internal':
                    e['detail'] = str(r[1])[:200]
                try:
                    e['p0'], e['p1'] = int(g.s.get_variable('P0!')), int(g.s.get_variable('P1!'))
                except BaseException:  # noqa
                    e['p0'], e['p1'] = -9999, -9999
            a_img = g.visible()
            g.ex('LINE (0,0)-(%d,%d),0,BF' % (W - 1, H - 1))
            for t in grp:
                e = self.events[t['ev']]
                m = model.get(t['ev'])
                sx, sy = t['start']
                lines = [list(s) for s in m['segs']] if m else []
                e['lines'] = lines
                if e.get('noref'):
                    continue
                if any(s[4] > 255 for s in lines):
                    e['noref'] = True
                    continue
                stmts = ['PSET (%d,%d),%d' % (sx, sy, self.events[t['ev'] - 1]['col'])]
                stmts += ['LINE (%d,%d)-(%d,%d),%d' % tuple(s) for s in lines]
                buf = []
                for s in stmts:
                    if sum(len(x) + 1 for x in buf) + len(s) > 230:
                        g.ex(':'.join(buf)); buf = []
                    buf.append(s)
                if buf:
                    rr = g.ex(':'.join(buf))
                    if rr[0] != 'ok':
                        e['lines_failed'] = [rr[0], rr[1]]
            b_img = g.visible()
            for t in grp:
                e = self.events[t['ev']]
                x0, y0, x1, y1 = t['cell'] if t['cell'] else (0, 0, W - 1, H - 1)
                e['clip'] = [x0, y0, x1, y1]
                diff, marks = [], []
                for y in range(y0, y1 + 1):
                    ra, rb = a_img[y * W + x0:y * W + x1 + 1], b_img[y * W + x0:y * W + x1 + 1]
                    if t.get('use_marker') and self.marker in ra:
                        marks += [[x0 + i, y] for i, v in enumerate(ra) if v == self.marker]
                    if ra != rb:
                        diff += [[x0 + i, y] for i in range(len(ra)) if ra[i] != rb[i]]
                e['diff'] = diff[:30]
                e['ndiff'] = len(diff)
                if t.get('use_marker'):
                    e['marks'] = marks[:30]

    def close(self):
        self.g.close()


def random_cmds(rng, W, H, cols, depth=0, maxlen=12):
    out = []
    for _ in range(rng.randint(1, maxlen)):
        k = rng.random()
        b = rng.random() < 0.15
        nn = rng.random() < 0.15
        if k < 0.55:
            n = rng.choice([1, 1, 2, 3, 5, 7, rng.randint(0, 40), rng.randint(0, 300), -rng.randint(1, 30)])
            out.append({'c': rng.choice(MOVES), 'n': n, 'b': b, 'nn': nn})
        elif k < 0.67:
            out.append({'c': 'M', 'x': rng.choice([1, -1]) * rng.randint(0, 60), 'y': rng.choice([1, -1]) * rng.randint(0, 60), 'rel': True, 'b': b, 'nn': nn})
        elif k < 0.77:
            out.append({'c': 'M', 'x': rng.choice([rng.randint(0, W - 1), rng.randint(0, W + 300)]),
                        'y': rng.choice([rng.randint(0, H - 1), rng.randint(0, H - 1), -rng.randint(1, 200), rng.randint(0, H + 300)]),
                        'rel': False, 'b': b, 'nn': nn})
        elif k < 0.87:
            out.append({'c': 'S', 'n': rng.choice([1, 2, 3, 4, 5, 6, 7, 8, 9, 10, 13, 16, 40, 255, rng.randint(1, 255)])})
            if depth == 0 and rng.random() < 0.12:
                # a scale outside 1..255: the string is refused there; the scale in force must stay what it was
                out[-1]['n'] = rng.choice([0, 256, 1000, -4, 0, 256])
        elif k < 0.94 or depth >= 2:
            out.append({'c': 'C', 'n': rng.choice(cols)})
        else:
            out.append({'c': 'X', 'sub': random_cmds(rng, W, H, cols, depth + 1, maxlen=5)})
    return out


def reach_bound(cmds, start, smax=255):
    """Generator knowledge only (never used in a verdict): an upper bound on how far from the origin the pen can get while the
    string runs, whatever scale (<= 255) is in force at its start. Strings that could leave the 16-bit coordinate range are not
    generated: there the reference LINE statements (and DRAW itself) raise Overflow, which is outside the fragment."""
    far = [max(abs(start[0]), abs(start[1]))]
    worst = [far[0]]
    sc = [smax]

    def walk(cs):
        for c in cs:
            if c['c'] == 'X':
                if not walk(c['sub']):
                    return False
            elif c['c'] == 'S':
                if not 1 <= c['n'] <= 255:
                    return False            # refused: the string stops here
                sc[0] = c['n']
            elif c['c'] == 'M' and not c['rel']:
                worst[0] = max(worst[0], abs(c['x']), abs(c['y']))
                if not c.get('nn'):
                    far[0] = max(abs(c['x']), abs(c['y']))
            elif c['c'] == 'M' or c['c'] in MOVES:
                d = max(abs(c['x']), abs(c['y'])) if c['c'] == 'M' else abs(c['n'])
                reach = far[0] + (d * sc[0]) // 4 + 1
                worst[0] = max(worst[0], reach)
                if not c.get('nn'):
                    far[0] = reach
        return True
    walk(cmds)
    return worst[0]


def run(ctx):
    ctx.cov['rule'] = ('one event per DRAW statement executed on a real Session, judged by TLC with Draw.tla (pen position by POINT(0)/POINT(1) and PSET STEP(0,0), '
                       'pixels against the LINE rendering of the model segments); distinct by (mode, start, command records); non-trivial = strings with at least one move')
    rng = ctx.rng
    t0 = time.time()
    strings = tlc_strings(ctx)
    ctx.cov['tlc_enumerated_strings'] = len(strings)
    if len(strings) < 1000 and not ctx.violations:
        raise core.MachineryError('Draw_MC emitted %d strings' % len(strings))
    big = [('vga', 9), ('ega', 8), ('hercules', 3), ('olivetti', 3), ('egamono', 10), ('ega64k', 9), ('pcjr', 6), ('tandy', 6)]
    enum_modes = [big[ctx.seed % len(big)]]
    small_sample = None
    per_mode_random = ctx.pick(8, 90)
    all_tests = []
    for adapter, nr in gfx.ALL_MODES:
        T = Tests(ctx, adapter, nr)
        g = T.g
        W, H = g.W, g.H
        cells = [(cx, cy, cx + 63, cy + 63) for cy in range(0, H - 63, 64) for cx in range(0, W - 63, 64)]
        todo = []
        if (adapter, nr) in enum_modes:
            todo = strings
        elif not ctx.quick():
            if small_sample is None:
                small_sample = [s for s in strings if len(s) <= 3]
                rng.shuffle(small_sample)
                small_sample = small_sample[:600]
            todo = small_sample
        else:
            todo = [strings[rng.randrange(len(strings))] for _ in range(30)]
        for i, s in enumerate(todo):
            cell = cells[i % len(cells)]
            cmds = T.fix_colours([dict(c) for c in s])
            # absolute M coordinates of the enumeration are relative to the cell
            cmds = [dict(c, x=c['x'] + cell[0], y=c['y'] + cell[1]) if c['c'] == 'M' and not c['rel'] else c for c in cmds]
            lead = [{'c': 'C', 'n': T.cols[0]}]
            if i % 2:
                lead.append({'c': 'S', 'n': 4})
            else:
                T.add((cell[0] + 32, cell[1] + 32), [{'c': 'S', 'n': 4}], cell, plain=True, label='scale-reset')
                cell = cells[(i + 1) % len(cells)] if len(cells) > 1 else cell
                cmds = [dict(c, x=c['x'] - cells[i % len(cells)][0] + cell[0], y=c['y'] - cells[i % len(cells)][1] + cell[1])
                        if c['c'] == 'M' and not c['rel'] else c for c in cmds]
            T.add((cell[0] + 32, cell[1] + 32), lead + cmds, cell, plain=(i % 3 == 0), label='enumerated')
        # random longer strings, whole screen
        for k in range(per_mode_random):
            start = (rng.randint(0, W - 1), rng.randint(0, H - 1))
            for _ in range(50):
                cmds = [{'c': 'C', 'n': rng.choice(T.cols)}] + random_cmds(rng, W, H, T.cols)
                if reach_bound(cmds, start) < 30000:
                    break
            else:
                continue
            T.add(start, cmds, None, label='random')
        # a refused scale between two DRAW statements: the scale set before it stays in force (round-2 seeded change C33b)
        mv = lambda c, n: {'c': c, 'n': n, 'b': False, 'nn': False}
        for bad in (0, 256, rng.choice([1000, -4, 300])):
            cell = cells[0]
            T.add((cell[0] + 8, cell[1] + 8), [{'c': 'C', 'n': T.cols[0]}, {'c': 'S', 'n': rng.choice([8, 12, 2])}, mv('R', 3)], cell, plain=True, label='scale-set')
            T.add((cell[0] + 8, cell[1] + 16), [mv('D', 2), {'c': 'S', 'n': bad}, mv('R', 9)], None, plain=True, label='scale-refused')
            T.add((cell[0] + 8, cell[1] + 24), [mv('R', 5), mv('D', 3), {'c': 'S', 'n': 4}], cell, plain=True, label='after-refused-scale')
        # other graphics statements between two DRAW statements leave the scale alone: VIEW (all forms), WINDOW
        # (round-3 seeded change C33c reset the DRAW scale whenever a VIEW succeeded)
        for between in ('VIEW', 'VIEW (%d,%d)-(%d,%d)' % (0, 0, W - 1, H - 1), 'VIEW SCREEN (%d,%d)-(%d,%d)' % (0, 0, W - 1, H - 1),
                        'WINDOW'):
            cell = cells[0]
            T.add((cell[0] + 8, cell[1] + 8), [{'c': 'C', 'n': T.cols[0]}, {'c': 'S', 'n': rng.choice([8, 12, 2, 40])}, mv('R', 2)], cell, plain=True, label='scale-set')
            T.add((cell[0] + 8, cell[1] + 24), [mv('R', 5), mv('D', 3)], cell, plain=True, label='after-other-statement')
            T.tests[-1]['pre'] = [between] + list(T.tests[-1]['pre'])
            T.add((cell[0] + 8, cell[1] + 40), [{'c': 'S', 'n': 4}], cell, plain=True, label='scale-reset')
        # attributes outside the mode's range
        for c in (g.nattr, g.nattr + 1, 255, 300):
            T.add((40, 40), [{'c': 'C', 'n': c}, {'c': 'R', 'n': 5, 'b': False, 'nn': False}, {'c': 'D', 'n': 3, 'b': False, 'nn': False}],
                  cells[0], plain=True, label='colour-out-of-range', oor=True)
        all_tests.append(T)
    ctx.cov['build_wall_s'] = round(time.time() - t0, 1)
    # pass 1: model segments (compile), one TLC run over the events of all modes (each mode starts with a reset event)
    offs, allev = [], []
    for T in all_tests:
        offs.append(len(allev))
        allev += T.events
    model = compile_segments(ctx, [{k: v for k, v in e.items() if k in ('op', 'pos', 'scale', 'col', 'x', 'y', 'cmds')} for e in allev])
    t1 = time.time()
    for T, off in zip(all_tests, offs):
        T.execute({i - off: m for i, m in model.items() if off <= i < off + len(T.events)})
        T.close()
    ctx.cov['impl_wall_s'] = round(time.time() - t1, 1)
    # pass 2: judge
    keep = ('op', 'pos', 'scale', 'col', 'x', 'y', 'cmds', 'ok', 'kind', 'code', 'p0', 'p1', 'lines', 'marks', 'diff', 'clip', 'noref')
    verdicts = ctx.validate('Draw_Trace', [{k: e[k] for k in keep if k in e} for e in allev], header={'compile': False}, name='judge')
    labels = {}
    for T, off in zip(all_tests, offs):
        ctx.cov['traces_validated_against_impl'] += 1
        byev = {t['ev']: t for t in T.tests}
        for t in T.tests:
            labels[t['label']] = labels.get(t['label'], 0) + 1
            ctx.count([T.tag, t['start'], t['cmds']], nontrivial=any(c['c'] in MOVES or c['c'] in 'MX' for c in t['cmds']))
            e = T.events[t['ev']]
            if 'lines_failed' in e and not t['oor']:
                raise core.MachineryError('reference LINE statements failed: %r for %s' % (e['lines_failed'], e['lines']))
        for (i, clause) in verdicts:
            if not off <= i - 1 < off + len(T.events):
                continue
            e = T.events[i - 1 - off]
            t = byev.get(i - 1 - off, {})
            ctx.reject('C33 %s [%s %s] %s -> POINT(0/1)=(%s,%s) marks=%s ndiff=%s %s' % (
                clause, T.tag, t.get('label'), e.get('stmt', ''), e.get('p0'), e.get('p1'), e.get('marks'), e.get('ndiff'), e.get('detail', '')),
                key={'clause': clause, 'label': t.get('label'), 'mode': T.tag, 'colour_in_range': not t.get('oor', False),
                     'exception': e.get('detail', '').split(':')[0]},
                data={'event': e, 'pre': t.get('pre')})
    ctx.cov['tests_by_kind'] = labels
    feats = {'varptr_number': 0, 'var_reference': 0, 'array_reference': 0, 'substring': 0, 'varptr_substring': 0, 'segments_drawn': 0, 'drew_something': 0}
    for T in all_tests:
        for t in T.tests:
            e = T.events[t['ev']]
            st = e.get('stmt', '')
            feats['varptr_number'] += '="+VARPTR$' in st
            feats['var_reference'] += bool(re.search(r'=[NFD]\d[%!#];', st))
            feats['array_reference'] += bool(re.search(r'=[BC][%!]\(', st))
            feats['substring'] += bool(re.search(r'X(S\d\$;|"\+VARPTR)', st))
            feats['varptr_substring'] += 'X"+VARPTR$' in st
            feats['segments_drawn'] += len(e.get('lines', []))
            feats['drew_something'] += bool(e.get('lines')) and e.get('ok', False)
    ctx.cov['features'] = feats
    if feats['drew_something'] < 800 or feats['substring'] < 5 or feats['varptr_number'] < 20:
        raise core.MachineryError('vacuous: %r' % feats)
    T = all_tests[0]
    for t in (T.tests[1], T.tests[len(T.tests) // 2], T.tests[-6]):
        e = T.events[t['ev']]
        ctx.sample({'mode': T.tag, 'pre': t['pre'], 'stmt': e.get('stmt'), 'p0': e.get('p0'), 'p1': e.get('p1'), 'lines': e.get('lines'), 'ndiff': e.get('ndiff')})
    ctx.assumptions += ['TLC evaluates Draw.tla correctly (Run self-checked against the declarative reading by Draw_MC on every enumerated string)',
                        'LINE, PSET and full-screen fills do not change the DRAW scale']
