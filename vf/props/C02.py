"""C02 — 16-bit integer operators. Spec: Int16.tla; oracle self-check Int16_MC; trace spec C02_Trace."""
import re
from ..session import Sess, _MSG_RE

LEVEL = 'exploration'
META = {
    'technique': 'TLA+ oracle (Int16.tla) evaluated by TLC on recorded interpreter calls; oracle self-checked exhaustively at width 6',
    'text': 'Every recorded call of the real interpreter (\\ MOD AND OR XOR EQV IMP NOT on boundary-dense and random operand '
            'pairs, NOT on all/strided 16-bit operands, integer FOR loops running into both range ends) is judged by TLC against '
            'the defining equations of Int16.tla; the equations themselves are model-checked (all laws, bit-recursive = arithmetic) '
            'on every operand pair at width 6. Input-quantified property: exploration, not exhaustive over 2^32 pairs.',
    'note': 'Trusted: TLC, the JSON trace plumbing, error kind read from console messages. The full 2^32 operand-pair domain is sampled, '
            'not enumerated. Open findings (bitwise operands 32768..65535; -32768 MOD -1) are reported as KNOWN-FINDING.',
}
BIN = ['idiv', 'mod', 'and', 'or', 'xor', 'eqv', 'imp']
SYM = {'idiv': '\\', 'mod': ' MOD ', 'and': ' AND ', 'or': ' OR ', 'xor': ' XOR ', 'eqv': ' EQV ', 'imp': ' IMP '}


def boundary(dense):
    b = set()
    for k in range(0, 17):
        for d in ((-2, -1, 0, 1, 2) if dense else (-1, 0, 1)):
            for s in (1, -1):
                b.add(s * (1 << k) + d)
    b.update([0, 1, -1, 2, -2, 3, -3, 7, -7, 10, 100, -100, 255, 256, 257, -255, -256, -257, 12345, -12345,
              21845, -21846, 32767, -32768, 32766, -32767])
    if dense:
        b.update(range(-40, 41))
        b.update(x * 257 for x in range(-127, 128))
    return sorted(b)


def lit(x):
    return '(%d)' % x if x < 0 else '%d' % x


def run(ctx):
    ctx.cov['rule'] = ('calls of the real interpreter (Session.evaluate / direct-mode FOR loops) judged by TLC '
                       'with the defining equations of Int16.tla; distinct = distinct (op,a,b) tuples; '
                       'non-trivial = all (every tuple exercises an equation)')
    # oracle self-check: stated laws + bitwise definitions agree, exhaustive on width 6
    ctx.model_check('Int16_MC', require_actions=False)
    import time
    t0 = time.time()
    s = Sess()
    rng = ctx.rng
    events = []

    def call(op, a, b=None, via_var=False):
        if op == 'not':
            expr = 'NOT ' + lit(a)
        elif via_var:
            s.s.set_variable('A%', a)
            s.s.set_variable('B%', b)
            expr = 'A%' + SYM[op] + 'B%'
        else:
            expr = lit(a) + SYM[op] + lit(b)
        r = s.ev(expr)
        e = {'op': op, 'a': a, 'b': b if b is not None else 0}
        if r[0] == 'ok' and isinstance(r[1], int) and not isinstance(r[1], bool):
            e['k'], e['v'] = 'val', r[1]
        elif r[0] in ('err', 'soft'):
            e['k'], e['v'] = 'err', r[1]
        else:
            e['k'], e['v'] = 'internal' if r[0] == 'internal' else 'other', 0
            e['detail'] = repr(r[1])[:200]
        e['expr'] = expr
        events.append(e)

    inr = [x for x in boundary(not ctx.quick()) if -32768 <= x <= 32767]
    bitr = [x for x in boundary(not ctx.quick()) if -32768 <= x <= 65535] + [40000, 50000, 65534, 65535, 32768, 32769]
    outr = [-32769, -32770, -40000, -65536, 65536, 65537, 70000, 100000, -100000, 1000000]
    nrand = ctx.pick(15000, 400000)
    # unary NOT: every accepted operand + outside
    for a in (list(range(-32768, 32768)) + list(range(32768, 65536, 5)) if not ctx.quick()
              else list(range(-32768, 32768, 7)) + list(range(32768, 65536, 211)) + bitr):
        call('not', a)
    for a in outr:
        call('not', a)
    # binary operators on boundary x boundary, random pairs, and out-of-range operands
    sub = inr if not ctx.quick() else [x for x in inr if abs(x) < 5 or abs(x) > 30000 or x in (255, 256, -256, 127, 128, 4096, -4097)]
    for op in ('idiv', 'mod'):
        for a in sub:
            for b in sub:
                call(op, a, b, via_var=rng.random() < 0.3)
        for _ in range(nrand):
            call(op, rng.randint(-32768, 32767), rng.choice([rng.randint(-32768, 32767), rng.randint(-20, 20)]),
                 via_var=rng.random() < 0.3)
    subb = bitr if not ctx.quick() else [x for x in bitr if abs(x) < 4 or abs(x) > 32000 or x in (255, 256, -256, 21845, -21846, 4095)]
    for op in ('and', 'or', 'xor', 'eqv', 'imp'):
        for a in subb:
            for b in subb:
                call(op, a, b)
        for _ in range(nrand):
            hi = 65535 if rng.random() < 0.04 else 32767
            call(op, rng.randint(-32768, hi), rng.randint(-32768, hi))
        for a in outr:
            call(op, a, rng.randint(-32768, 32767))
            call(op, rng.randint(-32768, 32767), a)
    # FOR counters (integer), direct mode, bounded iteration count
    nfor = ctx.pick(600, 20000)
    for _ in range(nfor):
        step = rng.choice([1, -1, 2, 3, -3, 7, 100, -100, 1000, 255, 256, -257, 4097, 16384, -16384, 32767, -32768,
                           rng.randint(-32768, 32767)]) or 1
        n = rng.randint(0, 12)
        if rng.random() < 0.5:
            # run into the end of the range
            stop = 32767 if step > 0 else -32768
            start = stop - step * n - rng.randint(0, abs(step) - 1 if abs(step) > 1 else 0) * (1 if step > 0 else -1)
            if not -32768 <= start <= 32767:
                start = stop - (1 if step > 0 else -1) * rng.randint(0, 5)
        else:
            start = rng.randint(-32768, 32767)
            stop = start + step * n + rng.choice([0, 0, 1, -1])
            stop = max(-32768, min(32767, stop))
        if (stop - start) // step > 40:
            continue
        r = s.ex('FOR I%%=%d TO %d STEP %d:PRINT I%%;:NEXT' % (start, stop, step), budget=400)
        e = {'op': 'for', 'a': start, 'b': stop, 'start': start, 'stop': stop, 'step': step}
        out = r[2]
        if r[0] == 'internal':
            e['seq'], e['end'] = [], 'internal'
            e['detail'] = r[1]
        else:
            head = _MSG_RE.sub(b'', out)
            e['seq'] = [int(x) for x in re.findall(br'-?\d+', head)]
            e['end'] = 'done' if r[0] == 'ok' else 'cut' if r[0] == 'cut' else ('overflow' if r[1] == 6 else 'err%d' % r[1])
            if r[0] == 'cut':
                print('note: FOR loop cut by watchdog:', start, stop, step)
        events.append(e)
    s.close()
    ctx.cov['impl_wall_s'] = round(time.time() - t0, 1)
    for e in events:
        ctx.count([e['op'], e['a'], e['b']])
    ctx.sample(events[0]); ctx.sample(events[len(events) // 2]); ctx.sample(events[-1])
    verdicts = ctx.validate_stateless('C02_Trace', [{k: v for k, v in e.items() if k not in ('expr', 'detail')} for e in events])
    ctx.cov['traces_validated_against_impl'] += 1
    for (i, clause) in verdicts:
        e = events[i - 1]
        key = {'clause': clause, 'op': e['op'], 'a': e['a'], 'b': e['b'], 'k': e['k'] if 'k' in e else e.get('end'),
               'v': e.get('v')}
        if clause in ('bit_range', 'bit_value'):
            key['operand_max'] = max(e['a'], e['b'])
            key['operand_min'] = min(e['a'], e['b'])
        ctx.reject('C02 %s: %s -> %s' % (clause, e.get('expr', e), e.get('v', e.get('seq'))), key=key, data=e)
    ctx.assumptions += ['TLC evaluates Int16.tla correctly (self-checked on width 6 by Int16_MC)',
                        'error kind read from the console message; soft-handled Division by zero accepted as the error']
