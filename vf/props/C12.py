"""C12 — array subscripts. Spec Arrays.tla; models Arrays_MC*.cfg; trace spec Arrays_Trace."""
import itertools, re, time
from ..session import Sess
from .. import graph, core

LEVEL = 'model_checking'
META = {
    'technique': 'TLC exhaustive model check of Arrays.tla (flat-index layer refines the per-tuple reference layer) + replay of every '
                 'transition of a bounded model on the real interpreter + TLC trace validation of exhaustive shape sweeps and random histories',
    'text': 'Arrays.tla keeps one value per subscript tuple (no flat index assumed) and states the demanded outcome (Must) and the allowed '
            'post-states (Posts) of DIM / OPTION BASE / ERASE / CLEAR / element read / element write. Arrays_MC: the index arithmetic and '
            'OPTION BASE bookkeeping transcribed from arrays.py take the steps and TLC checks on every transition of the bounded model '
            '(1..3 axes, bounds 0..2 quick / 0..3 thorough, both bases, two arrays, implicit dimensioning) that the step refines the reference '
            'layer and that buffers are packed. Every transition of a smaller model (real implicit bound 10) is replayed as BASIC statements on a '
            'real Session. Code->spec: for EVERY shape (quick: 1..3 axes bounds 0..4 and 4 axes bounds 0..2; thorough: 1..3 axes bounds 0..6 and '
            '4 axes bounds 0..4) x both bases x 4 element types a unique value is written to every element and every element is read back, '
            'every single-axis bound violation, negative subscript and wrong arity is tried for read and write and all elements are swept '
            'again, then redimension / ERASE / DIM again; boundary tuples of arrays with bounds up to 30; random DIM/ERASE/OPTION BASE/CLEAR '
            'histories over four arrays with sweeps after failing operations. All events are judged by Arrays_Trace.tla.',
    'note': 'Trusted: TLC; the projection reads Arrays._base/_dims after each operation only to SELECT among the post-states the specification allows '
            '(element values always come from the model). Where the statement is silent the outcome is left open: error code of a tuple that is both '
            'negative and out of range, DIM with a bound below the base, ERASE of an undimensioned array, OPTION BASE when no array exists, '
            'whether base 0 is forgotten when the last array is erased, whether a failing first use already dimensions the array. '
            'Subscripts outside -32768..32767 (Overflow) and non-integer subscripts are outside the fragment.',
}

NAMES = {'A': 'A%', 'B': 'B!', 'C': 'C#', 'D': 'D$'}
KEEP = ('op', 'name', 'b', 'idx', 'v', 'ok', 'code', 'reset', 'obs', 'cells', 'full')


def proj(v):
    """Observed element value -> the integer the model stores (strings are written as S<k>)."""
    if isinstance(v, bool):
        return -998
    if isinstance(v, int):
        return v
    if isinstance(v, float):
        return int(v) if v == int(v) and abs(v) < 1e9 else -999
    if isinstance(v, (bytes, str)):
        if isinstance(v, str):
            v = v.encode('latin-1', 'replace')
        if v == b'':
            return 0
        m = re.match(br'^S(\d{1,6})$', v)
        return int(m.group(1)) if m else -997
    return -996


class Driver(object):
    def __init__(self, ctx):
        self.ctx = ctx
        self.s = None
        self.events = []
        self.reset = True
        self.nstmt = 0

    def fresh(self):
        if self.s:
            self.s.close()
        self.s = Sess()
        self.reset = True

    def close(self):
        if self.s:
            self.s.close()
            self.s = None

    def observe(self):
        arr = self.s.impl.arrays
        base = arr._base
        return {'base': -1 if base is None else int(base),
                'dims': {n: [int(x) for x in arr._dims.get(f.encode(), [])] for n, f in NAMES.items()}}

    def lit(self, n, v):
        return '"S%d"' % v if n == 'D' else '%d' % v

    def ref(self, n, idx):
        return '%s(%s)' % (NAMES[n], ','.join('%d' % i for i in idx))

    def record(self, a, stmt, kind, code, v=None):
        e = dict(a)
        e['stmt'] = stmt
        e['kind'] = kind
        e['ok'] = kind == 'ok'
        e['code'] = code if kind == 'err' else (0 if kind == 'ok' else -2)
        if a['op'] == 'get':
            e['v'] = proj(v) if kind == 'ok' else 0
            e['raw'] = repr(v)
        e['reset'] = self.reset
        self.reset = False
        e['obs'] = self.observe()
        self.events.append(e)
        return e

    def do(self, a, via_print=False):
        op = a['op']
        n = a.get('name')
        self.nstmt += 1
        if op == 'get':
            expr = self.ref(n, a['idx'])
            if via_print:
                r = self.s.ex('PRINT ' + expr)
                if r[0] == 'ok':
                    txt = r[2].strip()
                    if n == 'D':
                        val = txt
                    else:
                        try:
                            val = float(txt)
                        except ValueError:
                            val = None
                    return self.record(a, 'PRINT ' + expr, 'ok', 0, val)
                return self.record(a, 'PRINT ' + expr, r[0], r[1])
            r = self.s.ev(expr)
            if r[0] == 'ok':
                return self.record(a, expr, 'ok', 0, r[1])
            return self.record(a, expr, 'err' if r[0] in ('err', 'soft') else r[0], r[1])
        if op == 'set':
            stmt = '%s=%s' % (self.ref(n, a['idx']), self.lit(n, a['v']))
        elif op == 'dim':
            stmt = 'DIM ' + self.ref(n, a['b'])
        elif op == 'base':
            stmt = 'OPTION BASE %d' % a['b']
        elif op == 'erase':
            stmt = 'ERASE ' + NAMES[n]
        elif op == 'clear':
            stmt = a.get('how', 'CLEAR')
        r = self.s.ex(stmt)
        return self.record({k: v for k, v in a.items() if k != 'how'}, stmt, r[0], r[1])

    def fill(self, n, cells):
        """Write a value to every listed (idx, v) cell; several assignments per line, one event each."""
        line, batch = [], []

        def flush():
            if not batch:
                return
            stmt = ':'.join(line)
            r = self.s.ex(stmt)
            self.nstmt += len(batch)
            if r[0] == 'ok':
                obs = self.observe()
                for (idx, v, st) in batch:
                    self.events.append({'op': 'set', 'name': n, 'idx': list(idx), 'v': v, 'stmt': st, 'kind': 'ok',
                                        'ok': True, 'code': 0, 'reset': False, 'obs': obs})
            else:
                # something failed inside the line: redo the assignments one by one (idempotent)
                for (idx, v, st) in batch:
                    self.do({'op': 'set', 'name': n, 'idx': list(idx), 'v': v})
            del line[:]
            del batch[:]

        for idx, v in cells:
            st = '%s=%s' % (self.ref(n, idx), self.lit(n, v))
            if sum(len(x) + 1 for x in line) + len(st) > 230:
                flush()
            line.append(st)
            batch.append((idx, v, st))
        flush()

    def sweep(self, n, tuples=None):
        """Read every element of array n (as dimensioned according to the projection) through BASIC."""
        o = self.observe()
        d = o['dims'][n]
        lo = 1 if o['base'] == 1 else 0
        full = tuples is None
        if full:
            tuples = list(itertools.product(*[range(lo, x + 1) for x in d])) if d else []
        cells = []
        for t in tuples:
            r = self.s.ev(self.ref(n, t))
            cells.append([list(t), proj(r[1]) if r[0] == 'ok' else -1000 - (r[1] if isinstance(r[1], int) else 0)])
        self.nstmt += len(cells)
        e = {'op': 'sweep', 'name': n, 'cells': cells, 'full': full, 'stmt': 'sweep %s%r' % (NAMES[n], d), 'kind': 'ok'}
        self.events.append(e)
        return e


def bad_tuples(d, lo):
    """Subscript tuples just outside bounds d: one axis above, one axis below (incl. -1), wrong arity."""
    n = len(d)
    res = []
    for i in range(n):
        for corner in (lo, None):
            t = [lo if corner is not None else d[k] for k in range(n)]
            up = list(t); up[i] = d[i] + 1
            dn = list(t); dn[i] = lo - 1
            neg = list(t); neg[i] = -1
            for x in (up, dn, neg):
                if x not in res:
                    res.append(x)
    if n > 1:
        res.append([lo] * (n - 1))
        res.append(list(d[:-1]))
    res.append([lo] * (n + 1))
    res.append(list(d) + [lo])
    return res


def shape_cycle(d, shape, lo_base, nm, rng, light=False):
    """One exhaustive-shape scenario on array nm. lo_base: None (no OPTION BASE), 0 or 1."""
    d.do({'op': 'clear', 'how': 'CLEAR' if rng.random() < 0.8 else 'NEW'})
    if lo_base is not None:
        d.do({'op': 'base', 'b': lo_base})
    e = d.do({'op': 'dim', 'name': nm, 'b': list(shape)})
    if not e['ok']:
        return
    lo = 1 if lo_base == 1 else 0
    tuples = list(itertools.product(*[range(lo, x + 1) for x in shape]))
    order = list(range(len(tuples)))
    if rng.random() < 0.5:
        rng.shuffle(order)
    off = rng.randint(0, 20000)
    d.fill(nm, [(tuples[k], 1 + off + k) for k in order])
    d.sweep(nm)
    bad = bad_tuples(list(shape), lo)
    if light:
        bad = rng.sample(bad, min(len(bad), 4))
    for t in bad:
        if rng.random() < 0.5 or not light:
            d.do({'op': 'set', 'name': nm, 'idx': t, 'v': 31000 + rng.randint(0, 999)})
        if rng.random() < 0.5 or not light:
            d.do({'op': 'get', 'name': nm, 'idx': t}, via_print=rng.random() < 0.1)
    d.sweep(nm)
    d.do({'op': 'dim', 'name': nm, 'b': list(shape) if rng.random() < 0.5 else [1]})
    d.do({'op': 'erase', 'name': nm})
    shape2 = list(reversed(shape)) if rng.random() < 0.5 else [max(lo, x - 1) for x in shape]
    e = d.do({'op': 'dim', 'name': nm, 'b': shape2})
    if e['ok']:
        t2 = list(itertools.product(*[range(lo, x + 1) for x in shape2]))
        if len(t2) > 12:
            t2 = [t2[0], t2[-1]] + rng.sample(t2, 8)
            d.sweep(nm, tuples=t2)
        else:
            d.sweep(nm)


def big_cycle(d, rng):
    """Boundary tuples of a larger array (bounds up to 30, at most 4000 elements)."""
    nd = rng.randint(1, 4)
    while True:
        shape = [rng.choice([30, 29, 17, 30, rng.randint(5, 30)])] + [rng.randint(0, 30) for _ in range(nd - 1)]
        rng.shuffle(shape)
        lo_base = rng.choice([None, 0, 1])
        lo = 1 if lo_base == 1 else 0
        cells = 1
        for x in shape:
            cells *= max(0, x + 1 - lo)
        if 0 < cells <= 4000:
            break
    nm = rng.choice('ABCD')
    d.do({'op': 'clear'})
    if lo_base is not None:
        d.do({'op': 'base', 'b': lo_base})
    e = d.do({'op': 'dim', 'name': nm, 'b': shape})
    if not e['ok']:
        return
    axes = [sorted(set(v for v in (lo, lo + 1, x - 1, x, (lo + x) // 2) if lo <= v <= x)) for x in shape]
    tuples = list(itertools.product(*axes))
    if len(tuples) > 120:
        tuples = rng.sample(tuples, 120)
    off = rng.randint(0, 20000)
    d.fill(nm, [(t, 1 + off + k) for k, t in enumerate(tuples)])
    d.sweep(nm, tuples=tuples)
    for t in rng.sample(bad_tuples(shape, lo), min(8, len(bad_tuples(shape, lo)))):
        d.do({'op': rng.choice(['get', 'set']), 'name': nm, 'idx': t, 'v': 31000})
    others = [tuple(rng.randint(lo, x) for x in shape) for _ in range(10)]
    d.sweep(nm, tuples=tuples + [t for t in others if t not in tuples])


def random_history(d, rng, steps):
    """DIM / ERASE / OPTION BASE / CLEAR / read / write history over four small arrays."""
    d.fresh()
    touched = set()
    for _ in range(steps):
        o = d.observe()
        lo = 1 if o['base'] == 1 else 0
        nm = rng.choice('ABCD')
        dims = o['dims'][nm]
        c = rng.random()
        if c < 0.10:
            a = {'op': 'dim', 'name': nm, 'b': [rng.randint(0, 3) for _ in range(rng.randint(1, 3))]}
        elif c < 0.17:
            a = {'op': 'erase', 'name': nm}
        elif c < 0.24:
            a = {'op': 'base', 'b': rng.randint(0, 1)}
        elif c < 0.27:
            a = {'op': 'clear', 'how': rng.choice(['CLEAR', 'CLEAR', 'NEW'])}
        else:
            if dims:
                k = len(dims)
                if rng.random() < 0.12:
                    k += rng.choice([-1, 1])
                idx = [rng.randint(min(lo, dims[i]), max(lo, dims[i])) if i < len(dims) else lo for i in range(max(1, k))]
                if rng.random() < 0.3:
                    i = rng.randrange(len(idx))
                    idx[i] = rng.choice([-1, lo - 1, (dims[i] if i < len(dims) else 3) + 1, -2, 11, 32767, -32768])
            else:
                idx = [rng.choice([0, 1, 5, 10, 10, 11, -1, lo]) for _ in range(rng.randint(1, 2))]
            if rng.random() < 0.55:
                a = {'op': 'set', 'name': nm, 'idx': idx, 'v': rng.randint(1, 30000)}
            else:
                a = {'op': 'get', 'name': nm, 'idx': idx}
        e = d.do(a, via_print=(a['op'] == 'get' and rng.random() < 0.1))
        if a['op'] in ('get', 'set', 'dim'):
            touched.add(nm)
        if not e['ok'] and a['op'] in ('get', 'set', 'dim'):
            d.sweep(nm)                         # a failing operation changes no element
        elif not e['ok'] and a['op'] == 'base' and touched:
            d.sweep(rng.choice(sorted(touched)))
        elif rng.random() < 0.03:
            for n2 in 'ABCD':
                d.sweep(n2)
    for n2 in 'ABCD':
        d.sweep(n2)


def all_shapes(maxdims_bounds):
    """[(ndims, maxbound)] -> all shapes."""
    res = []
    for nd, mb in maxdims_bounds:
        res += list(itertools.product(range(0, mb + 1), repeat=nd))
    return res


def validate(ctx, d, tag):
    events = d.events
    if not events:
        return
    verdicts = ctx.validate('Arrays_Trace', [{k: e[k] for k in KEEP if k in e} for e in events], name='arr_' + tag)
    for e in events:
        if e['op'] == 'sweep':
            ctx.count(['sweep', e['name'], e['stmt'], len(e['cells']), e['cells'][:3]], nontrivial=bool(e['cells']))
        else:
            ctx.count([e['op'], e.get('name'), e.get('b'), e.get('idx'), e['obs']],
                      nontrivial=e['op'] != 'clear')
        if e['kind'] == 'internal':
            ctx.reject('C12 internal error on %s' % e['stmt'], key={'clause': 'internal', 'op': e['op']}, data=e)
    ctx.cov['sweeps'] = ctx.cov.get('sweeps', 0) + sum(1 for e in events if e['op'] == 'sweep')
    ctx.cov['elements_read_back'] = ctx.cov.get('elements_read_back', 0) + sum(len(e['cells']) for e in events if e['op'] == 'sweep')
    ctx.cov['failing_operations'] = ctx.cov.get('failing_operations', 0) + sum(1 for e in events if e['op'] != 'sweep' and not e['ok'])
    for e in (events[min(5, len(events) - 1)], events[len(events) // 2]):
        ctx.sample({k: (e[k] if k != 'cells' else e[k][:6]) for k in ('stmt', 'ok', 'code', 'v', 'obs', 'cells') if k in e})
    for (i, clause) in verdicts:
        e = events[i - 1]
        hist = [x['stmt'] for x in events[max(0, i - 8):i]]
        ctx.reject('C12 %s at %r (ok=%s code=%s v=%s) after %s' % (
            clause, e['stmt'], e.get('ok'), e.get('code'), e.get('raw', ''), [h[:60] for h in hist[:-1][-4:]]),
            key={'clause': clause, 'op': e['op'], 'code': e.get('code')},
            data={'event': {k: (v if k != 'cells' else v[:40]) for k, v in e.items()}, 'history': hist})
    del d.events[:]


def run(ctx):
    ctx.cov['rule'] = ('events = BASIC statements / expression evaluations on a real Session (one per DIM, OPTION BASE, ERASE, CLEAR, element write, '
                       'element read; a sweep reads every element of an array); distinct by (operation, operands, projected bounds/base); '
                       'non-trivial = everything except CLEAR and empty sweeps')
    rng = ctx.rng
    # 1. design: the flat-index layer refines the per-tuple layer on every transition of the bounded model
    ctx.model_check('Arrays_MC', cfg=ctx.pick('Arrays_MC.cfg', 'Arrays_MC_big.cfg'), workers=4, require_actions=False)
    # 2. spec -> code: replay every transition of the emit model
    r = ctx.tlc('Arrays_MC', ctx.pick('Arrays_MC_emit.cfg', 'Arrays_MC_emit_big.cfg'), workers=1, tag='emit')
    if not r['ok']:
        raise core.MachineryError('emit run failed: ' + str(r['error']))
    trans = graph.parse_transitions(r['out'])
    init = {'base': -1, 'bydim': False, 'dims': {'A': [], 'B': []}, 'ns': 0, 'nz': {'A': [], 'B': []}}
    walks, cov, total = graph.covering_walks(trans, init, max_len=40, rng=rng)
    ctx.cov['model_transitions'] = total
    ctx.cov['model_transitions_replayed'] = cov
    if cov < total or total < 100:
        raise core.MachineryError('edge cover incomplete: %d of %d' % (cov, total))
    t0 = time.time()
    d = Driver(ctx)
    for w in walks:
        d.fresh()
        for t in w:
            a = dict(t['a'])
            e = d.do(a)
            e['model_must'] = t['must']
            if a['op'] in ('get', 'set') and not e['ok']:
                d.sweep(a['name'])
        for n in 'AB':
            d.sweep(n)
    ctx.cov['traces_validated_against_impl'] += len(walks)
    validate(ctx, d, 'replay')
    ctx.cov['replay_wall_s'] = round(time.time() - t0, 1)
    # 3. code -> spec: exhaustive shapes x bases x element types
    t0 = time.time()
    shapes = all_shapes(ctx.pick([(1, 4), (2, 4), (3, 4), (4, 2)], [(1, 6), (2, 6), (3, 6), (4, 4)]))
    ctx.cov['shapes_swept'] = 0
    d.fresh()
    k = 0
    for shape in shapes:
        cells = 1
        for x in shape:
            cells *= x + 1
        for lo_base in (None, 1) if cells > 40 else (None, 0, 1):
            nm = 'ABCD'[k % 4]
            k += 1
            shape_cycle(d, shape, lo_base, nm, rng, light=(ctx.quick() and len(shape) >= 3))
            ctx.cov['shapes_swept'] += 1
            if len(d.events) > 40000 or sum(len(e.get('cells', ())) for e in d.events[-400:]) > 60000:
                ctx.cov['traces_validated_against_impl'] += 1
                validate(ctx, d, 'shapes')
    ctx.cov['traces_validated_against_impl'] += 1
    validate(ctx, d, 'shapes')
    ctx.cov['shapes_wall_s'] = round(time.time() - t0, 1)
    # 4. boundary tuples of larger arrays
    t0 = time.time()
    nbig = ctx.pick(25, 300)
    for i in range(nbig):
        big_cycle(d, rng)
        if len(d.events) > 30000:
            validate(ctx, d, 'big')
    ctx.cov['traces_validated_against_impl'] += nbig
    validate(ctx, d, 'big')
    # 5. random histories
    nhist = ctx.pick(40, 600)
    for h in range(nhist):
        random_history(d, rng, rng.randint(15, 60))
        if len(d.events) > 40000:
            validate(ctx, d, 'hist')
    ctx.cov['traces_validated_against_impl'] += nhist
    validate(ctx, d, 'hist')
    ctx.cov['histories_wall_s'] = round(time.time() - t0, 1)
    ctx.cov['statements_executed'] = d.nstmt
    d.close()
    if ctx.cov.get('failing_operations', 0) < 100 or ctx.cov.get('elements_read_back', 0) < 1000:
        raise core.MachineryError('vacuous: too few failing operations / elements read back')
    ctx.assumptions += ['TLC evaluates Arrays.tla correctly', 'projection of Arrays._base/_dims only selects among allowed post-states',
                        'element values are written as integers 1..31999 (strings as "S<k>") and compared as integers']
