"""C28 - DOS file names map to host files consistently.
Spec DosPath.tla (name level) + DosNames.tla (Judge); model DosNames_MC*.cfg; trace spec DosNames_Trace."""
import os, re, shutil, tempfile, threading, logging
from ..session import Sess
from .. import core

LEVEL = 'model_checking'
META = {
    'technique': 'TLC exhaustive model check of the DOS name lookup (DosPath.NativeNameG) judged by DosNames.Judge over every name of a tiny '
                 'alphabet + TLC trace validation of random create/open/FILES/NAME/KILL histories on a native mount, host directory observed',
    'text': 'DosPath.tla defines Normalise, IsLegal (8.3 rules), SplitExt, wildcard Matches, the default extension rule and the native lookup order; '
            'DosNames.Judge states the property per operation against the observed host directory: a legal name is created on the host as its '
            'upper-case 8.3 name (.BAS exactly when a program name has no dot), an existing DOS-equal file is overwritten instead, illegal names fail '
            'with Bad file name (64) and change nothing, a file created under a name is opened / listed / renamed / killed under every capitalisation of it, '
            'FILES lists every visible file (and nothing else) under a name that opens it, KILL removes only matching files. TLC checks the '
            'reference lookup against Judge for every name over {A, b, ., blank} of <= 3 (quick) / 4 (thorough) characters plus wildcard masks, and '
            'DosNames_Trace judges random histories of the real interpreter with legal / illegal / padded / over-long / dot names in random case.',
    'note': 'Trusted: TLC, parsing of the FILES listing, content ids read back from the host files. Where the statement is silent (names padded '
            'with blanks or longer than 8.3, which are truncated as DOS does; "", ".", ".."; masks of FILES/KILL that are not plain names) any '
            'outcome is accepted, except that nothing but a DOS-equal file may be opened, renamed or removed. Host files with non-DOS names, '
            'sub-directories, Windows short names and case-insensitive host file systems are outside the fragment.',
}

LEGALCH = b'ABCDEFGHIJKLMNOPQRSTUVWXYZabcdefghijklmnopqrstuvwxyz0123456789' + b"!#$%&'()-@^_`{}~"
BADCH = b'+=,;[]*?<>|"\x7f\x80\xe9\x01\x00\t.'
RESERVED = {b'CON', b'AUX', b'PRN', b'NUL'}


def part(rng, lo, hi, inner_space=True):
    n = rng.randint(lo, hi)
    s = bytearray(rng.choice(LEGALCH) for _ in range(n))
    if inner_space and n >= 3 and rng.random() < 0.1:
        s[rng.randint(1, n - 2)] = 32
    if rng.random() < 0.5:      # few distinct letters so that names collide
        s = bytearray(rng.choice(b'AaBbXx19_') for _ in range(n))
    return bytes(s)


def gen_legal(rng):
    t = part(rng, 1, 8)
    c = rng.random()
    if c < 0.45:
        return t
    if c < 0.55:
        return t + b'.'
    return t + b'.' + part(rng, 1, 3, False)


def gen_illegal(rng):
    c = rng.random()
    base = gen_legal(rng)
    if c < 0.3:
        i = rng.randint(0, len(base))
        return base[:i] + bytes([rng.choice(BADCH[:-1])]) + base[i:]
    if c < 0.45:
        return rng.choice([b' ', b'  ', b'\t']) + base
    if c < 0.6:
        t = part(rng, 1, 7)
        return t + b' .' + part(rng, 1, 3, False)
    if c < 0.7:
        return part(rng, 1, 8) + b'. ' + part(rng, 1, 2, False)
    if c < 0.85:
        return rng.choice([base + b'..', b'a.b.c', b'...', base.replace(b'.', b'') + b'.a.b', b'A..B', b'..A'])
    return bytes(rng.randrange(128, 256) for _ in range(rng.randint(1, 6)))


def gen_loose(rng):
    c = rng.random()
    if c < 0.4:
        return gen_legal(rng) + b' ' * rng.randint(1, 3)
    if c < 0.7:
        return part(rng, 9, 14, False) + rng.choice([b'', b'.' + part(rng, 1, 3, False)])
    return part(rng, 1, 8, False) + b'.' + part(rng, 4, 6, False)


def gen_name(rng, weights=(50, 25, 12, 8, 5)):
    k = rng.choices(['legal', 'illegal', 'loose', 'dot', 'special'], weights)[0]
    if k == 'legal':
        n = gen_legal(rng)
    elif k == 'illegal':
        n = gen_illegal(rng)
    elif k == 'loose':
        n = gen_loose(rng)
    elif k == 'dot':
        n = b'.' + part(rng, 1, 3, False)
    else:
        n = rng.choice([b'.', b'..', b'', b'. ', b' '])
    if any(c in n for c in b'\\/:') or n.upper().strip() in RESERVED:
        return gen_name(rng, weights)
    return n[:255]


def casevar(rng, n):
    return bytes((c ^ 32) if (65 <= (c & ~32) <= 90 and rng.random() < 0.5) else c for c in n)


def name_class(n):
    """input class used ONLY as key for known findings"""
    if n[:1] in (b' ', b'\t') and n.strip():
        return 'leading_blank'
    if n[:1] == b'.' and n.rstrip() not in (b'.', b'..'):
        return 'empty_trunk'
    return 'other'


class NBox(object):
    def __init__(self, ctx):
        self.ctx = ctx
        self.rng = ctx.rng
        self.mount = tempfile.mkdtemp(prefix='nm_', dir=ctx.tmp)
        self.sess = Sess(mount=self.mount, devices={b'C': self.mount, b'Z': None}, current_device=b'C', peek_values={})
        self.sess.impl.queues.tick = 0
        self.events = []       # (event, info)
        self.starts = []       # indices where a history starts
        self.cid = 100
        self.need_pre = True

    def listing(self):
        res = []
        for f in sorted(os.listdir(self.mount)):
            p = os.path.join(self.mount, f)
            if os.path.isfile(p):
                with open(p, 'rb') as fh:
                    m = re.findall(rb'\d+', fh.read(64))
                res.append([list(os.fsencode(f)), int(m[-1]) if m else -1])
        return res

    def fresh(self, hostfiles=()):
        self.sess.ex('CLOSE')
        for f in os.listdir(self.mount):
            p = os.path.join(self.mount, f)
            shutil.rmtree(p) if os.path.isdir(p) else os.remove(p)
        for f in hostfiles:
            self.cid += 1
            with open(os.path.join(self.mount, f), 'wb') as fh:
                fh.write(b'1 C!=%d\r\n' % self.cid)
        self.need_pre = True
        self.starts.append(len(self.events))

    def record(self, e, r, extra=None):
        e['ok'] = r[0] == 'ok'
        e['code'] = r[1] if r[0] == 'err' else 0
        if self.need_pre:
            e['pre'] = self.pre
            self.need_pre = False
        e['dir'] = self.listing()
        info = {'kind': r[0], 'exc': r[1] if r[0] == 'internal' else None}
        info.update(extra or {})
        if r[0] in ('internal', 'cut', 'exit') or not e['ok']:
            self.sess.ex('CLOSE')
        self.events.append((e, info))
        return e

    def begin(self):
        if self.need_pre:
            self.pre = self.listing()

    def spelled(self, n):
        """The same file given with a path that denotes the current (= root) directory: the name rules apply to the
        last path element only (a dot in the directory part must not count as an extension)."""
        if n and not any(c in n for c in b'\\/:') and self.rng.random() < 0.35:
            return self.rng.choice([b'.\\', b'\\', b'C:.\\', b'C:\\', b'..\\', b'.\\.\\']) + n
        return n

    def create(self, n, kind):
        self.begin()
        s = self.sess
        self.cid += 1
        cid = self.cid
        n0, n = n, self.spelled(n)
        if kind == 'data':
            s.s.set_variable('P$', n)
            s.s.set_variable('T$', b'1 C!=%d' % cid)
            r = s.ex('OPEN P$ FOR OUTPUT AS 1:PRINT#1,T$:CLOSE 1', budget=50)
        else:
            s.ex('NEW')
            s.ex('1 C!=%d' % cid)
            s.s.set_variable('P$', n)
            r = s.ex('SAVE P$,A', budget=50)
        return self.record({'op': 'create', 'kind': kind, 'n': list(n0), 'cid': cid}, r, {'spelled': n})

    def open(self, n, kind, via=None):
        self.begin()
        s = self.sess
        got = -1
        n0, n = n, self.spelled(n)
        if kind == 'data':
            s.s.set_variable('P$', n)
            r = s.ex('OPEN P$ FOR INPUT AS 1:LINE INPUT#1,L$:CLOSE 1', budget=50)
            if r[0] == 'ok':
                m = re.findall(rb'\d+', bytes(s.s.get_variable('L$')))
                got = int(m[-1]) if m else -1
        else:
            s.ex('NEW')
            s.s.set_variable('P$', n)
            r = s.ex('RUN P$', budget=50)
            if r[0] == 'ok':
                got = int(s.s.get_variable('C!'))
        return self.record({'op': 'open', 'kind': kind, 'n': list(n0), 'got': got}, r, {'via': via, 'spelled': n})

    def files(self, n):
        self.begin()
        s = self.sess
        if n is None:
            r = s.ex('FILES', budget=50)
        else:
            s.s.set_variable('P$', n)
            r = s.ex('FILES P$', budget=50)
        listed = []
        lines = re.split(rb'\r\n|\r|\n', r[2])
        for ln in lines[1:]:
            if b'Bytes free' in ln or b'File not found' in ln or not ln.strip():
                continue
            for i in range(0, len(ln), 18):
                ch = ln[i:i + 17]
                if len(ch) < 12 or ch[12:17] == b'<DIR>':
                    continue
                t, x = ch[0:8].rstrip(b' '), ch[9:12].rstrip(b' ')
                listed.append(list(t + (b'.' + x if x else b'')))
        return self.record({'op': 'files', 'n': list(n or b''), 'listed': listed}, r, {'raw': r[2][:400]})

    def name(self, n, m):
        self.begin()
        s = self.sess
        s.s.set_variable('P$', n)
        s.s.set_variable('Q$', m)
        return self.record({'op': 'name', 'n': list(n), 'm': list(m)}, s.ex('NAME P$ AS Q$', budget=50))

    def kill(self, n):
        self.begin()
        s = self.sess
        s.s.set_variable('P$', n)
        return self.record({'op': 'kill', 'n': list(n)}, s.ex('KILL P$', budget=50))

    def close(self):
        self.sess.close()
        shutil.rmtree(self.mount, ignore_errors=True)


HOSTFILES = ['Readme.txt', 'MiXed', 'data.1', 'lower.bas', 'Prog.Bas', 'a b.c', "it's.ok", 'UPPER.TXT']


def wild(rng, d):
    t, _, x = d.partition(b'.')
    return rng.choice([b'*.*', b'*', t[:1] + b'*.*', b'*.' + x, b'?' * len(t) + b'.' + x, t + b'.*', t[:1] + b'*', b'*.' + x[:1] + b'??',
                       t[:2] + b'?' * max(0, len(t) - 2) + b'.*', b'*' + t[-1:] + b'.*', b'?', b'*.', t + b'?.*'])


def history(box, rng, nsteps):
    box.fresh(rng.sample(HOSTFILES, rng.randint(0, 4)) if rng.random() < 0.35 else ())
    pool = []   # (name as given, kind, dos name)
    for _ in range(nsteps):
        c = rng.random()
        if c < 0.33 or not pool:
            kind = 'data' if rng.random() < 0.6 else 'prog'
            if pool and rng.random() < 0.15:
                n = casevar(rng, rng.choice(pool)[0])
            else:
                n = gen_name(rng)
            e = box.create(n, kind)
            if e['ok']:
                d = n.rstrip()
                if kind == 'prog' and b'.' not in d:
                    d += b'.BAS'
                pool.append((n, kind, d))
        elif c < 0.52:
            if rng.random() < 0.75:
                n, kind, d = rng.choice(pool)
                box.open(casevar(rng, n), kind)
            else:
                box.open(gen_name(rng), rng.choice(['data', 'prog']))
        elif c < 0.68:
            k = rng.random()
            if k < 0.3:
                e = box.files(None)
            elif k < 0.7:
                e = box.files(casevar(rng, rng.choice(pool)[2]))
            else:
                e = box.files(wild(rng, rng.choice(pool)[2]))
            if e['ok']:
                for nm in rng.sample(e['listed'], min(4, len(e['listed']))):
                    box.open(bytes(nm) + (b'.' if b'.' not in bytes(nm) else b''), rng.choice(['data', 'prog']), via='listing')
        elif c < 0.85:
            src = casevar(rng, rng.choice(pool)[2]) if rng.random() < 0.75 else gen_name(rng)
            k = rng.random()
            tgt = gen_legal(rng) if k < 0.6 else (casevar(rng, rng.choice(pool)[2]) if k < 0.7 else gen_name(rng, (0, 55, 25, 15, 5)))
            e = box.name(src, tgt)
            if e['ok']:
                pool = [p for p in pool if p[2].upper() != src.rstrip().upper()] + [(tgt, 'data', tgt.rstrip())]
        else:
            k = rng.random()
            n = casevar(rng, rng.choice(pool)[2]) if k < 0.6 else (wild(rng, rng.choice(pool)[2]) if k < 0.8 else gen_name(rng))
            box.kill(n)        # (the pool may keep names of killed files: they make 'missing file' cases)
        if len(pool) > 12:
            pool.pop(rng.randrange(len(pool)))


def model_check(ctx, module, cfg, workers):
    """exhaustive TLC run (like ctx.model_check but without -coverage: with ~10^5 successors per state the coverage
    bookkeeping exhausts the heap); an invariant / action-property violation is a rejection"""
    r = ctx.tlc(module, cfg, workers=workers, timeout=3000, tag='model check')
    ctx.cov['states'] += r['distinct']
    ctx.cov['transitions'] += r['generated']
    if not r['ok']:
        if r['error'] and 'violated' not in r['error']:
            raise core.MachineryError('TLC run %s/%s failed: %s\n%s' % (module, cfg, r['error'], r['out'][-1500:]))
        ctx.reject('TLC model check of %s (%s) failed: %s' % (module, cfg, r['error']),
                   key={'clause': 'model_check', 'module': module}, data=r['out'][-4000:])
    if r['generated'] < 1000:
        raise core.MachineryError('vacuous model check %s/%s: %d transitions' % (module, cfg, r['generated']))
    return r


def run(ctx):
    ctx.cov['rule'] = ('events = create/open/FILES/NAME/KILL operations executed on a real Session with a native mount; distinct by '
                       '(operation, name(s), directory before); non-trivial = operations on names that are not plain existing upper-case names')
    logging.disable(logging.ERROR)
    rng = ctx.rng
    quick = ctx.quick()
    # 1. design: the reference lookup against Judge, every name over the tiny alphabet
    if not os.environ.get('C28_DEV'):
        model_check(ctx, 'DosNames_MC', ctx.pick('DosNames_MC.cfg', 'DosNames_MC_big.cfg'), ctx.pick(8, 16))
        if not quick:
            model_check(ctx, 'DosNames_MC', 'DosNames_MC_two.cfg', 16)
        r = ctx.tlc('DosNames_MC', 'DosNames_MC_ascoded.cfg', workers=2, tag='ascoded (must fail)')
        if r['ok'] or 'Accepted' not in (r['error'] or ''):
            raise core.MachineryError('selftest: TLC accepted the as-coded name lookup: %s' % r['error'])
        ctx.cov['ascoded_counterexample_found'] = True
    # 2. code -> spec: random histories
    box = NBox(ctx)
    nhist = ctx.pick(120, 3000)
    for h in range(nhist):
        history(box, rng, rng.randint(8, 40))
    box.close()
    ctx.cov['traces_validated_against_impl'] += nhist
    judge(ctx, box)


def judge(ctx, box):
    evs = box.events
    starts = box.starts + [len(evs)]
    chunks, cur = [], 0
    for s in starts[1:]:
        if s - cur >= 3000 or s == len(evs):
            if s > cur:
                chunks.append((cur, s))
            cur = s
    results = {}
    errors = []
    sem = threading.Semaphore(6)

    def work(k):
        a, b = chunks[k]
        with sem:
            try:
                results[k] = ctx.validate('DosNames_Trace', [e for e, _ in evs[a:b]], name='c28_%d' % k)
            except Exception as ex:  # noqa
                errors.append(ex)
    th = [threading.Thread(target=work, args=(k,)) for k in range(len(chunks))]
    for t in th:
        t.start()
    for t in th:
        t.join()
    if errors:
        raise errors[0]
    byop = {}
    nok = 0
    for e, info in evs:
        byop[e['op']] = byop.get(e['op'], 0) + 1
        nok += e['ok']
        n = bytes(e['n'])
        ctx.count([e['op'], e['n'], e.get('m'), e.get('kind'), e.get('pre')], nontrivial=(n != n.upper() or not e['ok'] or e['op'] != 'open'))
        if info['kind'] == 'internal':
            ctx.reject('C28 internal error on %s %r: %s' % (e['op'], n, info['exc']), key={'clause': 'internal', 'op': e['op']}, data=e)
    for k, (a, b) in enumerate(chunks):
        for (i, clause) in results[k]:
            e, info = evs[a + i - 1]
            n = bytes(e['n'])
            m = bytes(e['m']) if 'm' in e else None
            hist = [(x['op'], bytes(x['n']), bytes(x['m']) if 'm' in x else None, x['ok']) for x, _ in evs[max(a, a + i - 7):a + i - 1]]
            # the name the clause is about: the NAME target for a rejected target, else the (first) name
            ncls = name_class(m) if (m is not None and e['op'] == 'name' and clause.startswith('illegal_name') and
                                     name_class(m) != 'other') else name_class(n)
            ctx.reject('C28 %s at %s %r%s%s -> ok=%s code=%s%s; host dir after %s; before: %s' % (
                clause, e['op'], n, (' AS %r' % m) if m is not None else '', (' (%s)' % e['kind']) if 'kind' in e else '',
                e['ok'], e['code'], (' listed=%s' % [bytes(x) for x in e['listed']]) if 'listed' in e else '',
                [(bytes(x[0]), x[1]) for x in e['dir']][:8], hist[-4:]),
                key={'clause': clause, 'op': e['op'], 'name_class': ncls, 'code': e['code']},
                data={'event': e, 'history': hist, 'segment': segment(box, a + i - 1)})
    ctx.cov['events_by_operation'] = byop
    ctx.cov['operations_succeeded'] = nok
    for e, info in (evs[3], evs[len(evs) // 2], evs[-1]):
        ctx.sample({k: (bytes(v).decode('latin-1') if k in ('n', 'm') else v) for k, v in e.items() if k in ('op', 'kind', 'n', 'm', 'ok', 'code', 'got')})
    if nok < len(evs) // 10:
        raise core.MachineryError('vacuous: hardly any operation succeeded (%d of %d)' % (nok, len(evs)))


def segment(box, idx):
    """the operations of the history that contains event idx, up to and including it (for --replay)"""
    start = max(x for x in box.starts if x <= idx)
    return [{k: v for k, v in e.items() if k in ('op', 'kind', 'n', 'm', 'pre')} for e, _ in box.events[start:idx + 1]]


def replay(ctx, path):
    """./check C28 --replay FILE: re-run the recorded history segment of every rejection on a fresh mount and judge it again."""
    import json
    logging.disable(logging.ERROR)
    with open(path) as f:
        doc = json.load(f)
    box = NBox(ctx)
    for v in doc['violations']:
        seg = (v.get('data') or {}).get('segment') if isinstance(v.get('data'), dict) else None
        if not seg:
            continue
        box.fresh([bytes(x[0]).decode('latin-1') for x in seg[0].get('pre', [])])
        for o in seg:
            n = bytes(o['n'])
            if o['op'] == 'create':
                e = box.create(n, o['kind'])
            elif o['op'] == 'open':
                e = box.open(n, o['kind'])
            elif o['op'] == 'files':
                e = box.files(n or None)
            elif o['op'] == 'name':
                e = box.name(n, bytes(o['m']))
            else:
                e = box.kill(n)
        print('replayed %d operations, last: %s %r -> ok=%s code=%s' % (len(seg), e['op'], n, e['ok'], e['code']))
    box.close()
    if not box.events:
        raise core.MachineryError('nothing to replay in %s' % path)
    judge(ctx, box)
