"""C32 - PAINT fills exactly the enclosed region. Spec Paint.tla; generator/self-check Paint_MC; trace spec Paint_Trace."""
import os, re, json, time
from .. import gfx, core

LEVEL = 'exploration'
META = {
    'technique': 'TLA+ least-fixpoint operator Region (Paint.tla) evaluated by TLC on real PAINT results; TLC enumerates ALL border bitmaps of small grids '
                 'x seeds (Paint_MC), each drawn inside a VIEW of that size on a real Session and PAINTed',
    'text': 'Paint_MC checks the fixpoint laws of Region on every 3x3 bitmap x seed (and on the 4x4 sample) and prints each case; the harness draws every case '
            'on the real screen (tiled, one VIEW per case), PAINTs it, reads the screen back (Session.get_pixels() / the visible page buffer behind it) and Paint_Trace.tla judges the '
            'observed before/after grids: changed subset of Region(seed), changed pixels carry the fill attribute, and the whole region is filled when it held '
            'no pixel of the fill attribute. Larger random pictures (mazes, spirals, thin diagonal walls, open regions touching the viewport edge, noise in the '
            'fill attribute, seeds on the border and outside the viewport, VIEW and VIEW SCREEN) up to 24x24 (thorough 40x30) in every graphics mode are validated the same way.',
    'note': 'Trusted: TLC, JSON plumbing, the pixel read-back. Tiled PAINT (pattern strings) is outside the statement ("solid PAINT"). '
            'All 2^9 3x3 bitmaps x 9 seeds every run (quick: one mode/colour set-up of eight, rotating with --seed, thorough: four); 4x4: quick = the 256 bitmaps of one residue '
            'class mod 257 x 8 seeds, thorough = all 2^16 bitmaps with 1 of the 16 seeds each (rotating with --seed).',
}
_CASE = re.compile(r'^<<"CASE", "(.*)">>\s*$')


def tlc_cases(ctx, w, h, stride, phase, seeds):
    """Run Paint_MC (fixpoint laws + emit) for the given enumeration; returns the list of cases."""
    cfg = ctx.path('Paint_MC_%dx%d_%d_%d.cfg' % (w, h, stride, phase))
    with open(cfg, 'w') as f:
        f.write('SPECIFICATION Spec\nCONSTANTS\n  W = %d\n  H = %d\n  Stride = %d\n  Phase = %d\n  SeedIdx = {%s}\n'
                'INVARIANT FixpointLaws\nINVARIANT Emit\n' % (w, h, stride, phase, ', '.join(str(s) for s in seeds)))
    r = ctx.tlc('Paint_MC', cfg, workers=1, tag='enumerate %dx%d stride %d phase %d' % (w, h, stride, phase))
    if not r['ok']:
        ctx.reject('Paint_MC fixpoint laws violated: %s' % r['error'], key={'clause': 'model_check'}, data=r['out'][-3000:])
        return []
    ctx.cov['states'] += r['distinct']
    ctx.cov['transitions'] += r['generated']
    cases = []
    for line in r['out'].splitlines():
        m = _CASE.match(line)
        if m:
            cases.append(json.loads(m.group(1).encode().decode('unicode_escape')))
    return cases


def runs(row):
    """Maximal runs of truthy cells in a row: (x0, x1)."""
    out, x = [], 0
    while x < len(row):
        if row[x]:
            x0 = x
            while x + 1 < len(row) and row[x + 1]:
                x += 1
            out.append((x0, x))
        x += 1
    return out


class Painter(object):
    def __init__(self, ctx, adapter, nr, events):
        self.ctx, self.events = ctx, events
        self.g = gfx.GSess(adapter)
        if self.g.screen(nr)[0] != 'ok' or self.g.text:
            raise core.MachineryError('cannot enter SCREEN %d on %s' % (nr, adapter))
        self.tag = '%s/%d' % (adapter, nr)
        self.g.ex('KEY OFF')
        self.buf = []

    def q(self, stmt):
        """Queue a statement; flushed in multi-statement lines."""
        if sum(len(s) + 1 for s in self.buf) + len(stmt) > 230:
            self.flush()
        self.buf.append(stmt)

    def flush(self):
        if self.buf:
            r = self.g.ex(':'.join(self.buf))
            if r[0] != 'ok':
                self.ctx.reject('C32 %s: statement failed: %r in %s' % (self.tag, r[:2], ':'.join(self.buf)[:200]),
                                key={'clause': 'statement_failed', 'kind': r[0]})
            self.buf = []

    def draw_grid(self, x0, y0, grid, colours):
        """grid cells are indices into colours; cell value 0 is the background fill of the tile."""
        h, w = len(grid), len(grid[0])
        self.q('LINE (%d,%d)-(%d,%d),%d,BF' % (x0, y0, x0 + w - 1, y0 + h - 1, colours[0]))
        for k in sorted(set(v for row in grid for v in row) - {0}):
            for y, row in enumerate(grid):
                for (a, b) in runs([v == k for v in row]):
                    if a == b:
                        self.q('PSET (%d,%d),%d' % (x0 + a, y0 + y, colours[k]))
                    else:
                        self.q('LINE (%d,%d)-(%d,%d),%d' % (x0 + a, y0 + y, x0 + b, y0 + y, colours[k]))

    def tiled(self, cases, w, h, colours, fill, border, label):
        """Paint the TLC-enumerated cases, tiled over the screen, one VIEW per case.  The picture is drawn AFTER the VIEW is set
        (VIEW itself may paint the new viewport), the screen is read once per case: S_i after VIEW_i + picture_i, so that tile i
        is compared between S_i (before PAINT_i) and S_i+1 (after PAINT_i, VIEW_i+1, picture_i+1 - which stay off tile i)."""
        g = self.g
        gapc = colours[-1]
        pw, ph = w + 2, h + 2
        per_row, per_col = (g.W - 1) // pw, (g.H - 1) // ph
        cap = per_row * per_col
        W = g.W

        def event(i, pos, chunk, before, after):
            (x0, y0), c = pos[i], chunk[i]
            gb = gfx.rect(before, W, x0, y0, x0 + w - 1, y0 + h - 1)
            ga = gfx.rect(after, W, x0, y0, x0 + w - 1, y0 + h - 1)
            # pixels changed between the two snapshots outside tile i, not counting the next tile with its 1-pixel ring
            outside = 0
            if before != after:
                d = gfx.diff(before, after, W)
                nx0, ny0 = pos[i + 1] if i + 1 < len(pos) else (-9, -9)
                outside = sum(1 for (x, y, v) in d if not (x0 <= x < x0 + w and y0 <= y < y0 + h)
                              and not (nx0 - 1 <= x <= nx0 + w and ny0 - 1 <= y <= ny0 + h))
            self.events.append({'op': 'paint', 'grid': gb, 'after': ga, 'seed': c['seed'], 'fill': fill, 'border': border, 'outside': outside,
                                'tag': self.tag, 'label': label, 'n': c['n'],
                                'asdrawn': gb == [[colours[v] for v in row] for row in c['grid']]})

        for base in range(0, len(cases), cap):
            chunk = cases[base:base + cap]
            self.q('VIEW')
            self.q('LINE (0,0)-(%d,%d),%d,BF' % (g.W - 1, g.H - 1, gapc))
            pos = [(1 + (i % per_row) * pw, 1 + (i // per_row) * ph) for i in range(len(chunk))]
            prev = None
            for i, ((x0, y0), c) in enumerate(zip(pos, chunk)):
                sx, sy = c['seed']
                absolute = (c['n'] + sx) % 3 == 0
                self.q('VIEW %s(%d,%d)-(%d,%d)' % ('SCREEN ' if absolute else '', x0, y0, x0 + w - 1, y0 + h - 1))
                ox, oy = (x0, y0) if absolute else (0, 0)
                self.draw_grid(ox, oy, c['grid'], colours)
                self.flush()
                snap = bytes(g.page(g.vpage))
                if prev is not None:
                    event(i - 1, pos, chunk, prev, snap)
                prev = snap
                if fill == border and c['n'] % 2 == 0:
                    self.q('PAINT (%d,%d),%d' % (ox + sx, oy + sy, fill))
                else:
                    self.q('PAINT (%d,%d),%d,%d' % (ox + sx, oy + sy, fill, border))
            self.q('VIEW')
            self.flush()
            last = g.visible()
            # per-case snapshots use the page accessor behind Session.get_pixels(); once per screenful both are compared
            if last != bytes(g.page(g.vpage)):
                raise core.MachineryError('Session.get_pixels() differs from Display.pages[vpage].pixels')
            event(len(chunk) - 1, pos, chunk, prev, last)

    def picture(self, rng, maxw, maxh):
        """One random picture in a random viewport."""
        g = self.g
        w, h = rng.randint(2, min(maxw, g.W - 4)), rng.randint(2, min(maxh, g.H - 4))
        n = g.nattr
        if n == 2:
            border = rng.randint(0, 1); openc = [1 - border]; fill = rng.choice([border, border, 1 - border])
        else:
            cols = list(range(n)); rng.shuffle(cols)
            border = cols[0]
            openc = cols[1:1 + rng.choice([1, 1, 2, 3])]
            fill = rng.choice([border, cols[1], cols[-1], cols[-1], cols[-1], rng.choice(cols)])
        kind = rng.choice(['noise', 'noise', 'maze', 'spiral', 'diag', 'boxes', 'open', 'noise'])
        grid = [[0] * w for _ in range(h)]          # 0 = open (first open colour), 1 = border, 2.. = other open colours
        if kind == 'noise':
            dens = rng.choice([0.1, 0.3, 0.4, 0.5, 0.6])
            for y in range(h):
                for x in range(w):
                    if rng.random() < dens:
                        grid[y][x] = 1
        elif kind == 'maze':
            for y in range(h):
                for x in range(w):
                    grid[y][x] = 1
            cw, ch = (w + 1) // 2, (h + 1) // 2
            seen = {(0, 0)}; stack = [(0, 0)]; grid[0][0] = 0
            while stack:
                cx, cy = stack[-1]
                nb = [(cx + dx, cy + dy) for dx, dy in ((1, 0), (-1, 0), (0, 1), (0, -1))
                      if 0 <= cx + dx < cw and 0 <= cy + dy < ch and (cx + dx, cy + dy) not in seen]
                if not nb:
                    stack.pop(); continue
                nx, ny = rng.choice(nb)
                seen.add((nx, ny)); stack.append((nx, ny))
                if 2 * ny < h and 2 * nx < w:
                    grid[2 * ny][2 * nx] = 0
                grid[cy + ny][cx + nx] = 0
        elif kind == 'spiral':
            x0, y0, x1, y1 = 0, 0, w - 1, h - 1
            k = 0
            while x1 - x0 >= 2 and y1 - y0 >= 2:
                for x in range(x0, x1 + 1):
                    grid[y0][x] = 1; grid[y1][x] = 1
                for y in range(y0, y1 + 1):
                    grid[y][x0] = 1; grid[y][x1] = 1
                # a gap in each ring
                side = k % 4
                if side == 0: grid[y0][rng.randint(x0 + 1, x1 - 1)] = 0
                elif side == 1: grid[rng.randint(y0 + 1, y1 - 1)][x1] = 0
                elif side == 2: grid[y1][rng.randint(x0 + 1, x1 - 1)] = 0
                else: grid[rng.randint(y0 + 1, y1 - 1)][x0] = 0
                x0 += 2; y0 += 2; x1 -= 2; y1 -= 2; k += 1
        elif kind == 'diag':
            for _ in range(rng.randint(1, 4)):
                x, y = rng.randint(0, w - 1), rng.choice([0, h - 1, rng.randint(0, h - 1)])
                dx, dy = rng.choice([1, -1]), rng.choice([1, -1])
                while 0 <= x < w and 0 <= y < h:
                    grid[y][x] = 1
                    x += dx; y += dy
        elif kind == 'boxes':
            for _ in range(rng.randint(1, 5)):
                ax, bx = sorted(rng.randint(0, w - 1) for _ in range(2))
                ay, by = sorted(rng.randint(0, h - 1) for _ in range(2))
                for x in range(ax, bx + 1):
                    grid[ay][x] = 1; grid[by][x] = 1
                for y in range(ay, by + 1):
                    grid[y][ax] = 1; grid[y][bx] = 1
        # noise in other open colours (possibly the fill colour)
        if len(openc) > 1 and rng.random() < 0.7:
            for _ in range(rng.randint(1, max(1, w * h // 6))):
                x, y = rng.randint(0, w - 1), rng.randint(0, h - 1)
                if grid[y][x] == 0:
                    grid[y][x] = 1 + rng.randint(1, len(openc) - 1)
            if rng.random() < 0.4:           # a whole scanline segment in another open colour
                y = rng.randint(0, h - 1)
                for x in range(rng.randint(0, w - 1), w):
                    if grid[y][x] == 0:
                        grid[y][x] = 2
        colours = [openc[0], border] + openc[1:]
        vx0, vy0 = rng.choice([1, rng.randint(1, g.W - w - 1)]), rng.choice([1, rng.randint(1, g.H - h - 1)])
        absolute = rng.random() < 0.35
        self.q('VIEW')
        self.q('LINE (%d,%d)-(%d,%d),%d,BF' % (max(0, vx0 - 3), max(0, vy0 - 3), min(g.W - 1, vx0 + w + 2), min(g.H - 1, vy0 + h + 2),
                                                rng.choice(openc)))
        ox, oy = (vx0, vy0) if absolute else (0, 0)
        # the viewport first (VIEW may paint the new viewport), then the picture in viewport coordinates
        self.q('VIEW %s(%d,%d)-(%d,%d)' % ('SCREEN ' if absolute else '', vx0, vy0, vx0 + w - 1, vy0 + h - 1))
        self.draw_grid(ox, oy, grid, colours)
        self.flush()
        before = g.visible()
        k = rng.random()
        if k < 0.8:
            opens = [(x, y) for y in range(h) for x in range(w) if grid[y][x] != 1]
            sx, sy = rng.choice(opens) if opens and rng.random() < 0.9 else (rng.randint(0, w - 1), rng.randint(0, h - 1))
        elif k < 0.9:
            sx, sy = rng.choice([0, w - 1]), rng.choice([0, h - 1])
        else:
            sx, sy = rng.choice([-1, w, rng.randint(-5, w + 5)]), rng.choice([-1, h, rng.randint(-5, h + 5)])
        if fill == border and rng.random() < 0.5:
            st = 'PAINT (%d,%d),%d' % (sx + ox, sy + oy, fill)
        else:
            st = 'PAINT (%d,%d),%d,%d' % (sx + ox, sy + oy, fill, border)
        self.q(st)
        self.q('VIEW')
        self.flush()
        after = g.visible()
        gb = gfx.rect(before, g.W, vx0, vy0, vx0 + w - 1, vy0 + h - 1)
        ga = gfx.rect(after, g.W, vx0, vy0, vx0 + w - 1, vy0 + h - 1)
        inside = sum(1 for ra, rb in zip(ga, gb) for a, b in zip(ra, rb) if a != b)
        self.events.append({'op': 'paint', 'grid': gb, 'after': ga, 'seed': [sx, sy], 'fill': fill, 'border': border,
                            'outside': len(gfx.diff(before, after, g.W)) - inside, 'tag': self.tag, 'label': kind, 'stmt': st,
                            'view': [vx0, vy0, w, h, absolute]})

    def close(self):
        self.g.close()


def run(ctx):
    ctx.cov['rule'] = ('one event per PAINT executed on a real Session (observed viewport content before/after), judged by TLC with Region of Paint.tla; '
                       'distinct by (mode, grid, seed, fill, border); non-trivial = PAINTs whose seed is an open cell')
    rng = ctx.rng
    t0 = time.time()
    events = []
    # 1. all 3x3 bitmaps x all seeds (TLC-enumerated), in two colour set-ups / modes
    c33 = tlc_cases(ctx, 3, 3, 1, 0, range(9))
    if len(c33) != 512 * 9:
        raise core.MachineryError('Paint_MC emitted %d cases for 3x3' % len(c33))
    setups = [('vga', 9, [1, 4, 14], 2, 4), ('cga', 2, [0, 1, 1], 1, 1), ('pcjr', 3, [7, 3, 0], 7, 3), ('ega', 7, [0, 15, 8], 15, 15),
              ('tandy', 6, [0, 2, 3], 1, 2), ('hercules', 3, [1, 0, 0], 0, 0), ('egamono', 10, [0, 1, 3], 2, 1), ('olivetti', 3, [0, 1, 1], 1, 1)]
    pick = [setups[(ctx.seed + k) % len(setups)] for k in range(ctx.pick(1, 4))]
    for (ad, nr, cols, fill, border) in pick:
        p = Painter(ctx, ad, nr, events)
        p.tiled(c33, 3, 3, cols, fill, border, '3x3')
        p.close()
    # 2. 4x4: residue class of the bitmaps (quick) / all bitmaps with one seed position each (thorough)
    if ctx.quick():
        c44 = tlc_cases(ctx, 4, 4, 257, ctx.seed % 257, [(2 * k + ctx.seed) % 16 for k in range(8)])
    else:
        c44 = []
        for s in range(16):
            c44 += tlc_cases(ctx, 4, 4, 16, (s + ctx.seed) % 16, [s])
    ad, nr, cols, fill, border = setups[(ctx.seed + 1) % len(setups)] if ctx.quick() else setups[0]
    p = Painter(ctx, ad, nr, events)
    p.tiled(c44, 4, 4, cols, fill, border, '4x4')
    p.close()
    ctx.cov['tlc_enumerated_cases'] = {'3x3': len(c33), '4x4': len(c44)}
    # every enumerated case really reached the screen as enumerated
    bad = [e for e in events if e['op'] == 'paint' and not e['asdrawn']]
    if bad:
        raise core.MachineryError('%d enumerated bitmaps were not drawn as enumerated (e.g. n=%s in %s)' % (len(bad), bad[0]['n'], bad[0]['tag']))
    # 3. random larger pictures in every graphics mode
    per_mode = ctx.pick(6, 60)
    maxw, maxh = ctx.pick((24, 24), (40, 30))
    for adapter, nr in gfx.ALL_MODES:
        p = Painter(ctx, adapter, nr, events)
        for _ in range(per_mode):
            p.picture(rng, maxw, maxh)
        p.close()
    ctx.cov['impl_wall_s'] = round(time.time() - t0, 1)
    nontriv = 0
    labels = {}
    for e in events:
        labels[e['label']] = labels.get(e['label'], 0) + 1
        if e['op'] == 'paint':
            sx, sy = e['seed']
            inside = 0 <= sy < len(e['grid']) and 0 <= sx < len(e['grid'][0])
            nt = inside and e['grid'][sy][sx] != e['border']
            nontriv += nt
            ctx.count([e['tag'], e['grid'], e['seed'], e['fill'], e['border']], nontrivial=nt)
    ctx.cov['events_by_kind'] = labels
    ctx.cov['seed_on_open_cell'] = nontriv
    for e in (events[7], events[len(events) // 2], events[-1]):
        ctx.sample({k: v for k, v in e.items()})
    keep = ('op', 'grid', 'after', 'seed', 'fill', 'border', 'outside', 'n')
    verdicts = []
    CH = 40000
    for i in range(0, len(events), CH):
        verdicts += [(i + j, c) for (j, c) in ctx.validate('Paint_Trace', [{k: e[k] for k in keep if k in e} for e in events[i:i + CH]])]
    ctx.cov['traces_validated_against_impl'] += len(pick) + 1 + len(gfx.ALL_MODES)
    for (i, clause) in verdicts:
        e = events[i - 1]
        g = e.get('grid')
        ctx.reject('C32 %s [%s %s] seed=%s fill=%s border=%s %s grid=%s after=%s' % (
            clause, e['tag'], e['label'], e.get('seed'), e.get('fill'), e.get('border'), e.get('stmt', ''), json.dumps(g)[:300], json.dumps(e.get('after'))[:300]),
            key={'clause': clause, 'label': e['label'], 'mode': e['tag'], 'fill_is_border': e.get('fill') == e.get('border')}, data=e)
    if nontriv < 1000:
        raise core.MachineryError('vacuous: only %d PAINTs started on an open cell' % nontriv)
    ctx.assumptions += ['TLC evaluates Paint.tla correctly (fixpoint laws self-checked by Paint_MC on every enumerated bitmap)',
                        'the viewport content read back before PAINT is the picture PAINT saw']
