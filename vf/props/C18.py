"""C18 — expression precedence, associativity, typing. Spec Expr.tla; generator/self-check Expr_Gen; trace spec C18_Trace."""
import json, re
from fractions import Fraction
from concurrent.futures import ThreadPoolExecutor
from ..session import Sess
from .. import core

LEVEL = 'exploration'
META = {
    'technique': 'TLC generates expression trees (exhaustive small families + random deeper ones), renders them and checks render/parse round trip; '
                 'the texts are evaluated by the real interpreter; TLC recomputes value and type from the tree (Expr.tla) and judges every observation',
    'text': 'Expr.tla defines operator trees, Eval/Type (exact rational arithmetic; widest-operand typing, / and ^ never integer, relational/logical integer, '
            'Type mismatch 13, Missing operand 22), Toks/Render (minimal and three redundant parenthesisation styles) and Parse (the precedence-climbing parser '
            'the statement describes). TLC (Expr_Gen) enumerates: family "prec" = every tree of operator nesting <= 2 (height 3) over one operator per precedence '
            'level (+ both * and /) and integer leaves (quick: <= 3 operators, positional leaves; thorough: all, 3 leaves); family "typing" = every tree of nesting <= 1 over ALL 20 '
            'operators and 16 leaves of all four types (literals and variables); family "hole" = missing right operands; family "random" = random trees up to nesting 5; '
            'for every emitted tree TLC checks Parse(Toks(t, style)) = t in all 4 styles. The texts go to Session.evaluate (value, Python type, BASIC type of the '
            'evaluator result) and, where the printed form is exact, to PRINT; C18_Trace re-renders the tree, recomputes the expected outcome and judges.',
    'note': 'Trusted: TLC, JSON plumbing. Trees whose value leaves the exactly representable fragment (|num| <= 2^19, den <= 2^10, integer overflow, division by zero, '
            'non-integral operands of \\ MOD and logical operators, non-integer exponents) are not generated, so no floating-point oracle is involved. '
            'The BASIC type of a float result (single vs double) is read from the class of the value the expression evaluator returns (Session.evaluate only shows int/float/bytes). '
            'Functions, arrays, hex/octal literals and unary plus are outside the fragment.',
}
_LINE = re.compile(r'^<<"(EXPR|VARS)", "(.*)">>\s*$')
SIG = {b'%': '%', b'!': '!', b'#': '#', b'$': '$'}


def generate(ctx, cfg, tag):
    r = ctx.tlc('Expr_Gen', cfg, workers=1, tag=tag, timeout=2400, extra=['-seed', str(ctx.seed + 1)])
    if not r['ok']:
        if 'nvariant' in (r['error'] or ''):
            ctx.reject('C18 specification self-check failed (%s): %s' % (cfg, r['error']), key={'clause': 'model_check', 'cfg': cfg}, data=r['out'][-3000:])
            return [], None
        raise core.MachineryError('Expr_Gen %s failed: %s\n%s' % (cfg, r['error'], r['out'][-2000:]))
    rows, vars_ = [], None
    for line in r['out'].splitlines():
        m = _LINE.match(line)
        if m:
            d = json.loads(m.group(2).encode().decode('unicode_escape'))
            if m.group(1) == 'VARS':
                vars_ = d
            else:
                rows.append(d)
    ctx.cov['states'] += r['distinct']
    ctx.cov['transitions'] += r['generated']
    return rows, vars_


class Probe(object):
    """A Session whose expression evaluator reports the BASIC type of its result."""

    def __init__(self, vars_, **kw):
        self.s = Sess(**kw)
        self.last = None
        par = self.s.impl.parser
        orig = par.parse_expression

        def wrapped(ins, *a, **k):
            self.last = None
            v = orig(ins, *a, **k)
            self.last = SIG.get(getattr(v, 'sigil', None), '?')
            return v
        par.parse_expression = wrapped
        for v in vars_:
            val = v['v']
            if val['k'] == 'str':
                self.s.s.set_variable(v['name'], bytes(val['s']))
            else:
                x = Fraction(val['n'], val['d'])
                self.s.s.set_variable(v['name'], int(x) if v['name'].endswith('%') else float(x))

    def num(self, v, ty):
        if isinstance(v, bool) or not isinstance(v, (int, float)):
            return {'k': 'other', 'repr': repr(v)[:80]}
        try:
            f = Fraction(v)
        except (ValueError, OverflowError):
            return {'k': 'numbig'}
        if abs(f.numerator) >= 2 ** 31 or f.denominator >= 2 ** 31:
            return {'k': 'numbig'}
        return {'k': 'num', 'ty': ty, 'py': type(v).__name__, 'n': f.numerator, 'd': f.denominator}

    def evaluate(self, text):
        r = self.s.ev(text)
        if r[0] == 'ok':
            v = r[1]
            if isinstance(v, (bytes, bytearray)):
                return {'k': 'str', 'py': 'bytes', 's': list(bytes(v)), 'ty': self.last or '?'}
            return self.num(v, self.last or '?')
        if r[0] in ('err', 'soft'):
            return {'k': 'err', 'code': r[1]}
        if r[0] == 'internal':
            return {'k': 'internal', 'repr': r[1][:200]}
        return {'k': 'other', 'repr': repr(r[:2])[:80]}

    def print_(self, text):
        r = self.s.ex('PRINT ' + text)
        if r[0] == 'err':
            return {'k': 'err', 'code': r[1]}
        if r[0] == 'internal':
            return {'k': 'internal', 'repr': r[1][:200]}
        if r[0] != 'ok':
            return {'k': 'other', 'repr': repr(r[:2])[:80]}
        out = r[2]
        body = out[:-2] if out.endswith(b'\r\n') else out
        m = re.match(br'^([ -])(\d*\.?\d*(?:[ED][-+]\d+)?) $', body)
        if m and m.group(2):
            try:
                return self.num(float((m.group(1).strip() + m.group(2)).replace(b'D', b'E')), '?')
            except ValueError:
                pass
        return {'k': 'str', 'py': 'bytes', 's': list(body), 'ty': '?'}


def run(ctx):
    ctx.cov['rule'] = ('evaluations = (expression text, observation channel) pairs judged by TLC; distinct by (text, channel, session configuration); '
                       'non-trivial = texts with at least one operator')
    fams = [(ctx.pick('Expr_Gen_precq.cfg', 'Expr_Gen_prec.cfg'), 'prec'), ('Expr_Gen_typing.cfg', 'typing'), ('Expr_Gen_hole.cfg', 'hole'),
            (ctx.pick('Expr_Gen_randomq.cfg', 'Expr_Gen_random.cfg'), 'random')]
    pool = ThreadPoolExecutor(max_workers=ctx.pick(2, 4))
    futs = [(fam, pool.submit(generate, ctx, cfg, 'generate ' + fam)) for cfg, fam in fams]
    vars_ = None
    gen = {}
    for fam, f in futs:
        rows, v = f.result()
        vars_ = vars_ or v
        gen[fam] = rows
        ctx.cov['generated_' + fam] = len(rows)
    pool.shutdown()
    if vars_ is None:
        raise core.MachineryError('generator printed no VARS line')
    if not all(gen[f] for f in ('prec', 'typing', 'hole', 'random')) and not ctx.violations:
        raise core.MachineryError('a family is empty: %r' % {k: len(v) for k, v in gen.items()})

    # two configurations: the default one and one with double-precision transcendental functions (option double=True)
    probes = [('default', Probe(vars_)), ('double', Probe(vars_, double=True))]
    events, meta = [], []
    for fam in ('prec', 'typing', 'hole', 'random'):
        for row in gen[fam]:
            for cname, p in probes:
                if cname == 'double' and '#' not in row['x']:
                    continue
                obs = p.evaluate(row['x'])
                events.append({'t': row['t'], 'style': row['style'], 'x': row['x'], 'obs': obs})
                meta.append((fam, cname, 'evaluate'))
                if row['pr'] and row['style'] in (('min', 'right') if ctx.quick() else ('min',)) and cname == 'default' and fam != 'hole':
                    obs = p.print_(row['x'])
                    events.append({'t': row['t'], 'style': row['style'], 'x': row['x'], 'obs': obs})
                    meta.append((fam, cname, 'print'))
    for _, p in probes:
        p.s.close()
    for e, m in zip(events, meta):
        ctx.count([e['x'], m[1], m[2]], nontrivial=(e['t']['k'] not in ('leaf', 'hole')))
    for i in (5, len(events) // 3, len(events) // 2, 2 * len(events) // 3, len(events) - 7):
        ctx.sample({'text': events[i]['x'], 'style': events[i]['style'], 'obs': events[i]['obs'], 'via': meta[i]})
    # TLC judges, in parallel batches
    B = 30000
    keep = ('k', 'ty', 'py', 'n', 'd', 's', 'code')
    batches = [(i, [{'t': e['t'], 'style': e['style'], 'x': e['x'], 'obs': {k: v for k, v in e['obs'].items() if k in keep}}
                    for e in events[i:i + B]]) for i in range(0, len(events), B)]
    pool = ThreadPoolExecutor(max_workers=ctx.pick(2, 4))
    jobs = [(i, pool.submit(ctx.validate, 'C18_Trace', ev, None, None, None, 3600, False, 'c18_%d' % i)) for i, ev in batches]
    ctx.cov['traces_validated_against_impl'] += len(batches)
    import os, collections
    summary = collections.OrderedDict()
    for base, f in jobs:
        for (i, clause) in f.result():
            summary.setdefault((clause, meta[base + i - 1][1], meta[base + i - 1][2]), []).append(events[base + i - 1]['x'])
            e, m = events[base + i - 1], meta[base + i - 1]
            key = {'clause': clause, 'config': m[1], 'via': m[2], 'obs_kind': e['obs']['k']}
            ctx.reject('C18 %s: %s %r -> %r  [%s, style %s, %s]' % (clause, m[2], e['x'], {k: v for k, v in e['obs'].items() if k != 'py'}, m[0], e['style'], m[1]),
                       key=key, data={'text': e['x'], 'tree': e['t'], 'obs': e['obs'], 'family': m[0], 'config': m[1]})
    pool.shutdown()
    ctx.cov['rejections_by_clause'] = {'%s/%s/%s' % k: len(v) for k, v in summary.items()}
    if os.environ.get('VERIF_DEBUG'):
        for k, v in summary.items():
            print('  [debug] %5d %s e.g. %r' % (len(v), k, v[:6]))
    ctx.assumptions += ['exact-fragment restriction: value/type judged only for trees all of whose intermediate results are exactly representable',
                        'BASIC type of the result read from the value object returned by the expression evaluator (sigil)',
                        'precedence parser Parse and renderer Toks of Expr.tla are inverse on every emitted tree (checked by TLC in the same run)']
