"""C19 — structured control flow. Spec Interp.tla (FOR/NEXT, WHILE/WEND, GOSUB/RETURN, GOTO, IF, ON); trace spec Interp_Trace."""
from .. import interp_check, core

LEVEL = 'model_checking'
META = {
    'technique': 'TLA+ abstract machine Interp.tla; TLC trace validation of statement-boundary traces of generated programs run on the real interpreter; TLC model check of a program family',
    'text': 'Interp.tla is an executable reference semantics of the interpreter core (program counter, FOR/WHILE/GOSUB stacks, static NEXT/WEND matching, '
            'ON selection, mismatch errors). Randomly generated programs (nested and single-line loops, negative/empty ranges, integer and single counters, jumps out of loops, '
            'stray NEXT/WEND/RETURN, multi-statement lines, inline IF/ELSE) run on the real interpreter; hook H1 logs every statement boundary (line, all variables, printed numbers) '
            'and TLC must explain every boundary by one specification step (position, variables, output) and the final status (end / Break / error code and line).',
    'note': 'Trusted: TLC, the H1 hook (logs at statement boundaries only), the renderer of structured programs to BASIC text. Fragment: integer-valued variables, no STEP 0, '
            'no statically mismatched NEXT variables; programs leaving the fragment are discarded and counted.',
}
META['text'] += ' A declarative family makes GOSUB / ON n GOSUB fail (missing line, trapped, RESUME NEXT) at top level and inside a subroutine: no return record may be left behind.'


def run(ctx):
    ctx.cov['rule'] = ('one case = one generated program run on the real interpreter; evaluations = statement boundaries validated by TLC; '
                       'distinct = distinct program texts')
    interp_check.run_model_families(ctx, ['for', 'for2', 'on', 'gosub', 'while', 'nestedif'])
    st = interp_check.run_family(ctx, {'ctl', 'stray'}, ctx.pick(260, 6000), size=14)
    if st['boundaries'] < 1000:
        raise core.MachineryError('too few boundaries validated')
