"""C15 - save/load round trip, cipher bijection.
Specs: Cipher.tla (+ Cipher_MC, Kocher.tla), SaveLoad.tla (+ SaveLoad_MC), trace spec C15_Trace.tla."""
import io, os, sys, glob, shutil, time
from ..session import Sess
from .. import core, progen

LEVEL = 'exploration'
META = {
    'technique': 'exhaustive TLC evaluation of the cipher laws on the tables observed from the real protect/unprotect (every cell of two periods) '
                 '+ TLC design check of the file layout + TLC trace validation of recorded SAVE/LOAD/MERGE/convert operations and cipher streams',
    'text': 'Cipher part: every byte is pushed through the real protect and unprotect at every position 0..285; TLC (Cipher_MC) checks on the recorded '
            'tables, for ALL 286 x 256 cells, decode(encode)=id, encode(decode)=id, permutation per position, period 143 - the domain is finite and '
            'completely enumerated (coverage.cipher_cells_exhaustive). Kocher\'s published algorithm with the GW-BASIC keys is checked the same way (design). '
            'Streams of every length 0..300 and random longer ones must equal the position-wise table substitution and decode back (C15_Trace). '
            'File part: generated programs (all number classes, control/EOF bytes in strings and comments, line numbers 0..65529 and, via patched tokenised '
            'files, 65530..65535, lines at the 255 character boundary) and a sample of the corpus under tests/basic are SAVEd and LOADed in B, P and A format on '
            'disk, the internal device @: and cassette; TLC compares program buffer / program size (B, P), listings (A, LOAD and MERGE, MERGE into a resident program) '
            'and the files written by `pcbasic --convert` with those of LOAD + SAVE in a session.',
    'note': 'Trusted: TLC, JSON plumbing, projection of program memory from Program.bytecode / code_size (cross-checked against PEEK on a sample). '
            'Level exploration: the program/file part is sampled; only the cipher cell laws are exhaustive. The key tables themselves are not demanded (any bijective '
            'period-143 substitution is accepted); whether the observed tables equal Kocher\'s is reported as coverage.observed_tables_are_kocher_gw.',
}
NPOS = 286


# --------------------------------------------------------------------------------------------- helpers
def hx(b):
    return bytes(b).hex()


def snap(s):
    p = s.impl.program
    return bytes(p.bytecode.getvalue()), p.code_size


def listing(s):
    """What LIST shows (None if LIST fails); a Python exception other than a BASIC error is an internal error."""
    try:
        return [bytes(l) for l in s.impl.program.list_lines(None, None)]
    except BaseException as e:  # noqa
        if type(e).__name__ != 'BASICError':
            INTERNALS.append((b'LIST', '%s: %s' % (type(e).__name__, e)))
        return None


INTERNALS = []       # (statement, exception text): every escaping Python exception is a rejection


def X(s, stmt):
    r = s.ex(stmt)
    if r[0] == 'internal':
        INTERNALS.append((stmt if isinstance(stmt, bytes) else stmt.encode(), r[1]))
    return r


def enter(s, prog):
    ok = True
    for item in prog:
        line = item[1] if isinstance(item, tuple) else item
        if b'\r' in line or b'\n' in line:
            return False
        r = X(s, line)
        ok = ok and r[0] == 'ok'
    return ok


def numbered(lst):
    """[[number, hex text]] from listing lines (projection only: the leading decimal digits)."""
    out = []
    for l in lst:
        k = 0
        while k < len(l) and 48 <= l[k] <= 57:
            k += 1
        out.append([int(l[:k] or b'0'), hx(l)])
    return out


def readf(path):
    try:
        with open(path, 'rb') as f:
            return f.read()
    except EnvironmentError:
        return None


class FileCheck(object):
    """Drives SAVE / LOAD / MERGE of one stored program and records the events."""

    def __init__(self, ctx, events):
        self.ctx = ctx
        self.events = events
        self.n = 0

    def restore(self, s, origin):
        s.ex('NEW')
        if origin[0] == 'typed':
            enter(s, origin[1])
        else:
            s.ex('LOAD "%s"' % origin[1])

    def junk(self, s, rng):
        """Leave some other program resident so that LOAD has to replace it."""
        s.ex('NEW')
        if rng.random() < 0.7:
            enter(s, progen.program(rng, rng.choice([1, 3, 9])))

    def binary(self, s, origin, fmt, dev, rng, tag):
        """One B or P round trip on disk or the internal device."""
        mem0, size0 = snap(s)
        suffix = '' if fmt == 'B' else ',P'
        f1, f2 = os.path.join(s.mount, 'RT1.BAS'), os.path.join(s.mount, 'RT2.BAS')
        for f in (f1, f2):
            if os.path.exists(f):
                os.remove(f)
        if dev == 'disk':
            r1 = X(s, 'SAVE "RT1"%s' % suffix)
            self.junk(s, rng)
            r2 = X(s, 'LOAD "RT1"')
            mem1, size1 = snap(s)
            r3 = X(s, 'SAVE "RT2"%s' % suffix)
        else:
            with s.s.bind_file(f1, create=True) as nm:
                r1 = X(s, b'SAVE "%s"%s' % (bytes(nm), suffix.encode()))
            self.junk(s, rng)
            with s.s.bind_file(f1) as nm:
                r2 = X(s, b'LOAD "%s"' % (bytes(nm),))
            mem1, size1 = snap(s)
            with s.s.bind_file(f2, create=True) as nm:
                r3 = X(s, b'SAVE "%s"%s' % (bytes(nm), suffix.encode()))
        file1, file2 = readf(f1), readf(f2)
        ok = r1[0] == 'ok' and r2[0] == 'ok' and r3[0] == 'ok' and file1 is not None and file2 is not None
        e = {'k': 'roundtrip', 'fmt': fmt, 'dev': dev, 'ok': ok, 'mem0': list(mem0), 'size0': size0, 'mem1': list(mem1),
             'size1': size1, 'file1': hx(file1 or b''), 'file2': hx(file2 or b''), 'tag': tag,
             'detail': [r[:2] for r in (r1, r2, r3)]}
        self.events.append(e)
        self.restore(s, origin)
        return file1

    def peekview(self, s):
        mem, size = snap(s)
        cs = s.impl.memory.code_start
        vis = []
        for i in range(size):
            r = s.ev('PEEK(%d)' % (cs + i))
            vis.append(r[1] if r[0] == 'ok' and isinstance(r[1], int) else -1)
        self.events.append({'k': 'peekview', 'vis': vis, 'mem': list(mem), 'size': size})

    def premise(self, s, lst):
        """Type the listing into an empty session: (all lines accepted, resulting program buffer)."""
        s.ex('NEW')
        reok = lst is not None and enter(s, lst)
        return reok, snap(s)[0]

    def ascii(self, s, origin, dev, rng, tag, qprog=None):
        mem0, _ = snap(s)
        list0 = listing(s)
        f1 = os.path.join(s.mount, 'RA.BAS')
        if os.path.exists(f1):
            os.remove(f1)
        if dev == 'disk':
            r1 = X(s, 'SAVE "RA",A')
            name = b'RA'
        else:
            with s.s.bind_file(f1, create=True) as nm:
                r1 = X(s, b'SAVE "%s",A' % (bytes(nm),))
        reok, memre = self.premise(s, list0)
        reok = reok and r1[0] == 'ok'

        def use(stmt):
            if dev == 'disk':
                return X(s, stmt + b' "RA"')
            with s.s.bind_file(f1) as nm:
                return X(s, stmt + b' "%s"' % (bytes(nm),))
        self.junk(s, rng)
        r2 = use(b'LOAD')
        list1 = listing(s)
        s.ex('NEW')
        r3 = use(b'MERGE')
        list2 = listing(s)
        e = {'k': 'ascii', 'dev': dev, 'mem0': hx(mem0), 'memre': hx(memre), 'reok': bool(reok),
             'list0': [hx(l) for l in (list0 or [])], 'len0': [len(l) for l in (list0 or [])],
             'loadok': r2[0] == 'ok' and list1 is not None, 'list1': [hx(l) for l in (list1 or [])],
             'mergeok': r3[0] == 'ok' and list2 is not None, 'list2': [hx(l) for l in (list2 or [])], 'tag': tag,
             'detail': [r[:2] for r in (r1, r2, r3)], 'premise': bool(reok and memre == mem0 and all(len(l) <= 255 for l in (list0 or [])))}
        self.events.append(e)
        if qprog is not None:
            # MERGE into a resident program q
            s.ex('NEW')
            enter(s, qprog)
            qmem0 = snap(s)[0]
            qlist = listing(s)
            qok, qmemre = self.premise(s, qlist)
            s.ex('NEW')
            enter(s, qprog)
            r4 = use(b'MERGE')
            rl = listing(s)
            self.events.append({'k': 'merge', 'qmem0': hx(qmem0), 'qmemre': hx(qmemre), 'fmem0': hx(mem0), 'fmemre': hx(memre),
                                'reok': bool(reok and qok), 'q': numbered(qlist or []), 'f': numbered(list0 or []),
                                'lens': [len(l) for l in (qlist or []) + (list0 or [])],
                                'ok': r4[0] == 'ok' and rl is not None, 'r': numbered(rl or []), 'tag': tag, 'detail': [r4[:2]],
                                'premise': bool(reok and qok and memre == mem0 and qmemre == qmem0 and all(len(l) <= 255 for l in (qlist or []) + (list0 or [])))})
        self.restore(s, origin)
        return readf(f1)


def cassette(ctx, events, prog, rng, tag):
    """B, P and A round trips through a cassette image (second session = rewound tape)."""
    cas = ctx.path('tape_%d.cas' % len(events))
    mount = ctx.path('casmount')
    os.makedirs(mount, exist_ok=True)
    kw = dict(mount=mount, devices={b'C': mount, b'CAS1:': cas}, peek_values={})
    s = Sess(**kw)
    enter(s, prog)
    mem0, size0 = snap(s)
    list0 = listing(s)
    rs = [X(s, 'SAVE "CAS1:PB"'), X(s, 'SAVE "CAS1:PP",P'), X(s, 'SAVE "CAS1:PA",A')]
    reok, memre = FileCheck(ctx, events).premise(s, list0)
    s.close()
    s = Sess(**kw)
    enter(s, progen.program(rng, 3))
    for fmt, nm in (('B', 'PB'), ('P', 'PP')):
        r = X(s, 'LOAD "CAS1:%s"' % nm)
        mem1, size1 = snap(s)
        events.append({'k': 'roundtrip', 'fmt': fmt, 'dev': 'cas', 'ok': r[0] == 'ok' and all(x[0] == 'ok' for x in rs[:2]),
                       'mem0': list(mem0), 'size0': size0, 'mem1': list(mem1), 'size1': size1, 'file1': '', 'file2': '', 'tag': tag,
                       'detail': [r[:2]] + [x[:2] for x in rs]})
    r2 = X(s, 'LOAD "CAS1:PA"')
    list1 = listing(s)
    s.close()
    s = Sess(**kw)
    r3 = X(s, 'MERGE "CAS1:PA"')
    list2 = listing(s)
    s.close()
    events.append({'k': 'ascii', 'dev': 'cas', 'mem0': hx(mem0), 'memre': hx(memre), 'reok': bool(reok and rs[2][0] == 'ok'),
                   'list0': [hx(l) for l in (list0 or [])], 'len0': [len(l) for l in (list0 or [])],
                   'loadok': r2[0] == 'ok', 'list1': [hx(l) for l in (list1 or [])],
                   'mergeok': r3[0] == 'ok', 'list2': [hx(l) for l in (list2 or [])], 'tag': tag,
                   'detail': [r2[:2], r3[:2]], 'premise': bool(reok and memre == mem0 and all(len(l) <= 255 for l in (list0 or [])))})
    if os.path.exists(cas):
        os.remove(cas)


def convert_events(ctx, events, inputs, modes):
    """pcbasic --convert=<mode> in out  versus  LOAD + SAVE in a session with default options."""
    from pcbasic.main import main
    d = ctx.path('conv')
    os.makedirs(d, exist_ok=True)
    for k, (srcfmt, data) in enumerate(inputs):
        src = os.path.join(d, 'in_%d.bas' % k)
        with open(src, 'wb') as f:
            f.write(data)
        for mode in modes:
            out = os.path.join(d, 'out_%d_%s.bas' % (k, mode))
            convok = True
            # the converter's session talks to stdout: keep the check's own output clean
            sys.stdout.flush()
            saved = os.dup(1)
            devnull = os.open(os.devnull, os.O_WRONLY)
            os.dup2(devnull, 1)
            try:
                main('--convert=' + mode, src, out)
            except BaseException as ex:  # noqa
                convok = False
            finally:
                sys.stdout.flush()
                os.dup2(saved, 1)
                os.close(saved)
                os.close(devnull)
            conv = readf(out)
            res = {}
            # reference: LOAD + SAVE in a session with default options; and (only to CLASSIFY a difference) in a session that,
            # like the converter's, keeps the line pointers stored in a tokenised file (rebuild_offsets=False)
            for nm, kw in (('sess', {}), ('sessraw', {'rebuild_offsets': False})):
                s = Sess(**kw)
                shutil.copy(src, os.path.join(s.mount, 'IN.BAS'))
                r1 = X(s, 'LOAD "IN"')
                r2 = X(s, 'SAVE "OUT"' + ('' if mode == 'b' else ',' + mode.upper()))
                res[nm] = (readf(os.path.join(s.mount, 'OUT.BAS')), r1, r2)
                s.close()
            sess, r1, r2 = res['sess']
            events.append({'k': 'convert', 'mode': mode, 'src': srcfmt, 'convok': convok and conv is not None,
                           'sessok': r1[0] == 'ok' and r2[0] == 'ok' and sess is not None,
                           'conv': hx(conv or b''), 'sess': hx(sess or b''), 'sessraw': hx(res['sessraw'][0] or b''),
                           'detail': [r1[:2], r2[:2]]})


def patched_high_lines(rng, file_b):
    """Tokenised file whose last lines carry numbers 65530..65535 (cannot be typed; GW-BASIC runs them if present)."""
    data = bytearray(file_b)
    # walk the line chain: FF, then [ptr lo hi][num lo hi] ... 00 per line (input generator: knows the file layout)
    pos, starts = 1, []
    while pos + 4 <= len(data) and not (data[pos] == 0 and data[pos + 1] == 0):
        starts.append(pos)
        pos += 4
        while pos < len(data) and data[pos] != 0:
            c = data[pos]
            pos += {0x0b: 3, 0x0c: 3, 0x0d: 3, 0x0e: 3, 0x0f: 2, 0x1c: 3, 0x1d: 5, 0x1f: 9}.get(c, 1)
        pos += 1
    take = min(len(starts), rng.randint(1, 3))
    nums = sorted(rng.sample(range(65530, 65536), take))
    for st, n in zip(starts[-take:], nums):
        data[st + 2] = n & 255
        data[st + 3] = n >> 8
    return bytes(data)


# --------------------------------------------------------------------------------------------- the check
def run(ctx):
    # hermetic configuration directories for the in-process `pcbasic --convert` calls
    os.environ['XDG_CONFIG_HOME'] = ctx.path('xdg_config')
    os.environ['XDG_DATA_HOME'] = ctx.path('xdg_data')
    core.import_repo()
    from pcbasic.basic.converter import protect, unprotect
    rng = ctx.rng
    ctx.cov['rule'] = ('evaluations = cipher cells checked by TLC + recorded operations (streams, SAVE/LOAD round trips, ASCII load/merge, '
                       'merges into a resident program, conversions) judged by TLC; distinct = distinct event contents; non-trivial = cells, '
                       'non-empty streams, binary round trips, conversions, and ASCII/merge events whose premise (listing re-enters as the same program) holds')
    t0 = time.time()

    # ---- 1. cipher tables observed from the code: every byte at every position of two periods ----
    def run_cipher(f, data):
        o = io.BytesIO()
        try:
            f(io.BytesIO(data), o)
            return o.getvalue(), False
        except Exception:  # noqa
            return o.getvalue(), True

    enc = [[-1] * 256 for _ in range(NPOS)]
    dec = [[-1] * 256 for _ in range(NPOS)]
    for c in range(256):
        v, exc = run_cipher(protect, bytes([c]) * NPOS)
        for i in range(min(NPOS, len(v))):
            enc[i][c] = v[i]
        v, exc = run_cipher(unprotect, bytes([c]) * NPOS + b'\x1a')
        for i in range(min(NPOS, len(v))):
            dec[i][c] = v[i]
    header = {'enc': enc, 'dec': dec}
    tf = ctx.path('tables.json')
    import json
    with open(tf, 'w') as f:
        json.dump({'header': header, 'events': []}, f)
    r = ctx.tlc('Cipher_MC', 'Cipher_MC.cfg', env={'TRACE_FILE': tf}, workers=2, tag='observed tables: all cells')
    ctx.cov['states'] += r['distinct']
    ctx.cov['transitions'] += r['generated']
    if r['distinct'] != NPOS and r['ok']:
        raise core.MachineryError('Cipher_MC visited %d positions instead of %d' % (r['distinct'], NPOS))
    if not r['ok']:
        ctx.reject('C15 cipher law violated on the tables observed from protect/unprotect: %s' % r['error'],
                   key={'clause': 'cipher_cell_law', 'law': str(r['error'])}, data=r['out'][-3000:])
    ctx.cov['cipher_cells_checked'] = NPOS * 256 * 2
    ctx.cov['cipher_cells_exhaustive'] = True
    ctx.cov['exhaustive'] = False
    ctx.cov['exhaustive_parts'] = {'cipher cell laws (decode.encode, encode.decode, permutation, period 143) on the observed tables': True,
                             'programs / files / streams': False}
    for c in range(256):
        ctx.count(['cellrow', c])
    ctx.cov['evaluations'] += NPOS * 256 * 2 - 256
    # design: Kocher's algorithm + GW-BASIC keys satisfies the same laws; informational: observed tables are that design
    r = ctx.tlc('Cipher_MC', 'Cipher_MC_kocher.cfg', env={'TRACE_FILE': tf}, workers=2, tag='design: Kocher/GW keys; informational: observed = Kocher')
    ctx.cov['states'] += r['distinct']
    if not r['ok'] and 'ObservedIsKocher' not in str(r['error']):
        raise core.MachineryError('Kocher design model fails its own laws: %s' % r['error'])
    ctx.cov['observed_tables_are_kocher_gw'] = bool(r['ok'])
    # design: file layout round trip for every small memory image (incl. payloads ending in the EOF byte)
    ctx.model_check('SaveLoad_MC', 'SaveLoad_MC.cfg', workers=2, require_actions=False)
    if not ctx.quick():
        r = ctx.tlc('SaveLoad_MC', 'SaveLoad_MC_ascoded.cfg', workers=1, expect_fail=True, tag='selftest: as-coded B loader must fail')
        if r['ok']:
            raise core.MachineryError('selftest: SaveLoad_MC did not find the EOF-marker counterexample in the as-coded loader')
    os.remove(tf)

    # ---- 2. streams ----
    events = []

    def stream(s):
        e, x1 = run_cipher(protect, s)
        d, x2 = run_cipher(unprotect, e + b'\x1a')
        events.append({'k': 'stream', 's': list(s), 'e': list(e), 'd': list(d), 'exc': bool(x1 or x2)})

    def unstream(x):
        u, x1 = run_cipher(unprotect, x + b'\x1a')
        rr, x2 = run_cipher(protect, u)
        events.append({'k': 'unstream', 'x': list(x), 'u': list(u), 'r': list(rr), 'exc': bool(x1 or x2)})

    for n in range(0, 301):
        stream(bytes(rng.randrange(256) for _ in range(n)))
    for n in list(range(0, 301, ctx.pick(7, 1))):
        unstream(bytes(rng.randrange(256) for _ in range(n)))
    for _ in range(ctx.pick(12, 150)):
        n = rng.choice([rng.randint(301, 1000), rng.randint(1000, ctx.pick(1500, 6000)), 142, 143, 144, 285, 286, 287, 429, 572])
        k = rng.randrange(4)
        s = (bytes(rng.randrange(256) for _ in range(n)) if k < 2 else bytes([rng.choice([0, 0x1a, 0xff, 0x0d])]) * n if k == 2
             else bytes((j * 7 + 3) % 256 for j in range(n)))
        stream(s)
        if k == 0:
            unstream(s)
    nstream = len(events)

    # ---- 3. programs: generated ----
    fc = FileCheck(ctx, events)
    s = Sess(peek_values={})
    nprog = ctx.pick(70, 900)
    conv_inputs = []
    for pi in range(nprog):
        special = rng.choice([0.0, 0.0, 0.0, 0.15, 0.4])
        prog = progen.program(rng, special=special)
        if rng.random() < 0.12 or pi < 6:
            # listing lines at the line-buffer boundary: 254 and 255 characters must load, longer ones cannot re-enter
            blen = [254, 255, 255, 256, 254, 257][pi] if pi < 6 else rng.choice([250, 253, 254, 255, 256, 257])
            prog = sorted(set(prog + [progen.long_line(rng, rng.choice([5, 300, 65000]), blen)]))
            prog = [p for i, p in enumerate(prog) if i == 0 or prog[i - 1][0] != p[0]]
        if rng.random() < 0.2:
            # token-valued bytes inside literals followed by zero bytes in number tokens (line-chain scanners)
            used = set(n for n, _ in prog)
            extra = [progen.trap_line(rng, n) for n in rng.sample(range(2, 60000), rng.randint(1, 2)) if n not in used]
            prog = sorted(prog + extra)
        s.ex('NEW')
        if not enter(s, prog):
            # e.g. a line the tokeniser rejects; still a stored program if anything was kept
            pass
        if snap(s)[1] <= 3:
            continue
        tag = 'gen%d' % pi
        origin = ('typed', prog)
        dev = 'internal' if rng.random() < 0.25 else 'disk'
        fb = fc.binary(s, origin, 'B', dev, rng, tag)
        fp = fc.binary(s, origin, 'P', dev, rng, tag)
        fa = fc.ascii(s, origin, dev, rng, tag, qprog=progen.program(rng, rng.choice([2, 5, 9])) if rng.random() < 0.5 else None)
        if pi % 9 == 0:
            fc.peekview(s)
        if pi % 6 == 0 and fb:
            # line numbers 65530..65535 only exist in tokenised files: patch, load, then round trip from there
            with open(os.path.join(s.mount, 'HIGH.BAS'), 'wb') as f:
                f.write(patched_high_lines(rng, fb))
            if s.ex('LOAD "HIGH"')[0] == 'ok':
                o2 = ('file', 'HIGH')
                fc.binary(s, o2, 'B', 'disk', rng, tag + 'high')
                fc.binary(s, o2, 'P', 'disk', rng, tag + 'high')
                fc.ascii(s, o2, 'disk', rng, tag + 'high')
        if len(conv_inputs) < ctx.pick(4, 30) and fb and fp and fa and pi % 3 == 1:
            conv_inputs.append(rng.choice([('B', fb), ('P', fp), ('A', fa)]))
    s.close()
    # cassette
    for ci in range(ctx.pick(6, 60)):
        cprog = progen.program(rng, special=rng.choice([0.0, 0.2]))
        if ci < 2:
            # line-buffer boundary on the cassette text reader as well
            cprog = [(3, b'3 PRINT "boundary"'), progen.long_line(rng, 7, [255, 254][ci]), (9, b'9 END')]
        cassette(ctx, events, cprog, rng, 'cas%d' % ci)

    # ---- 4. programs: corpus sample ----
    corpus = sorted(glob.glob(os.path.join(core.REPO, 'tests', 'basic', '**', '*.BAS'), recursive=True) +
                    glob.glob(os.path.join(core.REPO, 'tests', 'basic', '**', '*.bas'), recursive=True))
    corpus = [p for p in corpus if 0 < os.path.getsize(p) <= ctx.pick(2500, 12000)]
    rng.shuffle(corpus)
    # always include tokenised and protected corpus files
    binfirst = [p for p in corpus if readf(p)[:1] in (b'\xff', b'\xfe')]
    sample = binfirst[:ctx.pick(4, 40)] + [p for p in corpus if p not in binfirst][:ctx.pick(14, 260)]
    s = Sess(peek_values={})
    ncorp = 0
    for path in sample:
        shutil.copy(path, os.path.join(s.mount, 'CORP.BAS'))
        s.ex('NEW')
        if s.ex('LOAD "CORP"')[0] != 'ok' or snap(s)[1] <= 3:
            continue
        ncorp += 1
        tag = 'corpus:' + os.path.relpath(path, core.REPO)
        origin = ('file', 'CORP')
        fc.binary(s, origin, 'B', 'disk', rng, tag)
        fc.binary(s, origin, 'P', 'disk', rng, tag)
        fc.ascii(s, origin, 'disk', rng, tag)
        if ncorp <= ctx.pick(2, 12):
            conv_inputs.append(('corpus-' + {b'\xff': 'B', b'\xfe': 'P'}.get(readf(path)[:1], 'A'), readf(path)))
    s.close()
    ctx.cov['corpus_programs'] = ncorp
    ctx.cov['impl_wall_s'] = round(time.time() - t0, 1)

    # ---- 5. converter ----
    convert_events(ctx, events, conv_inputs, ['a', 'b', 'p'])

    # ---- 6. validation by TLC ----
    drop = ('tag', 'detail', 'premise')
    verdicts = ctx.validate('C15_Trace', [{k: v for k, v in e.items() if k not in drop} for e in events], header=header)
    ctx.cov['traces_validated_against_impl'] += 1
    kinds = {}
    for e in events:
        kinds[e['k']] = kinds.get(e['k'], 0) + 1
        nontriv = {'stream': lambda: len(e['s']) > 0, 'unstream': lambda: len(e['x']) > 0, 'roundtrip': lambda: e['ok'],
                   'ascii': lambda: e['premise'], 'merge': lambda: e['premise'], 'convert': lambda: e['sessok'],
                   'peekview': lambda: True}[e['k']]()
        ctx.count([e[k] for k in sorted(e) if k not in drop], nontrivial=nontriv)
    ctx.cov['events_by_kind'] = kinds
    ctx.cov['ascii_events_with_premise'] = sum(1 for e in events if e['k'] == 'ascii' and e['premise'])
    ctx.cov['merge_events_with_premise'] = sum(1 for e in events if e['k'] == 'merge' and e['premise'])
    ctx.cov['roundtrips_by_device'] = {d: sum(1 for e in events if e['k'] == 'roundtrip' and e['dev'] == d) for d in ('disk', 'internal', 'cas')}
    for e in (events[5], events[nstream + 1], events[-1]):
        ctx.sample({k: (v if not isinstance(v, (list, str)) or len(v) < 80 else (v[:80], '...')) for k, v in e.items()})
    if ctx.cov['ascii_events_with_premise'] < 10 or kinds.get('roundtrip', 0) < 20 or kinds.get('convert', 0) < 6:
        raise core.MachineryError('vacuous: too few effective events %r' % (kinds,))
    for (i, clause) in verdicts:
        e = events[i - 1]
        key = {'clause': clause, 'k': e['k']}
        for f in ('fmt', 'dev', 'mode', 'src'):
            if f in e:
                key[f] = e[f]
        if e['k'] in ('stream', 'unstream'):
            key['len'] = len(e.get('s', e.get('x')))
        what = 'C15 %s: %s %s' % (clause, e['k'], {k: e[k] for k in ('fmt', 'dev', 'mode', 'src', 'tag', 'detail') if k in e})
        if e['k'] in ('stream', 'unstream'):
            what += ' length %d' % key['len']
        ctx.reject(what, key=key, data={k: v for k, v in e.items() if not isinstance(v, list) or len(v) < 400})
    seen = set()
    for stmt, exc in INTERNALS:
        cls = exc.split(':')[0]
        if (stmt[:12], cls) in seen:
            continue
        seen.add((stmt[:12], cls))
        ctx.reject('C15 internal error (escaping Python exception) on %r: %s' % (stmt[:80], exc),
                   key={'clause': 'internal', 'exc': cls, 'stmt': stmt.split(b' ')[0].decode('latin1')}, data={'stmt': repr(stmt), 'exc': exc})
    ctx.cov['internal_errors'] = len(INTERNALS)
    ctx.assumptions += ['program memory is projected from Program.bytecode.getvalue() and Program.code_size (agreement with PEEK over the program area is itself checked on a sample)',
                        'listings are taken from Program.list_lines (what LIST prints), file bytes from the host files written',
                        'the cipher is judged against the tables observed in the same run; any bijective substitution of period 143 is accepted']
