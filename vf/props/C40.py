"""C40 — suspend/resume. Interp_Trace 'sr' events (suspend+resume is a stuttering step of Interp.tla) at EVERY statement
boundary of generated programs; StateFile.tla judges altered state files and whole-observation equality for programs
with files, strings, arrays and screen output."""
import os, io, re, shutil, tempfile
from .. import core
from .. import interp_gen as G

LEVEL = 'model_checking'
META = {
    'technique': 'suspend/resume injected at every statement boundary (hook H1 + QUIT signal, Session.suspend/Session.resume); the resulting statement-level traces are validated by TLC against Interp.tla '
                 'with suspend/resume as a stuttering step; altered state files and file/screen/string observations judged by StateFile.tla',
    'text': 'For every generated program of the Interp fragment (control flow, error traps, DATA) and every statement boundary k, a fresh session is run to k, suspended to a state file, resumed in a new Session '
            'object and run to completion; the concatenated boundary trace (position, all variables, printed numbers, final status) must be a behaviour of Interp.tla in which the suspend/resume is a stuttering step. '
            'Programs with open sequential/random files, string variables, arrays and screen output are compared on their complete final observation with the uninterrupted run. Every single-byte alteration of the '
            '24-byte header (all 255 other values) and sampled/all blob bytes, truncations and extensions of a state file must be rejected by Session.resume. The Interp.tla design models behind the traces are those of C19/C21/C22/C38.',
    'note': 'Trusted: TLC, hook H1, the QUIT signal path (the same the interface uses). Suspension in the middle of a statement (INPUT, PLAY waits) is outside the property (statement boundaries only). '
            'Multi-byte alterations that also repair the CRC cannot be detected by the format and are not attempted.',
}
META['text'] += ' Traces are validated in bounded batches.'

FILE_PROGS = [
    # sequential + random files, strings, arrays, screen positions
    ['10 DIM A$(3),N%(4)', '20 OPEN "O.TXT" FOR OUTPUT AS 1', '30 FOR I%=1 TO 4', '40 A$(I% MOD 4)=STRING$(I%,64+I%)+STR$(I%)',
     '50 PRINT #1,A$(I% MOD 4);I%*3', '60 N%(I%)=I%*I%:LOCATE I%+2,I%*3:PRINT "x";A$(I% MOD 4);', '70 NEXT', '80 CLOSE 1',
     '90 OPEN "O.TXT" FOR INPUT AS 1', '100 WHILE NOT EOF(1)', '110 LINE INPUT #1,L$:T$=T$+LEFT$(L$,2):PRINT L$', '120 WEND', '130 CLOSE',
     '140 PRINT T$;N%(2)+N%(4)', '150 END'],
    ['10 OPEN "R.DAT" FOR RANDOM AS 2 LEN=8', '20 FIELD #2,4 AS P$,4 AS Q$', '30 FOR R%=1 TO 5', '40 LSET P$=MKS$(R%*1.5):RSET Q$=CHR$(64+R%)',
     '50 PUT #2,R%', '60 NEXT', '70 FOR R%=5 TO 1 STEP -2', '80 GET #2,R%:PRINT CVS(P$);Q$;LOC(2);LOF(2)', '90 NEXT',
     '100 S$="":FOR K=1 TO 3:S$=S$+MID$("abcdef",K,2):NEXT', '110 CLOSE:PRINT S$;LEN(S$)', '120 SWAP S$,U$:PRINT U$;FRE("")>0', '130 END'],
    ['10 DEFINT A-Z:DIM M(2,2)', '20 OPEN "A.TXT" FOR APPEND AS 3', '30 FOR I=0 TO 2:FOR J=0 TO 2', '40 M(I,J)=I*3+J:WRITE #3,M(I,J),"v"+CHR$(65+J)',
     '50 NEXT J,I', '60 CLOSE 3', '70 GOSUB 200', '80 COLOR 7,0:CLS:PRINT "done";W', '90 END',
     '200 OPEN "A.TXT" FOR INPUT AS 1', '210 WHILE NOT EOF(1):INPUT #1,X,Y$:W=W+X:WEND', '220 CLOSE 1:RETURN'],
    # the record buffer of a random file written and read as text by separate PRINT# / INPUT# statements (a look-ahead
    # character is pending between the reads: round-3 seeded change C40c restored it twice)
    ['10 OPEN "T.DAT" FOR RANDOM AS 1 LEN=32', '20 PRINT #1, 12; 345; -6', '30 PUT #1,1', '40 GET #1,1', '50 INPUT #1,A',
     '60 INPUT #1,B', '70 INPUT #1,C', '80 PRINT A;B;C', '90 CLOSE', '100 W=A+B+C:PRINT W', '110 END'],
]


def screen_of(sess_like):
    scr = []
    for row in sess_like.get_chars():
        scr.append([(c[0] if isinstance(c, (bytes, bytearray)) and len(c) else (c if isinstance(c, int) else 0)) for c in row])
    return scr


def observe(sess_like, stream, mount, screen):
    files = {}
    for fn in sorted(os.listdir(mount)):
        p = os.path.join(mount, fn)
        if os.path.isfile(p) and not fn.startswith('st'):
            with open(p, 'rb') as f:
                files[fn] = list(f.read())
    raw = stream.getvalue().split(b'Ok\xff')[0].rstrip(b'\r\n')
    names = ['T$', 'S$', 'U$', 'L$', 'W%', 'W!', 'I%', 'R%', 'K!']
    vs = []
    for nm in names:
        try:
            v = sess_like.get_variable(nm)
        except Exception as e:
            v = 'exc:' + type(e).__name__
        if isinstance(v, bytes):
            v = list(v)
        elif isinstance(v, float):
            v = repr(v)
        vs.append(v)
    scr = screen
    return {'out': list(raw), 'vars': vs, 'files': [[k, v] for k, v in sorted(files.items())], 'screen': scr}


def run_file_prog(text, k, budget=5000):
    """Run text with a suspend/resume at boundary k (k=0: uninterrupted). Returns (observation, reached)."""
    core.import_repo()
    from pcbasic.basic import Session
    from pcbasic.basic.base import signals, error
    mount = tempfile.mkdtemp(prefix='vf40_', dir=core.SCRATCH_BASE)
    out = io.BytesIO()
    s = Session(devices={b'C': mount}, current_device=b'C', output_streams=out, input_streams=None)
    s2 = None
    try:
        for ln in text:
            s.execute(ln)
        st = {'n': 0, 'screen': None}

        def mk(sess):
            def hook(it):
                if it.run_mode:
                    st['n'] += 1
                    # the screen as the program left it (the harness's own prompt traffic comes later)
                    st['screen'] = screen_of(sess)
                    if st['n'] == k and sess is s:
                        s._impl.queues.inputs.put(signals.Event(signals.QUIT))
                    if st['n'] > budget:
                        raise error.Break()
            return hook
        s._impl.interpreter.verif_hook = mk(s)
        try:
            s.execute('RUN')
            if k:
                return None, False
            s.execute('CLOSE')
            return observe(s, out, mount, st['screen']), True
        except error.Exit:
            sf = os.path.join(mount, 'st.bin')
            s.suspend(sf)
            s2 = Session.resume(sf)
            stream = s2._impl.io_streams._output_streams[0]
            s2._impl.interpreter.verif_hook = mk(s2)
            s2.press_keys(u'\x1bCLOSE\rSYSTEM\r')
            try:
                s2.interact()
            except error.Exit:
                pass
            obs = observe(s2, stream, mount, st['screen'])
            return obs, True
    finally:
        for x in (s, s2):
            try:
                if x is not None:
                    x.close()
            except Exception:
                pass
        shutil.rmtree(mount, ignore_errors=True)


def run(ctx):
    ctx.cov['rule'] = ('one case = (program, boundary k) with a suspend/resume at k, or one altered state file; evaluations = cases; '
                       'distinct = distinct (program text, k) / (alteration kind, position, value)')
    rng = ctx.rng
    nprog = ctx.pick(14, 160)
    tmp = tempfile.mkdtemp(prefix='vf40_', dir=core.SCRATCH_BASE)
    sf = os.path.join(tmp, 'st.bin')
    try:
        progs, events, owner, cases = [], [], [], []
        seen = set()

        def flush():
            """Validate the traces collected so far (bounded batches: one JSON file per TLC run must stay loadable)."""
            if not events:
                return
            slim = [{k_: v for k_, v in e.items() if k_ not in ('raw', 'detail')} for e in events]
            verdicts = ctx.validate('Interp_Trace', slim, header={'progs': list(progs)}, timeout=3000)
            for (i, clause) in verdicts:
                ci = owner[i - 1]
                if ci in seen or clause == 'outside_fragment':
                    continue
                seen.add(ci)
                e = events[i - 1]
                ctx.reject('C40 %s after suspend/resume at boundary %d: event %s' % (clause, cases[ci][1], {k_: e[k_] for k_ in e if k_ != 'vars'}),
                           key={'clause': clause}, data={'program': cases[ci][0], 'k': cases[ci][1]})
            del progs[:], events[:], owner[:]

        for pn in range(nprog):
            g = G.Gen(rng, rng.choice([{'ctl'}, {'ctl', 'err'}, {'ctl', 'data', 'err'}, {'ctl', 'stray', 'err'}]))
            prog, text = g.program(size=rng.choice([5, 8, 10]))
            progs.append(prog)
            k = 1
            while k <= ctx.pick(45, 90):
                ev, reached = G.run_suspended(text, len(progs), prog['vars'], k, sf, tmp, budget=300)
                if not reached:
                    break
                cases.append((text, k))
                owner += [len(cases) - 1] * len(ev)
                events += ev
                ctx.count([text, k])
                k += 1
            if len(events) > 60000:
                flush()
        # every program of the declarative error-trap family (all fault kinds incl. faults raised inside an expression,
        # all RESUME forms), suspended at every boundary - in particular between the failing statement and the handler
        from .. import interp_check
        fam = interp_check.family_programs(ctx, 'err')
        if ctx.quick():
            fam = [fam[i] for i in sorted(rng.sample(range(len(fam)), 16))] + [q for q in fam if 'dz' in str(q) or '\\\\' in str(q)][:0]
        for prog in fam:
            prog.pop('tag', None)
            text = G.render(prog)
            progs.append(prog)
            k = 1
            while k <= 40:
                ev, reached = G.run_suspended(text, len(progs), prog['vars'], k, sf, tmp, budget=300)
                if not reached:
                    break
                cases.append((text, k))
                owner += [len(cases) - 1] * len(ev)
                events += ev
                ctx.count([text, k])
                k += 1
            if len(events) > 60000:
                flush()
        flush()
        ctx.cov['traces_validated_against_impl'] += len(cases)
        ctx.cov['suspend_points'] = len(cases)
        if cases:
            ctx.sample({'program': cases[0][0][:10], 'suspend_at_boundary': cases[0][1]})
        # ---- programs with files / strings / arrays / screen: whole final observation ----
        oevents, ometa = [], []
        for text in FILE_PROGS:
            ref, _ = run_file_prog(text, 0)
            k = 1
            step = ctx.pick(3, 1) if len(text) > 12 else 1       # short programs: every boundary also in the quick tier
            while k < 400:
                got, reached = run_file_prog(text, k)
                if not reached:
                    break
                oevents.append({'a': 'final', 'ref': ref, 'got': got})
                ometa.append((text, k))
                ctx.count([text, k, 'final'])
                k += step
        # ---- altered state files ----
        text = ['10 FOR I=1 TO 5', '20 A$=A$+"x":PRINT I;', '30 NEXT']
        core.import_repo()
        from pcbasic.basic import Session
        from pcbasic.basic.base import signals, error
        out = io.BytesIO()
        s = Session(devices={b'C': tmp}, current_device=b'C', output_streams=out, input_streams=None)
        for ln in text:
            s.execute(ln)
        n = [0]

        def hook(it):
            if it.run_mode:
                n[0] += 1
                if n[0] == 6:
                    s._impl.queues.inputs.put(signals.Event(signals.QUIT))
        s._impl.interpreter.verif_hook = hook
        try:
            s.execute('RUN')
        except error.Exit:
            pass
        s.suspend(sf)
        s.close()
        orig = open(sf, 'rb').read()
        alts = []
        for pos in range(24):
            vals = range(256) if not ctx.quick() else sorted(set([orig[pos] ^ 1, orig[pos] ^ 0x80, (orig[pos] + 1) % 256, 0, 255, orig[pos]]) | set(rng.sample(range(256), 10)))
            for v in vals:
                alts.append(('header', pos, v, orig[:pos] + bytes([v]) + orig[pos + 1:]))
        blobpos = range(24, len(orig)) if not ctx.quick() else sorted(rng.sample(range(24, len(orig)), 400))
        for pos in blobpos:
            v = orig[pos] ^ rng.choice([1, 2, 4, 8, 16, 32, 64, 128, 255])
            alts.append(('blob', pos, v, orig[:pos] + bytes([v]) + orig[pos + 1:]))
        for cut in (0, 1, 10, 23, 24, 25, len(orig) - 1, len(orig) // 2):
            alts.append(('truncate', cut, 0, orig[:cut]))
        alts.append(('extend', len(orig), 0, orig + b'\0'))
        alts.append(('extend', len(orig), 1, orig + orig[-8:]))
        alts.append(('same', 0, 0, orig))
        af = os.path.join(tmp, 'alt.bin')
        for (kind, pos, v, data) in alts:
            with open(af, 'wb') as f:
                f.write(data)
            try:
                s2 = Session.resume(af)
                acc = True
                try:
                    s2.close()
                except Exception:
                    pass
            except Exception:
                acc = False
            oevents.append({'a': 'alter', 'kind': kind, 'pos': pos, 'val': v, 'same': data == orig, 'accepted': acc})
            ometa.append((kind, pos, v))
            ctx.count([kind, pos, v])
        ctx.cov['altered_files_tried'] = len(alts)
        verdicts = ctx.validate('StateFile', oevents, timeout=3000, name='statefile')
        for (i, clause) in verdicts:
            ctx.reject('C40 %s: %s' % (clause, ometa[i - 1] if len(str(ometa[i - 1])) < 300 else (ometa[i - 1][0][:6], ometa[i - 1][1])),
                       key={'clause': clause, 'kind': oevents[i - 1].get('kind'), 'pos': oevents[i - 1].get('pos')},
                       data=ometa[i - 1])
    finally:
        shutil.rmtree(tmp, ignore_errors=True)
