"""C10 — string variables survive any memory history; FRE equation; Out of string space only when space is short.

Spec StringSpace.tla (reference layer + implementation-shaped layer); models StringSpace_MC*.cfg; trace spec
StringSpace_Trace (judges with the reference layer only)."""
import json, re
import os
from ..session import Sess
from .. import graph, core

LEVEL = 'model_checking'
META = {
    'technique': 'TLC exhaustive model check of the implementation-shaped string space against the reference layer (refinement '
                 'invariants) + replay of model transitions/behaviours on the real interpreter + TLC trace validation of random '
                 'histories under memory limits from nearly exhausted to default',
    'text': 'StringSpace.tla has a reference layer (cell -> value; Eval/Do define what LET with literals, variables, concatenation, '
            'LEFT$/RIGHT$/MID$, DEF FN calls, MID$=, LSET, RSET, SWAP, ERASE, CLEAR assign, the demanded errors 15/5, the FRE equation '
            'FRE("") = K - arrayEnd - live bytes and the clause "error 14/7 only if free space <= bytes the statement needs") and an '
            'implementation-shaped layer (current/sentinel/address->string, <<len,addr>> pointers, Store/check_free, DeleteLast, '
            'Reset/FixTemporaries, CollectGarbage with sentinel re-addressing, is_permanent deep copy, argument protection, DEF FN '
            'parameter save). TLC checks the second against the first on every reachable state of the bounded model (Refines, '
            'WellFormed, NoAlias, NoOverflow, no bad flag: collection preserves every dereference, FRE equation, OOSS only when short) '
            'and must FIND the reproduced defects with AsCoded=TRUE. Transitions of a depth-3 model and simulated depth-8 behaviours are '
            'replayed as direct-mode BASIC statements on a real Session calibrated with CLEAR ,n to the model\'s free space; these and '
            'random histories are validated event by event by StringSpace_Trace.tla on values (get_variable), FRE, PEEK(&H35C) and '
            'error codes only.',
    'note': 'Trusted: TLC, Session.get_variable/evaluate as projection. Collector timing is not observed. Strings live in string space '
            '(direct-mode statements; DEF FN bodies never return a code literal); FIELD strings and program-mode literals are outside '
            'the fragment, as is MID$(v$)=v$ with the same variable as source (GW-BASIC overlap quirk, C09). K of the FRE equation is '
            'inferred at the first FRE("") of a session and held fixed relative to PEEK(&H2C) (CLEAR ,n). Errors 14/7 are accepted iff '
            'free-after-collection <= bytes of all values on the statement\'s evaluation stack + observed variable-area growth '
            '(+64 for error 7).',
}

AE = 'PEEK(&H35C)+256*PEEK(&H35D)'
MEM = 'PEEK(&H2C)+256*PEEK(&H2D)'
AS = 'PEEK(&H35A)+256*PEEK(&H35B)'
FNPROG = ['10 DEF FNA$(X$)=X$+X$', '20 DEF FNB$(X$,Y$)=MID$(X$,2)+Y$+"k"', '30 DEF FNI$(X$)=X$', '40 DEF FNG$(Y$)=A$+Y$']


def lit(b):
    return {'k': 'lit', 'v': list(b)}


def var(c):
    return {'k': 'var', 'c': c}


def cat(l, r):
    return {'k': 'cat', 'l': l, 'r': r}


FNS_HEADER = {
    'FNA$': {'params': ['X$'], 'body': cat(var('X$'), var('X$'))},
    'FNB$': {'params': ['X$', 'Y$'], 'body': cat(cat({'k': 'mid', 'e': var('X$'), 's': 2, 'n': -1}, var('Y$')), lit(b'k'))},
    'FNI$': {'params': ['X$'], 'body': var('X$')},
    'FNG$': {'params': ['Y$'], 'body': cat(var('A$'), var('Y$'))},
}


def render(e, top=True):
    k = e['k']
    if k == 'lit':
        return '"%s"' % bytes(e['v']).decode('latin-1')
    if k == 'var':
        return e['c']
    if k == 'cat':
        r = render(e['r'], False)
        if e['r']['k'] == 'cat':
            r = '(' + r + ')'
        return render(e['l'], False) + '+' + r
    if k in ('left', 'right'):
        return '%s$(%s,%d)' % (k.upper(), render(e['e']), e['n'])
    if k == 'mid':
        return 'MID$(%s,%d%s)' % (render(e['e']), e['s'], '' if e['n'] == -1 else ',%d' % e['n'])
    if k == 'fn':
        return '%s(%s)' % (e['f'], ','.join(render(a) for a in e['args']))
    raise ValueError(k)


def stmt_text(a):
    op = a['op']
    if op == 'let':
        return '%s=%s' % (a['c'], render(a['e']))
    if op == 'midset':
        return 'MID$(%s,%d%s)=%s' % (a['c'], a['s'], '' if a['n'] == 255 else ',%d' % a['n'], render(a['e']))
    if op in ('lset', 'rset'):
        return '%s %s=%s' % (op.upper(), a['c'], render(a['e']))
    if op == 'swap':
        return 'SWAP %s,%s' % (a['c'], a['d'])
    if op == 'erase':
        return 'ERASE %s' % a['arr'] + (',%s' % a['arr2'] if a.get('arr2') else '')
    if op == 'dim':
        return 'DIM %s(%s)' % (a['arr'], a['dims'])
    if op == 'clear':
        return 'CLEAR ,%d' % a['n']
    if op == 'nop':
        return a['text']
    raise ValueError(op)


class Drv(object):
    """Drives one real Session; logs one event per statement for StringSpace_Trace."""

    def __init__(self, ctx, scalars, arrays, fnprog):
        """arrays: list of (name, dims-text, [cell names in to_list order])"""
        self.ctx = ctx
        self.scalars = scalars
        self.arrays = arrays
        self.fnprog = fnprog
        self.cells = list(scalars) + [c for (_, _, cs) in arrays for c in cs]
        self.header = {'cells': self.cells, 'arrays': {n: cs for (n, _, cs) in arrays} or {'_': []},
                       'fns': FNS_HEADER if fnprog else {'_': {'params': [], 'body': lit(b'')}}}
        self.events = []
        self.s = None
        self.last = None
        self.poisoned = False      # an internal error happened: do not reuse the session
        self.cur_n = None          # memory size set by the last CLEAR ,n of this session (None: default)
        self.sessions = 0

    def close(self):
        if self.s:
            self.s.close()
            self.s = None

    def new_session(self):
        self.close()
        self.s = Sess(peek_values={})
        self.poisoned = False
        self.cur_n = None
        self.sessions += 1
        for line in self.fnprog:
            self.s.ex(line)

    def read_cells(self):
        vals = []
        for n in self.scalars:
            vals.append(list(self.s.s.get_variable(n)))
        for (n, _, cs) in self.arrays:
            v = self.s.s.get_variable(n + '()')
            for c in cs:
                x = v
                try:
                    for i in c[c.index('(') + 1:-1].split(','):
                        x = x[int(i)]
                    vals.append(list(x))
                except IndexError:       # array does not exist: every element reads as empty
                    vals.append([])
        return vals

    def observe(self, e):
        """Projection: values of all cells (delta against the last observation), end of arrays, memory size."""
        try:
            vals = self.read_cells()
            ae = self.s.ev(AE)
            mem = self.s.ev(MEM)
            if ae[0] != 'ok' or mem[0] != 'ok':
                raise RuntimeError('PEEK failed: %r %r' % (ae[:2], mem[:2]))
            e['ae'], e['mem'] = int(ae[1]), int(mem[1])
            if e.get('noarr'):
                # no array exists after this statement: the array space must be empty (its end = its start)
                a0 = self.s.ev(AS)
                if a0[0] != 'ok':
                    raise RuntimeError('PEEK failed: %r' % (a0[:2],))
                e['as'] = int(a0[1])
        except BaseException as ex:  # noqa - an escaping exception while reading a variable is an internal error
            e['kind'] = 'internal'
            e['detail'] = 'observation: %s: %s' % (type(ex).__name__, ex)
            vals = self.last
            e['ae'], e['mem'] = (self.events[-1]['ae'], self.events[-1]['mem']) if self.events else (0, 0)
        if e['kind'] == 'internal':
            self.poisoned = True
        if e['op'] == 'clear' and e['kind'] == 'ok':
            self.cur_n = e['n']
        e['chg'] = [[i + 1, v] for i, v in enumerate(vals) if v != self.last[i]]
        self.last = vals
        self.events.append(e)
        return e

    def begin(self, n=None):
        """Start a session (optionally CLEAR ,n), define the functions; event 'begin'."""
        # a Session costs ~0.3 s: reuse it (CLEAR resets variables, strings and functions) unless it is poisoned by an
        # internal error or the memory size would have to grow (CLEAR ,n cannot exceed the current size)
        if self.s is None or self.poisoned or (n is None and self.cur_n is not None) or (n and self.cur_n and n > self.cur_n):
            self.new_session()
        r = self.s.ex('CLEAR ,%d' % n if n else 'CLEAR')
        if r[0] != 'ok':
            raise core.MachineryError('session set-up CLEAR ,%s failed: %r' % (n, r[:2]))
        self.cur_n = n
        if self.fnprog:
            self.s.ex('RUN')
        self.last = [[] for _ in self.cells]
        return self.observe({'op': 'begin', 'kind': 'ok', 'code': 0, 'stmt': 'begin CLEAR ,%s' % n})

    def do(self, a, text=None):
        e = dict(a)
        if a['op'] in ('fre', 'fre0'):
            e['stmt'] = 'FRE("")' if a['op'] == 'fre' else 'FRE(0)'
            r = self.s.ev(e['stmt'])
            if r[0] == 'ok':
                e['fre'] = int(r[1])
        else:
            e['stmt'] = text or stmt_text(a)
            r = self.s.ex(e['stmt'])
        e['kind'] = 'ok' if r[0] == 'ok' else 'err' if r[0] == 'err' else 'internal'
        e['code'] = r[1] if r[0] == 'err' else 0
        if e['kind'] == 'internal':
            e['detail'] = str(r[1])
        return self.observe(e)


KEEP = ('op', 'c', 'd', 'e', 's', 'n', 'arr', 'arr2', 'noarr', 'as', 'prog', 'kind', 'code', 'chg', 'ae', 'mem', 'fre')


def validate(ctx, drv, what, extra_key=None):
    """Run StringSpace_Trace over the driver's events; turn verdicts into rejections."""
    evs = drv.events
    if not evs:
        return 0
    verdicts = ctx.validate('StringSpace_Trace', [{k: e[k] for k in KEEP if k in e} for e in evs], header=drv.header, name=what)
    begins = [i for i, e in enumerate(evs) if e['op'] == 'begin']
    for (i, clause) in verdicts:
        e = evs[i - 1]
        b = max(x for x in begins if x <= i - 1)
        hist = [x['stmt'] for x in evs[b:i]]
        key = {'clause': clause, 'op': e['op'], 'arm': what}
        key.update(classify(e, clause))
        ctx.reject(ctx.pid + ' %s at %r (%s %s%s) [%s, step %d of its session] after ...%s' % (
            clause, e['stmt'], e['kind'], e['code'], ' ' + e.get('detail', '') if e.get('detail') else '', what, i - b, hist[-6:-1]),
            key=key, data={'event': {k: e[k] for k in e if k != 'chg'}, 'session': hist[-60:]})
    for e in evs:
        ctx.count([e['op'], e.get('e'), e.get('c'), e['kind'], e['code'], len(e['chg'])],
                  nontrivial=e['op'] not in ('begin', 'nop'))
    return len(begins)


def has_kind(e, kinds):
    if not isinstance(e, dict):
        return False
    if e.get('k') in kinds:
        return True
    return any(has_kind(e.get(x), kinds) for x in ('l', 'r', 'e')) or any(has_kind(x, kinds) for x in e.get('args', []))


def mentions(e, c):
    if not isinstance(e, dict):
        return False
    if e.get('k') == 'var':
        return e['c'] == c
    return any(mentions(e.get(x), c) for x in ('l', 'r', 'e')) or any(mentions(x, c) for x in e.get('args', []))


def classify(e, clause):
    """Extra key fields so that open known findings can be matched specifically."""
    ex = e.get('e')
    return {'uses_fn': has_kind(ex, ('fn',)), 'uses_strfn': has_kind(ex, ('left', 'right', 'mid')), 'kind': e['kind']}


# ---------------------------------------------------------------------------------------------------------------------
# spec -> code
SYM = {1: ord('a'), 2: ord('b')}
MCELL = {'A': 'A$', 'B': 'B$', 'C': 'C$', 'R0': 'R$(0)', 'R1': 'R$(1)'}
MFN = {'FNA': 'FNA$', 'FNI': 'FNI$'}
MC_FNPROG = ['10 DEF FNA$(B$)=B$+A$', '20 DEF FNI$(B$)=B$']
MC_FNS = {'FNA$': {'params': ['B$'], 'body': cat(var('B$'), var('A$'))}, 'FNI$': {'params': ['B$'], 'body': var('B$')}}
SPACE = 10          # Top - VarEnd of the bounded models


def conv_expr(e):
    k = e['k']
    if k == 'lit':
        return lit(bytes(SYM[x] for x in e['v']))
    if k == 'var':
        return var(MCELL[e['c']])
    if k == 'cat':
        return cat(conv_expr(e['l']), conv_expr(e['r']))
    if k in ('left', 'right'):
        return {'k': k, 'e': conv_expr(e['e']), 'n': e['n']}
    if k == 'mid':
        return {'k': 'mid', 'e': conv_expr(e['e']), 's': e['s'], 'n': e['n']}
    if k == 'fn':
        return {'k': 'fn', 'f': MFN[e['f']], 'args': [conv_expr(x) for x in e['args']]}
    raise ValueError(k)


def conv_action(a):
    r = {'op': a['op']}
    for f in ('c', 'd'):
        if f in a:
            r[f] = MCELL[a[f]]
    for f in ('s', 'n'):
        if f in a:
            r[f] = a[f]
    if 'e' in a:
        r['e'] = conv_expr(a['e'])
    if 'arr' in a:
        r['arr'] = 'R$'
    return r


class ModelDrv(Drv):
    """Session calibrated so that the real free string space equals the bounded model's (SPACE bytes)."""

    def __init__(self, ctx):
        Drv.__init__(self, ctx, ['A$', 'B$', 'C$'], [('R$', '1', ['R$(0)', 'R$(1)'])], MC_FNPROG)
        self.header['fns'] = MC_FNS
        self.n = None

    def setup_vars(self):
        # creation order = CellOrder of the model (DEF FN has already created B$)
        for st in ('A$=""', 'B$=""', 'C$=""', 'DIM R$(1)'):
            r = self.s.ex(st)
            if r[0] != 'ok':
                raise core.MachineryError('calibration statement %s failed: %r' % (st, r[:2]))

    def calibrate(self):
        self.new_session()
        self.s.ex('RUN')
        self.setup_vars()
        ae = int(self.s.ev(AE)[1])
        self.n = ae + SPACE + 514
        self.begin_model()
        f = self.events[-1]
        if f['kind'] != 'ok' or f.get('fre') != SPACE:
            raise core.MachineryError('calibration failed: FRE("")=%r, wanted %d' % (f.get('fre'), SPACE))
        self.events = []

    def begin_model(self):
        self.begin(self.n)
        self.setup_vars()
        # make the projection of the set-up part of the begin event
        self.events.pop()
        self.last = [[] for _ in self.cells]
        self.observe({'op': 'begin', 'kind': 'ok', 'code': 0, 'stmt': 'begin CLEAR ,%d + variables' % self.n})
        # fixes the constant of the FRE equation for this session, so that the Out-of-string-space clause is judged
        # from the first statement on (nothing is allocated or collectable yet: the model state is not disturbed)
        self.do({'op': 'fre'})

    def step(self, a, model_err):
        b = conv_action(a)
        e = self.do(b)
        e['model_err'] = model_err
        if a['op'] == 'erase':      # the model's ERASE is memory-neutral: re-dimension at once
            self.do({'op': 'dim', 'arr': 'R$', 'dims': '1'})
        return e


def spec_to_code(ctx):
    d = ModelDrv(ctx)
    d.calibrate()
    agree = [0, 0]
    # (a) every transition of the depth-3 model (quick: a seeded sample of the covering walks)
    r = ctx.tlc('StringSpace_MC', 'StringSpace_MC_emit.cfg', workers=4, tag='emit')
    if not r['ok']:
        raise core.MachineryError('emit run failed: %s' % r['error'])
    trans = graph.parse_transitions(r['out'])
    # the depth counter is part of the VIEW: the same (state, action) may be printed at several depths
    seen, uniq = set(), []
    inits = {t['from'] for t in trans if t['d'] == 0}
    for t in trans:
        k = (t['from'], json.dumps(t['a'], sort_keys=True))
        if k not in seen:
            seen.add(k)
            uniq.append(t)
    trans = uniq
    if len(inits) != 1:
        raise core.MachineryError('emit: %d initial states' % len(inits))
    walks, cov, total = graph.covering_walks(trans, inits.pop(), max_len=8, rng=ctx.rng, limit=ctx.pick(1500, None))
    ctx.cov['model_transitions'] = total
    ctx.cov['model_transitions_replayed'] = cov
    if not ctx.quick() and cov < total:
        raise core.MachineryError('edge cover incomplete: %d of %d' % (cov, total))
    stats = {'gc_in_ok_statement': 0, 'fail_after_gc': 0, 'fail_14': 0, 'gc': 0}
    for w in walks:
        d.begin_model()
        for t in w:
            e = d.step(t['a'], t['err'])
            agree[(e['code'] if e['kind'] == 'err' else 0) == t['err']] += 1
            stats['gc'] += t['gc'] > 0
            stats['gc_in_ok_statement'] += (t['gc'] > 0 and t['err'] == 0 and t['a']['op'] != 'fre')
            stats['fail_after_gc'] += (t['gc'] > 0 and t['err'] == 14)
            stats['fail_14'] += t['err'] == 14
    nwalks = len(walks)
    # (b) simulated behaviours of the wide model (depth 8, all shapes incl. LEFT$/MID$/DEF FN)
    nb = ctx.pick(250, 1500)
    r = ctx.tlc('StringSpace_MC', 'StringSpace_MC_sim.cfg', workers=1, simulate='num=%d' % nb, tag='simulate',
                extra=['-depth', '9', '-seed', str(ctx.seed + 1)])
    if not r['ok']:
        ctx.reject('TLC simulation of StringSpace_MC (wide grammar) failed: %s' % r['error'],
                   key={'clause': 'model_check', 'module': 'StringSpace_MC_sim'}, data=r['out'][-4000:])
    behs = []
    for line in r['out'].splitlines():
        m = re.match(r'^<<"BEHAVIOUR", "(.*)">>\s*$', line)
        if m:
            behs.append(json.loads(m.group(1).encode().decode('unicode_escape')))
    if len(behs) < nb // 2:
        raise core.MachineryError('simulation produced %d behaviours, wanted %d' % (len(behs), nb))
    for b in behs:
        d.begin_model()
        for t in b:
            e = d.step(t['a'], t['err'])
            agree[(e['code'] if e['kind'] == 'err' else 0) == t['err']] += 1
            stats['gc'] += t['gc'] > 0
            stats['gc_in_ok_statement'] += (t['gc'] > 0 and t['err'] == 0 and t['a']['op'] != 'fre')
            stats['fail_after_gc'] += (t['gc'] > 0 and t['err'] == 14)
            stats['fail_14'] += t['err'] == 14
    d.close()
    ctx.cov['replayed_model_statements'] = sum(agree)
    ctx.cov['replay_outcome_agrees_with_implementation_layer'] = agree[1]
    ctx.cov['replay_outcome_differs_from_implementation_layer'] = agree[0]
    ctx.cov['replay_situations'] = stats
    real14 = sum(1 for e in d.events if e['kind'] == 'err' and e['code'] == 14)
    ctx.cov['replay_real_out_of_string_space'] = real14
    for e in d.events[5:8]:
        ctx.sample({k: e[k] for k in ('stmt', 'kind', 'code', 'model_err', 'ae') if k in e})
    ns = validate(ctx, d, 'replay')
    ctx.cov['traces_validated_against_impl'] += ns
    # vacuity guards (only meaningful when the replay itself was accepted)
    if not ctx.violations:
        for k in ('gc_in_ok_statement', 'fail_after_gc'):
            if not stats[k]:
                raise core.MachineryError('vacuous replay: no model step with %s' % k)
        if not real14:
            raise core.MachineryError('vacuous replay: the real interpreter never ran out of string space')


# ---------------------------------------------------------------------------------------------------------------------
# code -> spec: random histories
SCAL = ['A$', 'B$', 'C$', 'X$', 'Y$']
ARRS = [('R$', '2', ['R$(0)', 'R$(1)', 'R$(2)']), ('S$', '1,1', ['S$(0,0)', 'S$(0,1)', 'S$(1,0)', 'S$(1,1)'])]
LETTERS = b'abcdefghijklmnopqrstuvwxyzABCDEFGHIJKLMNOPQRSTUVWXYZ0123456789 .,;'


class Gen(object):
    def __init__(self, rng, drv, roomy):
        self.rng = rng
        self.d = drv
        self.roomy = roomy
        self.exists = {n: False for (n, _, _) in ARRS}

    def val(self, c):
        return self.d.last[self.d.cells.index(c)]

    def cells_ok(self):
        cs = list(SCAL)
        for (n, _, cells) in ARRS:
            # elements of a 2-dimensional array are used only while it exists (auto-dimensioning it needs 376 bytes)
            if self.exists[n] or n == 'R$':
                cs += cells
        return cs

    def litlen(self):
        r = self.rng.random()
        if r < 0.1:
            return 0
        if r < 0.7:
            return self.rng.randint(1, 6)
        if r < 0.93 or not self.roomy:
            return self.rng.randint(7, 30)
        return self.rng.choice([100, 128, 200, 254, 255])

    def literal(self):
        n = self.litlen()
        return lit(bytes(self.rng.choice(LETTERS) for _ in range(n)))

    def expr(self, depth, target=None):
        r = self.rng.random()
        cs = self.cells_ok()
        if depth <= 0 or r < 0.22:
            return self.literal() if self.rng.random() < 0.5 else var(self.rng.choice(cs))
        if r < 0.62:
            return cat(self.expr(depth - 1), self.expr(depth - 1))
        if r < 0.72:
            return {'k': self.rng.choice(['left', 'right']), 'e': self.expr(depth - 1),
                    'n': self.rng.choice([0, 0, 1, 2, 3, 5, 9, 40, 255])}
        if r < 0.80:
            return {'k': 'mid', 'e': self.expr(depth - 1), 's': self.rng.choice([1, 1, 2, 3, 4, 9, 60, 255]),
                    'n': self.rng.choice([-1, -1, 0, 1, 2, 5, 255])}
        f = self.rng.choice(['FNA$', 'FNB$', 'FNI$', 'FNG$'])
        return {'k': 'fn', 'f': f, 'args': [self.expr(depth - 1) for _ in FNS_HEADER[f]['params']]}

    def action(self):
        rng = self.rng
        cs = self.cells_ok()
        r = rng.random()
        if r < 0.50:
            c = rng.choice(cs)
            if rng.random() < 0.12:
                # growth towards 255: doubling
                e = cat(var(c), var(c)) if rng.random() < 0.5 else cat(var(c), var(rng.choice(cs)))
            else:
                e = self.expr(rng.choice([0, 1, 1, 2, 2, 3]))
            return {'op': 'let', 'c': c, 'e': e}
        if r < 0.58:
            c = rng.choice(cs)
            ln = len(self.val(c))
            e = self.expr(rng.choice([0, 1, 2]))
            if e['k'] in ('var', 'fn') and mentions(e, c):
                # MID$(v$)=v$ with the very same string as source and target is the GW-BASIC overlap quirk (C09);
                # an identity DEF FN returns the same pointer: force a copy
                e = cat(e, lit(b''))
            return {'op': 'midset', 'c': c, 's': rng.randint(0, ln + 1) if rng.random() < 0.3 else rng.randint(1, max(1, ln)),
                    'n': rng.choice([255, 255, 0, 1, 2, 3, ln, ln + 1]), 'e': e}
        if r < 0.67:
            return {'op': rng.choice(['lset', 'rset']), 'c': rng.choice(cs), 'e': self.expr(rng.choice([0, 1, 2]))}
        if r < 0.74:
            c = rng.choice(cs)
            return {'op': 'swap', 'c': c, 'd': rng.choice(cs)}
        if r < 0.78:
            n = rng.choice(ARRS)[0]
            live = [a[0] for a in ARRS if self.exists.get(a[0])]
            if len(live) == 2 and rng.random() < 0.5:
                # the list form: both arrays in one statement; afterwards no array exists
                rng.shuffle(live)
                return {'op': 'erase', 'arr': live[0], 'arr2': live[1], 'noarr': True}
            return {'op': 'erase', 'arr': n, 'noarr': live == [n]}
        if r < 0.82:
            a = rng.choice(ARRS)
            return {'op': 'dim', 'arr': a[0], 'dims': a[1]}
        if r < 0.94:
            return {'op': 'fre'}
        return {'op': 'fre0'}


def code_to_spec(ctx, nhist=None):
    rng = ctx.rng
    d = Drv(ctx, SCAL, ARRS, FNPROG)
    # measure the variable area of the set-up once (default memory) to scale CLEAR sizes
    d.new_session()
    d.s.ex('RUN')
    for a in ARRS:
        d.s.ex('DIM %s(%s)' % (a[0], a[1]))
    ae_setup = int(d.s.ev(AE)[1])
    nhist = nhist or ctx.pick(70, 250)
    ops = 0
    plan = []
    for h in range(nhist):
        r = rng.random()
        if r < 0.45:
            plan.append(rng.choice([40, 60, 90, 130, 200, 300]))       # nearly exhausted
        elif r < 0.8:
            plan.append(rng.choice([500, 900, 2000, 5000]))
        else:
            plan.append(None)                                           # default memory
    # default memory first, then descending sizes: the Session can be reused (CLEAR ,n cannot grow)
    plan.sort(key=lambda x: -(x or 10 ** 6))
    for free0 in plan:
        n = ae_setup + 7 * len(SCAL) + free0 + 514 if free0 else None
        d.begin(n)
        g = Gen(rng, d, roomy=free0 is None or free0 >= 900)
        d.do({'op': 'fre'})
        for a in ARRS:
            e = d.do({'op': 'dim', 'arr': a[0], 'dims': a[1]})
            g.exists[a[0]] = e['kind'] == 'ok'
        steps = rng.randint(50, ctx.pick(160, 400))
        cur_n = n
        for _ in range(steps):
            if cur_n and rng.random() < 0.006:
                # CLEAR ,n with the same or a smaller size, then RUN to re-define the functions
                cur_n = cur_n - rng.choice([0, 0, 7, 20])
                e = d.do({'op': 'clear', 'n': cur_n})
                d.do({'op': 'nop', 'text': 'RUN'})
                for k in g.exists:
                    g.exists[k] = False
                continue
            a = g.action()
            e = d.do(a)
            if a['op'] == 'erase' and e['kind'] == 'ok':
                g.exists[a['arr']] = False
                if a.get('arr2'):
                    g.exists[a['arr2']] = False
            elif a['op'] == 'dim' and e['kind'] == 'ok':
                g.exists[a['arr']] = True
            elif a['op'] != 'dim' and e['ae'] > d.events[-2]['ae'] + 30:
                g.exists['R$'] = True            # auto-dimensioned
            if e['kind'] == 'internal':
                break                            # the session is not trustworthy any more
        ops += steps
    d.close()
    ctx.cov['history_sessions'] = d.sessions
    evs = d.events
    ctx.cov['history_statements'] = len(evs)
    ctx.cov['history_out_of_string_space'] = sum(1 for e in evs if e['code'] == 14)
    ctx.cov['history_out_of_memory'] = sum(1 for e in evs if e['code'] == 7)
    ctx.cov['history_string_too_long'] = sum(1 for e in evs if e['code'] == 15)
    ctx.cov['history_illegal_function_call'] = sum(1 for e in evs if e['code'] == 5)
    ctx.cov['history_fre_checks'] = sum(1 for e in evs if e['op'] == 'fre' and e['kind'] == 'ok')
    for e in (evs[10], evs[len(evs) // 2], evs[-1]):
        ctx.sample({k: e[k] for k in ('stmt', 'kind', 'code', 'ae', 'fre') if k in e})
    ns = validate(ctx, d, 'history')
    ctx.cov['traces_validated_against_impl'] += ns
    if not ctx.violations and (not ctx.cov['history_out_of_string_space'] or not ctx.cov['history_fre_checks']):
        raise core.MachineryError('vacuous histories: no Out of string space / FRE event')


def model_phases(ctx):
    # 1. design check: implementation-shaped layer against the reference layer, exhaustively on the bounded model
    r = ctx.tlc('StringSpace_MC', ctx.pick('StringSpace_MC.cfg', 'StringSpace_MC_big.cfg'), workers=8, tag='model_check')
    ctx.cov['states'] += r['distinct']
    ctx.cov['transitions'] += r['generated']
    if not r['ok']:
        ctx.reject('TLC model check of StringSpace_MC failed: %s' % r['error'], key={'clause': 'model_check', 'module': 'StringSpace_MC'},
                   data=r['out'][-6000:])
    if r['distinct'] < 1000:
        raise core.MachineryError('model check explored only %d states' % r['distinct'])
    # 2. the model must find the defects reproduced on the pinned code when it transcribes the code as written
    r = ctx.tlc('StringSpace_MC', 'StringSpace_MC_ascoded.cfg', workers=4, tag='ascoded_selftest', expect_fail=True)
    if r['ok'] or not r['error'] or 'invariant' not in r['error']:
        raise core.MachineryError('selftest: the as-coded model does not exhibit the reproduced defects (%s)' % r['error'])
    ctx.cov['ascoded_counterexample'] = r['error']
    # 3. spec -> code


# ---------------------------------------------------------------------------------------------------------------------
# code -> spec, program mode: the history is a stored program (string literals live in the program text); line k is
# executed with a direct-mode GOTO, so that the variables can be observed after every statement
class ProgGen(Gen):
    def __init__(self, rng, drv, roomy):
        Gen.__init__(self, rng, drv, roomy)
        for k in self.exists:
            self.exists[k] = True

    def val(self, c):
        return [0] * self.rng.choice([0, 1, 3, 6, 12])      # the program is written before it runs: lengths are guesses

    def expr(self, depth, target=None):
        e = Gen.expr(self, depth, target)
        # an identity function called with a literal would return a pointer into the program text (not modelled)
        return cat(e, self.literal()) if has_fn(e, 'FNI$') else e

    lit_cell = None

    def action(self):
        """As Gen.action, plus the pattern 'a variable that still points at a program literal is modified in place by MID$ / LSET /
        RSET from another variable' (the literal is copied to string space first; under memory pressure that copy collects garbage
        and moves the source: round-4 seeded change C10d read the source pointer before the copy)."""
        rng = self.rng
        if self.lit_cell and rng.random() < 0.5:
            c, n = self.lit_cell
            self.lit_cell = None
            src = var(rng.choice([x for x in SCAL if x != c]))
            if rng.random() < 0.7:
                return {'op': 'midset', 'c': c, 's': rng.randint(1, max(1, n - 1)), 'n': rng.choice([255, 255, 3, n]), 'e': src}
            return {'op': rng.choice(['lset', 'rset']), 'c': c, 'e': src}
        if rng.random() < 0.12:
            c = rng.choice(SCAL)
            n = rng.choice([8, 12, 20, 30, 45, 60])
            self.lit_cell = (c, n)
            return {'op': 'let', 'c': c, 'e': lit(bytes(rng.choice(LETTERS) for _ in range(n)))}
        return Gen.action(self)


def has_fn(e, f):
    if not isinstance(e, dict):
        return False
    if e.get('k') == 'fn' and e['f'] == f:
        return True
    return any(has_fn(e.get(x), f) for x in ('l', 'r', 'e')) or any(has_fn(x, f) for x in e.get('args', []))


def program_histories(ctx):
    rng = ctx.rng
    d = Drv(ctx, SCAL, ARRS, FNPROG)
    nprog = ctx.pick(16, 120)
    ngoto = 0
    for h in range(nprog):
        r = rng.random()
        free0 = rng.choice([60, 100, 200, 400]) if r < 0.7 else rng.choice([1000, 4000]) if r < 0.9 else None
        g = ProgGen(rng, d, roomy=free0 is None or free0 >= 1000)
        acts = []
        for _ in range(rng.randint(30, ctx.pick(90, 150))):
            a = g.action()
            if a['op'] in ('let', 'midset', 'lset', 'rset', 'swap'):
                acts.append(a)
            elif a['op'] in ('fre', 'fre0') or (a['op'] in ('erase', 'dim') and a['arr'] == 'R$'):
                # (S$ stays dimensioned: the program is written in advance, and using an element of an erased
                #  2-dimensional array would auto-dimension it with 376 bytes)
                acts.append(a)
        d.poisoned = True                    # a new program: always a fresh Session
        d.new_session()
        d.s.ex('50 END')
        line = {}
        for i, a in enumerate(acts):
            if a['op'] in ('fre', 'fre0'):
                continue
            line[i] = 100 + i
            r_ = d.s.ex('%d %s:END' % (line[i], stmt_text(a)))
            if r_[0] != 'ok':
                raise core.MachineryError('cannot store program line %r: %r' % (stmt_text(a), r_[:2]))
        n = None
        if free0:
            d.s.ex('RUN')
            for a in ARRS:
                d.s.ex('DIM %s(%s)' % (a[0], a[1]))
            n = int(d.s.ev(AE)[1]) + 7 * len(SCAL) + free0 + 514
        d.poisoned = False
        d.begin(n)                           # CLEAR [,n] and RUN (defines the functions, stops at line 50)
        d.do({'op': 'fre'})
        dims_ok = [d.do({'op': 'dim', 'arr': a[0], 'dims': a[1]})['kind'] == 'ok' for a in ARRS]
        if not all(dims_ok):
            continue
        for i, a in enumerate(acts):
            if i in line:
                b = dict(a)
                b['prog'] = True
                e = d.do(b, text='GOTO %d' % line[i])
                e['stmt'] = '%d %s' % (line[i], stmt_text(a))
                ngoto += 1
            else:
                e = d.do(a)
            if e['kind'] == 'internal':
                break
    d.close()
    evs = d.events
    ctx.cov['program_histories'] = nprog
    ctx.cov['program_lines_executed'] = ngoto
    ctx.cov['program_out_of_string_space'] = sum(1 for e in evs if e['code'] == 14)
    ctx.cov['program_fre_checks'] = sum(1 for e in evs if e['op'] == 'fre' and e['kind'] == 'ok')
    lits = sum(1 for e in evs if e.get('prog') and e['op'] == 'let' and e['e']['k'] == 'lit' and e['kind'] == 'ok')
    ctx.cov['program_literal_assignments'] = lits
    ns = validate(ctx, d, 'program')
    ctx.cov['traces_validated_against_impl'] += ns
    if not ctx.violations and (not lits or not ctx.cov['program_fre_checks']):
        raise core.MachineryError('vacuous program histories')


def run(ctx):
    ctx.cov['rule'] = ('events = BASIC statements executed on a real Session (replayed model transitions/behaviours and random '
                       'histories); distinct by (op, expression, target, outcome, number of changed cells); begin/RUN not counted')
    if not os.environ.get('VERIF_SKIP_MODEL'):      # developer aid (mutant runs): the pure-model phases do not depend on the code
        model_phases(ctx)
    spec_to_code(ctx)
    # 4. code -> spec
    code_to_spec(ctx)
    program_histories(ctx)
