"""C37 — keyboard buffer: 15-key FIFO mirrored in BIOS memory. Spec KeyRing.tla; models KeyRing_MC*.cfg; trace spec KeyRing_Trace."""
import json, queue
from ..session import Sess
from .. import graph, core

LEVEL = 'model_checking'
META = {
    'technique': 'TLC exhaustive model check of KeyRing.tla + replay of every transition of the 16-slot model with real KEYB_DOWN '
                 'signals / INKEY$ / INPUT$ / POKE on a real Session + TLC trace validation of random interleavings',
    'text': 'KeyRing.tla has a reference layer (FIFO q of waiting keystrokes, at most 15, further keys dropped) and the BIOS ring layer '
            '(16 slots, head, tail) with the invariant RingView (slots between head and tail = q). TLC checks RingView, the FIFO history '
            'invariant, drop-when-full, ring-vs-FIFO agreement of INKEY$ and "POKE head:=tail empties" on every reachable state of '
            '(a) a 4-slot ring with keys {a,b,c} and all pointer POKEs (complete state space) and (b) the real 16-slot ring with all-distinct '
            'keystrokes; every transition of (b) is emitted and replayed on the real interpreter: key presses are signals.Event(KEYB_DOWN) '
            'put on the input queue and processed by check_events, reads are INKEY$/INPUT$(n), POKE 1050/1052 in segment 0, and after every '
            'step the 36 bytes PEEK(1050..1085) are read. All replayed and random histories are judged event by event by KeyRing_Trace.tla '
            '(delivered bytes = oldest waiting key; ring view = waiting keys after EVERY event; key beyond 15 dropped; clearing POKE empties).',
    'note': 'Trusted: TLC; Session(peek_values={}) (the default None makes every PEEK below the data segment fail - a C01 matter); '
            'EventQueues.tick set to 0 (INKEY$ sleeps one tick); between histories the harness re-runs KeyboardBuffer\'s constructor '
            'with the same arguments instead of building a new Session (a new Session every 200 histories). Not constrained: what a pointer '
            'POKE other than the clearing one does to the pointers (q is re-read from the ring), slots outside head..tail (GW-BASIC puts a CR '
            'there when full), INKEY$ of never-written slots, function-key macros, Alt+keypad, Ctrl+Break/pause keys, INPUT editing keys.',
}

BASE = 30
# typed character for code page 437 bytes above 127 (the keyboard converts unicode to the code page)
UNI = {(0x82,): u'\xe9', (0xe0,): u'\u03b1', (0xe1,): u'\xdf'}
PEEKS = ['PEEK(%d)' % a for a in range(1050, 1086)]


class Hang(BaseException):
    """The interpreter polled an empty input queue too often inside one call: it waits for a key that is not there."""


class WatchQueue(object):
    """Input queue with a watchdog: a blocking read that would wait forever raises Hang instead."""
    LIMIT = 3000

    def __init__(self):
        self.q = queue.Queue()
        self.polls = 0

    def put(self, item, block=False, timeout=None):
        self.q.put(item)

    put_nowait = put

    def get(self, block=False, timeout=None):
        try:
            return self.q.get(False)
        except queue.Empty:
            self.polls += 1
            if self.polls > self.LIMIT:
                self.polls = 0
                raise Hang('blocked waiting for keyboard input')
            raise

    def task_done(self):
        pass

    def qsize(self):
        return self.q.qsize()

    def empty(self):
        return self.q.empty()

    def full(self):
        return False

    def join(self):
        pass


class Driver(object):
    def __init__(self, ctx):
        self.ctx = ctx
        self.s = None
        self.events = []
        self.nfresh = 0
        self.last = None

    was_armed = False
    armed = False

    def fresh(self, trap=False):
        """Initial keyboard state: a new Session every 200 histories, otherwise the ring's own constructor re-run."""
        if self.s is None or self.nfresh % 200 == 0:
            if self.s:
                self.s.close()
            self.s = Sess(peek_values={})
            from pcbasic.basic.base import signals
            self.signals = signals
            self.wq = WatchQueue()
            self.s.impl.queues.set(inputs=self.wq)
            self.s.impl.queues.tick = 0
            r = self.s.ex('DEF SEG=0')
            if r[0] != 'ok':
                raise core.MachineryError('DEF SEG=0 failed: %r' % (r,))
        else:
            kb = self.s.impl.keyboard
            old = kb.buf
            kb.buf = type(old)(old._queues, old._ring_length, old._check_full)
            kb._expansion_vessel = []
        self.nfresh += 1
        self.reset = True
        # configuration: a user-defined key trap (KEY 15) armed on Ctrl + the physical key 'a'. No keystroke of the driver carries a
        # modifier, so the trap never fires and every key still goes to the buffer; the keystrokes are then delivered while a
        # statement runs, which is when the trap filters see them (round-3 seeded change C37c let an armed trap swallow its
        # key whatever the modifiers)
        self.armed = trap
        if trap:
            from pcbasic.basic.base import scancode as sc
            r = self.s.ex('KEY 15,CHR$(4)+CHR$(%d):KEY(15) ON' % sc.a)
            if r[0] != 'ok':
                raise core.MachineryError('arming KEY 15 failed: %r' % (r,))
        elif self.was_armed:
            self.s.ex('KEY(15) OFF')
        self.was_armed = trap
        self.last = self.observe()

    def observe(self):
        b = []
        for p in PEEKS:
            r = self.s.ev(p)
            b.append(int(r[1]) if r[0] == 'ok' else -1)
        return b

    def do(self, a):
        """Perform one model action on the real interpreter and record the event."""
        op = a['op']
        e = dict(a)
        e['kind'] = 'ok'
        e['res'] = []
        self.wq.polls = 0
        stmt = None
        if op == 'press':
            chars, scan = a['k']
            c = UNI.get(tuple(chars)) or u''.join(chr(x) for x in chars)
            if self.armed:
                # delivered at the first statement boundary of a running (direct) line: the interpreter polls with its trap filters on
                done = []

                def hook(interp):
                    if not done:
                        done.append(1)
                        self.wq.put(self.signals.Event(self.signals.KEYB_DOWN, (c, scan, [])))
                self.s.hooks.append(hook)
                try:
                    r0 = self.s.ex('X9=0')
                finally:
                    self.s.hooks.remove(hook)
                if r0[0] != 'ok':
                    e['kind'] = 'internal' if r0[0] == 'internal' else r0[0]
                    e['err'] = repr(r0[1])
            else:
                self.wq.put(self.signals.Event(self.signals.KEYB_DOWN, (c, scan, [])))
                try:
                    self.s.impl.queues.check_events()
                except BaseException as ex:  # noqa
                    e['kind'] = 'internal'
                    e['err'] = repr(ex)
            stmt = 'press %r' % (c,)
        elif op == 'inkey':
            stmt = 'INKEY$'
            r = self.s.ev(stmt)
        elif op == 'readn':
            stmt = 'INPUT$(%d)' % a['n']
            r = self.s.ev(stmt)
        elif op in ('pokehead', 'poketail'):
            addr, other = (1050, 1052) if op == 'pokehead' else (1052, 1050)
            if a.get('idiom'):
                stmt = 'POKE %d,PEEK(%d)' % (addr, other)
            else:
                stmt = 'POKE %d,%d' % (addr, a['v'])
            r = self.s.ex(stmt)
            if r[0] != 'ok':
                e['kind'] = r[0]
                e['err'] = repr(r[1])
        elif op == 'peek':
            stmt = 'PEEK sweep'
        if op in ('inkey', 'readn'):
            if r[0] == 'ok':
                e['res'] = list(bytearray(r[1]))
            else:
                e['kind'] = r[0]
                e['err'] = repr(r[1])
        e['stmt'] = stmt
        e['reset'] = self.reset
        self.reset = False
        e['bios'] = self.last = self.observe()
        if e['kind'] == 'ok' and min(e['bios']) < 0:
            e['kind'] = 'peek_failed'
            e['err'] = 'PEEK(%d) gave no value' % (1050 + e['bios'].index(-1))
        self.events.append(e)
        return e


def _key_json(k):
    return [list(k[0]), k[1]]


# keystrokes of the random driver: <<chars, scancode>> (letters, digits on the top row and on the keypad, punctuation,
# control characters, CR, extended keys (NUL + code): arrows, Home, End, PgUp, PgDn, Ins, Del); every key has its own <<first byte, scancode>> so the ring view identifies it
def _keypool():
    from pcbasic.basic.base import scancode as sc
    pool = []
    for ch in 'abcdefghijklmnopqrstuvwxyz':
        pool.append(([ord(ch)], getattr(sc, ch)))
    for ch in 'ABC':
        pool.append(([ord(ch)], getattr(sc, ch.lower())))
    for i, ch in enumerate('1234567890'):
        pool.append(([ord(ch)], 2 + i))
    pool += [([ord('1')], sc.KP1), ([ord('5')], sc.KP5), ([ord(' ')], sc.SPACE), ([ord(',')], sc.COMMA), ([ord('"')], sc.QUOTE),
             ([13], sc.RETURN), ([27], sc.ESCAPE), ([9], sc.TAB), ([8], sc.BACKSPACE), ([1], sc.a), ([0x82], sc.e), ([0xe0], sc.a), ([0xe1], sc.s),
             ([0, 72], sc.UP), ([0, 80], sc.DOWN), ([0, 75], sc.LEFT), ([0, 77], sc.RIGHT), ([0, 71], sc.HOME), ([0, 79], sc.END),
             ([0, 73], sc.PAGEUP), ([0, 81], sc.PAGEDOWN), ([0, 82], sc.INSERT), ([0, 83], sc.DELETE)]
    return pool


def run(ctx):
    ctx.cov['rule'] = ('events = operations on a real Session (KEYB_DOWN signal, INKEY$, INPUT$, POKE 1050/1052, PEEK sweep), each followed by '
                       'PEEK(1050..1085); distinct by (operation, delivered bytes, the 36 observed bytes); non-trivial = all but pure PEEK sweeps')
    # 1. design: complete state space of the 4-slot ring with keys {a,b,c} and all pointer POKEs; per-action coverage
    ctx.model_check('KeyRing_MC', 'KeyRing_MC.cfg', workers=4, require_actions=False)
    if not ctx.quick():
        # real 16-slot ring, free choice among {a,b,c}, bounded depth
        ctx.model_check('KeyRing_MC', 'KeyRing_MC_abc16.cfg', workers=4, require_actions=False)
    # 2. design + spec -> code: the real 16-slot ring with all-distinct keystrokes; every transition emitted
    cfg = ctx.pick('KeyRing_MC_emit.cfg', 'KeyRing_MC_emit_big.cfg')
    r = ctx.tlc('KeyRing_MC', cfg, workers=1, tag='emit', timeout=3000)
    if not r['ok']:
        if r['error'] and 'violated' in r['error']:
            ctx.reject('TLC model check of KeyRing_MC (%s) failed: %s' % (cfg, r['error']), key={'clause': 'model_check'}, data=r['out'][-4000:])
            return
        raise core.MachineryError('emit run failed: %s\n%s' % (r['error'], r['out'][-2000:]))
    ctx.cov['states'] += r['distinct']
    ctx.cov['transitions'] += r['generated']
    trans = [t for t in graph.parse_transitions(r['out'])]
    npeek = sum(1 for t in trans if t['a']['op'] == 'peek')
    trans = [t for t in trans if t['a']['op'] != 'peek']     # self-loops; every replayed step ends with the PEEK sweep
    init = [0, 0, 0, 0, [0] * 16]
    walks, cov, total = graph.covering_walks(trans, init, max_len=200, rng=ctx.rng)
    ctx.cov['model_transitions'] = total + npeek
    ctx.cov['model_transitions_replayed'] = cov + npeek
    if cov < total:
        raise core.MachineryError('edge cover incomplete: %d of %d' % (cov, total))
    d = Driver(ctx)
    agree = nsteps = cut = 0
    flip = 0
    for w in walks:
        d.fresh()
        for t in w:
            a = dict(t['a'])
            if a['op'] in ('pokehead', 'poketail'):
                frm = t['from']
                other = frm[1] if a['op'] == 'pokehead' else frm[0]
                if a['v'] == other:
                    flip += 1
                    a['idiom'] = bool(flip % 2)       # the literal POKE 1050,PEEK(1052) every other time
                a['v'] = BASE + 2 * a['v']
            e = d.do(a)
            # metric only (no verdict): does the observed ring equal the model's successor state?
            to, b = t['to'], e['bios']
            nsteps += 1
            h, n = to[0], len(t['toq'])
            if (b[:4] == [BASE + 2 * to[0], 0, BASE + 2 * to[1], 0]
                    and all(b[4 + 2 * ((h + i) % 16)] == t['toq'][i] for i in range(n))):
                agree += 1
            else:
                # the code is no longer in the model state this walk was planned for: the rest of the walk is dropped
                # (the events so far are judged by the trace spec as usual)
                cut += 1
                break
    ctx.cov['replayed_steps'] = nsteps
    ctx.cov['replayed_steps_equal_to_model_state'] = agree
    ctx.cov['replay_walks_cut_after_divergence'] = cut
    nwalk = len(walks)
    nreplay = len(d.events)

    # 3. code -> spec: random interleavings with a large key pool
    rng = ctx.rng
    pool = _keypool()
    nhist = ctx.pick(100, 1500)
    narmed = 0
    for h in range(nhist):
        trap = rng.random() < 0.3
        narmed += trap
        d.fresh(trap=trap)
        ppress = rng.choice([0.35, 0.5, 0.5, 0.7, 0.9])
        ppoke = rng.choice([0.0, 0.05, 0.1, 0.2])
        written = set()
        for step in range(rng.randint(8, 90)):
            b = d.last
            okp = all(x >= 0 for x in b) and BASE <= b[0] <= 60 and BASE <= b[2] <= 60
            head, tail = ((b[0] - BASE) // 2, (b[2] - BASE) // 2) if okp else (0, 0)
            waiting = (tail - head) % 16
            nonblank = set(i for i in range(16) if (b[4 + 2 * i], b[5 + 2 * i]) != (0, 0))
            c = rng.random()
            if c < ppoke and okp:
                # pointer POKE that keeps never-written slots outside head..tail (closed fragment of the spec)
                which = rng.choice(['pokehead', 'poketail'])
                k = rng.random()
                if k < 0.4:
                    a = {'op': which, 'v': b[2] if which == 'pokehead' else b[0], 'idiom': rng.random() < 0.6}
                else:
                    cands = []
                    for p in range(16):
                        hh, tt = (p, tail) if which == 'pokehead' else (head, p)
                        if all(((hh + i) % 16) in nonblank for i in range((tt - hh) % 16)):
                            cands.append(p)
                    p = rng.choice(cands)
                    a = {'op': which, 'v': BASE + 2 * p}
            elif c < ppoke + ppress:
                a = {'op': 'press', 'k': _key_json(rng.choice(pool))}
            elif c < ppoke + ppress + 0.06 and waiting:
                # INPUT$(n) for n keystrokes that wait and are single-byte (delivery of extended keys to INPUT$ is not stated)
                n = 0
                while n < min(waiting, 4) and b[4 + 2 * ((head + n) % 16)] != 0:
                    n += 1
                if not n:
                    continue
                a = {'op': 'readn', 'n': rng.randint(1, n)}
            elif c < ppoke + ppress + 0.08:
                a = {'op': 'peek'}
            else:
                a = {'op': 'inkey'}
            d.do(a)
    if d.s:
        d.s.close()

    events = d.events
    keys = {}
    for e in events:
        if e['op'] == 'press':
            keys[json.dumps(e['k'])] = e['k']
    keep = ('op', 'k', 'n', 'v', 'idiom', 'res', 'bios', 'reset')
    # TLC judges every event; histories are batched into runs of at most ~40000 events (each starts with a reset event)
    verdicts = []
    start = 0
    while start < len(events):
        end = min(len(events), start + 40000)
        while end < len(events) and not events[end]['reset']:
            end += 1
        chunk = [{k: e[k] for k in keep if k in e} for e in events[start:end]]
        verdicts += [(i + start, c) for (i, c) in ctx.validate('KeyRing_Trace', chunk, header={'keys': list(keys.values())})]
        start = end
    ctx.cov['traces_validated_against_impl'] += nwalk + nhist
    ctx.cov['replay_walks'] = nwalk
    ctx.cov['random_histories'] = nhist
    ctx.cov['histories_with_armed_user_key_trap'] = narmed
    ctx.cov['events_replay'] = nreplay
    ctx.cov['events_random'] = len(events) - nreplay
    full = sum(1 for e in events if e['op'] == 'press' and (e['bios'][2] - e['bios'][0]) % 32 == 30)
    ctx.cov['presses_into_full_ring'] = full
    ctx.cov['clearing_pokes'] = sum(1 for e in events if e['op'] in ('pokehead', 'poketail') and e['bios'][0] == e['bios'][2])
    for e in events:
        ctx.count([e['op'], e.get('k'), e.get('n'), e.get('v'), e['res'], e['bios']], nontrivial=e['op'] != 'peek')
        if e['kind'] != 'ok':
            ctx.reject('C37 %s on %s: %s' % (e['kind'], e['stmt'], e.get('err')), key={'clause': e['kind'], 'op': e['op']}, data=e)
    for e in (events[5], events[len(events) // 2], events[-1]):
        ctx.sample({k: e[k] for k in ('stmt', 'res', 'bios')})
    for (i, clause) in verdicts:
        e = events[i - 1]
        j = i - 1
        while j > 0 and not events[j]['reset']:
            j -= 1
        hist = [x['stmt'] for x in events[j:i]]
        ctx.reject('C37 %s at %s (delivered %r, ring %r) after %s' % (clause, e['stmt'], e['res'], e['bios'][:4], hist[:-1][-6:]),
                   key={'clause': clause, 'op': e['op']}, data={'event': e, 'history': hist})
    if cut and not ctx.violations and not ctx.known_met:
        raise core.MachineryError('replay left the model in %d walks although no event was rejected: transition cover incomplete' % cut)
    if full == 0 or ctx.cov['clearing_pokes'] == 0:
        raise core.MachineryError('vacuous: full ring reached %d times, clearing POKEs %d' % (full, ctx.cov['clearing_pokes']))
