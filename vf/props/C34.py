"""C34 - video memory reflects and controls the screen. Spec VideoMem.tla; model VideoMem_MC; trace spec VideoMem_Trace."""
import logging, os, struct
from ..session import Sess
from .. import core

LEVEL = 'exploration'
META = {
    'technique': 'TLC-evaluated address-map oracle (VideoMem.tla) over PEEK / POKE / BSAVE / BLOAD histories of the real interpreter in every mode of every adapter '
                 '+ exhaustive TLC check of the map\'s laws on tiny layouts',
    'text': 'VideoMem.tla states the hardware layouts as literals (text cells; CGA packed pixels in 2 or 4 interleaved banks; EGA planes; Tandy/PCjr SCREEN 6 plane pairs) '
            'with Coords(address) -> page,row,columns, PeekVal (the encoding PEEK must return) and PokeRow (the content after a POKE). VideoMem_MC checks for all '
            'addresses of tiny layouts (2 pages; 2/4 banks with padding; 1,2,4 bits per pixel; planar; text) that Coords/Addr are mutually inverse on backing bytes, '
            'that every cell/pixel is backed by exactly one byte, and that PeekVal(PokeRow(v)) = v with nothing else changed. '
            'The driver switches into every mode of the CGA, EGA (incl. 64k and monochrome), VGA, MDA, Hercules, Olivetti, PCjr and Tandy adapters, draws/prints content on two pages '
            'and issues PEEK, POKE, BSAVE and BLOAD (via DEF SEG=&HB800/&HA000/&HB000 and shifted segments) at random, row-, bank- and page-boundary-dense addresses and lengths; '
            'VideoMem_Trace.tla keeps the observed page buffers as state and demands PEEK = PeekVal, POKE = exactly PokeRow, BSAVE = the byte-wise PEEKs and BLOAD = the byte-wise POKEs.',
    'note': 'Trusted: TLC; the projection of page buffers (VideoBuffer pixels, characters and attributes) to rows. Bytes that back no content (bank padding, beyond the last page, '
            'other segments) are unconstrained. The Hercules graphics page is taken at segment B800 as the emulator maps it. '
            'EGA planes: read plane via OUT &H3CF, write mask via OUT &H3C5; planes that do not exist in a mode are unconstrained.',
}
META['text'] += ' The Tandy 1000 and PCjr dialect presets (syntax=tandy/pcjr) are driven as configurations with Tandy-format BLOAD files; refused PEEK/POKE/BSAVE/BLOAD statements of the fragment are rejected.'

# adapter -> SCREEN numbers (0 is driven at WIDTH 80 and 40)
ADAPTER_MODES = {
    'cga': [0, 1, 2], 'ega': [0, 1, 2, 7, 8, 9], 'ega64': [0, 9], 'ega_mono': [0, 10], 'vga': [0, 1, 2, 7, 8, 9], 'mda': [0], 'hercules': [0, 3],
    'tandy': [0, 1, 2, 3, 4, 5, 6], 'pcjr': [0, 1, 2, 3, 4, 5, 6], 'olivetti': [0, 1, 2, 3],
    'tandy_syntax': [0, 1, 5, 6], 'pcjr_syntax': [0, 4],
}
SESSION_KW = {
    'ega64': dict(video='ega', video_memory=65536), 'ega_mono': dict(video='ega', monitor='mono'),
    # the Tandy 1000 / PCjr presets: the dialect changes the BSAVE file format (Tandy repeats the header behind the data)
    'tandy_syntax': dict(video='tandy', syntax='tandy'), 'pcjr_syntax': dict(video='pcjr', syntax='pcjr'),
}
SEGS = [0xB800, 0xA000, 0xB000]


class Driver(object):
    def __init__(self, ctx):
        self.ctx = ctx
        self.s = None
        self.events = []
        self.prev = None
        self.fno = 0

    def fresh(self, adapter):
        if self.s:
            self.s.close()
        kw = SESSION_KW.get(adapter, dict(video=adapter))
        # (peek_values: a Session() default of None makes every PEEK fail, which is C01's finding, not this property's)
        self.s = Sess(peek_values={}, **kw)
        self.s.autocls = False
        self.adapter = adapter
        self.tandy_format = kw.get('syntax') == 'tandy'
        self.prev = None

    # -- projection of the page buffers ---------------------------------------------
    def snapshot(self):
        d = self.s.impl.display
        np_ = min(2, d.mode.num_pages)
        pages = []
        for p in range(np_):
            pg = d.pages[p]
            if d.mode.is_text_mode:
                chars = pg.get_chars()
                rows = [tuple((ord(c), pg.get_attr(r + 1, k + 1)) for k, c in enumerate(row)) for r, row in enumerate(chars)]
            else:
                w = d.mode.pixel_width
                rows = [bytes(r) for r in pg._pixels._rows]
                if any(len(r) != w for r in rows):
                    # a write that changes the length of a scan line: report once, keep going on a repaired copy
                    if not getattr(self, 'corrupt', False):
                        self.corrupt = True
                        self.ctx.reject('C34 a video memory write changed the length of a scan line of page %d (mode %s) after %s' % (
                            p, d.mode.name, self.events[-1]['stmt'] if self.events else ''), key={'clause': 'pixel_buffer_corrupted'})
                    rows = [(r + bytes(w))[:w] for r in rows]
            pages.append(rows)
        return pages

    @staticmethod
    def jrow(row):
        return [list(x) for x in row] if isinstance(row, tuple) else list(row)

    def diff(self):
        cur = self.snapshot()
        rows = []
        for p, pg in enumerate(cur):
            for y, row in enumerate(pg):
                if self.prev is None or p >= len(self.prev) or y >= len(self.prev[p]) or self.prev[p][y] != row:
                    rows.append([p, y, self.jrow(row)])
        self.prev = cur
        return rows

    def ev(self, e):
        e['adapter'] = self.adapter
        e['mode'] = self.s.impl.display.mode.name
        self.events.append(e)
        return e

    # -- statements -----------------------------------------------------------------------
    def set_mode(self, stmts):
        for st in stmts:
            self.s.ex(st)
        d = self.s.impl.display
        cur = self.snapshot()
        self.prev = cur
        text = d.mode.is_text_mode
        # the most frequent row value serves as `fill`
        first = cur[0][0]
        fill = first[0] if len(first) else 0
        fill_j = list(fill) if text else fill
        w = len(first)
        uniform = tuple([fill] * w) if text else bytes([fill]) * w
        rows = [[p, y, self.jrow(row)] for p, pg in enumerate(cur) for y, row in enumerate(pg) if row != uniform]
        self.ev({'op': 'mode', 'name': d.mode.name, 'np': len(cur), 'npr': d.mode.num_pages, 'fill': fill_j, 'rows': rows, 'stmt': ': '.join(stmts)})

    def draw(self, st):
        r = self.s.ex(st, budget=2000)
        self.ev({'op': 'draw', 'rows': self.diff(), 'stmt': st, 'ok': r[0] == 'ok'})

    def plane(self, rp, wm):
        self.s.ex('OUT &H3CF,%d: OUT &H3C5,%d' % (rp, wm))
        self.ev({'op': 'plane', 'rp': rp, 'wm': wm, 'stmt': 'OUT &H3CF,%d: OUT &H3C5,%d' % (rp, wm)})

    def peek(self, seg, off):
        self.s.ex('DEF SEG=&H%X' % seg)
        r = self.s.ev('PEEK(%d)' % off)
        if r[0] != 'ok':
            return self.ev({'op': 'draw', 'rows': self.diff(), 'stmt': 'PEEK(%d) failed: %r' % (off, r[:2]), 'ok': False, 'kind': r[0]})
        return self.ev({'op': 'peek', 'seg': seg, 'off': off, 'val': r[1], 'stmt': 'DEF SEG=&H%X: PEEK(%d)' % (seg, off)})

    def poke(self, seg, off, v):
        st = 'DEF SEG=&H%X: POKE %s,%d' % (seg, off, v)
        r = self.s.ex(st)
        e = self.ev({'op': 'poke' if r[0] == 'ok' else 'draw', 'seg': seg, 'off': off, 'v': v, 'rows': self.diff(), 'stmt': st, 'ok': r[0] == 'ok', 'kind': r[0]})
        return e

    def bsave(self, seg, off, n):
        self.fno += 1
        name = 'S%d.BIN' % (self.fno % 7)
        st = 'DEF SEG=&H%X: BSAVE "%s",%s,%s' % (seg, name, off, n)
        r = self.s.ex(st)
        path = os.path.join(self.s.mount, name)
        if r[0] != 'ok' or not os.path.exists(path):
            return self.ev({'op': 'draw', 'rows': self.diff(), 'stmt': st + ' failed %r' % (r[:2],), 'ok': False, 'kind': r[0]})
        data = open(path, 'rb').read()
        os.remove(path)
        hdr = struct.unpack('<BHHH', data[:7])
        body = data[7:7 + n]
        tail = data[7 + n:]
        if self.tandy_format and r[0] == 'ok' and tail[:7] != data[:7]:
            return self.ev({'op': 'draw', 'rows': self.diff(), 'stmt': st + ': the Tandy-format file does not repeat its header behind the data', 'ok': False, 'kind': 'format'})
        if hdr != (0xfd, seg, off, n) or len(body) != n:
            raise core.MachineryError('unexpected BSAVE file: header %r, %d data bytes for %s' % (hdr, len(body), st))
        return self.ev({'op': 'bsave', 'seg': seg, 'off': off, 'n': n, 'bytes': list(body), 'stmt': st})

    def bload(self, seg, off, data):
        self.fno += 1
        name = 'L%d.BIN' % (self.fno % 7)
        with open(os.path.join(self.s.mount, name), 'wb') as f:
            hdr = struct.pack('<BHHH', 0xfd, seg, off, len(data))
            # (the Tandy dialect writes and expects the header once more behind the data)
            f.write(hdr + bytes(data) + (hdr if self.tandy_format else b'') + b'\x1a')
        st = 'BLOAD "%s"' % name
        r = self.s.ex(st)
        return self.ev({'op': 'bload' if r[0] == 'ok' else 'draw', 'seg': seg, 'off': off, 'bytes': list(data), 'rows': self.diff(),
                        'stmt': 'BLOAD of %d bytes to &H%X:%d' % (len(data), seg, off), 'ok': r[0] == 'ok', 'kind': r[0]})

    def close(self):
        if self.s:
            self.s.close()
            self.s = None


def boundary_offsets(mode):
    """Input generation only: offsets of the first and last rows of every bank / page of the mode (from the mapper's strides)."""
    mm = mode.memorymap
    page = mm.page_size
    if mode.is_text_mode:
        bpr, banks, bank, rows = 2 * mode.width, 1, page, mode.height
    else:
        bpr, banks, bank = mm._bytes_per_row, mm._interleave_times, mm._bank_size
        rows = -(-mode.pixel_height // banks)
    res = []
    for p in (0, 1):
        for b in range(banks):
            base = p * page + b * bank
            res += [base, base + bpr, base + (rows - 2) * bpr, base + (rows - 1) * bpr, base + rows * bpr, base + bank - 1]
    return [x for x in res if x >= 0]


def interesting_offset(rng, span, bounds=()):
    """An offset into video memory, dense near rows, banks and pages (all layouts use multiples of these)."""
    k = rng.random()
    if bounds and k < 0.3:
        return max(0, min(span - 1, rng.choice(bounds) + rng.randint(-6, 170)))
    k = rng.random()
    if k < 0.12:
        # last rows of the picture in the usual layouts (row starts of the last scan line / text row, per bank and page)
        return min(span - 1, rng.choice([7920, 7960, 15920, 27920, 8192 + 7920, 16384 + 7920, 24576 + 7920, 3840, 1920, 7740,
                                         8192 + 7960, 16384 + 15920, 32768 + 27920, 4096 + 3840, 2048 + 1920]) + rng.randint(0, 170))
    if k < 0.35:
        base = rng.choice([0, 2048, 4096, 8192, 16384, 24576, 32768, 8000, 7830, 16000, 28000, 40, 80, 90, 160, 8192 + 8000, 16384 + 8000])
        base *= rng.choice([1, 1, 1, 2, 3])
        return max(0, min(span - 1, base + rng.randint(-100, 100)))
    if k < 0.5:
        return max(0, min(span - 1, rng.choice([40, 80, 90, 160]) * rng.randint(0, 400) + rng.randint(-3, 3)))
    return rng.randrange(span)


def random_ops(d, rng, nops, text):
    disp = d.s.impl.display
    planar = disp.mode.name in ('320x200x16', '640x200x16', '640x350x16', '640x350x4c', '640x350x4')
    span = min(65536, disp.mode.memorymap.page_size * 2 + 600)
    mono = disp.mode.name in ('mdatext80', 'mdatext40', 'ega_monotext80', 'ega_monotext40')
    home = 0xA000 if planar else (0xB000 if mono else 0xB800)
    bounds = boundary_offsets(disp.mode)
    for _ in range(nops):
        k = rng.random()
        # mostly the segment of the mode, sometimes a shifted one (same bytes, other offsets) or a foreign one
        sh = rng.choice([0, 0, 0, 0x100, 0x200, 0x7ff])
        if rng.random() < 0.9:
            seg, bias = home + sh, -16 * sh
        else:
            seg, bias = rng.choice(SEGS), 0
        off = interesting_offset(rng, span, bounds) + bias
        off = max(0, min(65535, off))
        if planar and rng.random() < 0.15:
            d.plane(rng.choice([0, 1, 2, 3, 3, 5]), rng.choice([1, 2, 4, 8, 15, 255, 3, 10, 0]))
        if k < 0.3:
            d.peek(seg, off)
        elif k < 0.55:
            e = d.poke(seg, off, rng.choice([0, 255, 0x55, 0xaa, 0x1b, rng.randint(0, 255), rng.randint(0, 255)]))
            d.peek(seg, off)
        elif k < 0.8:
            n = rng.choice([1, 2, 3, 40, 79, 80, 81, 160, 200, rng.randint(1, 600), rng.randint(1, 600), rng.choice([8000, 8192, 8300, 16384, 20000])])
            n = min(n, 65535 - off) or 1
            d.bsave(seg, off, n)
        else:
            n = rng.choice([1, 2, 3, 79, 80, 81, 161, rng.randint(1, 400), rng.randint(1, 400), rng.choice([8000, 8250, 16500])])
            n = min(n, 65535 - off) or 1
            pat = rng.choice([0, 1, 2])
            data = [((i * 37 + 11) & 255) if pat == 0 else (rng.randint(0, 255) if pat == 1 else rng.choice([0, 255, 0x55])) for i in range(n)]
            d.bload(seg, off, data)
        if rng.random() < 0.06:
            content(d, rng, text, 2)


def frame(d, rng, text):
    """Content on the first and last rows / columns of the page (a box frame, or text on rows 1 and 25)."""
    disp = d.s.impl.display
    if text:
        w = disp.mode.width
        d.draw('COLOR %d,%d: LOCATE 1,1: PRINT STRING$(%d,%d);: LOCATE 25,1: PRINT STRING$(%d,%d);: LOCATE 2,1' % (
            rng.randint(1, 15), rng.randint(0, 7), w, rng.randint(33, 254), w - 1, rng.randint(33, 254)))
    else:
        pw, ph = disp.mode.pixel_width, disp.mode.pixel_height
        d.draw('LINE (0,0)-(%d,%d),%d,B: LINE (1,%d)-(%d,1),%d' % (pw - 1, ph - 1, rng.choice([1, 3, 5, 7, 15]), ph - 2, pw - 2, rng.choice([1, 2, 3, 9, 14])))


def content(d, rng, text, n):
    disp = d.s.impl.display
    for _ in range(n):
        if text:
            d.draw('COLOR %d,%d: LOCATE %d,%d: PRINT "%s";' % (rng.randint(0, 31), rng.randint(0, 7), rng.randint(1, 24), rng.randint(1, disp.mode.width - 12),
                                                             ''.join(chr(rng.randint(33, 126)).replace('"', 'q') for _ in range(rng.randint(1, 12)))))
        else:
            pw, ph = disp.mode.pixel_width, disp.mode.pixel_height
            d.draw('LINE (%d,%d)-(%d,%d),%d%s' % (rng.randrange(pw), rng.randrange(ph), rng.randrange(pw), rng.randrange(ph), rng.randint(0, 15),
                                                rng.choice(['', '', ',B', ',BF'])))


KEEP = ('op', 'name', 'np', 'npr', 'fill', 'rows', 'rp', 'wm', 'seg', 'off', 'val', 'v', 'n', 'bytes')


def run(ctx):
    logging.disable(logging.WARNING)
    ctx.cov['rule'] = ('events = PEEK / POKE / BSAVE / BLOAD statements on a real Session (each POKE followed by a PEEK of the same byte); distinct by '
                       '(mode, operation, address, length, value); non-trivial = all of them')
    # 1. the laws of the address map on tiny layouts
    ctx.model_check('VideoMem_MC', cfg='VideoMem_MC.cfg', workers=4, require_actions=False)
    # 2. code -> spec
    d = Driver(ctx)
    rng = ctx.rng
    nops = ctx.pick(16, 200)
    combos = []
    for adapter, modes in ADAPTER_MODES.items():
        for m in modes:
            if m == 0:
                combos += [(adapter, ['SCREEN 0', 'WIDTH 80']), (adapter, ['SCREEN 0', 'WIDTH 40'])]
            else:
                combos.append((adapter, ['SCREEN %d' % m]))
    last = None
    for adapter, stmts in combos:
        if adapter != last:
            d.fresh(adapter)
            last = adapter
        d.set_mode(stmts)
        text = d.s.impl.display.mode.is_text_mode
        frame(d, rng, text)
        content(d, rng, text, ctx.pick(2, 20))
        if d.s.impl.display.mode.num_pages > 1:
            d.draw('SCREEN ,,1,0')
            frame(d, rng, text)
            content(d, rng, text, ctx.pick(1, 10))
            d.draw('SCREEN ,,0,0')
        random_ops(d, rng, nops, text)
    d.close()
    events = d.events
    # chunks start at mode events
    chunks, cur = [], []
    for e in events:
        if e['op'] == 'mode' and len(cur) >= ctx.pick(4000, 1500):
            chunks.append(cur)
            cur = []
        cur.append(e)
    if cur:
        chunks.append(cur)
    verdicts, base = [], 0
    for ch in chunks:
        vs = ctx.validate('VideoMem_Trace', [{k: e[k] for k in KEEP if k in e} for e in ch])
        verdicts += [(base + i, c) for (i, c) in vs]
        base += len(ch)
    ctx.cov['traces_validated_against_impl'] += len(combos)
    ctx.cov['modes_driven'] = sorted(set('%s/%s' % (e['adapter'], e['mode']) for e in events))
    stats = {}
    for e in events:
        stats[e['op']] = stats.get(e['op'], 0) + 1
        if e['op'] in ('peek', 'poke', 'bsave', 'bload'):
            ctx.count([e['mode'], e['op'], e['seg'], e['off'], e.get('n'), e.get('v'), len(e.get('bytes', ()))])
        if e.get('kind') == 'internal':
            ctx.reject('C34 internal error on %s' % e['stmt'], key={'clause': 'internal'}, data={'stmt': e['stmt']})
        elif e.get('ok') is False:
            # PEEK / POKE / BSAVE / BLOAD of the fragment (valid segment, offset 0..65535, value 0..255) must not be refused
            ctx.reject('C34 statement_failed (%s): %s adapter=%s mode=%s' % (e.get('kind'), e['stmt'][:120], e['adapter'], e['mode']),
                       key={'clause': 'statement_failed', 'kind': e.get('kind')}, data={'stmt': e['stmt']})
    ctx.cov['operations'] = stats
    for e in [x for x in events if x['op'] in ('peek', 'bsave')][:3] + [x for x in events if x['op'] == 'poke'][:2]:
        ctx.sample({k: (e[k] if k != 'bytes' else e[k][:16]) for k in ('stmt', 'mode', 'val', 'bytes') if k in e})
    for (i, v) in verdicts:
        e = events[i - 1]
        clause = v[0]
        key = {'clause': clause, 'layout': v[1] if len(v) > 1 else None}
        if len(v) >= 7:
            key['crosses_bank'] = bool(v[5])
            key['odd_start'] = bool(v[6])
        ctx.reject('C34 %s %s at %r adapter=%s mode=%s' % (clause, v[1:], e['stmt'][:90], e['adapter'], e['mode']),
                   key=key, data={'verdict': v, 'stmt': e['stmt'], 'adapter': e['adapter'], 'mode': e['mode'],
                                  'bytes': e.get('bytes', [])[:64], 'val': e.get('val')})
    for op in ('peek', 'poke', 'bsave', 'bload'):
        if not stats.get(op):
            raise core.MachineryError('vacuous: no %s event' % op)
