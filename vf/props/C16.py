"""C16 - protected programs disclose nothing in direct mode.
Spec Protect.tla; models Protect_MC*.cfg; trace spec Protect_Trace.tla."""
import os, re, signal, shutil, tempfile
from ..session import Sess
from .. import core, graph

LEVEL = 'model_checking'
META = {
    'technique': 'TLC exhaustive model check of Protect.tla (all action sequences <= 4) + replay of every transition of the model on real '
                 'Sessions with hide_protected (canary programs) + PEEK sweep + random histories, all validated by the trace spec Protect_Trace.tla',
    'text': 'Protect.tla states the property as the demanded-outcome relation Must (listed operation on a protected program => Illegal function call; '
            'SAVE ,P => succeeds; RUN => as the unprotected original) plus NoLeak. TLC checks NoLeak / flag invariants over all sequences of <= 4 of the 52 '
            'actions (with and without a chained statement, in every error-trap state) and emits every transition; a greedy edge cover executes ALL of them as '
            'direct-mode command lines on real sessions whose protected program embeds random canary strings (REM, DATA, string literals, variable names); after every '
            'action the output stream, files written, printer output, text screen and all string variables are scanned for any >= 3-byte canary fragment. '
            'EDIT (and the syntax-error edit prompt) are driven through Session.interact(). PEEK is swept over every address of the program area. '
            'Random longer histories are validated the same way.',
    'note': 'Trusted: TLC; projection of flag/trap from Program.protected, Interpreter.on_error/error_handle_mode (used only to re-synchronise). '
            'MERGE/CHAIN MERGE are driven with an ASCII file (a protected-format file fails earlier with Direct statement in file). Line numbers shown by error '
            'messages/TRON are not counted as disclosure. Files are scanned for >= 4-byte fragments (a 3-byte match in ciphertext is chance).',
}
META['text'] += ' The SAVE actions are also aimed at character devices (LPT1:, SCRN:), whose file objects do not echo the requested file type.'

ALPHA = b'QXZJKVWY'
BASE_FILES = ('PROT.BAS', 'PLAIN.BAS', 'MRG.BAS', 'BL.BAS', 'FL.BAS')
VARS = ['A!', 'B%', 'S!', 'X!', 'Y!', 'Z!', 'P!', 'T$']


class Timeout(Exception):
    pass


def _alarm(signum, frame):
    raise Timeout()


def canary(rng, n=8, lower=False):
    c = bytes(rng.choice(ALPHA) for _ in range(n))
    if lower:
        c = bytes(b + 32 if rng.random() < 0.5 else b for b in c)
    return c


def secret_program(rng):
    """A runnable program with canaries in every kind of place; returns (lines, canaries)."""
    cs = [canary(rng, 9, lower=True), canary(rng, 8, lower=True), canary(rng, 8), canary(rng, 10, lower=True), canary(rng, 7), canary(rng, 8, lower=True)]
    name = b'Z' + canary(rng, 7)                      # variable name (stored upper case)
    n1, n2, n3 = rng.randint(2, 99), rng.randint(-999, 999), rng.randint(1, 9)
    peek1, peek2 = 4717 + rng.randint(1, 40), 4717 + rng.randint(41, 90)
    lines = [
        b"10 REM " + cs[0] + b" secret comment",
        b'20 DATA ' + cs[1] + b',"' + cs[2] + b'",' + b'%d' % n1,
        b'25 DATA 3,1,4',
        b"30 DEF FNZ(X)=X*%d+1:' " % n3 + cs[5],
        b'40 A=%d:B%%=%d:T$="plain text"' % (n1, n2),
        b'50 RESTORE 25:READ X,Y,Z',
        b'60 FOR I=1 TO 3:S=S+I*A:NEXT',
        b'70 P=PEEK(%d)+PEEK(%d)' % (peek1, peek2),
        b'80 PRINT "R";S;B%;FNZ(2);X+Y+Z;P',
        b'90 IF S>0 THEN 95 ELSE PRINT "' + cs[3] + b'"',
        b'95 END',
        b'900 ' + name + b'=1:PRINT "' + cs[4] + b'"',
        b'910 GOTO 900',
        b'500 ON ERROR GOTO 600:END',
        b'600 E%=ERR:STOP',
    ]
    if rng.random() < 0.5:
        lines.insert(1, b'15 ' + rng.choice([b"' ", b'REM ']) + canary(rng, 12, lower=True))
        cs.append(lines[1].split(b' ', 2)[2])
    return lines, cs + [name]


def frags(canaries, n):
    out = set()
    for c in canaries:
        for i in range(len(c) - n + 1):
            out.add(c[i:i + n])
    return out


class World(object):
    """One secret program + one enforcing session + reference data from the unprotected original."""

    def __init__(self, ctx, rng):
        self.ctx = ctx
        self.rng = rng
        self.dir = tempfile.mkdtemp(prefix='c16_', dir=ctx.tmp)
        self.lpt = os.path.join(self.dir, 'lpt.txt')
        self.mount = os.path.join(self.dir, 'm')
        os.makedirs(self.mount)
        lines, self.canaries = secret_program(rng)
        self.f3, self.f4 = frags(self.canaries, 3), frags(self.canaries, 4)
        # reference: the unprotected original in an ordinary session (its files stay outside the test mount)
        ref = Sess(peek_values={})
        for l in lines:
            ref.ex(l)
        self.pimage = bytes(ref.impl.program.bytecode.getvalue())[:ref.impl.program.code_size]
        self.code_start = ref.impl.memory.code_start
        ref.ex('SAVE "PROT",P')
        r = ref.ex('RUN')
        self.refout = r[2] if r[0] == 'ok' else None
        self.refvars = [self._var(ref, v) for v in VARS]
        shutil.copy(os.path.join(ref.mount, 'PROT.BAS'), os.path.join(self.mount, 'PROT.BAS'))
        ref.close()
        if self.refout is None or any(f in self.refout for f in self.f3):
            raise core.MachineryError('reference run of the secret program failed or prints a canary: %r' % (r,))
        # the enforcing session
        self.s = Sess(mount=self.mount, hide_protected=True, peek_values={},
                      devices={b'C': self.mount, b'LPT1:': 'FILE:' + self.lpt})
        s = self.s
        for l in (b'10 PRINT "U"', b'20 U=U+1', b'30 END', b'40 DATA plain'):
            s.ex(l)
        self.uimage = bytes(s.impl.program.bytecode.getvalue())[:s.impl.program.code_size]
        s.ex('SAVE "PLAIN"')
        s.ex('DEF SEG=&HB800:BSAVE "BL",0,16:DEF SEG')
        s.ex('NEW')
        # an image of one zero byte addressed at the protection flag (DS:1450), made while nothing is protected: BLOAD of it
        # without an offset writes there (round-3 seeded change C16c left that form of BLOAD unguarded)
        s.ex('DEF SEG:BSAVE "FL",1450,1')
        s.ex('NEW')
        with open(os.path.join(self.mount, 'MRG.BAS'), 'wb') as f:
            f.write(b'15 REM merged line\r\n1000 REM another merged line\r\n\x1a')
        self.lpt_pos = 0
        self.reset = True
        self.events = []

    @staticmethod
    def _var(sess, name):
        try:
            return sess.s.get_variable(name)
        except BaseException as e:  # noqa
            return 'exc:' + type(e).__name__

    def close(self):
        self.s.close()
        shutil.rmtree(self.dir, ignore_errors=True)

    # ---- statements for the model's actions ----
    def stmt(self, a):
        rng, op, arg = self.rng, a['op'], a['arg']
        cs = self.code_start
        if op == 'List':
            t = rng.choice([b'LIST', b'LIST 10-100', b'LIST -50', b'LIST 10', b'LIST 20-', b'LIST .'])
        elif op == 'ListFile':
            t = rng.choice([b'LIST ,"LF"', b'LIST 10-30,"LF"', b'LIST ,"SCRN:"'])
        elif op == 'LList':
            t = rng.choice([b'LLIST', b'LLIST 10-', b'LLIST 20'])
        elif op == 'Edit':
            # EDIT needs an existing line (else Undefined line number comes first); input selection only
            have = sorted(n for n in self.s.impl.program.line_numbers if n < 65536) or [10]
            t = b'EDIT %d' % rng.choice(have[:3])
        elif op == 'SaveA':
            # also to character devices (the printer file does not echo the requested file type: round-2 seeded change C16b)
            t = rng.choice([b'SAVE "SA",A', b'SAVE "SA",a', b'SAVE "LPT1:",A', b'SAVE "SCRN:",A', b'SAVE "LPT1:SA",a'])
        elif op == 'SaveB':
            t = rng.choice([b'SAVE "SB"', b'SAVE "SB"', b'SAVE "LPT1:"', b'SAVE "LPT1:SB"'])
        elif op == 'SaveP':
            t = rng.choice([b'SAVE "SP",P', b'SAVE "SP",p'])
        elif op == 'Peek':
            addr = {'code': cs + rng.randint(0, len(self.pimage) - 1), 'flag': 1450, 'lowmem': rng.choice([0x30, 0x31, 0x358, 0x2c]),
                    'var': cs + len(self.pimage) + rng.randint(0, 40), 'video': rng.randint(0, 3999), 'rom': rng.randint(0, 65535)}[arg]
            form = rng.choice([b'PRINT PEEK(%d)', b'Q%=PEEK(%d):PRINT Q%', b'IF PEEK(%d)>=0 THEN PRINT "p";PEEK(%d)', b'PRINT CHR$(PEEK(%d));'])
            t = form.replace(b'%d', b'%d' % addr)
            if arg == 'video':
                t = b'DEF SEG=&HB800:' + t
            elif arg == 'rom':
                t = b'DEF SEG=&HF000:' + t
        elif op == 'BSave':
            t = rng.choice([b'BSAVE "BS",%d,%d' % (cs, len(self.pimage)), b'BSAVE "BS",%d,%d' % (cs - 8, len(self.pimage) + 16), b'DEF SEG=0:BSAVE "BS",%d,300' % (cs + 0x13d0)])
        elif op == 'Merge':
            t = b'MERGE "MRG"'
        elif op == 'ChainMerge':
            t = rng.choice([b'CHAIN MERGE "MRG"', b'CHAIN MERGE "MRG",1000', b'CHAIN MERGE "MRG",,ALL'])
        elif op == 'EnterLine':
            t = {'new': b'12 REM typed', 'replace': b'10 REM replaced', 'delete': b'10'}[arg]
        elif op == 'DeleteLines':
            # only ever removes the unreachable tail (also after RENUM, when these numbers no longer exist): the edits
            # the driver makes never turn dead code that prints a literal into live code
            t = rng.choice([b'DELETE 900-910', b'DELETE 910'])
        elif op == 'Renum':
            # whole-program renumbering only (a partial RENUM with a trap line outside the range runs into the RENUM/ON ERROR
            # KeyError known from C14, which is not this property's business)
            t = rng.choice([b'RENUM', b'RENUM 100', b'RENUM 1000,10,5'])
        elif op == 'Poke':
            t = b'POKE 1450,0' if arg == 'flag' else b'POKE %d,%d' % (cs + rng.randint(5, 30), rng.randint(0, 255))
        elif op == 'Bload':
            t = rng.choice([b'BLOAD "BL"', b'DEF SEG=&HB800:BLOAD "BL",0', b'BLOAD "FL"', b'BLOAD "FL"', b'DEF SEG:BLOAD "FL",1450'])
        elif op == 'ReadData':
            t = rng.choice([b'RESTORE:READ Q$:PRINT Q$', b'READ Q$,R$:PRINT R$;Q$'])
        elif op == 'LoadP':
            t = rng.choice([b'LOAD "PROT"', b'LOAD "PROT.BAS"'])
        elif op == 'ChainP':
            # the protected file reached through CHAIN (round-4 seeded change C16d dropped the protection of a chained ,P file)
            t = rng.choice([b'CHAIN "PROT"', b'CHAIN "PROT.BAS"'])
        elif op == 'LoadB':
            t = b'LOAD "PLAIN"'
        elif op == 'New':
            t = b'NEW'
        elif op == 'Run':
            t = b'RUN'
        elif op == 'RunArm':
            t = b'RUN 500'
        else:
            raise core.MachineryError('no statement for action %r' % (a,))
        if a['chain']:
            t = rng.choice([b'X9=1:', b'X9=1 : ', b'BEEP:', b'DEF SEG:', b'PRINT;:']) + t
        return t

    # ---- observation ----
    def observe(self):
        impl = self.s.impl
        p = impl.program
        img = bytes(p.bytecode.getvalue())[:p.code_size]
        prot = bool(p.protected)
        if img == self.pimage:
            prog, intact = 'P', True
        elif prot:
            prog, intact = 'P', False
        elif p.code_size <= 3:
            prog, intact = 'none', True
        elif img == self.uimage:
            prog, intact = 'U', True
        else:
            prog, intact = 'M', False
        it = impl.interpreter
        trap = 'off' if not it.on_error else ('handling' if it.error_handle_mode else 'armed')
        return {'prog': prog, 'intact': intact, 'prot': prot, 'trap': trap}

    def scan(self, out):
        """Where (if anywhere) a canary fragment became visible."""
        where = []
        if any(f in out for f in self.f3):
            where.append('output')
        try:
            screen = b''.join(b''.join(row) for row in self.s.s.get_chars())
        except BaseException:
            screen = b''
        if any(f in screen for f in self.f3):
            where.append('screen')
        for fn in sorted(os.listdir(self.mount)):
            if fn in BASE_FILES:
                continue
            path = os.path.join(self.mount, fn)
            if os.path.isfile(path):
                with open(path, 'rb') as f:
                    data = f.read()
                if any(fr in data for fr in self.f4):
                    where.append('file:' + fn)
                os.remove(path)
        try:
            st = self.s.impl.files.get_device(b'LPT1:').stream
            if st:
                st.flush()
        except BaseException:
            pass
        if os.path.exists(self.lpt):
            with open(self.lpt, 'rb') as f:
                f.seek(self.lpt_pos)
                data = f.read()
            self.lpt_pos += len(data)
            if any(fr in data for fr in self.f3):
                where.append('printer')
        impl = self.s.impl
        try:
            names = [n for n in list(impl.scalars) if n[-1:] == b'$'] + [n + b'()' for n in list(impl.arrays) if n[-1:] == b'$']
            for n in names:
                v = self.s.s.get_variable(n)
                vals = v if isinstance(v, list) else [v]
                flat = []
                while vals:
                    x = vals.pop()
                    if isinstance(x, list):
                        vals.extend(x)
                    elif isinstance(x, bytes):
                        flat.append(x)
                if any(fr in b'\xff'.join(flat) for fr in self.f3):
                    where.append('variable:' + n.decode('latin1'))
        except BaseException as e:  # noqa
            where.append('scan-exception:' + type(e).__name__)
        return where

    def interact(self, keys):
        s = self.s
        s.take()
        s.s.press_keys(keys)
        signal.signal(signal.SIGALRM, _alarm)
        signal.alarm(30)
        kind = 'ok'
        try:
            s.s.interact()
        except Timeout:
            raise core.MachineryError('interact() did not return for keys %r' % (keys,))
        except BaseException as e:  # noqa
            if type(e).__name__ != 'Exit':
                kind = 'internal:%s: %s' % (type(e).__name__, e)
        finally:
            signal.alarm(0)
        return kind, s.take()

    def do(self, a, sweep_addr=None, via_eval=False):
        s = self.s
        armed = self.observe()['trap'] == 'armed'
        text = self.stmt(a) if sweep_addr is None else (b'PEEK(%d)' % sweep_addr if via_eval else b'PRINT PEEK(%d)' % sweep_addr)
        peeked = None
        if a['op'] == 'Edit' and self.observe()['prot']:
            # EDIT only acts in the interactive loop: type it, clear whatever line is shown (Esc), leave with SYSTEM
            ik, out = self.interact(text.decode('latin1') + u'\r\x1bSYSTEM\r')
            from ..session import find_errors
            errs = find_errors(out)
            r = ('internal', ik[9:], out) if ik != 'ok' else (('err', errs[-1][0], out, errs[-1][1]) if errs else ('ok', None, out))
        elif via_eval:
            r = s.ev(text.decode())
            if r[0] == 'ok':
                peeked = r[1]
            r = r if r[0] != 'soft' else ('err', r[1], r[2])
        else:
            r = s.ex(text, budget=20000)
        out = r[2]
        kind, code = r[0], (r[1] if r[0] == 'err' else 0)
        if kind == 'cut':
            kind = 'ok'
        if kind == 'err' or kind == 'ok':
            if armed and re.search(br'Break in \d+', out):
                kind, code = 'trapped', self._var(s, 'E%')
                if not isinstance(code, int):
                    code = -1
        same = True
        if a['op'] == 'Run':
            same = bool(kind == 'ok' and out == self.refout and [self._var(s, v) for v in VARS] == self.refvars)
        where = self.scan(out)
        if where:
            # attribute the disclosure to this action only: wipe screen and the variables that now hold program text
            s.ex('CLS')
            for wv in where:
                if wv.startswith('variable:'):
                    try:
                        nm = wv.split(':', 1)[1]
                        if nm.endswith('()'):
                            s.ex('ERASE ' + nm[:-2])
                        else:
                            s.s.set_variable(nm, b'')
                    except BaseException:
                        pass
            if self.scan(b''):
                raise core.MachineryError('could not clean up after a disclosure: %r' % (self.scan(b''),))
        if peeked is not None:
            where.append('peek-value')            # a successful PEEK hands out a byte of memory
        if a['op'] in ('Peek', 'Bload') or b'DEF SEG' in text:
            s.ex('DEF SEG')
        e = {'a': dict(a), 'kind': kind if kind in ('ok', 'err', 'trapped', 'internal') else 'internal', 'code': code if isinstance(code, int) else -1,
             'same': same, 'leak': bool(where), 'where': where, 'reset': self.reset, 'obs': self.observe(),
             'stmt': text.decode('latin1'), 'out': out[:300].decode('latin1'), 'detail': r[1] if kind == 'internal' else None}
        self.reset = False
        self.events.append(e)
        return e


def run(ctx):
    import logging
    logging.getLogger().setLevel(logging.ERROR)       # 'Ignored POKE into program code' etc.
    rng = ctx.rng
    ctx.cov['rule'] = ('events = direct-mode command lines executed on an enforcing Session and judged by TLC (Protect_Trace); distinct by '
                       '(model state, action, statement text); non-trivial = actions on a protected program')
    # 1. design: all sequences of <= 4 actions; selftest: the as-coded reference (direct-mode READ) must leak
    ctx.model_check('Protect_MC', 'Protect_MC.cfg', workers=2, require_actions=False)
    r = ctx.tlc('Protect_MC', 'Protect_MC_ascoded.cfg', workers=1, expect_fail=True, tag='selftest: as-coded READ must violate NoLeak')
    if r['ok'] or 'NoLeak' not in str(r['error']):
        raise core.MachineryError('selftest: as-coded model did not violate NoLeak: %s' % r['error'])
    # 2. spec -> code: every transition of the model
    r = ctx.tlc('Protect_MC', 'Protect_MC_emit.cfg', workers=1, tag='emit')
    if not r['ok']:
        raise core.MachineryError('emit run failed: ' + str(r['error']))
    trans = graph.parse_transitions(r['out'])
    init = {'prog': 'none', 'intact': True, 'prot': False, 'trap': 'off'}
    walks, cov, total = graph.covering_walks(trans, init, max_len=ctx.pick(40, 25), rng=rng)
    ctx.cov['model_transitions'] = total
    ctx.cov['model_transitions_replayed'] = cov
    if cov < total or total < 400:
        raise core.MachineryError('edge cover incomplete: %d of %d' % (cov, total))
    events = []
    nworld = 0

    def finish(w):
        # the program must still run as the original after whatever was tried (only demanded while intact)
        ob = w.observe()
        if ob['prog'] == 'P':
            w.do({'op': 'Run', 'arg': '-', 'chain': False})
        events.extend(w.events)
        w.close()

    reps = ctx.pick(1, 3)
    for rep in range(reps):
        for wk in walks:
            w = World(ctx, rng)
            nworld += 1
            for t in wk:
                w.do(dict(t['a']))
            finish(w)
    # 3. PEEK swept over the whole program area (and beyond) of protected programs, as expression and as statement
    for k in range(ctx.pick(2, 12)):
        w = World(ctx, rng)
        nworld += 1
        w.do({'op': 'LoadP', 'arg': '-', 'chain': False})
        if k % 2:
            w.do({'op': 'RunArm', 'arg': '-', 'chain': False})
        lo, hi = w.code_start - 4, w.code_start + len(w.pimage) + 8
        for addr in range(lo, hi):
            stmt_form = (addr % 7 == 0) and not (k % 2)
            w.do({'op': 'Peek', 'arg': 'code', 'chain': False}, sweep_addr=addr, via_eval=not stmt_form)
        finish(w)
    # 4. code -> spec: random histories (biased to stay protected)
    acts = [t['a'] for t in trans]
    uniq = {}
    for a in acts:
        uniq[(a['op'], a['arg'], a['chain'])] = a
    acts = list(uniq.values())
    for h in range(ctx.pick(25, 600)):
        w = World(ctx, rng)
        nworld += 1
        w.do({'op': 'LoadP', 'arg': '-', 'chain': False})
        for step in range(rng.randint(5, 40)):
            a = dict(rng.choice(acts))
            if a['op'] in ('LoadB', 'New', 'DeleteLines', 'Renum') and rng.random() < 0.7:
                continue
            if w.observe()['prog'] != 'P' and rng.random() < 0.5:
                a = {'op': 'LoadP', 'arg': '-', 'chain': False}
            w.do(a)
        finish(w)
    # 5. the syntax-error edit prompt of the interactive loop (the line with the error is offered for editing)
    nprompt = 0
    for k in range(ctx.pick(3, 20)):
        w = World(ctx, rng)
        nworld += 1
        # a variant of the secret program with a syntax error in a line that carries a canary
        bad = Sess(peek_values={})
        lines, cans = secret_program(rng)
        k40 = [i for i, ln in enumerate(lines) if ln.startswith(b'40 ')][0]
        lines[k40] = b'40 A=1:X=)(:REM ' + cans[3]
        for ln in lines:
            bad.ex(ln)
        bad.ex('SAVE "PROT",P')
        shutil.copy(os.path.join(bad.mount, 'PROT.BAS'), os.path.join(w.mount, 'PROT.BAS'))
        w.pimage = bytes(bad.impl.program.bytecode.getvalue())[:bad.impl.program.code_size]
        bad.close()
        w.canaries = cans
        w.f3, w.f4 = frags(cans, 3), frags(cans, 4)
        w.do({'op': 'LoadP', 'arg': '-', 'chain': False})
        ik, out = w.interact(u'RUN\r\x1bSYSTEM\r')
        where = w.scan(out)
        nprompt += 1
        # recorded as an Edit action (the edit prompt is EDIT on the offending line): must show Illegal function call, no leak
        from ..session import find_errors
        errs = [c for c, _ in find_errors(out)]
        w.events.append({'a': {'op': 'Edit', 'arg': '-', 'chain': False}, 'kind': 'err' if 5 in errs else ('internal' if ik != 'ok' else 'ok'),
                         'code': 5 if 5 in errs else 0, 'same': True, 'leak': bool(where), 'where': where, 'reset': False, 'obs': w.observe(),
                         'stmt': 'RUN (syntax error -> edit prompt, interactive)', 'out': out[:300].decode('latin1'), 'detail': ik})
        events.extend(w.events)
        w.close()
    ctx.cov['worlds'] = nworld
    ctx.cov['edit_prompts_after_syntax_error'] = nprompt

    # 6. validation
    keep = ('a', 'kind', 'code', 'same', 'leak', 'reset', 'obs')
    verdicts = ctx.validate('Protect_Trace', [{k: e[k] for k in keep} for e in events])
    ctx.cov['traces_validated_against_impl'] += nworld
    nprot = 0
    byop = {}
    for e in events:
        ctx.count([e['a'], e['stmt'], e['kind'], e['code'], e['obs']], nontrivial=e['obs']['prot'])
        byop[e['a']['op']] = byop.get(e['a']['op'], 0) + 1
        nprot += e['obs']['prot']
    ctx.cov['events_by_op'] = byop
    ctx.cov['events_on_protected_program'] = nprot
    ctx.cov['refused_with_ifc'] = sum(1 for e in events if e['code'] == 5 and e['kind'] in ('err', 'trapped'))
    ctx.cov['trapped_outcomes'] = sum(1 for e in events if e['kind'] == 'trapped')
    ctx.cov['runs_same_as_original'] = sum(1 for e in events if e['a']['op'] == 'Run' and e['same'] and e['obs']['prog'] == 'P')
    for e in (events[2], events[len(events) // 3], events[-1]):
        ctx.sample({k: e[k] for k in ('a', 'stmt', 'kind', 'code', 'leak', 'obs', 'out')})
    for (i, clause) in verdicts:
        e = events[i - 1]
        ctx.reject('C16 %s at %r -> %s %s%s (state %s)' % (clause, e['stmt'], e['kind'], e['code'], (' leak via ' + ','.join(e['where'])) if e['where'] else '',
                                                           events[i - 2]['obs'] if i > 1 and not e['reset'] else 'init'),
                   key={'clause': clause, 'op': e['a']['op'], 'arg': e['a']['arg'], 'kind': e['kind'],
                        'via': sorted(set(w.split(':')[0] for w in e['where']))},
                   data={'event': e, 'history': [x['stmt'] for x in events[max(0, i - 10):i]]})
    if not ctx.violations and (ctx.cov['refused_with_ifc'] < 100 or ctx.cov['trapped_outcomes'] < 5 or ctx.cov['runs_same_as_original'] < 10):
        raise core.MachineryError('vacuous: %r' % ({k: ctx.cov[k] for k in ('refused_with_ifc', 'trapped_outcomes', 'runs_same_as_original')},))
    ctx.assumptions += ['canary fragments of >= 3 bytes (>= 4 in files) identify program text; line numbers in messages are not counted',
                        'the session is created with hide_protected=True (protection enforced)']
