"""C42 — PLAY. Spec Play.tla; model Play_MC (+ transition emitter); generator Play_Gen; trace spec Play_Trace."""
import json, re, types, datetime as _dt
from fractions import Fraction
from concurrent.futures import ThreadPoolExecutor
from ..session import Sess
from .. import core, graph

try:
    import queue as _queue
except ImportError:        # pragma: no cover
    import Queue as _queue

LEVEL = 'model_checking'
META = {
    'technique': 'TLC exhaustive model check of the PLAY command machine (Play.tla) + replay of every model transition as PLAY statements on a real Session + '
                 'TLC-generated random music strings executed on the real interpreter; every statement validated by the trace spec Play_Trace.tla',
    'text': 'Play.tla: voice state (octave, L, T, MN/ML/MS, MF/MB) and Run(state, commands) -> emitted tones <<note number, slot, gap, sounding>> as exact rationals, '
            'final state, error 5 for malformed strings; Render gives the music string; frequency table 440*2^((n-33)/12) in mHz. Play_MC expands every reachable voice '
            'state (504) with 40 commands (legal range ends and malformed forms; 20160 transitions), checks state/tone invariants and the octave clamp, and emits every '
            'transition; a greedy edge cover replays ALL of them, chunked into PLAY statements of 1-5 commands, on a real Session with a recording audio queue. '
            'Play_Gen produces random strings (notes with #,+,-, lengths, dots, N, L, T, O with literal and =variable; arguments, < >, MN ML MS MF MB, P, X substrings, '
            'malformed commands). Play_Trace re-renders each statement, re-runs it in the specification from the current voice state and compares error, number of device '
            'events, tone/silence pattern, exact durations (tone and gap), frequencies (mHz) and the projected voice state.',
    'note': 'Trusted: TLC, JSON plumbing. Time is virtual: pcbasic.basic.sound reads a harness clock that only advances inside EventQueues.wait, so foreground (MF) statements '
            'and full queues do not sleep. Observed durations (doubles) are mapped to the nearest rational with denominator <= 2.1e6 (the expected ones have denominators '
            '<= 1.05e6, so equality is decided exactly); frequencies are compared in mHz with +-1 tolerance. "duration ... followed by a gap of 1/8, 0, 1/4 of that duration" '
            'is read as: the gap is the silent tail of the note\'s time slot (tone + gap = slot). The V command is not generated.',
}
_STMT = re.compile(r'^<<"STMT", "(.*)">>\s*$')


class VClock(object):
    """Virtual time for pcbasic.basic.sound: advances only when the interpreter waits."""
    base = _dt.datetime(2026, 1, 1)

    def __init__(self):
        self.t = 0.0

    def install(self):
        import pcbasic.basic.sound as snd
        clock = self

        class FakeDateTime(object):
            @staticmethod
            def now():
                return VClock.base + _dt.timedelta(seconds=clock.t)
        snd.datetime = types.SimpleNamespace(datetime=FakeDateTime, timedelta=_dt.timedelta)


class Player(object):
    def __init__(self, clock):
        self.clock = clock
        self.s = Sess()
        self.q = _queue.Queue()
        self.s.impl.queues.audio = self.q
        qs = self.s.impl.queues
        self.waits = 0

        def wait():
            self.waits += 1
            clock.t += 0.25
            qs.check_events()
        qs.wait = wait

    def drain(self):
        raw = []
        while True:
            try:
                ev = self.q.get(False)
            except _queue.Empty:
                break
            if ev.event_type == 'tone':
                voice, freq, dur, loop, vol = ev.params
                fr = Fraction(float(dur)).limit_denominator(2100000)
                f = int(round(float(freq) * 1000))
                raw.append([f if abs(f) < 2 ** 31 else -2, fr.numerator, fr.denominator])
        return raw

    def state(self):
        try:
            snd = self.s.impl.sound
            v = snd._state[0]
            fill = {0.875: 'N', 1.0: 'L', 0.75: 'S'}.get(float(v.fill), '?')
            return {'oct': int(v.octave), 'len': int(round(1.0 / v.length)), 'tempo': int(round(240.0 / v.tempo)), 'fill': fill,
                    'fg': bool(snd._foreground)}
        except Exception:
            return None

    def reset_event(self, stmt=None):
        if stmt:
            self.s.ex(stmt)
        self.drain()
        e = {'op': 'reset'}
        st = self.state()
        if st:
            e['st'] = st
        return e

    def play(self, row):
        for v in row.get('vars', []):
            if 'n' in v:
                self.s.s.set_variable(v['name'], v['n'])
            else:
                self.s.s.set_variable(v['name'], v['text'].encode('ascii'))
        self.drain()
        r = self.s.ex('PLAY "%s"' % row['text'])
        obs = {'k': 'ok' if r[0] == 'ok' else 'err' if r[0] == 'err' else 'internal', 'code': r[1] if r[0] == 'err' else 0, 'raw': self.drain()}
        if obs['k'] == 'internal':
            obs['repr'] = repr(r[1])[:200]
        st = self.state()
        if st:
            obs['st'] = st
        return {'op': 'play', 'cmds': row['cmds'], 'sep': row['sep'], 'text': row['text'], 'obs': obs, '_row': row if 'vars' in row or 'sep' in row else None}

    def close(self):
        self.s.close()


class Player3(Player):
    """Three-voice PLAY on the Tandy dialect: one music string per voice, every voice with its own state."""

    def __init__(self, clock):
        self.clock = clock
        self.s = Sess(syntax='tandy', video='tandy')
        self.q = _queue.Queue()
        self.s.impl.queues.audio = self.q
        qs = self.s.impl.queues
        self.waits = 0

        def wait():
            self.waits += 1
            clock.t += 0.25
            qs.check_events()
        qs.wait = wait

    def drain3(self):
        raw = [[], [], []]
        while True:
            try:
                ev = self.q.get(False)
            except _queue.Empty:
                break
            if ev.event_type == 'tone':
                voice, freq, dur, loop, vol = ev.params
                f = int(round(float(freq) * 1000))
                if voice in (0, 1, 2) and f != 0 and float(dur) > 0:       # sounding tones only (alignment silences are dropped)
                    fr = Fraction(float(dur)).limit_denominator(2100000)
                    raw[voice].append([f if abs(f) < 2 ** 31 else -2, fr.numerator, fr.denominator])
        return raw

    def states(self):
        out = []
        snd = self.s.impl.sound
        for v in snd._state[:3]:
            fill = {0.875: 'N', 1.0: 'L', 0.75: 'S'}.get(float(v.fill), '?')
            out.append({'oct': int(v.octave), 'len': int(round(1.0 / v.length)), 'tempo': int(round(240.0 / v.tempo)), 'fill': fill})
        return out

    def reset3(self, stmt=None):
        if stmt:
            self.s.ex(stmt)
        self.drain3()
        return {'op': 'reset3', 'st': self.states()}

    def play3(self, rows):
        self.drain3()
        text = ','.join('"%s"' % r['text'] for r in rows)
        r = self.s.ex('PLAY ' + text)
        obs = {'k': 'ok' if r[0] == 'ok' else 'err' if r[0] == 'err' else 'internal', 'code': r[1] if r[0] == 'err' else 0,
               'raw': self.drain3(), 'st': self.states()}
        return {'op': 'play3', 'cmds': [r['cmds'] for r in rows], 'text': text, 'obs': obs}


def three_voice_arm(ctx, clock, events, stmts):
    """PLAY with three music strings (syntax=tandy): rows of the generator that ran without error in the single-voice arm and
    reference no variables are combined three at a time; Play3_Trace.tla re-runs every voice from its own state."""
    rng = ctx.rng
    ok_rows = [e for e in events if e['op'] == 'play' and e['obs']['k'] == 'ok' and e.get('_row') is not None
               and not e['_row'].get('vars') and 0 < len(e['_row']['text']) <= 70]
    if len(ok_rows) < 30:
        raise core.MachineryError('three-voice arm: too few well-formed rows (%d)' % len(ok_rows))
    p = Player3(clock)
    ev3 = [p.reset3()]
    n = ctx.pick(250, 3000)
    for i in range(n):
        if i and i % 40 == 0:
            ev3.append(p.reset3(rng.choice(['CLEAR', 'NEW'])))
        rows = [rng.choice(ok_rows)['_row'] for _ in range(3)]
        ev3.append(p.play3(rows))
    p.close()
    verdicts = ctx.validate('Play3_Trace', [{k: v for k, v in e.items() if k != 'text'} for e in ev3], name='play3')
    ctx.cov['three_voice_statements'] = n
    ctx.cov['three_voice_sounding_tones'] = sum(len(r) for e in ev3 if e['op'] == 'play3' for r in e['obs']['raw'])
    for (i, clause) in verdicts:
        e = ev3[i - 1]
        ctx.reject('C42 %s (three voices, syntax=tandy): PLAY %s -> %s raw=%s states=%s' % (
            clause, e['text'][:200], e['obs']['k'], [r[:4] for r in e['obs']['raw']], e['obs']['st']),
            key={'clause': clause, 'kind': 'three_voice'}, data={'event': e})
    if not ctx.cov['three_voice_sounding_tones']:
        raise core.MachineryError('vacuous: the three-voice arm recorded no tone')


def run(ctx):
    rng = ctx.rng
    ctx.cov['rule'] = ('events = PLAY statements executed on a real Session and judged by TLC; distinct by (music string, voice state before); '
                       'non-trivial = statements that emit at least one tone or must fail')
    # 1. design: exhaustive model check of the command machine, then every transition emitted (in parallel with the random generator)
    pool = ThreadPoolExecutor(max_workers=3)
    f_mc = pool.submit(ctx.model_check, 'Play_MC', 'Play_MC.cfg', 2, 3000, False)
    f_emit = pool.submit(ctx.tlc, 'Play_MC', 'Play_MC_emit.cfg', None, 1, (), 3000, None, False, False, False, 'emit')
    f_gen = pool.submit(ctx.tlc, 'Play_Gen', ctx.pick('Play_Gen.cfg', 'Play_Gen_big.cfg'), None, 1, ['-seed', str(ctx.seed + 1)], 3000, None, False, False, False, 'generate')
    r = f_emit.result()
    if not r['ok']:
        raise core.MachineryError('emit run failed: %s\n%s' % (r['error'], r['out'][-2000:]))
    trans = graph.parse_transitions(r['out'])
    init = {'oct': 4, 'len': 4, 'tempo': 120, 'fill': 'N', 'fg': True}
    walks, cov, total = graph.covering_walks(trans, init, max_len=60, rng=rng)
    ctx.cov['model_transitions'] = total
    ctx.cov['model_transitions_replayed'] = cov
    if cov < total or total == 0:
        raise core.MachineryError('edge cover incomplete: %d of %d' % (cov, total))
    g = f_gen.result()
    if not g['ok']:
        raise core.MachineryError('generator failed: %s\n%s' % (g['error'], g['out'][-2000:]))
    stmts = []
    for line in g['out'].splitlines():
        m = _STMT.match(line)
        if m:
            stmts.append(json.loads(m.group(1).encode().decode('unicode_escape')))
    if not stmts:
        raise core.MachineryError('generator printed no statements')
    ctx.cov['generated_statements'] = len(stmts)

    clock = VClock()
    clock.install()
    events, kinds = [], []
    # 2. spec -> code: every transition of the model, chunked into statements of 1..5 commands (a malformed command ends its statement)
    p = Player(clock)
    events.append(p.reset_event()); kinds.append('reset')
    first = True
    for w in walks:
        if not first:
            events.append(p.reset_event('CLEAR')); kinds.append('reset')
        first = False
        i = 0
        while i < len(w):
            n = rng.randint(1, 5)
            chunk = []
            while i < len(w) and len(chunk) < n:
                chunk.append(w[i]); i += 1
                if w[i - 1]['err']:
                    break
            # the text of each command comes from the model (Play!CmdText); the trace spec re-renders the statement and compares
            events.append(p.play({'cmds': [t['a'] for t in chunk], 'sep': '', 'text': ''.join(t['text'] for t in chunk)})); kinds.append('walk')
    nwalk = len(walks)
    # 3. generated random statements, in histories separated by CLEAR / NEW / RUN-less fresh sessions
    k = 0
    while k < len(stmts):
        how = rng.choice(['CLEAR', 'NEW', None, None])
        if how is None and rng.random() < 0.3:
            p.close()
            p = Player(clock)
            events.append(p.reset_event()); kinds.append('reset')
        elif how:
            events.append(p.reset_event(how)); kinds.append('reset')
        for row in stmts[k:k + rng.randint(5, 60)]:
            events.append(p.play(row)); kinds.append('gen')
            k += 1
    waits = p.waits
    p.close()
    three_voice_arm(ctx, clock, events, stmts)
    pool.shutdown()
    f_mc.result()
    ctx.cov['virtual_waits_last_session'] = waits
    ntones = 0
    for e in events:
        if e['op'] == 'play':
            ntones += len(e['obs']['raw'])
            ctx.count([e['text'], e['obs'].get('st')], nontrivial=bool(e['obs']['raw']) or e['obs']['k'] != 'ok')
    ctx.cov['device_events_observed'] = ntones
    if ntones == 0:
        raise core.MachineryError('vacuous: no tone reached the recording audio queue')
    plays = [e for e in events if e['op'] == 'play']
    for e in (plays[1], plays[len(plays) // 2], plays[-1]):
        ctx.sample({'text': e['text'], 'obs': e['obs']})
    # 4. TLC judges (batches keep the state across events, so each batch starts with a reset event)
    batches, cur = [], []
    for idx, e in enumerate(events):
        if e['op'] == 'reset' and len(cur) >= 4000:
            batches.append(cur); cur = []
        cur.append((idx, e))
    batches.append(cur)
    pool = ThreadPoolExecutor(max_workers=ctx.pick(2, 4))
    keep = ('k', 'code', 'raw', 'st')
    jobs = []
    for bi, b in enumerate(batches):
        evs = [{k2: v2 for k2, v2 in dict(e, obs={k_: v for k_, v in e['obs'].items() if k_ in keep}).items() if k2 != '_row'}
               if e['op'] == 'play' else e for _, e in b]
        jobs.append((b, pool.submit(ctx.validate, 'Play_Trace', evs, None, None, None, 3600, False, 'play%d' % bi)))
    ctx.cov['traces_validated_against_impl'] += nwalk + len(batches)
    import os, collections
    summary = collections.OrderedDict()
    for b, f in jobs:
        for (i, clause) in f.result():
            idx, e = b[i - 1]
            summary.setdefault((clause, kinds[idx]), []).append(e['text'])
            hist = [x['text'] for x in events[max(0, idx - 8):idx] if x['op'] == 'play']
            ctx.reject('C42 %s: PLAY "%s" -> %s %s raw=%s state=%s (after %s)' % (
                clause, e['text'], e['obs']['k'], e['obs']['code'] or '', e['obs']['raw'][:6], e['obs'].get('st'), hist[-3:]),
                key={'clause': clause, 'kind': kinds[idx], 'obs_kind': e['obs']['k']}, data={'event': e, 'history': hist})
    pool.shutdown()
    ctx.cov['rejections_by_clause'] = {'%s/%s' % k_: len(v) for k_, v in summary.items()}
    if os.environ.get('VERIF_DEBUG'):
        for k_, v in summary.items():
            print('  [debug] %5d %s e.g. %r' % (len(v), k_, v[:8]))
    ctx.assumptions += ['virtual clock installed in pcbasic.basic.sound (module attribute datetime) and EventQueues.wait',
                        'durations: nearest rational with denominator <= 2.1e6 to the observed double',
                        'voice state projected from Sound._state[0] / Sound._foreground (PlayState is named in the property anchors)']

