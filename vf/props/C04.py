"""C04 — floating-point error bounds. Spec: BigNat.tla (exact naturals / scaled numbers, self-checked by BigNat_MC),
MBFBig.tla (MBF decode), trace spec C04_Trace (the stated bounds, evaluated with exact arithmetic)."""
import os, json, time
from ..session import Sess, find_errors
from .. import core
from ..bigval import validate_parallel, mbf_bytes
from fractions import Fraction

LEVEL = 'exploration'
META = {
    'technique': 'TLA+ oracle with exact big-natural arithmetic (BigNat.tla/MBFBig.tla/C04_Trace.tla) evaluated by TLC on '
                 'recorded calls of the real interpreter; BigNat self-checked against native integers by TLC (BigNat_MC)',
    'text': 'Every recorded r = a op b (op in + - * /; a, b MBF singles/doubles given as bytes) of the real interpreter - '
            'pcbasic.basic.values.add/sub/mul/div on Single/Double objects of a live Session, with the float error handler both '
            'raising and soft-handling, plus a sample through Session.evaluate (CVS/CVD/MKS$/MKD$) - is judged by TLC with exact '
            'arithmetic: |r-exact| <= 2ulp(r) for + -, < 1ulp(r) for * and / (by cross-multiplication), Overflow exactly outside '
            'the representable range, Division by zero with the signed maximum, zero only below 2^-128, result type = wider '
            'operand type. Operand classes: random bit patterns, aligned/adjacent exponents, exponent gaps around the mantissa '
            'width, cancellation-prone pairs, special mantissas, both range ends, non-canonical zeros, mixed single/double. '
            'Input-quantified property: sampled, not exhaustive over 2^64 / 2^128 pairs.',
    'note': 'Trusted: TLC, JSON plumbing, the byte-level projection of Single/Double objects, console message -> error number. '
            'Interpretation: Overflow is demanded when |exact| >= 2^127, forbidden when |exact| <= largest representable '
            'number, either outcome accepted in between (where rounding decides).',
}
OPS = ('add', 'sub', 'mul', 'div')
SYM = {'add': '+', 'sub': '-', 'mul': '*', 'div': '/'}


# ---------------------------------------------------------------------------------------------------------------
# operand generators (inputs only; no semantics)

def _mant(rng, n):
    """n-1 mantissa bytes (sign bit included, random)."""
    k = n - 1
    c = rng.random()
    if c < 0.45:
        m = [rng.randrange(256) for _ in range(k)]
    elif c < 0.55:
        m = [0] * k                                       # power of two
    elif c < 0.65:
        m = [255] * k                                     # all ones
    elif c < 0.75:
        m = [0] * k                                       # one or two bits
        for _ in range(rng.randint(1, 2)):
            b = rng.randrange(8 * k - 1)
            m[b // 8] |= 1 << (b % 8)
    elif c < 0.85:
        m = [rng.choice((0, 255, 0x80, 0x7f, 1, 0xfe, 0x55, 0xaa)) for _ in range(k)]
    else:
        m = [rng.randrange(256) for _ in range(k)]        # random top, patterned tail
        t = rng.randint(1, max(1, k - 1))
        fill = rng.choice((0, 255))
        for i in range(t):
            m[i] = fill
        m[t - 1] = rng.choice((0x80, 0x7f, 0x81, 0, 255, 1, 0xfe))
    m[k - 1] = (m[k - 1] & 0x7f) | (0x80 if rng.random() < 0.5 else 0)
    return m


def _num(rng, n, exp=None):
    if exp is None:
        exp = rng.randint(1, 255)
    return _mant(rng, n) + [max(0, min(255, exp))]


def _sizes(rng):
    c = rng.random()
    return (4, 4) if c < 0.42 else (8, 8) if c < 0.84 else (4, 8) if c < 0.92 else (8, 4)


def gen_pair(rng, op):
    """One operand pair; returns (class name, a, b)."""
    na, nb = _sizes(rng)
    w = 8 * (max(na, nb) - 1)
    c = rng.random()
    if c < 0.18:
        return 'random', _num(rng, na), _num(rng, nb)
    if c < 0.36:
        ea = rng.randint(1, 255)
        return 'adjacent', _num(rng, na, ea), _num(rng, nb, ea + rng.randint(-2, 2))
    if c < 0.46:
        # gap around the mantissa width (where the smaller operand just drops out of an addition)
        ea = rng.randint(1, 255)
        gap = rng.choice((8, 9, 16, 23, 24, 25, 26, 31, 32, 33, 55, 56, 57, 58, 63, 64, w - 1, w, w + 1, w + 2))
        return 'gap', _num(rng, na, ea), _num(rng, nb, ea - gap if ea - gap >= 1 else ea + gap)
    if c < 0.62:
        # cancellation-prone: same exponent (or adjacent), nearly equal mantissas, signs chosen so that magnitudes subtract
        ea = rng.randint(1, 255)
        a = _num(rng, na, ea)
        if nb == na:
            b = list(a)
        elif nb > na:
            b = [0] * 4 + list(a)
        else:
            b = list(a[4:])
        d = rng.choice((0, 1, 1, 2, 3, 4, 7, 8, 255, 256, rng.randrange(1 << 12)))
        lo = 0 if nb <= na else rng.choice((0, 0, 4))       # perturb low bits (of the double part too)
        v = int.from_bytes(bytes(b[:nb - 2]), 'little') if nb > 2 else 0
        v = (v + rng.choice((-1, 1)) * (d << (8 * lo))) % (1 << (8 * (nb - 2)))
        b[:nb - 2] = list(v.to_bytes(nb - 2, 'little'))
        if nb > na and rng.random() < 0.5:
            b[rng.randrange(4)] = rng.randrange(256)
        b[nb - 1] = max(1, min(255, ea + rng.choice((0, 0, 0, 1, -1))))
        same = (a[na - 2] ^ b[nb - 2]) & 0x80 == 0
        want_same = (op == 'sub') if op in ('add', 'sub') else rng.random() < 0.5
        if same != want_same:
            b[nb - 2] ^= 0x80
        return 'cancel', a, b
    if c < 0.90:
        # both range ends
        if op in ('add', 'sub'):
            e = rng.choice((1, 1, 2, 3, 4, 253, 254, 255, 255))
            return 'extreme', _num(rng, na, e), _num(rng, nb, max(1, min(255, e + rng.randint(-3, 3))))
        ea = rng.randint(1, 255)
        t = rng.choice((-3, -2, -1, 0, 1, 2, 3, 4, 252, 253, 254, 255, 256, 257, 258, 259))
        # result exponent byte ~ ea + eb - 128 (mul), ea - eb + 128 (+1) (div)
        eb = (t - ea + 128) if op == 'mul' else (ea + 128 - t)
        if not 1 <= eb <= 255:
            ea = max(1, min(255, (t + 128) // 2 if op == 'mul' else 128 + (t - 128) // 2 + rng.randint(0, 1)))
            eb = (t - ea + 128) if op == 'mul' else (ea + 128 - t)
        return 'extreme', _num(rng, na, ea), _num(rng, nb, eb)
    if c < 0.96:
        # zeros, canonical and not (exponent byte 0, anything else)
        def zero(n):
            return _num(rng, n, 0) if rng.random() < 0.6 else [0] * n
        if rng.random() < 0.12:
            return 'zero', zero(na), zero(nb)
        if rng.random() < 0.5:
            return 'zero', _num(rng, na), zero(nb)
        return 'zero', zero(na), _num(rng, nb)
    # small integers and simple decimal fractions
    def small(n):
        v = rng.choice((1, 2, 3, 5, 7, 10, 100, 1000, Fraction(1, 2), Fraction(1, 4), Fraction(1, 10), Fraction(1, 1000), 12345,
                        16777215, 10 ** 7, Fraction(1, 10 ** 7), 15 * Fraction(10) ** 37, Fraction(1, 10 ** 38),
                        3 * Fraction(1, 10 ** 39)))
        return mbf_bytes(v * rng.choice((1, -1)), n)
    return 'simple', small(na), small(nb)


class Driver(object):
    """Performs r = a op b on the real interpreter and records one event per call."""

    def __init__(self):
        self.s = Sess()
        from pcbasic.basic.values import values as V, numbers as N
        self.N = N
        self.vals = self.s.impl.values
        self.handler = self.vals.error_handler
        self.fn = {'add': V.add, 'sub': V.sub, 'mul': V.mul, 'div': V.div}
        self.events = []

    def mk(self, b):
        return (self.N.Single if len(b) == 4 else self.N.Double)(None, self.vals).from_bytes(bytearray(b))

    def direct(self, op, a, b, soft, cls):
        """pcbasic.basic.values.<op> on Single/Double objects; float error handler raising or soft (message + maximum)."""
        s, N = self.s, self.N
        e = {'op': op, 'a': list(a), 'b': list(b), 'via': 'soft' if soft else 'raise', 'cls': cls}
        x, y = self.mk(a), self.mk(b)
        s.take()
        self.handler.suspend(not soft)
        try:
            r = self.fn[op](x, y)
        except BaseException as ex:  # noqa
            code = getattr(ex, 'err', None)
            if type(ex).__name__ == 'BASICError' and code is not None:
                e['k'], e['code'], e['r'] = 'err', int(code), []
            else:
                e['k'], e['code'], e['r'] = 'internal', 0, []
                e['detail'] = '%s: %s' % (type(ex).__name__, ex)
            self.handler.suspend(False)
            self.events.append(e)
            return
        self.handler.suspend(False)
        out = s.take() if soft else b''
        errs = find_errors(out) if out else []
        if not isinstance(r, N.Float):
            e['k'], e['code'], e['r'] = 'internal', 0, []
            e['detail'] = 'result is %r' % (r,)
        elif errs:
            e['k'], e['code'], e['r'] = 'soft', errs[0][0], list(r.to_bytes())
        else:
            e['k'], e['code'], e['r'] = 'val', 0, list(r.to_bytes())
        # operands must not be modified by the operator
        if list(x.to_bytes()) != list(a) or list(y.to_bytes()) != list(b):
            e['k'] = 'internal'
            e['detail'] = 'operand modified in place'
        self.events.append(e)

    def basic(self, op, a, b, cls):
        """Same call through the BASIC expression evaluator."""
        s = self.s
        s.s.set_variable('A$', bytes(bytearray(a)))
        s.s.set_variable('B$', bytes(bytearray(b)))
        wide = max(len(a), len(b))
        expr = '%s(%s(A$)%s%s(B$))' % ('MKS$' if wide == 4 else 'MKD$', 'CVS' if len(a) == 4 else 'CVD', SYM[op],
                                       'CVS' if len(b) == 4 else 'CVD')
        r = s.ev(expr)
        e = {'op': op, 'a': list(a), 'b': list(b), 'via': 'basic', 'cls': cls, 'expr': expr}
        if r[0] == 'ok' and isinstance(r[1], bytes):
            e['k'], e['code'], e['r'] = 'val', 0, list(bytearray(r[1]))
        elif r[0] == 'soft' and isinstance(r[3], bytes):
            e['k'], e['code'], e['r'] = 'soft', r[1], list(bytearray(r[3]))
        elif r[0] == 'err':
            e['k'], e['code'], e['r'] = 'err', r[1], []
        else:
            e['k'], e['code'], e['r'] = 'internal', 0, []
            e['detail'] = repr(r[:2])[:200]
        self.events.append(e)

    def close(self):
        self.s.close()


def judge(ctx, events):
    """TLC (C04_Trace) judges every event; rejected events are reported."""
    for e in events:
        ctx.count([e['op'], e['a'], e['b'], e['via']], nontrivial=(e['a'][-1] != 0 and e['b'][-1] != 0))
    outcome = {}
    for e in events:
        outcome[e['k']] = outcome.get(e['k'], 0) + 1
    ctx.cov['outcomes'] = outcome
    for i in sorted(set((0, 1, 2, 3, len(events) // 2, len(events) - 1))):
        if 0 <= i < len(events):
            ctx.sample({k: v for k, v in events[i].items()})
    # internal outcomes are rejections by themselves (no spec action explains an escaping exception)
    clean = [{'op': e['op'], 'a': e['a'], 'b': e['b'], 'k': e['k'] if e['k'] != 'internal' else 'err',
              'code': e['code'] if e['k'] != 'internal' else -1, 'r': e['r']} for e in events]
    verdicts = validate_parallel(ctx, 'C04_Trace', clean, jobs=ctx.pick(3, 8) if len(clean) > 2000 else 1)
    clauses = {}
    for (i, clause) in verdicts:
        e = events[i - 1]
        clauses[clause] = clauses.get(clause, 0) + 1
        key = {'clause': clause, 'op': e['op'], 'k': e['k'], 'code': e['code'], 'len_a': len(e['a']), 'len_b': len(e['b']),
               'exp_a': e['a'][-1], 'exp_b': e['b'][-1], 'via': e['via'], 'cls': e['cls'],
               'wide': max(len(e['a']), len(e['b']))}
        ctx.reject('C04 %s: %s %s %s -> %s %s %s%s' % (clause, hexs(e['a']), e['op'], hexs(e['b']), e['k'], e['code'] or '',
                                                       hexs(e['r']), ' [%s]' % e['detail'] if 'detail' in e else ''),
                   key=key, data=e)
    ctx.cov['rejected_by_clause'] = clauses
    ctx.assumptions += ['TLC evaluates BigNat.tla correctly (self-checked against native integers by BigNat_MC, limb base 8)',
                        'Single/Double objects are observed through their byte buffers (to_bytes)',
                        'error kind of soft-handled errors read from the console message']


RULE = ('one event per call r = a op b of the real interpreter, judged by TLC with exact arithmetic (C04_Trace); '
        'distinct = distinct (op, a bytes, b bytes, handler mode); non-trivial = events whose operands are both '
        'non-zero (a zero operand makes the exact result trivial)')


def run(ctx):
    ctx.cov['rule'] = RULE
    # oracle self-check: BigNat against native arithmetic, exhaustive below the bound, limb base 8
    if os.environ.get('VF_SKIP_ORACLE_SELFCHECK') == '1':
        # only for mutant testing of the implementation (the oracle itself is unchanged there)
        print('note: BigNat self-check skipped (VF_SKIP_ORACLE_SELFCHECK=1)')
        ctx.cov['bignat_selfcheck_states'] = 'skipped'
    else:
        r = ctx.model_check('BigNat_MC', ctx.pick('BigNat_MC.cfg', 'BigNat_MC_big.cfg'), workers=ctx.pick(4, 8),
                            require_actions=False)
        ctx.cov['bignat_selfcheck_states'] = r['distinct']
        if r['distinct'] < 1000:
            raise core.MachineryError('BigNat self-check explored only %d states' % r['distinct'])
    t0 = time.time()
    d = Driver()
    rng = ctx.rng
    classes = {}
    n_direct = ctx.pick(24000, 300000)
    n_basic = ctx.pick(1200, 12000)
    for i in range(n_direct):
        op = OPS[i % 4]
        cls, a, b = gen_pair(rng, op)
        classes[cls] = classes.get(cls, 0) + 1
        d.direct(op, a, b, soft=(i % 8) >= 6, cls=cls)
    for i in range(n_basic):
        op = OPS[i % 4]
        cls, a, b = gen_pair(rng, op)
        d.basic(op, a, b, cls)
    # the reproduced finding of the design phase and its neighbourhood, always included
    one_d = [0, 0, 0, 0, 0, 0, 0, 0x81]
    for ex in range(1, 140):
        tiny = [0x35, 0x4a, 0x0f, 0x99, 0x26, 0xc9, 0x22, ex]
        d.direct('mul', tiny, one_d, False, 'tiny_times_one')
        d.direct('mul', one_d, tiny, False, 'tiny_times_one')
    d.basic('mul', list(bytearray(d.s.ev('MKD$(1D-31)')[1])), one_d, 'tiny_times_one')
    d.close()
    ctx.cov['impl_wall_s'] = round(time.time() - t0, 1)
    ctx.cov['operand_classes'] = classes
    judge(ctx, d.events)


def replay(ctx, path):
    """Re-execute the rejected calls recorded in a replay file on the current tree and judge them again."""
    ctx.cov['rule'] = RULE
    with open(path) as f:
        doc = json.load(f)
    d = Driver()
    for v in doc.get('violations', []):
        e = v.get('data') or {}
        if not isinstance(e, dict) or e.get('op') not in OPS:
            continue
        if e.get('via') == 'basic':
            d.basic(e['op'], e['a'], e['b'], e.get('cls', 'replay'))
        else:
            d.direct(e['op'], e['a'], e['b'], e.get('via') == 'soft', e.get('cls', 'replay'))
    d.close()
    if not d.events:
        raise core.MachineryError('nothing to replay in %s' % path)
    judge(ctx, d.events)


def hexs(b):
    return ''.join('%02x' % x for x in b)
