"""C14 — RENUM renumbers lines and every reference consistently; traps follow; behaviour is kept.
Spec Renum.tla (on ProgramStore.tla); models Renum_MC*.cfg; trace spec Renum_Trace."""
import re
from .. import graph, core
from ..progstore import model_check, Store, lit, render, typed_line, rnd_chars, NOREF
from .C13 import BOUND, gen_text as gen_text13

LEVEL = 'model_checking'
META = {
    'technique': 'TLC exhaustive check of Renum.tla over every small program x argument triple (+ trap placements) + replay of model transitions '
                 'into the real interpreter + TLC trace validation of generated programs with random RENUM arguments, trap probes and before/after runs',
    'text': 'Renum.tla defines on the reference program (line -> text with reference slots) when RENUM new,old,inc must be refused (Illegal function call: '
            'increment < 1, or the moved block would not stay above the kept lines / below 65530) and its effect: numbers new, new+inc, ... in order, every slot '
            'pointing to an existing line rewritten through the map, slots to missing lines kept and reported per occurrence, error/key trap lines following '
            'their line, and the expected output of the next RUN = previous output with printed line numbers mapped (only when no reference dangles). '
            'TLC evaluates for EVERY program of <= 4/5 lines over {(0,)10,20,30,65529} with <= 2 references per line to {10,25,30} and every argument triple of '
            'the configuration: agreement with the acceptance condition and result of the implementation-shaped renum of ProgramStore.tla (listing, index = rescan, '
            'links), no line lost, order kept, kept dangling references, control-flow-graph isomorphism under the map, trap lines; with AsCoded=TRUE it finds the '
            'KeyError of interpreter.renum_ (selftest). Transitions of a small model (programs x traps x arguments) are replayed on a real Session; generated programs '
            '(references of every kind incl. ON..GOTO/GOSUB lists, RESTORE, RUN, RESUME, RETURN n, ERL comparisons, RENUM inside the program, ON ERROR GOTO 0) get '
            'random RENUMs; Renum_Trace.tla judges outcome, LIST, the Undefined-line reports, the trap lines (probed by a direct-mode ERROR and an injected key '
            'press under TRON) and the TRON/PRINT trace of RUN before vs after.',
    'note': 'Trusted: TLC; lexing of console output into text and line-number items ([n] of TRON, "in n" of messages, "L n" of the ERL prints of generated handlers). '
            'Behavioural equivalence is demanded only for programs without dangling references and whose only dependence on line numbers is through reference slots '
            'and ERL comparisons; runs are cut after a fixed number of statements. Event traps other than KEY are not probed (they would need wall-clock or hardware); '
            'the crash class covers them because any handler line outside the renumbered range raised the same KeyError. RENUM with "." arguments is not generated.',
}
META['text'] += ' The trap scenario includes RENUM given while the program is stopped (STOP) inside its error handler, continued with CONT before the probes.'

H_LINE = 'PRINT "E";ERR;"L";ERL:IF ERR THEN RESUME NEXT ELSE RETURN'
W_LINE = 'FOR I=1 TO 3:NEXT:END'
HE_LINE = 'PRINT "E";ERR;"L";ERL:RESUME NEXT'
HK_LINE = 'PRINT "K":RETURN'
HS_LINE = 'PRINT "E";ERR;"L";ERL:WHILE S:S=0:STOP:WEND:RESUME NEXT'     # as HE_LINE, but stops once inside the handler when S is set
X_LINE = 'S=1:ERROR 5:END'
_LEX = re.compile(br'\[(\d+)\]| in (\d+)|L (\d+) ')
_REPORT = re.compile(br'Undefined line (\d+) in (\d+)\r')
_TRAPPED = re.compile(br'E (\d+) L ')


def lex(out):
    """Console output -> items {'s': text, 'n': -1} / {'s': '', 'n': printed line number}."""
    items, pos = [], 0
    # line breaks are dropped: where the console wraps a long run of [n] depends on the number of digits
    out = out.replace(b'\xff', b'').replace(b'\r', b'').replace(b'\n', b'')
    for m in _LEX.finditer(out):
        pre = out[pos:m.start()]
        if m.group(2) is not None:
            pre += b' in'
        elif m.group(3) is not None:
            pre += b'L'
        if pre:
            items.append({'s': pre.decode('latin-1'), 'n': NOREF})
        items.append({'s': '', 'n': int(m.group(1) or m.group(2) or m.group(3))})
        pos = m.end()
    if out[pos:]:
        items.append({'s': out[pos:].decode('latin-1'), 'n': NOREF})
    return items


class RDriver(object):
    def __init__(self, ctx):
        self.ctx = ctx
        self.st = Store()
        self.events = []
        self.nloads = 0
        self.tag = {}

    def _ev(self, e, r):
        e['kind'] = r[0]
        if r[0] == 'internal':
            e['internal'] = r[1]
        e.update(self.tag)
        self.events.append(e)
        return e

    def load(self, lines):
        self.nloads += 1
        if self.nloads % 60 == 0:
            self.st.fresh()
        s = self.st.s
        r = s.ex('NEW')
        for (n, t) in lines:
            r2 = s.ex(typed_line(n, t))
            if r2[0] != 'ok':
                r = r2
        s.ex('TRON')
        e = {'op': 'load', 'lines': [{'n': n, 'text': t} for (n, t) in lines], 'ok': r[0] == 'ok',
             'obs': {'list': self.st.listing()}}
        self.nums = [p[0] for p in e['obs']['list']]
        return self._ev(e, r)

    def stmt(self, op, text, **a):
        r = self.st.s.ex(text)
        e = dict(a)
        e.update(op=op, stmt=text, ok=r[0] == 'ok', code=r[1] if r[0] == 'err' else 0)
        return self._ev(e, r)

    def onerror(self, n):
        return self.stmt('onerror', 'ON ERROR GOTO %d' % n, n=n)

    def onkey(self, k, n):
        return self.stmt('onkey', 'ON KEY(%d) GOSUB %d:KEY(%d) ON' % (k, n, k), k=k, n=n)

    def renum(self, new, old, inc, via=None):
        args = ['' if x == -1 else str(x) for x in (new, old, inc)]
        while args and args[-1] == '':
            args.pop()
        text = 'RENUM ' + ','.join(args) if via is None else 'GOTO %d' % via
        # input-class label for the report only (never used in a verdict): is an armed trap line below `old`?
        it = self.st.s.impl.interpreter
        armed = [it.on_error or 0] + [h.gosub or 0 for h in it._basic_events.all]
        below = any(0 < x < (0 if old == -1 else old) for x in armed)
        r = self.st.s.ex(text, budget=50)
        out = r[2] if len(r) > 2 and isinstance(r[2], bytes) else b''
        ok, code = r[0] == 'ok', (r[1] if r[0] == 'err' else 0)
        m = _TRAPPED.search(out)
        if m and r[0] in ('ok', 'cut'):
            # the refusal was caught by an active error trap (armed by a probe scenario or left armed by the program's last
            # RUN): the handler printed ERR (and may have resumed into the program, which is then cut by the statement budget)
            ok, code = False, int(m.group(1))
        e = {'op': 'renum', 'new': new, 'old': old, 'inc': inc, 'stmt': text if via is None else 'line %d: RENUM %s' % (via, ','.join(args)),
             'ok': ok, 'code': code, 'out': out.decode('latin-1'),
             'obs': {'list': self.st.listing(), 'reports': [[int(a), int(b)] for a, b in _REPORT.findall(out)]}}
        self.nums = [p[0] for p in e['obs']['list']]
        self._ev(e, r)
        e['trap_below_old'] = below
        return e

    def probe_err(self):
        r = self.st.s.ex('ERROR 77', budget=30)
        out = r[2] if len(r) > 2 and isinstance(r[2], bytes) else b''
        m = re.search(br'\[(\d+)\]', out)
        return self._ev({'op': 'probe_err', 'stmt': 'ERROR 77', 'out': out.decode('latin-1'),
                         'obs': {'landed': int(m.group(1)) if m else -1}}, r)

    def probe_key(self, k, at, budget=3):
        from pcbasic.basic.base import signals, scancode
        s = self.st.s
        cnt = [0]

        def hook(interp):
            cnt[0] += 1
            if cnt[0] == 2:
                s.impl.queues.inputs.put(signals.Event(signals.KEYB_DOWN, (u'\0' + chr(0x3a + k), getattr(scancode, 'F%d' % k), [])))
        s.hooks.append(hook)
        try:
            r = s.ex('GOTO %d' % at, budget=budget)
        finally:
            s.hooks.remove(hook)
        out = r[2] if len(r) > 2 and isinstance(r[2], bytes) else b''
        m = re.search(br'\[(\d+)\]', out)
        return self._ev({'op': 'probe_key', 'k': k, 'at': at, 'stmt': 'GOTO %d + F%d' % (at, k), 'out': out.decode('latin-1'),
                         'obs': {'landed': int(m.group(1)) if m else -1}}, ('ok' if r[0] == 'cut' else r[0],) + tuple(r[1:]))

    def run(self, budget=100):
        r = self.st.s.ex('RUN', budget=budget)
        out = r[2] if len(r) > 2 and isinstance(r[2], bytes) else b''
        self.st.s.ex('TRON')
        return self._ev({'op': 'run', 'stmt': 'RUN', 'obs': {'trace': lex(out)}}, ('ok' if r[0] in ('cut', 'err') else r[0],) + tuple(r[1:]))

    def close(self):
        self.st.close()


# ---------------------------------------------------------------- generators
def line_numbers(rng, k):
    style = rng.random()
    if style < 0.4:
        start, step = rng.choice([1, 5, 10, 100, 1000]), rng.choice([1, 2, 5, 10, 10, 100])
        ns = [start + i * step for i in range(k)]
    elif style < 0.7:
        ns = rng.sample(range(1, 400), k)
    else:
        ns = [rng.choice(BOUND[1:] + [rng.randint(1, 65529)]) for _ in range(k)]
        ns += rng.sample(range(1, 65529), k)
    return sorted(set(n for n in ns if 0 < n <= 65529))[:k]


def gen_ref_text(rng, nums, missing=0.25):
    """Statements with references of every kind (form LIST prints)."""
    def tg():
        if nums and rng.random() >= missing:
            return rng.choice(nums)
        return rng.choice(BOUND[1:] + [rng.randint(1, 65529)])
    k = rng.random()
    if k < 0.30:
        return gen_text13(rng, nums)
    if k < 0.40:
        return [{'s': rng.choice(['RUN ', 'RESUME ', 'RETURN ', 'ON ERROR GOTO ', 'RESTORE ', 'X=1:GOTO ', 'IF X THEN GOSUB ']), 'n': tg()}]
    if k < 0.50:
        return [{'s': 'IF ERL%s' % rng.choice(['=', '<>', '<', '>']), 'n': tg()}, {'s': ' THEN ', 'n': tg()}, {'s': ' ELSE PRINT "x":GOTO ', 'n': tg()}]
    if k < 0.58:
        return [{'s': 'GOSUB ', 'n': tg()}, {'s': ':GOTO ', 'n': tg()}]
    if k < 0.64:
        return lit(rng.choice(['ON ERROR GOTO 0', 'RESUME NEXT', 'RESUME', 'RETURN', 'PRINT ERL', 'X=ERL', 'ERROR 5', 'KEY(1) ON']))
    if k < 0.72:
        return [{'s': 'ON KEY(%d) GOSUB ' % rng.randint(1, 10), 'n': tg()}]
    if k < 0.80:
        return [{'s': 'IF X=%d THEN ' % rng.randint(0, 9), 'n': tg()}, {'s': ' ELSE IF Y THEN ', 'n': tg()}, {'s': ' ELSE ', 'n': tg()}]
    if k < 0.86:
        return [{'s': 'LIST ', 'n': tg()}, {'s': '-', 'n': tg()}]
    if k < 0.92:
        return [{'s': 'ON ERROR GOTO ', 'n': tg()}, {'s': ':ERROR 5:ON ERROR GOTO 0:GOTO ', 'n': tg()}]
    return [{'s': 'PRINT "%s":GOTO ' % rnd_chars(rng, 5, 'abcdefgh XYZ'), 'n': tg()}]


def renum_args(rng, nums, legal=0.7):
    c = rng.random()
    if c < 0.12:
        return (-1, -1, -1)
    old = rng.choice(nums + [-1]) if (nums and rng.random() < 0.8) else rng.choice([-1, rng.randint(0, 65529)] + BOUND)
    o = 0 if old == -1 else old
    kept = [x for x in nums if x < o]
    moved = [x for x in nums if x >= o]
    if rng.random() < legal:
        lo = (max(kept) + 1) if kept else 0
        new = min(65529, lo + rng.choice([0, 0, 1, 9, 10, 100, 1000, 20000]))
        room = (65529 - new) // max(1, len(moved) - 1) if len(moved) > 1 else 65529
        inc = rng.choice([1, 2, 5, 10, 10, 100, max(1, room), max(1, room + 1), max(1, room - 1)])
        if rng.random() < 0.15:
            new = min(65529, 65529 - inc * (len(moved) - 1) + rng.choice([-1, 0, 1])) if moved else new
            new = max(new, 0)
    else:
        new = rng.choice([-1] + BOUND + [rng.randint(0, 65529)] + ([max(kept), max(kept) + 1, max(kept) - 1] if kept else []))
        inc = rng.choice([-1, 0, 1, 10, 1000, 30000, 65529])
    return (max(-1, min(65529, new)), old, -1 if (inc == 10 and rng.random() < 0.5) else min(65529, inc))


def behaviour_program(rng):
    """A program whose references all resolve and that depends on line numbers only through reference slots and ERL."""
    nums = []
    while len(nums) < 5:
        nums = line_numbers(rng, rng.randint(5, 14))
    k = len(nums)
    # the error handler and the subroutine are the last two lines, behind an END: they are entered only by a trap / GOSUB
    # (falling into a handler with ERL = 0 would make `ERL < n` depend on a number that is not a line)
    handler, sub, endline = nums[-2], nums[-1], nums[-3]
    body = nums[:-3]
    data_line = rng.choice(body)
    tags = iter(['T' + a + b for a in 'abcdefgh' for b in 'klmnopqr'])

    def tg():
        return rng.choice(body)
    prog = []
    for n in nums:
        if n == handler:
            c = rng.random()
            if c < 0.4:
                t = lit('PRINT "E";ERR;"L";ERL:RESUME NEXT')
            elif c < 0.7:
                t = [{'s': 'PRINT "E";ERR;"L";ERL:IF ERL=', 'n': tg()}, {'s': ' THEN RESUME ', 'n': tg()}, {'s': ' ELSE RESUME NEXT', 'n': NOREF}]
            else:
                t = [{'s': 'PRINT "E";ERR;"L";ERL:IF ERL<', 'n': tg()}, {'s': ' THEN PRINT "lt":RESUME NEXT ELSE RESUME ', 'n': tg()}]
        elif n == sub:
            t = lit('PRINT "%s":C=C+1:RETURN' % next(tags)) if rng.random() < 0.8 else \
                [{'s': 'PRINT "%s":C=C+1:IF C>3 THEN RETURN ' % next(tags), 'n': tg()}, {'s': ' ELSE RETURN', 'n': NOREF}]
        elif n == endline:
            t = lit('END')
        elif n == data_line:
            t = lit('DATA 11,22,33,44')
        else:
            c = rng.random()
            tag = next(tags)
            if c < 0.14:
                t = lit('PRINT "%s":X=X+1' % tag)
            elif c < 0.26:
                t = [{'s': 'X=X+1:IF X>%d THEN ' % rng.randint(1, 6), 'n': tg()}, {'s': ' ELSE ', 'n': tg()}]
            elif c < 0.36:
                t = [{'s': 'GOSUB ', 'n': sub}, {'s': ':PRINT "%s"' % tag, 'n': NOREF}]
            elif c < 0.46:
                t = [{'s': 'X=X+1:ON X MOD 4 GOTO ', 'n': tg()}, {'s': ',', 'n': tg()}, {'s': ',', 'n': tg()}]
            elif c < 0.52:
                t = [{'s': 'ON X MOD 3 GOSUB ', 'n': sub}, {'s': ',', 'n': sub}, {'s': ':PRINT "%s"' % tag, 'n': NOREF}]
            elif c < 0.62:
                t = [{'s': 'ON ERROR GOTO ', 'n': handler}, {'s': ':PRINT "%s"' % tag, 'n': NOREF}]
            elif c < 0.72:
                t = lit('ERROR %d:PRINT "%s"' % (rng.choice([5, 11, 53, 200]), tag))
            elif c < 0.80:
                t = [{'s': 'RESTORE ', 'n': data_line}, {'s': ':READ D:PRINT "D";D', 'n': NOREF}]
            elif c < 0.85:
                t = [{'s': 'Y=Y+1:IF Y<3 THEN GOTO ', 'n': tg()}, {'s': ' ELSE IF Y<5 THEN GOSUB ', 'n': sub}]
            elif c < 0.89:
                t = lit('ON ERROR GOTO 0:PRINT "%s"' % tag)
            elif c < 0.92:
                t = [{'s': 'Z=Z+1:IF Z>2 THEN END ELSE RUN ', 'n': tg()}]
            elif c < 0.95:
                t = lit('READ D:PRINT "D";D')
            else:
                t = [{'s': 'PRINT "%s":GOTO ' % tag, 'n': tg()}]
        prog.append((n, t))
    return prog


KEEP = ('op', 'lines', 'n', 'k', 'at', 'new', 'old', 'inc', 'ok', 'code', 'kind', 'obs')


def run(ctx):
    rng = ctx.rng
    ctx.cov['rule'] = ('events = statements/probes executed on a real Session (program entry, trap arming, RENUM, error/key probe, RUN); distinct by the normalised event; '
                       'non-trivial = RENUM events and the probes/runs that follow one')
    # 1. design: every small program x every argument triple; trap placements; the coded trap lookup must fail the selftest
    model_check(ctx, 'Renum_MC', ctx.pick('Renum_MC.cfg', 'Renum_MC_big.cfg'), workers=ctx.pick(6, 8), timeout=6000)
    model_check_traps = ctx.tlc('Renum_MC', 'Renum_MC_traps.cfg', workers=2, tag='model_check_traps')
    ctx.cov['states'] += model_check_traps['distinct']
    if not model_check_traps['ok']:
        ctx.reject('TLC model check Renum_MC_traps failed: %s' % model_check_traps['error'], key={'clause': 'model_check'},
                   data=model_check_traps['out'][-3000:])
    r = ctx.tlc('Renum_MC', 'Renum_MC_ascoded.cfg', workers=1, tag='selftest_ascoded')
    if r['ok'] or 'NoCrash' not in (r['error'] or ''):
        raise core.MachineryError('selftest: TLC did not find the trap-lookup failure in the as-coded model: %s' % r['error'])
    # 2. spec -> code: transitions of the small model (programs x trap placements x arguments)
    r = ctx.tlc('Renum_MC', 'Renum_MC_emit.cfg', workers=1, tag='emit')
    if not r['ok']:
        raise core.MachineryError('emit run failed: %s\n%s' % (r['error'], r['out'][-2000:]))
    trans = graph.parse_transitions(r['out'])
    ctx.cov['model_transitions'] = len(trans)
    if len(trans) < 1000:
        raise core.MachineryError('emit produced only %d transitions' % len(trans))
    if ctx.quick():
        trans = rng.sample(trans, 450)
    ctx.cov['model_transitions_replayed'] = len(trans)
    d = RDriver(ctx)
    for t in trans:
        a = t['a']
        lines = [(p[0], p[1]) for p in t['from']]
        below = any(h and h < (0 if a['old'] == -1 else a['old']) for h in [t['onerr']] + list(t['evt']))
        d.tag = {'trap_below_old': below, 'model_must': a['must'], 'src': 'replay'}
        d.load(lines)
        if t['onerr']:
            d.onerror(t['onerr'])
        if t['evt'][0]:
            d.onkey(1, t['evt'][0])
        e = d.renum(a['new'], a['old'], a['inc'])
        if e['kind'] == 'internal':
            continue
        d.probe_err()
        if d.nums:
            d.probe_key(1, d.nums[0])
    nreplay = len(trans)
    # 3a. code -> spec: structure, acceptance, reports on programs with references of every kind
    nprog = ctx.pick(110, 1000)
    for p in range(nprog):
        k = rng.randint(1, 12)
        nums = line_numbers(rng, k)
        if rng.random() < 0.1:
            nums = [0] + nums
        lines = []
        for n in nums:
            t = gen_ref_text(rng, nums)
            for g in t:
                # RESUME 0 / ON ERROR GOTO 0 do not refer to a line 0 (scenario 3d covers RESUME 0 next to a line 0)
                if g['n'] == 0 and (g['s'].endswith('RESUME ') or g['s'].endswith('ON ERROR GOTO ')):
                    g['n'] = 1
            lines.append((n, t))
        # 0 after ON ERROR GOTO / RESUME never denotes a line: a handler renumbered to 0 reads as "trapping off" (GW quirk, notes 3a);
        # programs with such references get no line 0, neither entered nor by RENUM 0
        zero_sensitive = any(g['n'] != NOREF and (g['s'].endswith('ON ERROR GOTO ') or g['s'].endswith('RESUME ')) for (_, t) in lines for g in t)
        if zero_sensitive and lines and lines[0][0] == 0:
            lines = lines[1:]
            nums = nums[1:]
        inprog = rng.random() < 0.12 and len(nums) >= 2
        d.tag = {'trap_below_old': False, 'src': 'structure'}
        def nozero(na):
            return ((1,) + tuple(na[1:])) if (zero_sensitive and na[0] == 0) else na
        if inprog:
            na = nozero(renum_args(rng, nums))
            i = rng.randrange(len(lines))
            segs, first = [], True
            for x in na:
                segs.append({'s': 'RENUM ' if first else ',', 'n': x})
                first = False
            while segs and segs[-1]['n'] == -1:
                segs.pop()
            if not segs:
                segs = [{'s': 'RENUM', 'n': -1}]
            lines[i] = (lines[i][0], segs)
            d.load(lines)
            d.renum(na[0], na[1], na[2], via=lines[i][0])
        else:
            d.load(lines)
        for _ in range(rng.randint(1, 4)):
            if not d.nums:
                break
            na = nozero(renum_args(rng, d.nums, legal=0.6))
            e = d.renum(*na)
            if e['kind'] == 'internal':
                break
    # 3b. traps follow their lines
    ntrap = ctx.pick(90, 700)
    inh_runs = {}
    for p in range(ntrap):
        k = rng.randint(4, 10)
        nums = line_numbers(rng, k)
        if len(nums) < 4:
            continue
        # variant "handler in progress": the program is stopped inside its error handler (STOP before RESUME) when RENUM is given;
        # CONT then finishes the handler and the usual probes follow (round-2 seeded change C14b skipped the trap line in that mode)
        inh = len(nums) >= 5 and rng.random() < 0.4
        hi = sorted(rng.sample(range(len(nums)), 5 if inh else 4))
        roles = dict(zip(rng.sample(hi, len(hi)), ['h1', 'h2', 'h3', 'w'] + (['x'] if inh else [])))
        lines, role_line = [], {}
        for i, n in enumerate(nums):
            if i in roles:
                role_line[roles[i]] = n
                lines.append((n, lit({'w': W_LINE, 'h1': HS_LINE if inh else HE_LINE, 'x': X_LINE}.get(roles[i], HK_LINE))))
            else:
                lines.append((n, gen_text13(rng, nums)))
        d.tag = {'src': 'traps', 'trap_below_old': False}
        d.load(lines)
        armed = {}
        if inh or rng.random() < 0.85:
            armed['err'] = role_line['h1']
            d.onerror(armed['err'])
        for key in (1, 2):
            if rng.random() < 0.6:
                armed[key] = role_line[rng.choice(['h2', 'h3'])]
                d.onkey(key, armed[key])
        for _ in range(rng.randint(1, 3)):
            na = renum_args(rng, d.nums, legal=0.8)
            if na[0] == 0:
                # a handler cannot live on line 0 (ON ERROR GOTO 0 / ON KEY() GOSUB 0 switch the trap off): outside the fragment
                na = (1,) + na[1:]
            o = 0 if na[1] == -1 else na[1]
            d.tag = {'src': 'traps', 'trap_below_old': any(v < o for v in armed.values())}
            if inh:
                r0 = d.st.s.ex('GOTO %d' % role_line['x'], budget=30)         # ERROR 5 -> handler -> STOP inside the handler
                stopped = b'Break in' in (r0[2] if len(r0) > 2 and isinstance(r0[2], bytes) else b'')
                d.tag['in_handler'] = stopped
                inh_runs[stopped] = inh_runs.get(stopped, 0) + 1
            e = d.renum(*na)
            if e['kind'] == 'internal':
                break
            if inh:
                d.st.s.ex('CONT', budget=30)                                  # WEND:RESUME NEXT -> END: the handler is finished
                inh = False
            d.probe_err()
            # the wait line is found again by its text in the observed listing
            w = [p_[0] for p_ in e['obs']['list'] if p_[1] == W_LINE]
            if w:
                for key in (1, 2):
                    d.probe_key(key, w[0], budget=40)    # long enough for the handler to RETURN and re-arm
            armed = {}      # where the traps are now is the model's business; the class flag is only set for the first RENUM
            if not e['ok']:
                continue
    # 3c. behaviour before / after
    nbeh = ctx.pick(70, 500)
    for p in range(nbeh):
        lines = behaviour_program(rng)
        d.tag = {'src': 'behaviour', 'trap_below_old': False}
        d.load(lines)
        d.run()
        for _ in range(rng.randint(1, 2)):
            na = renum_args(rng, d.nums, legal=0.92)
            if na[0] == 0:
                na = (1,) + tuple(na[1:])      # no line 0: `RESUME 0` / `ON ERROR GOTO 0` would stop denoting a line (notes 3a)
            e = d.renum(*na)
            if e['kind'] == 'internal':
                break
            d.run()
    # 3d. RESUME 0 in a program that has a line 0 (the 0 is not a reference)
    for p in range(ctx.pick(3, 30)):
        nums = [0] + line_numbers(rng, rng.randint(3, 6))
        h = nums[-1]
        lines = [(0, lit('REM ' + rnd_chars(rng, 4, 'abcdef')))]
        for n in nums[1:-1]:
            lines.append((n, rng.choice([lit('X=X+1:PRINT "Tx";X'), [{'s': 'ON ERROR GOTO ', 'n': h}], lit('IF X<3 THEN ERROR 5')])))
        lines[1] = (nums[1], [{'s': 'ON ERROR GOTO ', 'n': h}])
        lines.append((h, lit('PRINT "E";ERR;"L";ERL:X=X+1:RESUME 0')))
        d.tag = {'src': 'resume0', 'trap_below_old': False, 'resume0_line0': True}
        d.load(lines)
        d.run(budget=60)
        d.renum(*rng.choice([(-1, -1, -1), (5, -1, 5), (100, 0, 10)]))
        d.run(budget=60)
    d.close()
    events = d.events
    # validate in batches that start with a program load
    verdicts = []
    starts = [i for i, e in enumerate(events) if e['op'] == 'load'] + [len(events)]
    lo = 0
    for k in range(1, len(starts)):
        if starts[k] - lo >= 5000 or k == len(starts) - 1:
            part = events[lo:starts[k]]
            vs = ctx.validate('Renum_Trace', [{q: e[q] for q in KEEP if q in e} for e in part], name='c14')
            verdicts += [(lo + j, c) for (j, c) in vs]
            lo = starts[k]
    ctx.cov['traces_validated_against_impl'] += nreplay + nprog + ntrap + nbeh
    ren = [e for e in events if e['op'] == 'renum']
    ctx.cov['renum_events'] = len(ren)
    ctx.cov['renum_accepted'] = sum(1 for e in ren if e['ok'])
    ctx.cov['renum_refused_ifc'] = sum(1 for e in ren if not e['ok'] and e['code'] == 5)
    ctx.cov['renum_with_reports'] = sum(1 for e in ren if e['obs']['reports'])
    ctx.cov['renum_in_program'] = sum(1 for e in ren if e['stmt'].startswith('line '))
    ctx.cov['probes'] = sum(1 for e in events if e['op'].startswith('probe'))
    ctx.cov['runs'] = sum(1 for e in events if e['op'] == 'run')
    ctx.cov['renum_while_stopped_in_error_handler'] = inh_runs.get(True, 0)
    ctx.cov['renum_handler_variant_not_stopped'] = inh_runs.get(False, 0)
    ctx.cov['events_by_source'] = {}
    for e in events:
        ctx.cov['events_by_source'][e.get('src')] = ctx.cov['events_by_source'].get(e.get('src'), 0) + 1
        ctx.count([e['op'], e.get('lines'), e.get('new'), e.get('old'), e.get('inc'), e.get('n'), e.get('k'), e.get('ok'), e.get('obs')],
                  nontrivial=e['op'] != 'load')
    for e in (ren[3], ren[len(ren) // 2], ren[-1]):
        ctx.sample({'stmt': e['stmt'], 'ok': e['ok'], 'code': e['code'], 'list': e['obs']['list'][:5], 'reports': e['obs']['reports'][:3]})
    for (i, clause) in verdicts:
        e = events[i - 1]
        j = i - 1
        while j > 0 and events[j]['op'] != 'load':
            j -= 1
        prog = [typed_line(x['n'], x['text']) for x in events[j]['lines']]
        hist = [x['stmt'] for x in events[j + 1:i]]
        what = e.get('internal') or e.get('out', '')[:120]
        ctx.reject('C14 %s at %r (ok=%s code=%s %s) program %s after %s' % (
                       clause, e.get('stmt'), e.get('ok'), e.get('code'), what, prog[:8], hist[:-1][-5:]),
                   key={'clause': clause, 'op': e['op'], 'trap_below_old': bool(e.get('trap_below_old')),
                        'resume0_line0': bool(e.get('resume0_line0')), 'src': e.get('src')},
                   data={'event': e, 'program': prog, 'history': hist})
    if ctx.cov['renum_accepted'] < 50 or ctx.cov['renum_refused_ifc'] < 10 or ctx.cov['renum_with_reports'] < 5:
        raise core.MachineryError('vacuous: accepted=%d refused=%d with reports=%d' % (
            ctx.cov['renum_accepted'], ctx.cov['renum_refused_ifc'], ctx.cov['renum_with_reports']))
