"""C39 — RND. Spec Rnd.tla; models Rnd_MC (cycle walk), Rnd_HD_MC (Hull-Dobell self-check);
trace specs C39_Trace (segments of the sequence, transition function, reseeding groups) and Rnd_Trace (call histories)."""
import json, struct, time
from concurrent.futures import ThreadPoolExecutor
from ..session import Sess
from .. import core

LEVEL = 'model_checking'
META = {
    'technique': 'TLC walks the whole cycle of the generator Rnd.tla!Next (2^24 states, thorough; prefix + Hull-Dobell + reduced modulus, quick); '
                 'the real Randomiser is stepped 2^18 / 2^24 times and TLC validates every value and every step; reseeding and call histories validated by TLC',
    'text': 'Rnd.tla: Next(seed) = (seed*A + C) mod 2^24 on 12-bit limbs, value = seed/2^24 as the 4 bytes of the MBF single. A, C and the start seed are inferred '
            'from the first values of the real generator and handed to TLC as constants. TLC (Rnd_MC) decides the full period: first return to the start seed '
            'after exactly 2^24 steps (thorough: whole cycle; quick: no return within 2^18 steps, Hull-Dobell conditions, whole cycle of the generator reduced '
            'mod 2^16); Rnd_HD_MC checks Hull-Dobell <=> full period for every (a, c) on modulus 64. The real generator is stepped 2^18 (quick) / 2^24 '
            '(thorough) times; TLC (C39_Trace) decodes the 4 bytes of every value to an integer k/2^24 and demands k\' = Next(k) for every consecutive pair. '
            'RANDOMIZE for all 65536 integers and sampled singles/doubles and RND(-x) by mantissa class are performed from several generator states each and TLC '
            'demands equal resulting states; random call histories (RND, RND(x), RND(0), RND(-x), RANDOMIZE, CLEAR, NEW, RUN, fresh sessions) on real Sessions are '
            'validated event by event by Rnd_Trace.tla.',
    'note': 'Trusted: TLC, JSON plumbing, the inference of A, C (a wrong inference can only produce rejections). Randomiser._seed (named in the property\'s anchors) is '
            'projected and, for the exhaustive RANDOMIZE sweep and the chosen-state transition checks, assigned. Inequality of differently seeded sequences is not demanded. '
            'RANDOMIZE without argument (prompt) is exercised through the integer conversion only.',
}
M = 1 << 24
SEG = 4096


def _me(b):
    b = bytes(b)
    return b[0] | (b[1] << 8) | (b[2] << 16), b[3]


def infer(states):
    """Multiplier/increment (mod 2^24) consistent with the observed states; (None, None) if none is."""
    n = len(states)
    for i in range(n - 2):
        d1 = (states[i + 1] - states[i]) % M
        d2 = (states[i + 2] - states[i + 1]) % M
        t = 0
        while t < 24 and d1 % 2 == 0 and d2 % 2 == 0 and d1:
            d1 //= 2; d2 //= 2; t += 1
        if d1 % 2 == 0 or t > 10:
            continue
        mod = M >> t
        a0 = (d2 * pow(d1, -1, mod)) % mod
        for j in range(1 << t):
            a = a0 + j * mod
            c = (states[1] - a * states[0]) % M
            if all((states[k] * a + c) % M == states[k + 1] for k in range(n - 1)):
                return a, c
        return a0, (states[1] - a0 * states[0]) % M
    return None, None


class Bulk(object):
    """Runs oracle-event batches through TLC (C39_Trace) on background threads while the driver keeps stepping."""

    def __init__(self, ctx, header, workers):
        self.ctx, self.header = ctx, header
        self.pool = ThreadPoolExecutor(max_workers=workers)
        self.jobs = []
        self.n = 0

    def submit(self, events, describe):
        self.n += 1
        name = 'bulk%d' % self.n
        fut = self.pool.submit(self.ctx.validate, 'C39_Trace', events, None, self.header, None, 3600, False, name)
        self.jobs.append((fut, describe, len(events)))

    def collect(self):
        res = []
        for fut, describe, n in self.jobs:
            for (i, clause) in fut.result():
                res.append((clause, describe(i - 1)))
        self.pool.shutdown()
        return res


def mc(ctx, module, cfg, hdrfile, workers=1, tag=None):
    r = ctx.tlc(module, cfg, env={'TRACE_FILE': hdrfile}, workers=workers, tag=tag, timeout=1500)
    ctx.cov['states'] += r['distinct']
    ctx.cov['transitions'] += r['generated']
    if not r['ok']:
        if 'nvariant' not in (r['error'] or ''):
            raise core.MachineryError('TLC run %s/%s failed: %s\n%s' % (module, cfg, r['error'], r['out'][-2000:]))
        ctx.reject('C39 model check %s (%s): %s' % (module, cfg, r['error']),
                   key={'clause': 'model_check', 'module': module, 'cfg': cfg, 'error': r['error']}, data=r['out'][-3000:])
    return r


def run(ctx):
    rng = ctx.rng
    import os
    T0 = time.time()
    def dbg(msg):
        if os.environ.get('VERIF_DEBUG'):
            print('  [%6.1fs] %s' % (time.time() - T0, msg))
    ctx.cov['rule'] = ('evaluations = RND values / transitions / reseedings / history events judged by TLC; distinct_nontrivial counts history events, '
                       'reseeding groups and chosen-state steps individually and the sequential walk per 4096-value segment (its values are pairwise '
                       'distinct generator states); rnd_values_validated is the number of consecutive RND results checked')
    # ---- 0. infer the constants the statement leaves open --------------------------------------------------
    s = Sess()
    r = s.impl.randomiser
    if not hasattr(r, '_seed'):
        raise core.MachineryError('Randomiser._seed (projection named in the property anchors) not found')
    first = [s.ev('RND(0)')] + [s.ev('RND') for _ in range(15)]
    if any(x[0] != 'ok' or not isinstance(x[1], float) for x in first):
        raise core.MachineryError('RND did not evaluate: %r' % (first[:3],))
    states = [int(round(x[1] * M)) for x in first]
    a, c = infer(states)
    if a is None:
        a, c = 1, 1     # nothing consistent: TLC will reject the sequence
    header = {'A': a, 'C': c, 'seed0': states[0] % M}
    ctx.cov['inferred'] = dict(header)
    hdrfile = ctx.path('rnd_header.json')
    with open(hdrfile, 'w') as f:
        json.dump({'header': header, 'events': []}, f)
    s.close()

    dbg('inferred')
    # ---- 1. design: Hull-Dobell self-check, cycle walk (in the background while the implementation is driven) --
    mcpool = ThreadPoolExecutor(max_workers=3)
    mcjobs = [mcpool.submit(mc, ctx, 'Rnd_HD_MC', 'Rnd_HD_MC.cfg', hdrfile, 2, 'hull-dobell <=> full period, all (a,c) mod 64'),
              mcpool.submit(mc, ctx, 'Rnd_MC', 'Rnd_MC_w16.cfg', hdrfile, 1, 'whole cycle mod 2^16')]
    if ctx.quick():
        mcjobs.append(mcpool.submit(mc, ctx, 'Rnd_MC', 'Rnd_MC_pre.cfg', hdrfile, 1, 'prefix 2^18 of the cycle mod 2^24'))
    else:
        mcjobs.append(mcpool.submit(mc, ctx, 'Rnd_MC', 'Rnd_MC_full.cfg', hdrfile, 1, 'whole cycle of 2^24 states'))

    bulk = Bulk(ctx, header, workers=ctx.pick(2, 3))
    t0 = time.time()

    dbg('mc started')
    # ---- 2. the sequential walk on the real generator ---------------------------------------------------------
    s = Sess()
    r = s.impl.randomiser
    vals = s.impl.values
    zero = vals.new_single()
    total = ctx.pick(1 << 18, 1 << 24)
    per_run = ctx.pick(1 << 17, 1 << 20)
    m, e = _me(r.rnd_([zero]).to_bytes())      # RND(0) on the fresh generator: the start seed
    flat = [m, e]
    done = 0
    events = []
    base = 0
    rnd = r.rnd_
    arg = [None]
    while done < total:
        n = min(SEG, total - done)
        for _ in range(n):
            b = rnd(arg).to_bytes()
            flat.append(b[0] | (b[1] << 8) | (b[2] << 16))
            flat.append(b[3])
        done += n
        events.append({'op': 'seg', 'vals': flat, 'proj': r._seed})
        flat = flat[-2:]
        if len(events) * SEG >= per_run or done >= total:
            bulk.submit(events, (lambda b0: (lambda i: {'kind': 'walk', 'from_step': b0 + i * SEG, 'to_step': b0 + (i + 1) * SEG}))(base))
            base = done
            events = []
    ctx.cov['rnd_values_validated'] = total + 1
    ctx.cov['evaluations'] += total
    for i in range(total // SEG):
        ctx.count(['seg', i])
    ctx.cov['walk_wall_s'] = round(time.time() - t0, 1)
    walk_end = r._seed

    dbg('walk done')
    # ---- 3. the transition function on chosen states (boundary-dense + random) --------------------------------
    chosen = set([0, 1, 2, 3, M - 1, M - 2, M // 2, M // 2 - 1, M // 2 + 1, 0x4fc752, 0xffff, 0x10000, 0xff, 0x100, 0xfff, 0x1000, 0x1001])
    for k in range(24):
        chosen.update([(1 << k) % M, ((1 << k) - 1) % M, ((1 << k) + 1) % M, (M - (1 << k)) % M])
    while len(chosen) < ctx.pick(20000, 200000):
        chosen.add(rng.randrange(M))
    runs = []
    for st in sorted(chosen):
        r._seed = st
        m, e = _me(rnd(arg).to_bytes())
        runs.append([st, r._seed if isinstance(r._seed, int) and 0 <= r._seed < 2 ** 31 else -1, m, e])
        ctx.count(['step', st])
    sev = [{'op': 'step', 'runs': runs[i:i + 2000]} for i in range(0, len(runs), 2000)]
    bulk.submit(sev, lambda i: {'kind': 'step', 'states': [sev[i]['runs'][0][0], sev[i]['runs'][-1][0]]})

    dbg('steps done')
    # ---- 4. reseeding: equal arguments reseed identically ----------------------------------------------------
    def clampi(x):
        return x if isinstance(x, int) and -2 ** 31 < x < 2 ** 31 else -2 ** 31 + 1

    def reseed_runs(kind, value, pres):
        out = []
        for pre in pres:
            r._seed = pre
            if kind == 'randomize':
                r.reseed(value)
                post = r._seed
                m, e = _me(rnd([zero]).to_bytes())
            else:
                m, e = _me(rnd([value]).to_bytes())
                post = r._seed
            out.append([pre, clampi(post), m, e])
        return out

    def pres3():
        p = rng.randrange(M)
        return [p, (p & 0xff) | (rng.randrange(1 << 16) << 8), rng.randrange(M), header['seed0']]

    rev = []
    # RANDOMIZE n for every 16-bit integer (quick: every 8th + boundaries)
    ints = range(-32768, 32768)
    if ctx.quick():
        ints = sorted(set(range(-32768, 32768, 8)) | set(range(-300, 301)) | set(range(32700, 32768)) | set(range(-32768, -32700)) |
                      set(x * 256 + d for x in range(-128, 128) for d in (-1, 0, 1) if -32768 <= x * 256 + d <= 32767))
    for n in ints:
        v = vals.new_integer().from_int(n)
        ab = list(bytes(v.to_bytes()))
        rev.append({'op': 'reseed', 'kind': 'randomize', 'arg': ab, 'runs': reseed_runs('randomize', v, pres3()), 'text': 'RANDOMIZE %d' % n})
    # RANDOMIZE with sampled singles and doubles (boundary exponents, xor-cancelling byte patterns, random)
    def rand_float_bytes(nb):
        b = bytearray(rng.randrange(256) for _ in range(nb))
        b[-1] = rng.choice([0, 1, 0x7f, 0x80, 0x81, 0x90, 0x91, 0x98, 0xff, rng.randrange(256)])
        if rng.random() < 0.2:
            b[-4:-2] = b[-2:]
        return bytes(b)
    for _ in range(ctx.pick(4000, 30000)):
        ab = rand_float_bytes(rng.choice([4, 8]))
        v = vals.from_bytes(ab)
        rev.append({'op': 'reseed', 'kind': 'randomize', 'arg': list(ab), 'runs': reseed_runs('randomize', v, pres3()),
                    'text': 'RANDOMIZE <%s>' % ab.hex()})
    # RND(-x) by mantissa class: every exponent for a few mantissas, random mantissas, the same mantissa at several exponents
    negs = []
    for mant in [0, 1, 2, 0x7fffff, 0x7ffffe, 0x400000, 0x555555, 0x2aaaaa, 0x0000ff, 0x00ff00, 0x7f0000] + \
            [rng.randrange(1 << 23) for _ in range(ctx.pick(300, 6000))]:
        exps = list(range(1, 256)) if mant in (0, 1, 0x7fffff) else [rng.randrange(1, 256) for _ in range(3)] + [0x81, 0x98]
        for ex in exps:
            negs.append(struct.pack('<I', mant | 0x800000 | (ex << 24)))
    for ab in negs:
        v = vals.from_bytes(ab)
        rev.append({'op': 'reseed', 'kind': 'rndneg', 'arg': list(ab), 'runs': reseed_runs('rndneg', v, pres3()),
                    'text': 'RND(<%s>)' % ab.hex()})
    # integer and double arguments of RND(-x) go through the conversion to single
    for n in list(range(-300, 0)) + [-32768, -32767, -16384, -255, -256, -257]:
        v = vals.new_integer().from_int(n)
        rev.append({'op': 'reseed', 'kind': 'rndneg', 'arg': list(bytes(v.to_bytes())), 'runs': reseed_runs('rndneg', v, pres3()),
                    'text': 'RND(%d)' % n})
    for ev_ in rev:
        ctx.count(['reseed', ev_['kind'], ev_['arg']])
    keep = ('op', 'kind', 'arg', 'runs')
    for i in range(0, len(rev), 40000):
        part = rev[i:i + 40000]
        bulk.submit([{k: x[k] for k in keep} for x in part],
                    (lambda p: (lambda j: {'kind': 'reseed', 'what': p[j]['text'], 'reseed_kind': p[j]['kind'], 'runs': p[j]['runs']}))(part))
    ctx.cov['reseed_groups'] = len(rev)
    s.close()

    dbg('reseed done')
    # ---- 5. call histories on real Sessions (everything through BASIC statements and expressions) -------------
    hist = []          # events for Rnd_Trace
    info = []
    pool_int = [0, 1, -1, 2, 5, 255, 256, -256, 32767, -32768, 12345, rng.randint(-32768, 32767), rng.randint(-32768, 32767)]
    pool_sng = ['1', '.25', '255', '-32768', '65536', '1.5', '-1E+10', '3.141593', '%d' % rng.randint(40000, 9999999)]
    pool_dbl = ['1', '.25', '65536', '1.000000000001', '-3.5', '123456789.125', '%d.5' % rng.randint(1, 10 ** 9)]
    pool_neg = ['-1', '-2', '-4', '-.5', '-3', '-1.5', '-255', '-1E+10', '-1E-10', '-32768', '-%d' % rng.randint(1, 10 ** 6),
                '-%d.25' % rng.randint(1, 999), '-1#', '-3#', '-1.5#', '-2%', '-255%']

    def bytes_of(sess, expr):
        x = sess.ev(expr)
        if x[0] != 'ok' or not isinstance(x[1], (bytes, bytearray)):
            return None, x
        return list(bytes(x[1])), x

    def proj(sess):
        v = sess.impl.randomiser._seed
        return clampi(v)

    nhist = ctx.pick(40, 300)
    for h in range(nhist):
        s = Sess()
        vb, x = bytes_of(s, 'MKS$(RND(0))')
        hist.append({'op': 'fresh', 's': proj(s), 'v': vb or [0, 0, 0, 0]}); info.append('fresh session: MKS$(RND(0))')
        s.ex('10 A$=MKS$(RND(0)):B$=MKS$(RND)')
        for step in range(rng.randint(20, 120)):
            q = rng.random()
            if q < 0.40:
                form = rng.choice(['RND', 'RND', 'RND(1)', 'RND(%d)' % rng.randint(1, 32767), 'RND(.5)', 'RND(1E+20)', 'RND(2.5#)', 'RND(7%)'])
                vb, x = bytes_of(s, 'MKS$(%s)' % form)
                op, a_ = 'rnd', None
            elif q < 0.55:
                form = rng.choice(['RND(0)', 'RND(0)', 'RND(0!)', 'RND(0#)', 'RND(0%)', 'RND(-0)'])
                vb, x = bytes_of(s, 'MKS$(%s)' % form)
                op, a_ = 'rnd0', None
            elif q < 0.72:
                t = rng.choice(pool_neg)
                a_, x = bytes_of(s, 'MKS$(CSNG(%s))' % t)
                form = 'RND(%s)' % t
                vb, x = bytes_of(s, 'MKS$(%s)' % form)
                op = 'rndneg'
            elif q < 0.92:
                ty = rng.choice('%%!#')
                if ty == '%':
                    t = str(rng.choice(pool_int)); s.s.set_variable('Q%', int(t)); a_, x = bytes_of(s, 'MKI$(Q%)')
                elif ty == '!':
                    t = rng.choice(pool_sng); s.ex('Q!=%s' % t); a_, x = bytes_of(s, 'MKS$(Q!)')
                else:
                    t = rng.choice(pool_dbl); s.ex('Q#=%s#' % t); a_, x = bytes_of(s, 'MKD$(Q#)')
                form = 'RANDOMIZE Q%s  (Q%s=%s)' % (ty, ty, t)
                x = s.ex('RANDOMIZE Q%s' % ty)
                vb = None
                op = 'randomize'
                if x[0] != 'ok':
                    ctx.reject('C39 RANDOMIZE failed: %s -> %r' % (form, x[:2]), key={'clause': 'randomize_failed'}, data=form)
                    continue
            else:
                how = rng.choice(['clear', 'new', 'run', 'clear'])
                if how == 'run':
                    x = s.ex('RUN')
                    A = s.s.get_variable('A$'); B = s.s.get_variable('B$')
                    hist.append({'op': 'reset', 'v': list(bytes(A)) if A and len(A) == 4 else [1, 1, 1, 1]}); info.append('RUN of 10 A$=MKS$(RND(0)):B$=MKS$(RND) -> A$')
                    hist.append({'op': 'rnd', 's': proj(s), 'v': list(bytes(B)) if B and len(B) == 4 else [1, 1, 1, 1]}); info.append('... -> B$')
                    continue
                x = s.ex(how.upper())
                pj = proj(s)
                if how == 'new':
                    s.ex('10 A$=MKS$(RND(0)):B$=MKS$(RND)')
                vb, x = bytes_of(s, 'MKS$(RND(0))')
                hist.append({'op': 'reset', 's': pj, 'v': vb or [1, 1, 1, 1]}); info.append('%s then MKS$(RND(0))' % how.upper())
                continue
            if vb is None and op != 'randomize' or (op in ('rndneg', 'randomize') and a_ is None):
                ctx.reject('C39 call failed: %s -> %r' % (form, x[:2]), key={'clause': 'internal' if x[0] == 'internal' else 'call_failed'}, data=form)
                continue
            ev_ = {'op': op, 's': proj(s)}
            if vb is not None:
                ev_['v'] = vb
            if a_ is not None:
                ev_['arg'] = a_
            hist.append(ev_); info.append(form)
        s.close()
    for ev_, t in zip(hist, info):
        ctx.count([ev_['op'], ev_.get('arg'), ev_.get('v'), ev_.get('s')])
    ctx.sample({'history_events': [[info[i], hist[i]] for i in range(min(8, len(hist)))]})
    verdicts = ctx.validate('Rnd_Trace', hist, header=header, name='hist')
    ctx.cov['traces_validated_against_impl'] += nhist + 1
    for (i, clause) in verdicts:
        ev_ = hist[i - 1]
        ctx.reject('C39 %s at %s (event %r) after %s' % (clause, info[i - 1], ev_, info[max(0, i - 6):i - 1]),
                   key={'clause': clause, 'op': ev_['op']}, data={'event': ev_, 'history': info[max(0, i - 30):i]})

    dbg('histories validated')
    # ---- 6. verdicts of the background runs ------------------------------------------------------------------
    for clause, d in bulk.collect():
        key = {'clause': clause, 'op': d['kind']}
        if d['kind'] == 'reseed':
            key['reseed_kind'] = d['reseed_kind']
            posts = set(x[1] for x in d['runs'])
            key['posts_differ_only_with_low_byte'] = all(
                (x[0] & 0xff) != (y[0] & 0xff) for x in d['runs'] for y in d['runs'] if x[1] != y[1])
        ctx.reject('C39 %s: %s' % (clause, {k: v for k, v in d.items() if k != 'runs'} if d['kind'] != 'reseed' else
                                   '%s from states %s -> %s' % (d['what'], [x[0] for x in d['runs']], [x[1] for x in d['runs']])),
                   key=key, data=d)
    dbg('bulk collected')
    for j in mcjobs:
        j.result()
    dbg('mc collected')
    mcpool.shutdown()
    ctx.cov['walk_end_seed'] = walk_end
    ctx.assumptions += ['A, C, start seed inferred from the first 16 values of the real generator and held fixed',
                        'Hull-Dobell theorem (self-checked by TLC for every (a,c) on modulus 64) in the quick tier; the thorough tier walks the whole cycle',
                        'generator states are installed through Randomiser._seed for the exhaustive RANDOMIZE sweep and the chosen-state transition checks']
