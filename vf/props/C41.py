"""C41 — codepage conversion round trips. Spec Codepage.tla; models Codepage_MC*.cfg; trace spec Codepage_Trace."""
import os, binascii, unicodedata, itertools, time
from concurrent.futures import ThreadPoolExecutor
from .. import core

LEVEL = 'model_checking'
META = {
    'technique': 'TLC exhaustive model check of the double-byte converter state machine (Codepage.tla) over byte classes + TLC '
                 'trace validation of exhaustive round trips and random chunked conversions on every shipped codepage',
    'text': 'Codepage.tla defines a codepage as the relation of its .ucp table, the maps the code derives from it, and the streaming '
            'converter as a state machine. TLC checks on every reachable state of the bounded class model (all inputs up to the length '
            'bound, every chunking, with and without box protection) that emitted sequences plus buffer concatenate to the consumed input, '
            'that conversion in pieces equals conversion at once, and the inductive step law on an unbounded model. Against the real code: '
            'for all 48 shipped codepages every single byte, every lead/trail pair and every repertoire cluster is converted there and back, '
            'and random byte strings are converted in random pieces (box protection on/off, preserved bytes, glyph substitutes); TLC judges '
            'every recorded call (identity where the mapping is unique, concatenation, piecewise = at once, segmentation = converter model).',
    'note': 'Trusted: TLC, unicodedata.normalize (clusters are compared in NFC form, as the code stores them), the harness\'s reading of the '
            '.ucp text files. Converter sequences and buffer are read from Converter._mark/_buf. Multi-character unicode strings '
            '(unicode_to_bytes of more than one cluster) and the stream wrappers are outside the statement and not judged.',
}
CONTROL = (7, 9, 10, 11, 12, 13, 28, 29, 30, 31)
STATS = {'box_inputs': 0, 'box_changed_segmentation': 0}
UNDEF = [-1]


def cps(u):
    return [ord(c) for c in u]


def parse_ucp(path):
    """The relation of a .ucp file: {bytes: cluster (NFC)}; later lines override earlier ones, as for any table file."""
    rel, raw = {}, {}
    with open(path, 'rb') as f:
        for line in f.read().splitlines():
            line = line.split(b'#')[0].strip()
            if not line or b':' not in line:
                continue
            k, v = line.split(b':', 1)
            try:
                key = binascii.unhexlify(k.strip())
                u = u''.join(chr(int(x.strip(), 16)) for x in v.split(b','))
            except ValueError:
                continue
            raw[key] = u
            rel[key] = unicodedata.normalize('NFC', u)
    return rel, raw


def table(rel):
    """Raw relation -> the array layout of Codepage.tla (R.s, R.d)."""
    s = [cps(rel[bytes([b])]) if bytes([b]) in rel else UNDEF for b in range(256)]
    leads = sorted(set(k[0] for k in rel if len(k) == 2))
    d = [[] for _ in range(256)]
    for l in leads:
        d[l] = [cps(rel[bytes([l, t])]) if bytes([l, t]) in rel else UNDEF for t in range(256)]
    return {'s': s, 'd': d}


def synthetic():
    """Small double-byte codepages whose bytes realise the class alphabet of Codepage_MC."""
    res = []

    def mk(name, leads, trails, box0, box1):
        rel = {}
        for b in range(256):
            rel[bytes([b])] = chr(b) if b < 128 else chr(0x100 + b)
        for b in box0:
            rel[bytes([b])] = u'\u2500'
        for b in box1:
            rel[bytes([b])] = u'\u2550'
        n = 0
        for l in leads:
            for t in trails:
                rel[bytes([l, t])] = chr(0x4E00 + n)
                n += 1
        res.append((name, rel, sorted(set([0x41, 0x0D]) | set(leads) | set(trails) | set(box0) | set(box1))))
    # other 41, preserved 0D, lead-only 81, trail-only 40, lead&trail 90, box chars that are lead&trail
    mk('syn-box-lt', [0x81, 0x90, 0xC4, 0xCD], [0x40, 0x90, 0xC4, 0xCD], [0xC4], [0xCD])
    # box chars of one set, two of them, one lead-only one trail-only
    mk('syn-box-split', [0x81, 0x90, 0xC4], [0x40, 0x90, 0xC5], [0xC4, 0xC5], [])
    # box chars that are neither lead nor trail; a second pair of box sets on lead&trail bytes
    mk('syn-box-plain', [0x81, 0x90, 0xB0, 0xB1], [0x40, 0x90, 0xB0, 0xB1], [0xC4, 0xB0], [0xCD, 0xB1])
    return res


class CP(object):
    """One codepage under test: the relation (harness side) and the real Codepage objects (code side)."""

    def __init__(self, idx, name, rel, raw, codedict, alphabet=None):
        from pcbasic.basic.codepage import Codepage
        self.idx, self.name, self.rel, self.raw = idx, name, rel, raw
        self.obj = {True: Codepage(dict(codedict), box_protect=True), False: Codepage(dict(codedict), box_protect=False)}
        self.leads = sorted(set(k[0] for k in rel if len(k) == 2))
        self.trails = sorted(set(k[1] for k in rel if len(k) == 2))
        self.dbcs = bool(self.leads)
        self.subst = [b for b in range(32, 127) if bytes([b]) in rel and rel[bytes([b])] != chr(b)]
        self.box = [b for b in range(256) if rel.get(bytes([b])) in (u'\u2500', u'\u2550')]
        self.alphabet = alphabet

    def repertoire(self, sub):
        """cluster -> (witness byte sequence, number of byte sequences listed for it), for the forward map with/without substitutes."""
        rep = {}
        for k, u in self.rel.items():
            if len(k) == 1 and 32 <= k[0] <= 126 and not sub:
                u = chr(k[0])
            w, n = rep.get(u, (k, 0))
            rep[u] = (w, n + 1)
        return rep


def conv_event(cp, rng, data, cuts, pres, box, sub):
    c = cp.obj[box]
    chunks = [data[a:b] for a, b in zip([0] + cuts, cuts + [len(data)])]
    pr = tuple(bytes([b]) for b in pres)
    c1, c2 = c.get_converter(pr, use_substitutes=sub), c.get_converter(pr, use_substitutes=sub)
    marks, bufs, ul = [], [], []
    for i, ch in enumerate(chunks):
        fl = i == len(chunks) - 1
        marks.append([list(q) for q in c1._mark(ch, fl)])
        bufs.append(list(c1._buf))
        ul.append([cps(x) for x in c2.to_unicode_list(ch, fl)])
    once = [list(q) for q in c.get_converter(pr, use_substitutes=sub)._mark(data, True)]
    ulonce = [cps(x) for x in c.get_converter(pr, use_substitutes=sub).to_unicode_list(data, True)]
    ustr = cps(c.bytes_to_unicode(data, preserve=pr, use_substitutes=sub))
    if box and cp.dbcs:
        # coverage only: did box protection change the segmentation of this input?
        plain = [list(q) for q in cp.obj[False].get_converter(pr, use_substitutes=sub)._mark(data, True)]
        STATS['box_inputs'] += 1
        STATS['box_changed_segmentation'] += plain != once
    return {'o': 'c', 'c': cp.idx, 'box': box, 'sub': sub, 'pres': list(pres), 'chunks': [list(x) for x in chunks],
            'marks': marks, 'bufs': bufs, 'ul': ul, 'once': once, 'ulonce': ulonce, 'ustr': ustr}


def random_conv(cp, rng, n, events):
    hot = (cp.leads[:3] + cp.leads[-2:] + cp.trails[:3] + cp.trails[-2:] + cp.box + cp.box + [0x0D, 0x0A, 0x41, 0x5C, 0x20, 0, 255]
           + [b for b in cp.box if b in cp.leads] * 3)
    for _ in range(n):
        ln = rng.choice([0, 1, 2, 3, 4, 5, 6, 8, 12, 20, 40])
        mode = rng.random()
        if cp.alphabet and mode < 0.8:
            data = bytes(rng.choice(cp.alphabet) for _ in range(ln))
        elif mode < 0.35:
            data = bytes(rng.randrange(256) for _ in range(ln))
        elif mode < 0.7 or not cp.dbcs:
            data = bytes(rng.choice(hot) for _ in range(ln))
        else:
            data = bytes(rng.choice(hot) if rng.random() < 0.6 else rng.choice(cp.leads + cp.trails) for _ in range(ln))
        ncut = rng.choice([0, 1, 1, 2, 3, ln])
        cuts = sorted(rng.randint(0, ln) for _ in range(min(ncut, ln + 1)))
        pres = rng.choice([(), (), CONTROL, CONTROL, tuple(sorted(set(rng.choice(hot) for _ in range(2)))), (0x0D, 0xC4)])
        box = rng.random() < 0.65
        sub = bool(cp.subst) and rng.random() < 0.5
        events.append(conv_event(cp, rng, data, cuts, pres, box, sub))


def roundtrips(cp, ctx, events, all_pairs_nobox):
    full = not ctx.quick()
    for box in (True, False):
        c = cp.obj[box]
        for sub in ((False, True) if cp.subst else (False,)):
            # quick: the lead/trail pairs and the full repertoire once (box protection on, no substitutes); the other
            # settings see every single byte and the clusters the setting changes; thorough: everything in every setting
            exhaustive = full or (box and not sub)
            seqs = [bytes([b]) for b in range(256)]
            if exhaustive:
                seqs += [bytes([l, t]) for l in cp.leads for t in cp.trails]
            for q in seqs:
                u = c.bytes_to_unicode(q, use_substitutes=sub)
                r = c.unicode_to_bytes(u)
                events.append({'o': 'b', 'c': cp.idx, 'box': box, 'sub': sub, 'q': list(q), 'u': cps(u), 'r': list(r)})
            rep = cp.repertoire(sub)
            for un, (w, npre) in rep.items():
                if not exhaustive and len(w) > 1:
                    continue
                # quick: a 2-byte cluster with a single preimage q is already covered by the b event of q, which makes the
                # same two calls (decode(q) = u, encode(u) = q); the clusters listed more than once are all converted
                if not full and len(w) > 1 and npre == 1:
                    continue
                r = c.unicode_to_bytes(un)
                v = c.bytes_to_unicode(r, use_substitutes=sub)
                events.append({'o': 'u', 'c': cp.idx, 'box': box, 'sub': sub, 'u': cps(un), 'un': cps(un), 'w': list(w),
                               'r': list(r), 'v': cps(v)})
            if box and not sub:
                # clusters as written in the file (before normalisation): same character up to canonical equivalence
                for k, u in cp.raw.items():
                    if u != cp.rel[k] and not (len(k) == 1 and 32 <= k[0] <= 126):
                        r = c.unicode_to_bytes(u)
                        v = c.bytes_to_unicode(r)
                        events.append({'o': 'u', 'c': cp.idx, 'box': box, 'sub': sub, 'u': cps(u), 'un': cps(cp.rel[k]),
                                       'w': list(k), 'r': list(r), 'v': cps(v)})


def run(ctx):
    ctx.cov['rule'] = ('events = recorded calls of the real Codepage/Converter judged by TLC (Codepage_Trace.tla); distinct by '
                       '(codepage, kind, input, box, substitutes, preserved set, chunking); non-trivial = all except round trips '
                       'of lead/trail pairs the codepage does not define')
    # 1. design: unbounded step law on the large class alphabet, bounded history model with every chunking
    # (ctx.tlc, not ctx.model_check: TLC's -coverage option makes the recursive converter operators ~100x slower)
    mc_results = []

    def model_checks():
        for cfg, workers in (('Codepage_MC_step.cfg', 2), (ctx.pick('Codepage_MC.cfg', 'Codepage_MC_big.cfg'), ctx.pick(2, 8))):
            mc_results.append((cfg, ctx.tlc('Codepage_MC', cfg, workers=workers, tag='model check')))
    mc_thread = None
    if not os.environ.get('VERIF_C41_SKIP_MC'):       # development aid for mutant runs: the models do not depend on the code
        import threading
        mc_thread = threading.Thread(target=model_checks)      # runs while the implementation is driven
        mc_thread.start()
    # 2. the shipped codepages (relation read from the data files) and the synthetic class codepages
    from pcbasic.data import read_codepage
    from pcbasic.data.codepages import CODEPAGES
    cpdir = os.path.join(core.REPO, 'pcbasic', 'data', 'codepages')
    names = sorted(f[:-4] for f in os.listdir(cpdir) if f.lower().endswith('.ucp'))
    if sorted(CODEPAGES) != names or len(names) < 40:
        raise core.MachineryError('codepage list of the package %r differs from the data directory %r' % (sorted(CODEPAGES), names))
    cplist = []
    only = os.environ.get('VERIF_C41_ONLY')         # development aid (mutant runs): restrict the shipped codepages
    if only:
        names = [n for n in names if n in only.split(',')]
    for nm in names:
        rel, raw = parse_ucp(os.path.join(cpdir, nm + '.ucp'))
        cplist.append(CP(0, nm, rel, raw, read_codepage(nm)))
    for nm, rel, alpha in synthetic():
        cplist.append(CP(0, nm, rel, dict(rel), rel, alphabet=alpha))
    ctx.cov['codepages'] = len(names)
    ctx.cov['double_byte_codepages'] = [c.name for c in cplist if c.dbcs and not c.alphabet]
    rng = ctx.rng
    t0 = time.time()
    # one TLC run per batch; a batch carries only the tables of its own codepages (cp.idx = index in that batch)
    batches = []            # (name, [tables], events)
    small, small_tables = [], []
    for cp in cplist:
        ev = []
        big = cp.dbcs and not cp.alphabet
        if big:
            cp.idx = 1
        else:
            small_tables.append(table(cp.rel))
            cp.idx = len(small_tables)
        if not cp.alphabet:
            roundtrips(cp, ctx, ev, all_pairs_nobox=not ctx.quick())
        random_conv(cp, rng, ctx.pick(400, 12000) if cp.dbcs else ctx.pick(40, 600), ev)
        if cp.alphabet:
            # exhaustive: every string over the class alphabet up to a length, one-shot + one random chunking each
            for ln in range(0, ctx.pick(4, 5) + 1):
                for tup in itertools.product(cp.alphabet, repeat=ln):
                    data = bytes(tup)
                    cuts = sorted(rng.randint(0, ln) for _ in range(rng.choice([1, 2, ln])))
                    ev.append(conv_event(cp, rng, data, cuts, (0x0D,), rng.random() < 0.8, False))
        if big:
            step = 40000
            for i in range(0, len(ev), step):
                batches.append(('%s.%d' % (cp.name, i // step), [table(cp.rel)], ev[i:i + step], cp))
        else:
            small += [(e, cp) for e in ev]
    step = 40000
    for i in range(0, len(small), step):
        batches.append(('single-byte+synthetic.%d' % (i // step), small_tables, small[i:i + step], None))
    ctx.cov['impl_wall_s'] = round(time.time() - t0, 1)

    def judge(b):
        name, tabs, ev, cp = b
        evs = ev if cp else [e for e, _ in ev]
        return b, ctx.validate('Codepage_Trace', evs, header={'cps': tabs}, name='cp_' + name)

    batches.sort(key=lambda b: -len(b[2]))
    with ThreadPoolExecutor(max_workers=ctx.pick(7, 8)) as ex:
        results = list(ex.map(judge, batches))
    if mc_thread:
        mc_thread.join()
        for cfg, r in mc_results:
            ctx.cov['states'] += r['distinct']
            ctx.cov['transitions'] += r['generated']
            if not r['ok']:
                ctx.reject('TLC model check of Codepage_MC (%s) failed: %s' % (cfg, r['error']),
                           key={'clause': 'model_check', 'cfg': cfg}, data=r['out'][-4000:])
            elif r['distinct'] < 1000:
                raise core.MachineryError('vacuous model check %s: %d states' % (cfg, r['distinct']))
        if len(mc_results) != 2:
            raise core.MachineryError('model check thread failed')
    kinds = {'b': 0, 'u': 0, 'c': 0}
    for (name, tabs, ev, cp1), verdicts in results:
        pairs = [(e, cp1) for e in ev] if cp1 else ev
        for e, cp in pairs:
            kinds[e['o']] += 1
            if e['o'] == 'b':
                ctx.count([cp.name, 'b', e['q'], e['box'], e['sub']], nontrivial=bool(e['u']))
            elif e['o'] == 'u':
                ctx.count([cp.name, 'u', e['u'], e['box'], e['sub']])
            else:
                ctx.count([cp.name, 'c', e['chunks'], e['box'], e['sub'], e['pres']])
        for (i, clause) in verdicts:
            e, cp = pairs[i - 1]
            cpn = cp.name
            if clause == 'harness_cluster_not_in_repertoire':
                raise core.MachineryError('harness enumerated a cluster outside the repertoire: %r' % (e,))
            inp = e.get('q') or e.get('u') or e.get('chunks')
            ctx.reject('C41 %s: codepage %s %s input=%s box=%s sub=%s -> %s' % (
                clause, cpn, e['o'], inp, e['box'], e['sub'],
                {k: e[k] for k in ('u', 'r', 'v', 'once', 'marks', 'bufs') if k in e}),
                key={'clause': clause, 'codepage': cpn, 'kind': e['o'], 'box': e['box'], 'sub': e['sub'],
                     'input': inp if e['o'] != 'c' else None}, data=e)
    ctx.cov['traces_validated_against_impl'] += len(batches)
    ctx.cov['events_by_kind'] = kinds
    ctx.cov['box_protection'] = dict(STATS)
    if STATS['box_changed_segmentation'] < 50:
        raise core.MachineryError('vacuous: box protection hardly ever engaged (%r)' % STATS)
    for (name, tabs, ev, cp1), _ in results[:3]:
        if cp1:
            ctx.sample(dict(ev[300], codepage=cp1.name))
            ctx.sample(dict(ev[-1], codepage=cp1.name))
    if not only and (kinds['c'] == 0 or kinds['u'] < 5000 or kinds['b'] < 100000):
        raise core.MachineryError('vacuous: too few events %r' % kinds)
    ctx.assumptions += ['clusters are compared in NFC form (unicodedata.normalize), as the code stores them',
                        'the relation of a codepage is the harness\'s own reading of the shipped .ucp file',
                        'a mapping counts as unique when no other byte sequence is listed for the cluster in the file or in the derived table',
                        'converter sequences/buffer observed through Converter._mark and Converter._buf']
