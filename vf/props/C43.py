"""C43 — session API round trips. Spec SessionApi.tla; oracle self-check SessionApi_MC; trace spec C43_Trace."""
import struct, time
from ..session import Sess, find_errors
from .. import core

LEVEL = 'exploration'
META = {
    'technique': 'TLA+ oracle (SessionApi.tla) evaluated by TLC on recorded set_variable/get_variable/evaluate round trips of a real Session; '
                 'the float-precision and decimal-equality operators are self-checked exhaustively on reduced widths',
    'text': 'Each event is one complete round trip through the Python API: integers (all 65536 in range in the thorough tier, bounds and '
            'out-of-range values which must surface as BASIC Overflow), floats into single and double variables (as IEEE-754 byte arrays; '
            'the specification decodes them and demands: double exact, single on the 24-bit grid within one unit in the last place, exact '
            'when representable; patterns across all exponents, mantissa boundary patterns, integers, powers of two), byte strings over all '
            '256 byte values and lengths 0..255, unicode strings over the codepage repertoire (bytes = codepage encoding, unicode read-back '
            'equal), booleans, evaluate(expr) against the text PRINT expr writes (integers, strings, and floats with an exact decimal '
            'expansion of at most 7 digits), nested lists of 1..3 dimensions into arrays dimensioned to the list\'s shape under both OPTION '
            'BASE values (must read back identically) and into undimensioned arrays (padded to 11 per axis: open known finding).',
    'note': 'Trusted: TLC, struct.pack for the IEEE bytes of a Python float, the codepage table read from the session (held constant). '
            'Not judged (statement silent): floats outside the MBF range incl. inf/nan, floats assigned to integer variables, evaluate of '
            'values PRINT shows rounded or in exponent notation, strings PRINT would interpret (control bytes) or wrap (> 60 bytes), lists whose '
            'shape differs from a dimensioned array. Only the default codepage 437.',
}
TYPES = '%!#$'


def ieee(x):
    return list(struct.pack('>d', x))


class Api(object):
    def __init__(self):
        self.sess = Sess()
        self.S = self.sess.s
        core.import_repo()
        from pcbasic.basic.base import error
        self.BASICError = error.BASICError

    def call(self, fn):
        """-> (kind, code, value): ok | basic (BASIC error raised or written to the console) | pyexc."""
        self.sess.take()
        try:
            v = fn()
        except self.BASICError as e:
            self.sess.take()
            return ('basic', int(getattr(e, 'err', 0) or 0), None, 'BASICError %s' % getattr(e, 'err', '?'))
        except BaseException as e:  # noqa
            self.sess.take()
            return ('pyexc', 0, None, '%s: %s' % (type(e).__name__, str(e)[:120]))
        out = self.sess.take()
        errs = find_errors(out)
        if errs:
            return ('basic', errs[0][0], v, 'console: %r' % out[:60])
        return ('ok', 0, v, '')

    def set(self, name, v):
        return self.call(lambda: self.S.set_variable(name, v))

    def get(self, name, as_type=None):
        return self.call(lambda: self.S.get_variable(name, as_type) if as_type else self.S.get_variable(name))

    def close(self):
        self.sess.close()


def shape_of(x):
    """(rectangular?, shape, flat leaves) of a nested list."""
    if not isinstance(x, list):
        return True, [], [x]
    if not x:
        return True, [0], []
    subs = [shape_of(y) for y in x]
    if any(not s[0] for s in subs) or any(s[1] != subs[0][1] for s in subs):
        return False, [], []
    if any(isinstance(y, list) for y in x) != all(isinstance(y, list) for y in x):
        return False, [], []
    leaves = []
    for s in subs:
        leaves += s[2]
    return True, [len(x)] + subs[0][1], leaves


def leaf_enc(t, v):
    """Encode a leaf for the specification; None if it has the wrong Python type."""
    if t == '%':
        return v if isinstance(v, int) and not isinstance(v, bool) and abs(v) < 2 ** 30 else None
    if t in '!#':
        return ieee(v) if isinstance(v, float) else None
    return list(v) if isinstance(v, (bytes, bytearray)) else None


def gen_floats(rng, n, t):
    """Interesting Python floats for a variable of type t (the generator judges nothing)."""
    res = [0.0, -0.0, 1.0, -1.0, 0.5, 0.1, -0.1, 1.1, 3.0, 16777215.0, 16777216.0, 16777217.0, 33554431.0, 0.1234567890123,
           1e38, 1.7e38, -1.7e38, 1.70141e38, 1.7014117e38, 1.7014118e38, 1.70141183e38, 1e39, -1e39, 1e308,
           2.0 ** -128, 2.0 ** -129, 2.0 ** -127, 2.9387358770557188e-39, 2.93e-39, 1e-39, 1e-45, 5e-324,
           2.0 ** 126, 2.0 ** 127, float(2 ** 127 - 2 ** 103), float(2 ** 127 - 2 ** 102), 2.0 ** 127 * (1 - 2.0 ** -25)]
    for _ in range(n):
        k = rng.random()
        e2 = rng.randint(-130, 128) if rng.random() < 0.8 else rng.randint(-1074, 1023)
        if k < 0.3:
            m = rng.getrandbits(52)
        elif k < 0.55:
            # 24-bit boundary patterns: low 29 bits all zero / all one / one / half / half+-1
            hi = rng.getrandbits(23)
            lo = rng.choice([0, 1, (1 << 29) - 1, 1 << 28, (1 << 28) - 1, (1 << 28) + 1, 1 << 27, rng.getrandbits(29)])
            if rng.random() < 0.2:
                hi = (1 << 23) - 1
            m = (hi << 29) | lo
        elif k < 0.7:
            m = rng.choice([0, (1 << 52) - 1, 1, 1 << 51, (1 << 51) - 1, ((1 << 23) - 1) << 29])
        elif k < 0.85:
            res.append(float(rng.randint(-2 ** 31, 2 ** 31)))
            continue
        else:
            res.append(rng.choice([1, -1]) * rng.randint(0, 10 ** rng.randint(1, 9)) / 10.0 ** rng.randint(0, 9))
            continue
        bits = (rng.getrandbits(1) << 63) | ((e2 + 1023) << 52) | m if 1 <= e2 + 1023 <= 2046 else (rng.getrandbits(1) << 63) | m
        res.append(struct.unpack('>d', struct.pack('>Q', bits))[0])
    return res


EVAL_FIXED = [
    '1+1', '7\\2', '-7\\2', '7 MOD 3', '-7 MOD 3', '1=1', '1=2', '3>2', 'NOT 0', '5 AND 3', '5 OR 3', '5 XOR 3', '32767', '-32768',
    '1%+2%', '2%*3%', '30000+30000', '65536', '100000*2', '7/8', '1/2', '1/4+1/8', '-3.5', '12.5*4', '1234.5+0.25', '2^10', '2^-2',
    'ABS(-3.5)', 'INT(2.5)', 'INT(-2.5)', 'FIX(-2.5)', 'CINT(2.5)', 'CINT(-2.5)', 'SGN(-2)', 'SQR(16)', 'SQR(2.25)', 'LEN("abc")',
    'ASC("A")', 'VAL("12.5")', 'VAL("-.0625")', 'CSNG(0.5#)', 'CDBL(0.5)', '1#/4#', '3#*0.125#', '1/3', '2/3', '1#/3#', 'SQR(2)', '1E10',
    '1E-5', '123456789', '0.1', '1.5E+20', '16777216', '9999999', '10000000', '999999.9', '.0625', '1/16', '4095/8',
    '"ab"+"cd"', 'MID$("hello",2,3)', 'LEFT$("hello",2)', 'RIGHT$("hello",2)', 'CHR$(65)', 'STR$(12)', 'STR$(-1.5)', 'SPACE$(3)',
    'STRING$(3,"x")', 'HEX$(255)', 'OCT$(8)', '""', 'STRING$(60,"y")', 'STRING$(70,"z")', 'CHR$(7)', 'CHR$(13)', '"a"+CHR$(9)+"b"',
    '1/0', '-1/0', '"a"+1', 'LOG(-1)', 'SQR(-1)', '1E38*1E38', 'A(', 'CHR$(256)', '32767+1', 'CINT(40000)', 'MID$("a",0)',
]


def gen_eval(rng):
    k = rng.random()
    if k < 0.25:
        a, b = rng.randint(-300, 300), rng.randint(-300, 300)
        return '%d%s%d' % (a, rng.choice(['+', '-', '*', '\\', ' MOD ', ' AND ', ' OR ', '=', '<', '>']), b) if b >= 0 else \
               '%d%s(%d)' % (a, rng.choice(['+', '-', '*', '\\', ' MOD ', ' AND ', ' OR ', '=', '<', '>']), b)
    if k < 0.6:
        n, j = rng.randint(-5000, 5000), rng.randint(0, 4)
        m, i = rng.randint(-64, 64), rng.randint(0, 3)
        form = rng.choice(['%d/%d', '%d/%d+(%d/%d)', '(%d/%d)*%d', 'ABS(%d/%d)', '%d/%d-(%d/%d)', 'CDBL(%d/%d)', 'INT(%d/%d)'])
        args = {'%d/%d': (n, 2 ** j), '%d/%d+(%d/%d)': (n, 2 ** j, m, 2 ** i), '(%d/%d)*%d': (n, 2 ** j, rng.randint(-9, 9)),
                'ABS(%d/%d)': (n, 2 ** j), '%d/%d-(%d/%d)': (n, 2 ** j, m, 2 ** i), 'CDBL(%d/%d)': (n, 2 ** j), 'INT(%d/%d)': (n, 2 ** j)}[form]
        return form % args
    if k < 0.7:
        return '%d.%s' % (rng.randint(-999, 999), rng.choice(['5', '25', '125', '75', '0625', '375', '1', '3']))
    if k < 0.85:
        w = ''.join(rng.choice('abcXYZ 019,.;') for _ in range(rng.randint(0, 12)))
        return rng.choice(['"%s"', '"%s"+"q"', 'LEFT$("%s",3)', 'MID$("%s",2)', 'RIGHT$("%s",4)', 'STRING$(2,"%s")', 'LEN("%s")']) % w
    return rng.choice(['A%', 'B!', 'C#', 'D$', 'A%*2', 'B!+1', 'C#/2', 'D$+"!"', 'A%+B!', 'LEN(D$)', 'B!*C#'])


def run(ctx):
    ctx.cov['rule'] = ('events = complete round trips through Session.set_variable/get_variable/evaluate (+ PRINT) on a real Session, judged by TLC '
                       'with SessionApi.tla; distinct by (kind, input); non-trivial = every event whose input lies in a judged class')
    ctx.model_check('SessionApi_MC', workers=2, require_actions=False)
    rng = ctx.rng
    api = Api()
    S = api.S
    t0 = time.time()
    events = []
    cptab = api.sess.impl.codepage._cp_to_unicode
    cp = []
    for b in range(256):
        u = cptab.get(bytes([b]), u'�')
        cp.append(ord(u) if len(u) == 1 else 0xfffd)

    def outcome(e, pre, r):
        e[pre + 'k'], e[pre + 'code'] = r[0], r[1]
        if r[3]:
            e[pre + 'detail'] = r[3]

    # ---- integers ---------------------------------------------------------------------------------------------
    ints = set([0, 1, -1, 2, -2, 255, 256, -255, -256, 32766, 32767, -32767, -32768, 32768, -32769, 32769, 40000, -40000, 65535, 65536,
                -65535, -65536, 2 ** 31 - 1, -2 ** 31, 2 ** 31, 2 ** 32, 2 ** 63, -2 ** 63, 10 ** 30, -10 ** 30, 2 ** 30, 2 ** 30 - 1])
    if ctx.quick():
        ints.update(range(-32768, 32768, 97))
        ints.update(rng.randint(-32768, 32767) for _ in range(1500))
    else:
        ints.update(range(-32768, 32768))
    ints.update(rng.randint(-70000, 70000) for _ in range(ctx.pick(300, 3000)))
    ints.update(rng.choice([1, -1]) * rng.getrandbits(rng.randint(16, 70)) for _ in range(ctx.pick(200, 2000)))
    for x in sorted(ints):
        name = rng.choice(['A%', 'a%', 'IV%', 'Zz9%'])
        S.set_variable('A%', 12345); S.set_variable(name, 12345)
        e = {'op': 'int', 'big': abs(x) >= 2 ** 30, 'x': x if abs(x) < 2 ** 30 else 0, 'shown': 'set_variable(%r, %d)' % (name, x)}
        outcome(e, 's', api.set(name, x))
        g = api.get(name)
        outcome(e, 'g', g)
        ok = isinstance(g[2], int) and not isinstance(g[2], bool) and abs(g[2]) < 2 ** 30
        e['gbig'] = not ok
        e['g'] = g[2] if ok else 0
        e['got'] = repr(g[2])
        events.append(e)
    # ---- floats -----------------------------------------------------------------------------------------------
    for t in '!#':
        for x in gen_floats(rng, ctx.pick(6000, 150000), t):
            name = 'F' + t
            e = {'op': 'float', 't': t, 'x': ieee(x), 'shown': 'set_variable(%r, %r)' % (name, x)}
            outcome(e, 's', api.set(name, x))
            g = api.get(name)
            outcome(e, 'g', g)
            if g[0] == 'ok' and not isinstance(g[2], float):
                e['gk'], e['gdetail'] = 'pyexc', 'returned %r' % (g[2],)
            e['g'] = ieee(g[2]) if isinstance(g[2], float) else ieee(0.0)
            e['got'] = repr(g[2])
            events.append(e)
        # Python ints into float variables (exactly representable as double)
        for _ in range(ctx.pick(300, 5000)):
            n = rng.choice([1, -1]) * rng.getrandbits(rng.randint(1, 53))
            name = 'F' + t
            e = {'op': 'float', 't': t, 'x': ieee(float(n)), 'shown': 'set_variable(%r, %d)' % (name, n)}
            outcome(e, 's', api.set(name, n))
            g = api.get(name)
            outcome(e, 'g', g)
            e['g'] = ieee(g[2]) if isinstance(g[2], float) else ieee(0.0)
            e['got'] = repr(g[2])
            events.append(e)
    # ---- strings ----------------------------------------------------------------------------------------------
    blist = [bytes([b]) for b in range(256)] + [bytes(range(256))[:255], bytes(range(1, 256)), b'', b'x' * 255, b'x' * 256, b'\x00' * 255]
    for _ in range(ctx.pick(1500, 30000)):
        n = rng.choice([0, 1, 2, 3, 10, 40, 80, 254, 255, rng.randint(0, 255), rng.randint(0, 30)])
        blist.append(bytes(rng.getrandbits(8) for _ in range(n)))
    for _ in range(ctx.pick(20, 200)):
        blist.append(bytes(rng.getrandbits(8) for _ in range(rng.randint(256, 400))))
    for x in blist:
        e = {'op': 'bytes', 'x': list(x), 'shown': 'set_variable("S$", %r)' % (x[:40],)}
        S.set_variable('S$', b'previous')
        outcome(e, 's', api.set('S$', x))
        g = api.get('S$')
        outcome(e, 'g', g)
        e['g'] = list(g[2]) if isinstance(g[2], (bytes, bytearray)) else [-1]
        events.append(e)
    ulist = [u''.join(chr(c) for c in cp[32:127]), u''.join(chr(c) for c in cp[128:256]), u''.join(chr(c) for c in cp[1:32]), chr(cp[0]),
             u'h\xe9llo', u'\xa3', u'☺☻', u'\xa0', u'⌂']
    for c in cp:
        ulist.append(chr(c))
    for _ in range(ctx.pick(1200, 20000)):
        n = rng.choice([1, 2, 5, 20, 100, 255, rng.randint(0, 255)])
        lo = rng.choice([0, 32, 32, 128])
        ulist.append(u''.join(chr(cp[rng.randint(lo, 255)]) for _ in range(n)))
    for _ in range(ctx.pick(50, 500)):       # not only codepage characters: the specification does not judge these
        ulist.append(u''.join(chr(rng.choice([0x3b2, 0x4e2d, 0x20ac, 0x41, cp[rng.randint(0, 255)]])) for _ in range(rng.randint(1, 8))))
    for x in ulist:
        e = {'op': 'ustr', 'x': [ord(c) for c in x], 'shown': 'set_variable("U$", %r)' % (x[:30],)}
        S.set_variable('U$', b'previous')
        outcome(e, 's', api.set('U$', x))
        g = api.get('U$')
        outcome(e, 'g', g)
        e['gb'] = list(g[2]) if isinstance(g[2], (bytes, bytearray)) else [0]
        gu = api.get('U$', as_type=type(u''))
        if gu[0] != 'ok' or not isinstance(gu[2], type(u'')):
            e['gk'], e['gdetail'] = 'pyexc', 'get_variable(as_type=str) -> %r %s' % (gu[2], gu[3])
            e['gu'] = []
        else:
            e['gu'] = [ord(c) for c in gu[2]]
        events.append(e)
    # ---- booleans ---------------------------------------------------------------------------------------------
    for i in range(ctx.pick(20, 100)):
        x = bool(i % 2) if i < 6 else rng.random() < 0.5
        name = rng.choice(['T%', 'T!', 'T#'])
        e = {'op': 'bool', 'x': x, 'shown': 'set_variable(%r, %r)' % (name, x)}
        outcome(e, 's', api.set(name, x))
        g = api.get(name)
        outcome(e, 'g', g)
        e['g'] = int(g[2]) if isinstance(g[2], (int, float)) and not isinstance(g[2], bool) and g[2] == int(g[2]) else 99
        gb = api.get(name, as_type=bool)
        e['gb'] = gb[2] if isinstance(gb[2], bool) else (not x)
        events.append(e)
    # ---- evaluate versus PRINT ---------------------------------------------------------------------------------
    api.sess.ex('CLEAR')
    S.set_variable('A%', 1234); S.set_variable('B!', 2.5); S.set_variable('C#', -0.375); S.set_variable('D$', b'basic')
    exprs = list(EVAL_FIXED) + [gen_eval(rng) for _ in range(ctx.pick(1500, 30000))]
    for ex in exprs:
        e = {'op': 'eval', 'shown': 'evaluate(%r)' % ex}
        r = api.call(lambda: S.evaluate(ex))
        v = r[2]
        e['vk'] = r[0] if not (r[0] == 'ok' and v is None) else 'basic'     # evaluate returns None after a BASIC error
        if r[3]:
            e['vdetail'] = r[3]
        if isinstance(v, bool) or v is None:
            e['kind'], e['v'] = 'int', 0
            if v is not None:
                e['vk'], e['vdetail'] = 'pyexc', 'evaluate returned %r' % (v,)
        elif isinstance(v, int):
            e['kind'], e['v'] = ('int', v) if abs(v) < 2 ** 30 else ('float', ieee(float(v)))
        elif isinstance(v, float):
            e['kind'], e['v'] = 'float', ieee(v)
        elif isinstance(v, (bytes, bytearray)):
            e['kind'], e['v'] = 'str', list(v)
        else:
            e['kind'], e['v'], e['vk'], e['vdetail'] = 'int', 0, 'pyexc', 'evaluate returned %r' % (v,)
        p = api.sess.ex('PRINT ' + ex)
        e['pk'] = {'ok': 'ok', 'err': 'basic'}.get(p[0], 'pyexc')
        if p[0] == 'ok' and find_errors(p[2]):
            e['pk'] = 'basic'
        e['p'] = list(p[2])
        e['got'] = '%r vs PRINT %r' % (v, p[2][:60])
        events.append(e)
    # ---- arrays -----------------------------------------------------------------------------------------------

    def rnd_leaf(t):
        if t == '%':
            return rng.choice([0, 1, -1, 32767, -32768, rng.randint(-32768, 32767)])
        if t in '!#':
            return rng.choice([0.0, 1.5, -2.25, 0.1, 1e10, -3.3e-7, rng.uniform(-1e6, 1e6), float(rng.randint(-1000, 1000))])
        return bytes(rng.getrandbits(8) for _ in range(rng.choice([0, 1, 3, 10, rng.randint(0, 40)])))

    def build(shape, t):
        if len(shape) == 1:
            return [rnd_leaf(t) for _ in range(shape[0])]
        return [build(shape[1:], t) for _ in range(shape[0])]

    narr = ctx.pick(700, 12000)
    for i in range(narr):
        t = TYPES[i % 4]
        nd = rng.choice([1, 1, 2, 2, 3])
        dimensioned = rng.random() < 0.8
        base = rng.choice([None, 0, 1])
        shape = [rng.randint(1, 5 if nd < 3 else 3) for _ in range(nd)]
        if not dimensioned and rng.random() < 0.15:
            shape = [11] * nd if nd < 3 else [11, 11, rng.choice([11, 2])]
        if rng.random() < 0.05:
            shape[rng.randrange(nd)] = rng.choice([10, 11, 12, 20])
        name = rng.choice(['AR', 'x', 'Q9']) + t
        api.sess.ex('CLEAR')
        lo = 1 if base == 1 else 0
        if base is not None:
            api.sess.ex('OPTION BASE %d' % base)
        if dimensioned:
            r = api.sess.ex('DIM %s(%s)' % (name, ','.join(str(n - 1 + lo) for n in shape)))
            if r[0] != 'ok':
                continue
        lst = build(shape, t)
        _, shp, leaves = shape_of(lst)
        e = {'op': 'array', 't': t, 'dimensioned': dimensioned, 'base': -1 if base is None else base, 'shape_in': shp,
             'leaves_in': [leaf_enc(t, v) for v in leaves],
             'shown': '%sset_variable(%r, <list of shape %r>)' % ('DIM; ' if dimensioned else '', name + '()', shape)}
        outcome(e, 's', api.set(name + '()', lst))
        if rng.random() < 0.5:
            # other API calls between setting and reading back: what was set must not depend on being read at once
            # (round-4 seeded change C43d left the last string of a list unprotected against the next expression)
            between = rng.choice(['"x"+"y"', '1+1', 'LEN("abc"+"d")', 'STRING$(3,65)+"q"'])
            api.call(lambda: S.evaluate(between))
            if rng.random() < 0.5:
                api.call(lambda: S.evaluate('"p"+STR$(7)'))
            e['shown'] += '; evaluate(%r)' % between
        g = api.get(name + '()')
        outcome(e, 'g', g)
        rect, shp_out, leaves_out = shape_of(g[2]) if isinstance(g[2], list) else (False, [], [])
        enc = [leaf_enc(t, v) for v in leaves_out]
        if any(x is None for x in enc):
            rect, shp_out, enc = False, [], []
        e['rect'], e['shape_out'], e['leaves_out'] = rect, shp_out, enc
        e['got'] = 'shape %r' % (shp_out,)
        events.append(e)
    # string arrays under memory pressure: many round trips in ONE small string space, so that garbage collections fall
    # in the middle of set_variable (values converted but not yet assigned must survive them)
    for rep in range(ctx.pick(6, 60)):
        api.sess.ex('CLEAR ,%d' % rng.choice([6000, 6200, 6500]))
        api.sess.ex('DIM PS$(5)')
        for i in range(40):
            lst = [bytes(rng.randint(33, 126) for _ in range(rng.randint(5, 45))) for _ in range(6)]
            e = {'op': 'array', 't': '$', 'dimensioned': True, 'base': -1, 'shape_in': [6], 'pressure': True,
                 'leaves_in': [leaf_enc('$', v) for v in lst],
                 'shown': 'CLEAR ,small; DIM PS$(5); round trip %d: set_variable("PS$()", <6 strings>)' % i}
            outcome(e, 's', api.set('PS$()', lst))
            g = api.get('PS$()')
            outcome(e, 'g', g)
            rect, shp_out, leaves_out = shape_of(g[2]) if isinstance(g[2], list) else (False, [], [])
            enc = [leaf_enc('$', v) for v in leaves_out]
            if any(x is None for x in enc):
                rect, shp_out, enc = False, [], []
            e['rect'], e['shape_out'], e['leaves_out'] = rect, shp_out, enc
            events.append(e)
            if e.get('sk') == 'pyexc' or e.get('gk') == 'pyexc':
                break
    # NEW string scalars under memory pressure: the text still fits into the free space, the record of the variable that has to
    # be created does not (or barely), so the garbage collection falls between storing the text and creating the variable
    # (round-3 seeded change C43c took the string pointer before that collection)
    counter = [0]
    npress = 0
    api2 = Api()         # a session of its own: nothing but G$ and the new variable lives in its small memory
    for rep in range(ctx.pick(8, 80)):
        for slack in range(-2, 14):
            # (the same size every time: CLEAR cannot grow the memory again, and a refused CLEAR clears nothing)
            if api2.sess.ex('CLEAR ,6000')[0] != 'ok':
                raise core.MachineryError('CLEAR ,6000 refused in the memory-pressure arm')
            free = None
            for _ in range(400):                      # garbage: one variable set over and over
                api2.set('G$', bytes(rng.randint(33, 126) for _ in range(rng.randint(10, 40))))
                f = api2.call(lambda: api2.S.evaluate('FRE(0)'))
                if f[0] == 'ok' and f[2] is not None and 40 <= int(f[2]) <= 240 + min(slack, 0):
                    free = int(f[2])
                    break
            if free is None or free - slack < 1 or free - slack > 255:
                continue
            counter[0] += 1
            name = rng.choice(['N%d$', 'LONGERNAME%d$', 'Q%d$']) % counter[0]
            x = bytes(rng.randint(33, 126) for _ in range(free - slack))
            e = {'op': 'bytes', 'x': list(x), 'pressure': True,
                 'shown': 'CLEAR ,small; garbage until FRE(0)=%d; set_variable(%r, <%d bytes>) (a new variable)' % (free, name, len(x))}
            outcome(e, 's', api2.set(name, x))
            g = api2.get(name)
            outcome(e, 'g', g)
            e['g'] = list(g[2]) if isinstance(g[2], (bytes, bytearray)) else [-1]
            events.append(e)
            npress += 1
            if e.get('sk') == 'pyexc' or e.get('gk') == 'pyexc':
                break
    api2.close()
    ctx.cov['new_string_scalars_created_under_memory_pressure'] = npress
    # unicode elements in a string array (documented: unicode is converted according to the codepage)
    for i in range(ctx.pick(30, 300)):
        n = rng.randint(1, 4)
        api.sess.ex('CLEAR')
        api.sess.ex('DIM US$(%d)' % (n - 1))
        lst = [u''.join(chr(cp[rng.randint(32, 255)]) for _ in range(rng.randint(0, 6))) for _ in range(n)]
        e = {'op': 'array', 't': '$', 'dimensioned': True, 'base': -1, 'shape_in': [n], 'unicode_elements': True,
             'leaves_in': [[cp.index(ord(c)) for c in u] for u in lst],
             'shown': 'DIM; set_variable("US$()", %r)' % (lst,)}
        outcome(e, 's', api.set('US$()', lst))
        g = api.get('US$()')
        outcome(e, 'g', g)
        rect, shp_out, leaves_out = shape_of(g[2]) if isinstance(g[2], list) else (False, [], [])
        enc = [leaf_enc('$', v) for v in leaves_out]
        if any(x is None for x in enc):
            rect, shp_out, enc = False, [], []
        e['rect'], e['shape_out'], e['leaves_out'] = rect, shp_out, enc
        events.append(e)
    api.close()
    ctx.cov['impl_wall_s'] = round(time.time() - t0, 1)
    judge(ctx, events, cp)


KEEP = {
    'int': ('op', 'x', 'big', 'sk', 'scode', 'gk', 'g', 'gbig'),
    'float': ('op', 't', 'x', 'sk', 'scode', 'gk', 'g'),
    'bytes': ('op', 'x', 'sk', 'gk', 'g'),
    'ustr': ('op', 'x', 'sk', 'gk', 'gb', 'gu'),
    'bool': ('op', 'x', 'sk', 'gk', 'g', 'gb'),
    'eval': ('op', 'kind', 'v', 'vk', 'pk', 'p'),
    'array': ('op', 't', 'sk', 'scode', 'gk', 'rect', 'shape_in', 'shape_out', 'leaves_in', 'leaves_out'),
}


def judge(ctx, events, cp):
    verdicts = []
    CH = 40000
    for i in range(0, len(events), CH):
        chunk = events[i:i + CH]
        vs = ctx.validate('C43_Trace', [{k: e[k] for k in KEEP[e['op']]} for e in chunk], header={'cp': cp})
        verdicts += [(i + j, c) for (j, c) in vs]
    ctx.cov['traces_validated_against_impl'] += 1
    kinds = {}
    for e in events:
        kinds[e['op']] = kinds.get(e['op'], 0) + 1
        ctx.count([e['op'], e.get('t'), e.get('x'), e.get('shape_in'), e.get('shown')])
    ctx.cov['events_by_kind'] = kinds
    ctx.cov['arrays_dimensioned'] = sum(1 for e in events if e['op'] == 'array' and e['dimensioned'])
    ctx.cov['arrays_undimensioned'] = sum(1 for e in events if e['op'] == 'array' and not e['dimensioned'])
    for k in ('int', 'float', 'ustr', 'eval', 'array'):
        ev = [e for e in events if e['op'] == k]
        if ev:
            e = ev[len(ev) // 2]
            ctx.sample({'call': e['shown'], 'set': e.get('sk', e.get('vk')), 'got': e.get('got')}, limit=8)
    for (i, clause) in verdicts:
        e = events[i - 1]
        key = {'clause': clause, 'op': e['op'], 'sk': e.get('sk', e.get('vk')), 'scode': e.get('scode', 0)}
        if e['op'] == 'array':
            key['dimensioned'] = e['dimensioned']
            key['element_type'] = 'unicode' if e.get('unicode_elements') else e['t']
            imp = 10 if e['base'] == 1 else 11
            key['padded_to_implicit'] = bool(e['shape_out']) and all(n == imp for n in e['shape_out']) \
                and len(e['shape_out']) == len(e['shape_in']) and all(n <= imp for n in e['shape_in'])
            key['longer_than_implicit'] = any(n > imp for n in e['shape_in'])
        if e['op'] == 'ustr':
            key['nul_then_latin1'] = any(a == 0 and 128 <= b <= 255 for a, b in zip(e['x'], e['x'][1:]))
        if e['op'] == 'float':
            key['t'] = e['t']
        ctx.reject('C43 %s at %s (set: %s %s %s; got: %s %s)' % (
            clause, e['shown'], e.get('sk', e.get('vk')), e.get('scode', ''), e.get('sdetail', e.get('vdetail', '')),
            e.get('got', ''), e.get('gdetail', '')), key=key, data={k: v for k, v in e.items() if k not in ('leaves_in', 'leaves_out') or len(v) < 50})
    if kinds.get('array', 0) < 100 or kinds.get('eval', 0) < 100:
        raise core.MachineryError('vacuous: too few array / evaluate events')
    ctx.assumptions += ['TLC evaluates SessionApi.tla correctly (NearOK and EqRat self-checked by SessionApi_MC)',
                        'struct.pack(">d") gives the IEEE-754 bytes of a Python float',
                        'the codepage table is read from the session once and held constant']
