"""C11 — variable storage exposed via PEEK / VARPTR / VARPTR$ and never aliased.

Spec VarMem.tla (property on sweeps + implementation-shaped layout model); models VarMem_MC*.cfg; trace spec VarMem_Trace."""
import os, json
from ..session import Sess
from .. import graph, core

LEVEL = 'model_checking'
META = {
    'technique': 'TLC exhaustive model check of the implementation-shaped variable layout model + replay of its transitions on the '
                 'real interpreter + TLC trace validation of random histories with a PEEK/VARPTR/VARPTR$ sweep over all live '
                 'variables and array elements after every step',
    'text': 'VarMem.tla states the property on a sweep (cells = live scalars and array elements with VARPTR, VARPTR$ bytes, the bytes '
            'PEEKed at VARPTR.., the stored encoding MKI$/MKS$/MKD$(x) resp. the characters, and for strings the bytes PEEKed at the '
            'stored address): PEEK(VARPTR+i) = i-th byte of the encoding; strings length+address and characters at the address; '
            'VARPTR$ = <<type size, lo, hi>>; every value range inside [PEEK(&H358), PEEK(&H35C)); ranges pairwise disjoint; '
            'NonInterference between consecutive sweeps (only the statement\'s targets change, SWAP exchanges, ERASE removes exactly '
            'its array). The implementation-shaped model (scalar/array records with the sizes of the pinned code, ERASE shifting, '
            'Peek transcribing Scalars/Arrays.get_memory) is checked exhaustively against these predicates for a curated family of '
            'variables (names of 1..40 letters, 4 types, arrays of 1-2 dimensions) and must find the Arrays.get_memory defect with '
            'AsCoded=TRUE. Every transition of the model (4 operations deep) is replayed on a real Session; random histories (names '
            '1..40 chars, arrays 1..3 dims, OPTION BASE 0/1, assignments of all types, SWAP, DIM/ERASE/implicit DIM, string '
            'reallocation and forced collections under tight memory) are swept after every step and judged by VarMem_Trace.tla.',
    'note': 'Trusted: TLC; Session.evaluate as projection (PEEK, VARPTR, VARPTR$, MKI$/MKS$/MKD$). The record layout itself (header '
            'bytes, record sizes) is not demanded by the statement: the model\'s predicted addresses are compared with the real VARPTRs '
            'for evidence only. Arrays are kept to <= 12 elements so that every element is swept after every step.',
}

SIZE = {'%': 2, '!': 4, '#': 8, '$': 3}
MK = {'%': 'MKI$', '!': 'MKS$', '#': 'MKD$'}
W = ('PEEK(&H%X)+256*PEEK(&H%X)')
AREA = [W % (0x358, 0x359), W % (0x35A, 0x35B), W % (0x35C, 0x35D)]


class Internal(Exception):
    pass


class NoRoom(Exception):
    """The sweep itself (MKx$, VARPTR$ need a few bytes of string space) ran out of memory: the history ends here."""


class Drv(object):
    def __init__(self, ctx):
        self.ctx = ctx
        self.s = None
        self.events = []
        self.poisoned = False
        self.cur_n = None
        self.scalars = []       # (name with sigil)
        self.arrays = {}        # name with sigil -> (dims list, base)
        self.base = 0
        self.sessions = 0
        self.cells_swept = 0
        self.norooms = 0

    def close(self):
        if self.s:
            self.s.close()
            self.s = None

    def begin(self, n=None, base=0):
        if self.s is None or self.poisoned or (n is None and self.cur_n is not None) or (n and self.cur_n and n > self.cur_n):
            self.close()
            self.s = Sess(peek_values={})
            self.sessions += 1
            self.poisoned = False
            self.cur_n = None
        r = self.s.ex('CLEAR ,%d' % n if n else 'CLEAR')
        if r[0] != 'ok':
            raise core.MachineryError('session set-up CLEAR ,%s failed: %r' % (n, r[:2]))
        self.cur_n = n
        self.scalars = []
        self.arrays = {}
        self.base = base
        if base:
            r = self.s.ex('OPTION BASE 1')
            if r[0] != 'ok':
                raise core.MachineryError('OPTION BASE 1 failed: %r' % (r[:2],))
        return self.observe({'op': 'begin', 'ok': True, 'kind': 'ok', 'code': 0, 'stmt': 'begin CLEAR ,%s base %d' % (n, base)})

    # ---- projection -------------------------------------------------------------------------------------------------
    def num(self, expr):
        r = self.s.ev(expr)
        if r[0] != 'ok':
            raise Internal('%s -> %r' % (expr, r[:2]))
        return int(r[1])

    def peek_bytes(self, addr, n):
        """n bytes from addr with numeric-only expressions (no string space is touched)."""
        out = []
        for k in range(0, n, 4):
            m = min(4, n - k)
            expr = '+'.join('%d#*PEEK(%d)' % (256 ** j, (addr + k + j) & 0xFFFF) for j in range(m))
            v = self.num(expr)
            out += [(v >> (8 * j)) & 255 for j in range(m)]
        return out

    def cell_refs(self):
        refs = [(n, n[-1], '') for n in self.scalars]
        for name, (dims, base) in self.arrays.items():
            idx = [[]]
            for d in dims:
                idx = [i + [k] for i in idx for k in range(base, d + 1)]
            for i in idx:
                refs.append(('%s(%s)' % (name, ','.join(map(str, i))), name[-1], name))
        return refs

    def sweep(self):
        cells = []
        for (ref, t, arr) in self.cell_refs():
            c = {'n': ref, 't': t, 'arr': arr}
            if t == '$':
                r = self.s.ev(ref)
            else:
                r = self.s.ev('%s(%s)' % (MK[t], ref))
            if r[0] == 'err' and r[1] in (7, 14):
                raise NoRoom()
            if r[0] != 'ok':
                raise Internal('value of %s -> %r' % (ref, r[:2]))
            c['val'] = list(r[1])
            r = self.s.ev('VARPTR$(%s)' % ref)
            if r[0] == 'err' and r[1] in (7, 14):
                raise NoRoom()
            if r[0] != 'ok':
                raise Internal('VARPTR$(%s) -> %r' % (ref, r[:2]))
            c['vps'] = list(r[1])
            c['vp'] = self.num('VARPTR(%s)' % ref) & 0xFFFF
            c['pk'] = self.peek_bytes(c['vp'], SIZE[t])
            if t == '$':
                c['sa'] = c['pk'][1] + 256 * c['pk'][2]
                c['sp'] = self.peek_bytes(c['sa'], c['pk'][0]) if c['val'] else []
            cells.append(c)
        return cells

    def observe(self, e):
        try:
            e['sweep'] = self.sweep()
            e['area'] = [self.num(x) & 0xFFFF for x in AREA]
            self.cells_swept += len(e['sweep'])
        except NoRoom:
            # not observable any more: drop the event and end the history (the next begin re-synchronises)
            e['kind'] = 'noroom'
            self.norooms += 1
            return e
        except Internal as ex:
            e['kind'] = 'internal'
            e['detail'] = 'sweep: %s' % ex
            e['sweep'] = []
            e['area'] = [0, 0, 0]
        except BaseException as ex:  # noqa
            e['kind'] = 'internal'
            e['detail'] = 'sweep: %s: %s' % (type(ex).__name__, ex)
            e['sweep'] = []
            e['area'] = [0, 0, 0]
        if e['kind'] == 'internal':
            self.poisoned = True
        self.events.append(e)
        return e

    def do(self, a, stmt, on_ok=None):
        e = dict(a)
        e['stmt'] = stmt
        r = self.s.ex(stmt)
        e['kind'] = 'ok' if r[0] == 'ok' else 'err' if r[0] == 'err' else 'internal'
        e['ok'] = r[0] == 'ok'
        e['code'] = r[1] if r[0] == 'err' else 0
        if e['kind'] == 'internal':
            e['detail'] = str(r[1])
        if e['ok'] and on_ok:
            on_ok()
        return self.observe(e)


KEEP = ('op', 'x', 'y', 'arr', 'arr2', 'sv', 'ok', 'kind', 'area', 'sweep')


def validate(ctx, d, what):
    evs = d.events
    verdicts = ctx.validate('VarMem_Trace', [{k: e[k] for k in KEEP if k in e} for e in evs], name=what)
    begins = [i for i, e in enumerate(evs) if e['op'] == 'begin']
    for (i, clause) in verdicts:
        e = evs[i - 1]
        b = max(x for x in begins if x <= i - 1)
        hist = [x['stmt'] for x in evs[b:i]]
        narr = len({c['arr'] for c in e['sweep'] if c['arr']})
        bad = first_bad_cell(e, clause)
        ctx.reject('C11 %s at %r (%s %s%s) [%s, step %d] %s after ...%s' % (
            clause, e['stmt'], e['kind'], e['code'], ' ' + e.get('detail', '') if e.get('detail') else '', what, i - b, bad, hist[-6:-1]),
            key={'clause': clause, 'op': e['op'], 'arm': what, 'arrays_alive': narr,
                 'cell_in_array': bool(bad and bad.get('arr')), 'cell_first_array': bad.get('first_array') if bad else None},
            data={'event': {k: e[k] for k in e if k != 'sweep'}, 'cell': bad, 'session': hist[-80:]})
    for e in evs:
        ctx.count([e['op'], e.get('x'), e['kind'], e['code'], [(c['n'], c['vp']) for c in e['sweep']]], nontrivial=e['op'] != 'begin')
    return len(begins)


def first_bad_cell(e, clause):
    """Diagnosis only: the first cell whose PEEKed bytes differ from the encoding (for the message and the finding key)."""
    arrs = []
    for c in e['sweep']:
        if c['arr'] and c['arr'] not in arrs:
            arrs.append(c['arr'])
    lowest = None
    if arrs:
        lowest = min(arrs, key=lambda a: min(c['vp'] for c in e['sweep'] if c['arr'] == a))
    for c in e['sweep']:
        if c['t'] != '$' and c['pk'] != c['val'] or c['t'] == '$' and (c['pk'][0] != len(c['val']) or (c['val'] and c['sp'] != c['val'])):
            r = {k: c[k] for k in ('n', 't', 'arr', 'vp', 'pk', 'val')}
            r['first_array'] = (c['arr'] == lowest) if c['arr'] else None
            return r
    return None


# ---------------------------------------------------------------------------------------------------------------------
# spec -> code: every transition of the bounded layout model
KVAL = {'%': {1: '1', 2: '2'}, '!': {1: '1.5', 2: '2.5'}, '#': {1: '1.25#', 2: '2.25#'}, '$': {1: '"a"', 2: '"bb"'}}


def mname(codes, t):
    return ''.join(chr(c) for c in codes) + t


def spec_to_code(ctx):
    r = ctx.tlc('VarMem_MC', 'VarMem_MC_emit.cfg', workers=4, tag='emit')
    if not r['ok']:
        raise core.MachineryError('emit run failed: %s' % r['error'])
    trans = graph.parse_transitions(r['out'])
    # the depth counter is part of the VIEW: the same (state, action) may be printed at several depths
    seen, uniq = set(), []
    inits = {t['from'] for t in trans if t['d'] == 0}
    for t in trans:
        k = (t['from'], json.dumps(t['a'], sort_keys=True))
        if k not in seen:
            seen.add(k)
            uniq.append(t)
    trans = uniq
    if len(inits) != 1:
        raise core.MachineryError('emit: %d initial states' % len(inits))
    walks, cov, total = graph.covering_walks(trans, inits.pop(), max_len=8, rng=ctx.rng, limit=ctx.pick(500, None))
    ctx.cov['model_transitions'] = total
    ctx.cov['model_transitions_replayed'] = cov
    if not ctx.quick() and cov < total:
        raise core.MachineryError('edge cover incomplete: %d of %d' % (cov, total))
    d = Drv(ctx)
    agree = [0, 0]
    for w in walks:
        d.begin()
        sc, ar = [], []          # model's scalar / array sequences (names) to resolve indices
        for t in w:
            a = t['a']
            op = a['op']
            if op == 'scalar':
                n = mname(a['name'], a['t'])
                sv = {'sv': list(KVAL['$'][a['k']].strip('"').encode())} if a['t'] == '$' else {}

                def ok_(n=n):
                    if n not in d.scalars:
                        d.scalars.append(n)
                e = d.do(dict(op='assign', x=n, **sv), '%s=%s' % (n, KVAL[a['t']][a['k']]), ok_)
            elif op == 'dim':
                n = mname(a['name'], a['t'])

                def ok_(n=n, dims=a['dims']):
                    d.arrays[n] = (list(dims), 0)
                e = d.do({'op': 'dim', 'arr': n}, 'DIM %s(%s)' % (n, ','.join(map(str, a['dims']))), ok_)
            elif op == 'elem':
                n = ar[a['i'] - 1]
                dims = d.arrays[n][0]
                idx = [0] * len(dims) if a['j'] == 1 else list(dims)
                ref = '%s(%s)' % (n, ','.join(map(str, idx)))
                sv = {'sv': list(KVAL['$'][a['k']].strip('"').encode())} if n[-1] == '$' else {}
                e = d.do(dict(op='assign', x=ref, **sv), '%s=%s' % (ref, KVAL[n[-1]][a['k']]))
            elif op == 'erase':
                n = ar[a['i'] - 1]

                def ok_(n=n):
                    del d.arrays[n]
                e = d.do({'op': 'erase', 'arr': n}, 'ERASE %s' % n, ok_)
            elif op == 'swap':
                x, y = sc[a['i'] - 1], sc[a['j'] - 1]
                e = d.do({'op': 'swap', 'x': x, 'y': y}, 'SWAP %s,%s' % (x, y))
            else:
                raise core.MachineryError('unknown model action %r' % (a,))
            sc = [mname(x['name'], x['t']) for x in t['sc']]
            ar = [mname(x['name'], x['t']) for x in t['ar']]
            # evidence: does the layout the model predicts agree with the real addresses?
            if e['kind'] != 'internal':
                vs = e['area'][0]
                real = {c['n']: c['vp'] - vs for c in e['sweep']}
                pred = {mname(x['name'], x['t']): x['vp'] for x in t['sc']}
                for x in t['ar']:
                    pred['%s(%s)' % (mname(x['name'], x['t']), ','.join('0' for _ in x['dims']))] = x['vp']
                same = all(real.get(k) == v for k, v in pred.items()) and e['area'][2] - vs == t['end']
                agree[same] += 1
    d.close()
    ctx.cov['replayed_model_statements'] = len(d.events)
    ctx.cov['replay_layout_agrees_with_model'] = agree[1]
    ctx.cov['replay_layout_differs_from_model'] = agree[0]
    ctx.cov['replay_cells_swept'] = d.cells_swept
    ns = validate(ctx, d, 'replay')
    ctx.cov['traces_validated_against_impl'] += ns
    for e in d.events[3:5]:
        ctx.sample({'stmt': e['stmt'], 'area': e['area'], 'cells': [[c['n'], c['vp'], c['pk']] for c in e['sweep'][:4]]})


# ---------------------------------------------------------------------------------------------------------------------
# code -> spec: random histories
FIRST = 'BGHJKQVWXZ'
REST = 'BGHJKQVWXZ0123456789'          # no BASIC keyword can be spelled with these
LET = b'abcdefghijklmnopqrstuvwxyzABCDEFGHIJKLMNOPQRSTUVWXYZ0123456789 .,;'


class Gen(object):
    def __init__(self, rng, d, tight):
        self.rng = rng
        self.d = d
        self.tight = tight

    def name(self, t):
        rng = self.rng
        ln = rng.choice([1, 1, 2, 2, 3, 3, 4, 5, 8, 17, 39, 40])
        while True:
            n = rng.choice(FIRST) + ''.join(rng.choice(REST) for _ in range(ln - 1)) + t
            if n not in self.d.scalars and n not in self.d.arrays:
                return n

    def value(self, t):
        rng = self.rng
        if t == '%':
            return str(rng.choice([0, 1, -1, 255, 256, 32767, -32768, rng.randint(-32768, 32767)])), None
        if t == '!':
            return rng.choice(['0', '1', '-1.5', '3.25E+10', '-7.125E-20', '16777215', '%d' % rng.randint(-10 ** 6, 10 ** 6),
                               '%.4f' % rng.uniform(-1000, 1000)]), None
        if t == '#':
            return rng.choice(['0#', '1#', '-1.5#', '3.14159265358979#', '-2.5D+30', '1D-30', '%d#' % rng.randint(-10 ** 9, 10 ** 9),
                               '%.9f#' % rng.uniform(-1000, 1000)]), None
        r = rng.random()
        ln = 0 if r < 0.1 else rng.randint(1, 6) if r < 0.6 else rng.randint(7, 24) if (r < 0.95 or self.tight) else rng.choice([100, 255])
        b = bytes(rng.choice(LET) for _ in range(ln))
        return '"%s"' % b.decode(), list(b)

    def cell(self, t=None):
        refs = [r for r in self.d.cell_refs() if t is None or r[1] == t]
        return self.rng.choice(refs) if refs else None

    def step(self):
        rng, d = self.rng, self.d
        r = rng.random()
        if r < 0.14 and len(d.scalars) < 8:
            t = rng.choice('%!#$')
            n = self.name(t)
            v, sv = self.value(t)
            a = {'op': 'assign', 'x': n}
            if sv is not None:
                a['sv'] = sv
            return d.do(a, '%s=%s' % (n, v), lambda: d.scalars.append(n))
        if r < 0.50:
            c = self.cell(rng.choice('%!#$$'))
            if c:
                v, sv = self.value(c[1])
                a = {'op': 'assign', 'x': c[0]}
                if sv is not None:
                    a['sv'] = sv
                return d.do(a, '%s=%s' % (c[0], v))
        if r < 0.60 and len(d.arrays) < 3:
            t = rng.choice('%!#$')
            n = self.name(t)
            lo = d.base
            if rng.random() < 0.2 and lo == 0 or rng.random() < 0.1:
                # implicit dimensioning by first use (subscripts base..10)
                k = rng.randint(lo, 10)
                v, sv = self.value(t)
                a = {'op': 'assign', 'x': '%s(%d)' % (n, k)}
                if sv is not None:
                    a['sv'] = sv

                def ok_():
                    d.arrays[n] = ([10], d.base)
                return d.do(a, '%s(%d)=%s' % (n, k, v), ok_)
            dims = rng.choice([[3], [1], [5], [11 - 1 + lo], [2, 1], [1, 1], [2, 3], [1, 1, 1], [1, 2, 1], [lo, lo + 1, 2]])
            dims = [max(x, lo) for x in dims]

            def ok_():
                d.arrays[n] = (dims, d.base)
            return d.do({'op': 'dim', 'arr': n}, 'DIM %s(%s)' % (n, ','.join(map(str, dims))), ok_)
        if r < 0.67 and d.arrays:
            n = rng.choice(list(d.arrays))
            if len(d.arrays) >= 3 and rng.random() < 0.5:
                # one ERASE naming two arrays (the later arrays must move down by both sizes)
                n2 = rng.choice([x for x in d.arrays if x != n])

                def ok2_():
                    del d.arrays[n]
                    del d.arrays[n2]
                return d.do({'op': 'erase', 'arr': n, 'arr2': n2}, 'ERASE %s,%s' % (n, n2), ok2_)

            def ok_():
                del d.arrays[n]
            return d.do({'op': 'erase', 'arr': n}, 'ERASE %s' % n, ok_)
        if r < 0.80:
            x = self.cell()
            if x:
                y = self.cell(x[1])
                return d.do({'op': 'swap', 'x': x[0], 'y': y[0]}, 'SWAP %s,%s' % (x[0], y[0]))
        if r < 0.92:
            # string reallocation: grow / shrink / copy a string cell
            c = self.cell('$')
            if c:
                o = self.cell('$')
                k = rng.random()
                if k < 0.4:
                    v, sv = c[0] + '+"' + ''.join(chr(rng.choice(LET)) for _ in range(rng.randint(1, 9))) + '"', None
                elif k < 0.6:
                    v, sv = 'MID$(%s,2)' % c[0], None
                else:
                    v, sv = o[0] + '+""', None
                return d.do({'op': 'assign', 'x': c[0]}, '%s=%s' % (c[0], v))
        return d.do({'op': 'assign', 'x': 'F!'}, 'F=FRE("")', lambda: ('F!' in d.scalars) or d.scalars.append('F!'))


def code_to_spec(ctx):
    rng = ctx.rng
    d = Drv(ctx)
    nhist = ctx.pick(36, 250)
    plan = [None if rng.random() < 0.5 else rng.choice([300, 500, 900, 2500]) for _ in range(nhist)]
    plan.sort(key=lambda x: -(x or 10 ** 6))
    d.begin()
    code_end = d.events[-1]['area'][0]
    d.events = []
    for free0 in plan:
        # memory: default, or tight so that string reallocation keeps moving strings (variables + strings share free0 bytes)
        n = code_end + free0 + 514 if free0 else None
        d.begin(n, base=rng.choice([0, 0, 1]))
        g = Gen(rng, d, tight=free0 is not None)
        for _ in range(rng.randint(15, ctx.pick(45, 80))):
            e = g.step()
            if e['kind'] in ('internal', 'noroom'):
                break
            if free0:
                f = d.s.ev('FRE(0)')
                if f[0] != 'ok' or f[1] < 64:
                    break                   # keep room for the sweep's own temporaries
    d.close()
    evs = d.events
    ctx.cov['history_statements'] = len(evs)
    ctx.cov['history_sessions'] = d.sessions
    ctx.cov['history_ended_for_lack_of_room'] = d.norooms
    ctx.cov['history_cells_swept'] = d.cells_swept
    ctx.cov['history_max_cells'] = max(len(e['sweep']) for e in evs)
    ctx.cov['history_two_or_more_arrays'] = sum(1 for e in evs if len({c['arr'] for c in e['sweep'] if c['arr']}) >= 2)
    ctx.cov['history_erases'] = sum(1 for e in evs if e['op'] == 'erase' and e['ok'])
    ctx.cov['history_failed_statements'] = sum(1 for e in evs if e['kind'] == 'err')
    e = evs[len(evs) // 2]
    ctx.sample({'stmt': e['stmt'], 'area': e['area'], 'cells': [[c['n'], c['vp'], c['vps'], c['pk'], c['val']] for c in e['sweep'][:5]]})
    ns = validate(ctx, d, 'history')
    ctx.cov['traces_validated_against_impl'] += ns
    if not ctx.violations and (not ctx.cov['history_two_or_more_arrays'] or not ctx.cov['history_erases']):
        raise core.MachineryError('vacuous histories: never two arrays alive / no ERASE')


def model_phases(ctx):
    r = ctx.tlc('VarMem_MC', ctx.pick('VarMem_MC.cfg', 'VarMem_MC_big.cfg'), workers=ctx.pick(4, 8), tag='model_check')
    ctx.cov['states'] += r['distinct']
    ctx.cov['transitions'] += r['generated']
    if not r['ok']:
        ctx.reject('TLC model check of VarMem_MC failed: %s' % r['error'], key={'clause': 'model_check', 'module': 'VarMem_MC'},
                   data=r['out'][-6000:])
    if r['distinct'] < 1000:
        raise core.MachineryError('model check explored only %d states' % r['distinct'])
    r = ctx.tlc('VarMem_MC', 'VarMem_MC_ascoded.cfg', workers=4, tag='ascoded_selftest', expect_fail=True)
    if r['ok'] or not r['error'] or 'FaithfulInv' not in r['error']:
        raise core.MachineryError('selftest: the as-coded model does not exhibit the Arrays.get_memory defect (%s)' % r['error'])
    ctx.cov['ascoded_counterexample'] = r['error']


def run(ctx):
    ctx.cov['rule'] = ('events = BASIC statements on a real Session, each followed by a sweep of all live cells; distinct by '
                       '(op, target, outcome, addresses of all cells)')
    if not os.environ.get('VERIF_SKIP_MODEL'):      # developer aid (mutant runs): the pure-model phases do not depend on the code
        model_phases(ctx)
    spec_to_code(ctx)
    code_to_spec(ctx)
