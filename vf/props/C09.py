"""C09 — string functions and statements. Spec: Strings.tla; oracle self-check Strings_MC; trace spec C09_Trace.

The driver only GENERATES expression trees / statements and renders them as BASIC text; every judgement
(value, error code, admitted alternatives) is made by TLC evaluating Strings.tla on the recorded event."""
import os, time
from concurrent.futures import ThreadPoolExecutor
from decimal import Decimal, getcontext
from ..session import Sess
from .. import core

getcontext().prec = 60

LEVEL = 'exploration'
META = {
    'technique': 'TLA+ oracle (Strings.tla: reference definitions + expression-tree evaluator) evaluated by TLC on recorded '
                 'Session.evaluate/execute calls; definitions self-checked exhaustively on a reduced alphabet/length (Strings_MC)',
    'text': 'Expression trees over LEFT$ RIGHT$ MID$ INSTR STRING$ SPACE$ LEN ASC CHR$ + and the six comparisons (depth 1..3, '
            'string leaves as scalars, array elements, FIELD variables and literals; all byte values; lengths 0,1,2,127,254,255 '
            'and random; numeric arguments boundary-dense around 0, the string length, 255/256, 32767/32768 incl. halves and '
            'quarters, as integer/single/double literals and variables) are evaluated by the real interpreter and judged by TLC '
            'against Strings.tla (value, or the admitted error codes). MID$=, LSET, RSET on scalars, array elements, FIELD '
            'variables and code-literal strings, including self-overlap, are executed and the target read back with get_variable. '
            'Input-quantified property: exploration, not exhaustive.',
    'note': 'Trusted: TLC, JSON plumbing, error kind read from console messages, Session.set_variable/get_variable as the way '
            'to put/read byte strings. Arguments outside -32768..32767 admit Overflow or Illegal function call. For the '
            'self-overlapping MID$ statement both the value copy and the GW-BASIC forward byte copy are admitted. Type-mismatch '
            'paths and Out of string space are outside the fragment.',
}

STR_OPS = ['left', 'right', 'mid', 'string', 'space', 'chr', 'cat']
NUM_OPS = ['len', 'asc', 'instr', 'eq', 'ne', 'lt', 'gt', 'le', 'ge']
CMP = {'eq': '=', 'ne': '<>', 'lt': '<', 'gt': '>', 'le': '<=', 'ge': '>='}
FN = {'left': 'LEFT$', 'right': 'RIGHT$', 'mid': 'MID$', 'instr': 'INSTR', 'string': 'STRING$', 'space': 'SPACE$',
      'chr': 'CHR$', 'len': 'LEN', 'asc': 'ASC'}
LENGTHS = [0, 1, 2, 3, 127, 128, 254, 255]
INT_BOUNDS = [-100000, -40000, -32769, -32768, -32767, -257, -256, -255, -2, -1, 0, 1, 2, 3, 126, 127, 128, 129, 253, 254,
              255, 256, 257, 32766, 32767, 32768, 32769, 65535, 65536, 100000]


def dec_text(num, den):
    """Exact decimal text of num/den (den a power of two)."""
    d = Decimal(num) / Decimal(den)
    t = format(d, 'f')
    if '.' in t:
        t = t.rstrip('0').rstrip('.')
    if t.startswith('0.'):
        t = t[1:]
    elif t.startswith('-0.'):
        t = '-' + t[2:]
    return t or '0'


class Gen(object):
    """Generates string pools, expression trees and their BASIC rendering."""

    def __init__(self, rng, long_share):
        self.rng = rng
        self.long_share = long_share
        self.pool = {}      # source text -> bytes value
        self.nvar = 0
        self.pre = []       # numeric variable assignments needed by the current tree

    # ---- strings -------------------------------------------------------------
    def rand_len(self):
        r = self.rng
        x = r.random()
        if x < self.long_share:
            return r.choice([127, 128, 200, 253, 254, 255, 255, r.randint(100, 255)])
        if x < self.long_share + 0.25:
            return r.choice([0, 0, 1, 1, 2, 3])
        return r.randint(0, 24)

    def rand_bytes(self, n, alpha=None):
        r = self.rng
        if alpha is None:
            m = r.random()
            if m < 0.3:
                alpha = list(range(256))
            elif m < 0.55:
                alpha = r.sample(range(256), r.choice([1, 2, 2, 3]))
            elif m < 0.7:
                alpha = [0, 1, 13, 10, 32, 34, 127, 128, 254, 255]
            elif m < 0.85:
                alpha = list(range(97, 123))
            else:
                alpha = [32, 65, 97, 128, 255]
        return bytes(r.choice(alpha) for _ in range(n)), alpha

    def related(self, base, alpha):
        """A string related to base: slice, near-miss, prefix, extension, case flip of one byte."""
        r = self.rng
        n = len(base)
        m = r.random()
        if n and m < 0.35:
            i = r.randint(0, n - 1)
            j = r.randint(i, min(n, i + r.choice([1, 2, 3, 8, n])))
            return base[i:j]
        if n and m < 0.5:
            i = r.randint(0, n - 1)
            return base[:i] + bytes([(base[i] + r.choice([1, 255, 128])) % 256]) + base[i + 1:]
        if m < 0.6:
            return base[:r.randint(0, n)]
        if m < 0.7 and n < 255:
            return base + self.rand_bytes(r.randint(1, min(3, 255 - n)), alpha)[0]
        if m < 0.8:
            return base
        return self.rand_bytes(min(255, r.choice([0, 1, 2, 3, n])), alpha)[0]

    def pool_values(self):
        """Nine fresh related values (for the scalars A$..D$ and the array S$(0..4))."""
        r = self.rng
        base, alpha = self.rand_bytes(self.rand_len())
        vals = [base]
        for _ in range(8):
            if r.random() < 0.6:
                vals.append(self.related(r.choice(vals), alpha))
            else:
                vals.append(self.rand_bytes(self.rand_len(), alpha if r.random() < 0.5 else None)[0])
        r.shuffle(vals)
        self.alpha = alpha
        return vals

    def str_leaf(self):
        r = self.rng
        if r.random() < 0.15:
            # literal in the expression text (tokeniser + pointer into the code line)
            n = r.choice([0, 0, 1, 2, 3, 5, 12])
            v = bytes(r.choice(b'abcxyzABC 0129.,;:!#$%&()*+-/<=>?@[]^_{|}~') for _ in range(n))
            return {'t': 's', 'v': list(v), 'src': '"%s"' % v.decode('ascii')}
        src = r.choice(list(self.pool))
        return {'t': 's', 'v': list(self.pool[src]), 'src': src}

    # ---- numbers -------------------------------------------------------------
    def num_value(self, hint):
        """(num, den) boundary-dense around 0, hint (a string length), 255, 32767."""
        r = self.rng
        x = r.random()
        if x < 0.45:
            n, d = r.randint(0, min(hint + 2, 257)), 1
        elif x < 0.60:
            n, d = r.choice([hint - 2, hint - 1, hint, hint + 1, hint + 2, 0, 1, 2]), 1
        elif x < 0.78:
            n, d = r.choice(INT_BOUNDS), 1
        elif x < 0.84:
            n, d = r.randint(0, 260), 1
        elif x < 0.88:
            n, d = r.randint(-40000, 70000), 1
        else:
            base = r.choice([-1, 0, 1, 2, hint - 1, hint, hint + 1, 254, 255, 256, 32767, -32768, -32769, r.randint(0, 260)])
            d = r.choice([2, 2, 2, 4, 4, 8, 64])
            n = base * d + r.choice([1, -1, d // 2, -(d // 2), d // 2 + 1 if d > 2 else 1, d - 1])
        return n, d

    def num_leaf(self, hint):
        r = self.rng
        n, d = self.num_value(hint)
        node = {'t': 'n', 'v': [n, d]}
        isint = d == 1 and -32768 <= n <= 32767
        txt = dec_text(n, d)
        x = r.random()
        if x < 0.55:
            if isint:
                node['src'] = txt + r.choice(['', '', '', '!', '#', '%'])
            else:
                node['src'] = txt + r.choice(['', '', '#'])
                if d == 1 and abs(n) >= 10 ** 7 and not node['src'].endswith('#'):
                    node['src'] += '#'
        else:
            sig = r.choice(['%', '!', '#']) if isint else r.choice(['!', '#'])
            self.nvar += 1
            name = 'N%d%s' % (self.nvar, sig)
            self.pre.append((name, n if sig == '%' else n / d))
            node['src'] = name
        return node

    # ---- trees ---------------------------------------------------------------
    def length_hint(self, node):
        return len(node['v']) if node['t'] == 's' else self.rng.choice([0, 1, 3, 10, 255])

    def gen_str(self, depth, benign=False):
        r = self.rng
        if depth <= 0 or r.random() < 0.25:
            return self.str_leaf()
        return self.node(r.choice(STR_OPS), depth, benign)

    def gen_num(self, depth, hint, benign=False):
        r = self.rng
        if depth <= 0 or r.random() < 0.7:
            leaf = self.num_leaf(hint)
            if benign and r.random() < 0.8:
                n = r.randint(1, max(1, min(hint + 1, 255)))
                leaf = {'t': 'n', 'v': [n, 1], 'src': str(n)}
            return leaf
        return self.node(r.choice(NUM_OPS), depth, benign)

    def node(self, op, depth, benign=False):
        """An inner node with root operator op; children have depth-1."""
        r = self.rng
        d = depth - 1
        inner = benign or depth < self.rootdepth   # keep errors rare below the root
        if op in ('left', 'right'):
            s = self.gen_str(d, True)
            a = [s, self.gen_num(d, self.length_hint(s), inner)]
        elif op == 'mid':
            s = self.gen_str(d, True)
            h = self.length_hint(s)
            a = [s, self.gen_num(d, h, inner)]
            if r.random() < 0.7:
                a.append(self.gen_num(d, h, inner))
        elif op == 'instr':
            big = self.gen_str(d, True)
            small = self.gen_str(d, True)
            if big['t'] == 's' and r.random() < 0.5:
                v = self.related(bytes(big['v']), self.alpha)
                small = self.adhoc(v)
            a = [big, small]
            if r.random() < 0.65:
                a.insert(0, self.gen_num(d, self.length_hint(big), inner))
        elif op == 'string':
            n = self.gen_num(d, r.choice([0, 1, 5, 255]), inner)
            if r.random() < 0.5:
                c = self.gen_num(d, 255, inner)
            else:
                # the character source is always a leaf (so that the empty-source class is decidable from the input);
                # an empty source only at the root with a literal count
                c = self.str_leaf()
                if not c['v'] and (depth != self.rootdepth or n['t'] != 'n'):
                    c = {'t': 's', 'v': [120], 'src': '"x"'}
            a = [n, c]
        elif op in ('space', 'chr'):
            a = [self.gen_num(d, 255, inner)]
        elif op in ('len', 'asc'):
            a = [self.gen_str(d, True)]
        elif op == 'cat':
            a = [self.gen_str(d, True), self.gen_str(d, True)]
        else:
            x = self.gen_str(d, True)
            y = self.gen_str(d, True)
            if x['t'] == 's' and r.random() < 0.6:
                y = self.adhoc(self.related(bytes(x['v']), self.alpha))
            if r.random() < 0.5:
                x, y = y, x
            a = [x, y]
        return {'t': 'f', 'op': op, 'a': a}

    def adhoc(self, v):
        """A string leaf with a chosen value: reuse a pool variable holding it or put it in a spare variable."""
        for src, pv in self.pool.items():
            if pv == v:
                return {'t': 's', 'v': list(v), 'src': src}
        self.nvar += 1
        name = 'X%d$' % self.nvar
        self.pre.append((name, v))
        return {'t': 's', 'v': list(v), 'src': name}

    def begin(self, rootdepth):
        self.pre = []
        self.nvar = 0
        self.rootdepth = rootdepth

    def tree(self, op, depth):
        self.begin(depth)
        return self.node(op, depth)


def render(x):
    if x['t'] != 'f':
        return x['src']
    op, a = x['op'], [render(y) for y in x['a']]
    if op in CMP:
        return '(%s%s%s)' % (a[0], CMP[op], a[1])
    if op == 'cat':
        return '(%s+%s)' % (a[0], a[1])
    return '%s(%s)' % (FN[op], ','.join(a))


def strip(x):
    """The tree as TLC sees it (no rendering hints)."""
    if x['t'] != 'f':
        return {'t': x['t'], 'v': x['v']}
    return {'t': 'f', 'op': x['op'], 'a': [strip(y) for y in x['a']]}


def depth_of(x):
    return 0 if x['t'] != 'f' else 1 + max(depth_of(y) for y in x['a'])


def describe(x, key, prefix='a'):
    """Input-class descriptors of the direct arguments (for known-finding matching; no semantics)."""
    if x['t'] != 'f':
        return
    for i, y in enumerate(x['a'], 1):
        if y['t'] == 's':
            key['%s%d_len' % (prefix, i)] = len(y['v'])
        elif y['t'] == 'n':
            key['%s%d_num' % (prefix, i)] = y['v'][0] / y['v'][1]
        else:
            key['%s%d_op' % (prefix, i)] = y['op']


class Internal(Exception):
    """A Python exception escaped from the Session API (also a C01 violation)."""


class Driver(object):
    """Session + generator state; every Session call goes through here so that an escaping exception becomes a rejected
    event (and the session is replaced) instead of a harness crash."""

    def __init__(self, ctx, gen):
        self.ctx, self.g = ctx, gen
        self.s = None
        self.restart()

    def restart(self):
        if self.s is not None:
            self.s.close()
        self.s = Sess()
        self.field_open = False

    def close(self):
        self.s.close()

    def setv(self, name, v):
        try:
            self.s.s.set_variable(name, v)
        except BaseException as ex:
            raise Internal('%s: %s' % (type(ex).__name__, ex))

    def ex(self, text):
        r = self.s.ex(text)
        if r[0] == 'internal':
            raise Internal(r[1])
        return r

    def new_pool(self):
        g = self.g
        vals = g.pool_values()
        g.pool = {}
        for name, v in zip(['A$', 'B$', 'C$', 'D$'], vals[:4]):
            self.setv(name, v)
            g.pool[name] = v
        self.setv('S$()', list(vals[4:9]))
        for i, v in enumerate(vals[4:9]):
            g.pool['S$(%d)' % i] = v

    def apply_pre(self):
        for name, v in self.g.pre:
            self.setv(name, v)

    def getvar(self, name):
        """BASIC-visible value of a scalar or array element, as bytes."""
        if '(' in name:
            r = self.s.ev(name)
            if r[0] == 'internal':
                raise Internal(r[1])
            if r[0] == 'ok' and isinstance(r[1], bytes):
                return r[1]
            raise core.MachineryError('cannot read %s: %r' % (name, r[:2]))
        try:
            return bytes(self.s.s.get_variable(name))
        except BaseException as ex:
            raise Internal('%s: %s' % (type(ex).__name__, ex))

    def open_field(self, widths):
        self.ex('CLOSE')
        self.ex('OPEN "C09.DAT" FOR RANDOM AS 1 LEN=255')
        self.ex('FIELD #1,%d AS F$,%d AS G$' % widths)
        self.field_open = True


def run(ctx):
    ctx.cov['rule'] = ('calls of the real interpreter (Session.evaluate of rendered expression trees; Session.execute of '
                       'MID$=/LSET/RSET + get_variable) judged by TLC with Strings.tla; distinct = distinct (tree with values) / '
                       '(statement, target, arguments); non-trivial = all')
    if ctx.quick():
        ctx.model_check('Strings_MC', require_actions=False, workers=4)
    else:
        ctx.model_check('Strings_MC', 'Strings_MC_big.cfg', require_actions=False, workers=4)
        ctx.model_check('Strings_MC', 'Strings_MC_long.cfg', require_actions=False, workers=4)
    t0 = time.time()
    rng = ctx.rng
    events, info = [], []
    scale = float(os.environ.get('VERIF_C09_SCALE', '1'))
    n_expr = int(ctx.pick(36000, 360000) * scale)
    n_stmt = int(ctx.pick(7000, 70000) * scale)
    chunk = 12000
    internal = [0]

    pool = ThreadPoolExecutor(max_workers=2)
    pending = []

    def judge(evs, infs, no):
        verdicts = ctx.validate('C09_Trace', evs, name='c09_%d' % no)
        return evs, infs, verdicts

    def flush():
        """Hand the recorded events to TLC (runs beside the driver); verdicts are collected by settle()."""
        if not events:
            return
        pending.append(pool.submit(judge, list(events), list(info), len(pending)))
        del events[:]
        del info[:]

    def settle():
        for fut in pending:
            evs, infs, verdicts = fut.result()
            ctx.cov['traces_validated_against_impl'] += 1
            for (i, clause) in verdicts:
                e, inf = evs[i - 1], infs[i - 1]
                key = {'clause': clause, 'op': inf['op'], 'k': e['k'], 'depth': inf['depth']}
                if e['k'] == 'err':
                    key['v'] = e['v']
                key.update(inf['key'])
                shown = e.get('v') if e['op'] == 'expr' else e.get('after')
                if isinstance(shown, list):
                    shown = bytes(shown)
                ctx.reject('C09 %s: %s  [%s] -> %s %r' % (clause, inf['text'], inf['vars'], e['k'], shown), key=key,
                           data={'event': e, 'text': inf['text']})
        del pending[:]
        pool.shutdown()

    g = Gen(rng, 0.12 if ctx.quick() else 0.2)
    d = Driver(ctx, g)
    ops = STR_OPS + NUM_OPS

    def guarded(body, what):
        """Run one event; an exception escaping the Session API is a rejection, the session is replaced."""
        for attempt in (0, 1, 2):
            try:
                return body()
            except Internal as ex:
                internal[0] += 1
                ctx.reject('C09 internal error escaping the Session API during %s: %s' % (what(), ex),
                           key={'clause': 'internal', 'exc': exc_class(str(ex))}, data={'text': what()})
                d.restart()
                try:
                    d.new_pool()
                except Internal:
                    pass
                return None

    # ---------------- expressions ----------------
    cur = ['']

    def expr_event(i):
        if i % 12 == 0:
            if i % 3000 == 0 and i:
                d.restart()
            d.new_pool()
        op = ops[i % len(ops)] if rng.random() < 0.8 else rng.choice(['mid', 'instr', 'left', 'right', 'lt', 'cat'])
        depth = 1 if rng.random() < 0.7 else rng.choice([2, 2, 3])
        x = g.tree(op, depth)
        text = render(x)
        cur[0] = text
        if len(text) > 230:
            return
        d.apply_pre()
        r = d.s.ev(text)
        if r[0] == 'internal':
            raise Internal(r[1])
        e = {'op': 'expr', 'x': strip(x)}
        if r[0] == 'ok' and isinstance(r[1], bytes):
            e['k'], e['v'] = 's', list(r[1])
        elif r[0] == 'ok' and isinstance(r[1], int) and not isinstance(r[1], bool):
            e['k'], e['v'] = 'n', r[1]
        elif r[0] in ('err', 'soft'):
            e['k'], e['v'] = 'err', r[1]
        else:
            e['k'], e['v'] = 'other', 0
        key = {}
        describe(x, key)
        events.append(e)
        info.append({'op': op, 'depth': depth_of(x), 'text': text, 'key': key,
                     'vars': ' '.join('%s=%r' % (k, v) for k, v in sorted(used_vars(x).items()))[:300]})
        ctx.count(e['x'])
        if i in (0, 7, 500):
            ctx.sample({'text': text, 'event': e})

    for i in range(n_expr):
        guarded(lambda: expr_event(i), lambda: cur[0])
        if len(events) >= chunk:
            flush()
    flush()
    ctx.cov['expr_events'] = n_expr
    # ---------------- statements ----------------
    d.restart()
    stmt_count = {'midset': 0, 'lset': 0, 'rset': 0, 'self': 0, 'field': 0, 'array': 0, 'codelit': 0, 'fresh': 0, 'self_plus_empty': 0}

    def stmt_event(i):
        cur[0] = 'statement set-up'
        if i % 8 == 0:
            if i % 2000 == 0 and i:
                d.restart()
            d.new_pool()
        g.begin(99)          # all sub-trees "inner": keep errors in them rare
        kind = rng.choice(['midset', 'midset', 'midset', 'lset', 'rset'])
        tk = rng.random()
        tval, _ = g.rand_bytes(g.rand_len(), g.alpha if rng.random() < 0.5 else None)
        fresh = False
        if tk < 0.45:
            tname = 'T$'
            d.setv('T$', tval)
        elif tk < 0.65:
            tname = 'U$(%d)' % rng.randint(0, 3)
            d.setv('U$()', [b'q', b'', b'zz', b'www'])
            d.setv('W$', tval)
            d.ex('%s=W$' % tname)
            stmt_count['array'] += 1
        elif tk < 0.8:
            # FIELD variable: lives in the file buffer, written in place
            w = min(len(tval), 200)
            d.open_field((w, rng.randint(0, 20)))
            d.setv('W$', tval[:w])
            d.ex('LSET F$=W$')
            tname = 'F$'
            stmt_count['field'] += 1
        elif tk < 0.92:
            # target string lives in program code: the statement has to copy it to string space first
            n = rng.choice([0, 1, 2, 5, 9, 30])
            lit = bytes(rng.choice(b'abcdefghijXYZ 0123456789') for _ in range(n))
            d.ex('10 T$="%s"' % lit.decode('ascii'))     # storing a program line clears all variables
            d.field_open = False
            d.new_pool()
            d.ex('GOTO 10')
            tname = 'T$'
            stmt_count['codelit'] += 1
        else:
            # a variable that does not exist yet
            d.ex('CLEAR')
            d.field_open = False
            d.new_pool()
            tname = rng.choice(['Q$', 'QA$(2)'])
            fresh = True
            stmt_count['fresh'] += 1
        # a variable that does not exist reads as "" (CLEAR semantics, C23); reading it would allocate it
        before = b'' if fresh else d.getvar(tname)
        L = len(before)
        selfsrc = rng.random() < 0.22
        if selfsrc:
            src = {'t': 's', 'v': list(before), 'src': tname}
            stmt_count['self'] += 1
            if rng.random() < 0.4:
                # the target concatenated with empty strings: an expression VALUE, not the target itself (the statement's
                # overlapping-copy behaviour for a plain self-source must not apply; round-3 seeded change C09c)
                empty = {'t': 's', 'v': [], 'src': '""'}
                for _ in range(rng.randint(1, 2)):
                    src = {'t': 'f', 'op': 'cat', 'a': [src, empty] if rng.random() < 0.6 else [empty, src]}
                selfsrc = False
                stmt_count['self_plus_empty'] += 1
        else:
            src = g.gen_str(rng.choice([0, 0, 1, 1, 2]), True)
        e = {'op': kind, 't': list(before), 'src': strip(src), 'self': selfsrc}
        key = {}
        args = []
        if kind == 'midset':
            args = [g.gen_num(rng.choice([0, 0, 0, 1]), L)]
            if rng.random() < 0.65:
                args.append(g.gen_num(rng.choice([0, 0, 0, 1]), L))
            e['args'] = [strip(a) for a in args]
            text = 'MID$(%s,%s)=%s' % (tname, ','.join(render(a) for a in args), render(src))
            describe({'t': 'f', 'a': args}, key, 'arg')
        else:
            text = '%s %s=%s' % (kind.upper(), tname, render(src))
        cur[0] = text
        if len(text) > 230:
            return
        d.apply_pre()
        r = d.ex(text)
        after = d.getvar(tname)
        if r[0] == 'ok':
            e['k'], e['v'] = 'ok', 0
        elif r[0] == 'err':
            e['k'], e['v'] = 'err', r[1]
        else:
            e['k'], e['v'] = 'other', 0
        e['after'] = list(after)
        key.update({'target_len': L, 'self': selfsrc, 'target': tname.split('(')[0]})
        events.append(e)
        info.append({'op': kind, 'depth': max([depth_of(src)] + [depth_of(a) for a in args]),
                     'text': text, 'key': key,
                     'vars': ('%s=%r ' % (tname, before) + ' '.join('%s=%r' % (k, v) for k, v in
                              sorted(used_vars(src).items())))[:300]})
        stmt_count[kind] += 1
        ctx.count({k: v for k, v in e.items() if k not in ('k', 'v', 'after')})
        if i in (0, 11):
            ctx.sample({'text': text, 'event': e})

    for i in range(n_stmt):
        guarded(lambda: stmt_event(i), lambda: cur[0])
        if len(events) >= chunk:
            flush()
    flush()
    d.close()
    settle()
    ctx.cov['statement_events'] = stmt_count
    ctx.cov['internal_errors'] = internal[0]
    ctx.cov['impl_and_tlc_wall_s'] = round(time.time() - t0, 1)
    ctx.assumptions += ['TLC evaluates Strings.tla correctly (definitions cross-checked exhaustively by Strings_MC)',
                        'error kind read from the console message',
                        'Session.set_variable/get_variable transport byte strings faithfully (covered by C43)',
                        'a variable that does not exist after CLEAR reads as the empty string (C23)']


def exc_class(text):
    """Exception text without addresses (for known-finding matching)."""
    import re
    return re.sub(r'[0-9a-f]{3,} \(\d+\)', 'ADDR', text)[:80]


def used_vars(x):
    """Values of the string leaves of a tree, by source text (for the report line only)."""
    res = {}

    def walk(y):
        if y['t'] == 's':
            if not y['src'].startswith('"'):
                res[y['src']] = bytes(y['v'])
        elif y['t'] == 'n':
            if y['src'][0] == 'N':
                res[y['src']] = y['v'][0] / y['v'][1]
        else:
            for z in y['a']:
                walk(z)
    walk(x)
    return res


