"""C06 — numeric comparisons agree with the exact order. Spec: MBF.tla (Decode, Cmp); oracle self-check MBF_MC;
trace spec C06_Trace."""
import os
import time
from ..mbfdrv import (Drv, Pipeline, Sink, typ, int_bytes, flt, flt_of_int, neighbour, negated, rand_float, rand_value, rand_int, PBITS, SIZE)

LEVEL = 'exploration'
META = {
    'technique': 'TLA+ exact order on decoded MBF values (MBF.tla: Cmp) evaluated by TLC on recorded comparison results of the real '
                 'interpreter; Cmp is model-checked to be the order of the denoted rationals on a reduced format',
    'text': 'For pairs of numeric values of every type pairing (integer/single/double) the six relational operators of the real '
            'interpreter (pcbasic.basic.values.eq/neq/lt/gt/lte/gte called directly, and BASIC text "x = y" ... through the real '
            'tokeniser/parser) are recorded with the operand encodings; TLC decodes both operands, computes the exact order '
            '(sign, exponent, mantissa bytes from the top; integers normalised to the same triple; every zero-exponent encoding is '
            'zero) and demands -1 exactly when the relation holds, else 0, plus trichotomy and <= = NOT > on the observation. '
            'Pairs: non-canonical zeros against everything, adjacent representable values, equal magnitude / opposite sign, '
            'integers against floats at and next to the integer value, singles against doubles with the same leading bytes '
            '(equal, and differing only in the low four bytes), byte-wise near misses (one byte changed), random.',
    'note': 'Input-quantified: exploration, not exhaustive over all pairs. Trusted: TLC, JSON plumbing. Results are projected with '
            'to_value() of the returned Integer (99 if the result is not an Integer / an error).',
}
RELS = ['eq', 'neq', 'lt', 'gt', 'lte', 'gte']
SYMS = {'eq': ['='], 'neq': ['<>', '><'], 'lt': ['<'], 'gt': ['>'], 'lte': ['<=', '=<'], 'gte': ['>=', '=>']}


def run(ctx):
    ctx.cov['rule'] = ('recorded results of the six relational operators on a pair, judged by TLC against Cmp of MBF.tla; distinct = '
                       'distinct (types, operand bytes, route) tuples; non-trivial = all')
    quick = ctx.quick()
    rng = ctx.rng
    # development knob only (smoke-testing the thorough code paths quickly); evidence records it when used
    scale = float(os.environ.get('VF_MBF_SCALE', '1'))
    if scale != 1:
        ctx.cov['volume_scale'] = scale
    ctx.model_check('MBF_MC', 'MBF_MC_quick.cfg' if quick else 'MBF_MC.cfg', require_actions=False, workers=4)
    t0 = time.time()
    d = Drv()
    bv = d.bv
    relfn = [getattr(bv, r) for r in RELS]

    def on_reject(clause, e):
        key = {'clause': clause, 'tx': e['tx'], 'ty': e['ty'], 'xexp': e['x'][-1] if e['tx'] != 'i' else -1,
               'yexp': e['y'][-1] if e['ty'] != 'i' else -1, 'via': e['via']}
        ctx.reject('C06 %s: x=%s%s y=%s%s -> [= <> < > <= >=] = %s %s' % (clause, e['tx'], e['x'], e['ty'], e['y'], e['o'],
                                                                        e.get('detail', '')), key=key, data=e)

    pipe = Pipeline(ctx, 'C06_Trace', on_reject, lambda e: [e['tx'], e['x'], e['ty'], e['y'], e['via']],
                    parallel=2 if quick else 4)
    events = Sink(ctx, pipe, lambda e: e['tx'] + e['ty'], ['is', 'sd', 'dd', 'di'], drv=d)
    ptext = 0.04 if quick else 0.02

    def asint(o):
        if o['k'] == 'val' and o['t'] == 'i':
            v = o['b'][0] | o['b'][1] << 8
            return v - 65536 if v >= 32768 else v
        return 99

    def compare(x, y, text=None):
        if text is None:
            text = rng.random() < ptext
        e = {'tx': typ(x), 'x': x, 'ty': typ(y), 'y': y, 'k': 'val', 'o': [], 'via': 'text' if text else 'direct'}
        if text:
            xt, yt = d.operand_text('A', x), d.operand_text('B', y)
        else:
            vx, vy = d.val(x), d.val(y)
        for i, r in enumerate(RELS):
            o = d.evalv('%s%s%s' % (xt, rng.choice(SYMS[r]), yt)) if text else d.call(relfn[i], vx, vy)
            if o['k'] == 'internal':
                e['k'] = 'internal'
                e.setdefault('detail', o.get('detail'))
            e['o'].append(asint(o))
        events.append(e)

    def zero(t):
        if t == 'i':
            return [0, 0]
        b = [rng.choice([0, 0, 1, 0x80, 0xff, 0x7f, rng.randrange(256)]) for _ in range(SIZE[t])]
        b[-1] = 0
        return b

    def related(x, ty):
        """An encoding of type ty whose value is equal to / next to / opposite to the value of x (where representable)."""
        tx = typ(x)
        r = rng.random()
        if tx == 'i':
            v = x[0] | x[1] << 8
            v = v - 65536 if v >= 32768 else v
            if ty == 'i':
                return int_bytes(max(-32768, min(32767, rng.choice([v, v + 1, v - 1, -v, -v - 1, v ^ 0x100, v ^ 0xff]))))
            y = flt_of_int(ty, rng.choice([v, v, -v, v + 1, v - 1]))
        elif ty == 'i':
            # the integer at / next to the float's value (generator only: CINT-like guess from the bytes)
            if not 129 <= x[-1] <= 144:
                return int_bytes(rng.choice([0, 1, -1, 32767, -32768]))
            p = PBITS[tx]
            mant = (sum(b << (8 * i) for i, b in enumerate(x[:-1])) | (1 << (p - 1))) & ((1 << p) - 1)
            n = mant >> (p - (x[-1] - 128))
            n = -n if x[-2] & 0x80 else n
            return int_bytes(max(-32768, min(32767, n + rng.choice([0, 0, 1, -1]))))
        elif tx == ty:
            y = list(x)
        elif tx == 's':
            y = [rng.choice([0, 0, 0, 1, 0xff, 0x80])] * 3 + [rng.choice([0, 0, 1, 0x80, 0xff])] + list(x)
        else:
            y = list(x[4:])
        if r < 0.3:
            return y
        if r < 0.6:
            return neighbour(y, rng.choice([1, -1, 2, -2])) or y
        if r < 0.75:
            return negated(y) or y
        if r < 0.85:
            # one byte changed (byte-wise comparison near misses), maybe the sign bit only
            z = list(y)
            i = rng.randrange(len(z))
            z[i] = (z[i] + rng.choice([1, -1, 128])) % 256
            return z
        if r < 0.93:
            z = list(y)
            z[-1] = 0                       # same mantissa bytes, zero exponent: a non-canonical zero
            return z
        return negated(neighbour(y, rng.choice([1, -1])) or y) or y

    npair = max(10, int(ctx.pick(8000, 300000) * scale))
    for tx in 'isd':
        for ty in 'isd':
            for i in range(npair):
                r = rng.random()
                if r < 0.25:
                    x, y = rand_value(rng, tx), rand_value(rng, ty)
                elif r < 0.35:
                    x, y = zero(tx), (rand_value(rng, ty) if rng.random() < 0.6 else zero(ty))
                elif r < 0.42:
                    x, y = rand_value(rng, tx), zero(ty)
                else:
                    x = rand_value(rng, tx)
                    y = related(x, ty)
                compare(x, y)
    # every exponent byte, both signs, against its neighbours in exponent and the zeros (deterministic sweep)
    for t in 'sd':
        p = PBITS[t]
        for eb in range(0, 256, 1 if not quick else 3):
            for mant in ((1 << (p - 1)), (1 << p) - 1):
                x = flt(t, mant, eb, 0)
                for y in (flt(t, mant, eb, 1), flt(t, (1 << (p - 1)), min(255, eb + 1), 0), flt(t, (1 << p) - 1, max(0, eb - 1), 0),
                          flt(t, (1 << p) - 1, max(0, eb - 1), 1), zero(t), zero('s' if t == 'd' else 'd'), [0, 0], [1, 0], [255, 255]):
                    compare(x, y, text=False)
                    compare(y, x, text=False)
    # all 65536 integers against zero and a neighbour (integers of every byte pattern)
    for v in range(-32768, 32768, 1 if not quick else 5):
        x = int_bytes(v)
        compare(x, int_bytes(max(-32768, min(32767, v + rng.choice([0, 1, -1])))), text=False)
        if v % 3 == 0:
            compare(x, flt_of_int(rng.choice('sd'), v + rng.choice([0, 0, 1, -1])), text=False)
    d.close()
    ctx.cov['impl_wall_s'] = round(time.time() - t0, 1)
    pipe.finish()
    ctx.cov['calls_direct'] = d.ndirect
    ctx.cov['calls_via_basic_text'] = d.ntext
    ctx.cov['relation_evaluations'] = 6 * pipe.n
    ctx.cov['pairs_by_types'] = pipe.by
    ctx.assumptions += ['TLC evaluates MBF.tla correctly (Cmp self-checked against native arithmetic on the reduced format by MBF_MC)']
