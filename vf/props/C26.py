"""C26 — file sharing and record locks. Spec Locks.tla; models Locks_MC*.cfg; trace spec Locks_Trace."""
import os
from ..session import Sess
from .. import graph, core

LEVEL = 'model_checking'
META = {
    'technique': 'TLC exhaustive model check of Locks.tla + replay of every model transition into the real interpreter + TLC trace validation of random histories',
    'text': 'Locks.tla states the property as invariant NoOverlap (+ UnlockExact, NoTwoWriters) and the demanded-outcome relation Must. '
            'TLC checks the invariants on every reachable state of the bounded model (3 file numbers, 1-2 files, records 1..3/4, all ranges incl. whole-file), '
            'emits every transition of a 2-number model, and a greedy edge cover replays ALL of them as OPEN/CLOSE/LOCK/UNLOCK/GET/PUT statements on a real Session; '
            'these and longer random histories (3 numbers, 2 files, records 1..8) are validated event by event by Locks_Trace.tla (demanded outcome, observed lock sets, invariant on the observed state).',
    'note': 'Trusted: TLC; projection reads DiskDevice._locks._locking_parameters[n].lock_set (named in the property\'s observe_at). Outcomes the statement leaves open '
            '(success of a non-conflicting LOCK, opening an INPUT file twice, LOCK/SHARED clauses of OPEN) are not constrained. Ranges with start > stop are outside the fragment.',
}
META['text'] += ' GET #n / PUT #n without a record number are judged as the access to the record after the last one accessed through that number (Locks_Trace.pos), and the driver steps up to foreign lock ranges with the implicit form.'

MODE_STMT = {'I': 'OPEN "%s" FOR INPUT AS %d', 'O': 'OPEN "%s" FOR OUTPUT AS %d', 'A': 'OPEN "%s" FOR APPEND AS %d',
             'R': 'OPEN "%s" FOR RANDOM AS %d LEN=4'}
NFILES = 3


class Driver(object):
    def __init__(self, ctx):
        self.ctx = ctx
        self.s = None
        self.events = []

    def fresh(self):
        if self.s:
            self.s.close()
        self.s = Sess()
        for nm in ('X', 'Y'):
            with open(os.path.join(self.s.mount, nm), 'wb') as f:
                f.write(b'0123456789abcdef0123456789abcdef\r\n')
        self.reset = True

    def observe(self):
        dev = self.s.impl.files.get_device(b'C:')
        lp = dev._locks._locking_parameters
        mode, name, locks = [], [], []
        for n in range(1, NFILES + 1):
            f = lp.get(n)
            if f is None:
                mode.append('closed'); name.append('X'); locks.append([])
            else:
                m = f.mode.decode() if isinstance(f.mode, bytes) else f.mode
                mode.append(m)
                name.append((f.name.decode() if isinstance(f.name, bytes) else f.name))
                locks.append(sorted([0, 0] if (a is None and b is None) else [a, b] for (a, b) in f.lock_set))
        return {'mode': mode, 'name': name, 'locks': locks}

    def do(self, a):
        op = a['op']
        n = a['n']
        if op == 'open':
            # the same file under different spellings: case, drive prefix, root and current-directory paths
            spell = self.ctx.rng.choice(['%s', '%s', '%s', 'C:%s', '\\%s', 'C:\\%s', '.\\%s']) % (
                a['name'] if self.ctx.rng.random() < 0.7 else a['name'].lower())
            stmt = MODE_STMT[a['mode']] % (spell, n)
            if a.get('shared') and a['mode'] == 'R':
                stmt = 'OPEN "%s" FOR RANDOM SHARED AS %d LEN=4' % (spell, n)
        elif op == 'close':
            stmt = 'CLOSE %d' % n
        elif op in ('lock', 'unlock'):
            lo, hi = a['r']
            rng = '' if (lo, hi) == (0, 0) else (', %d TO %d' % (lo, hi) if a.get('form', 0) == 0 or lo != hi else ', %d' % lo)
            stmt = '%s #%d%s' % (op.upper(), n, rng)
        else:
            # rec 0 = the form without a record number (the next record)
            stmt = '%s #%d, %d' % (op.upper(), n, a['rec']) if a['rec'] else '%s #%d' % (op.upper(), n)
        r = self.s.ex(stmt)
        e = dict(a)
        e['stmt'] = stmt
        e['ok'] = r[0] == 'ok'
        e['code'] = r[1] if r[0] == 'err' else 0
        e['kind'] = r[0]
        e['reset'] = self.reset
        self.reset = False
        e['obs'] = self.observe()
        self.events.append(e)
        return e


def run(ctx):
    ctx.cov['rule'] = ('events = BASIC statements executed on a real Session; distinct by (model state before, action); '
                       'non-trivial = events whose demanded outcome is not "any" or that change the lock table')
    # 1. design: exhaustive bounded model check (with per-action coverage)
    ctx.model_check('Locks_MC', cfg=ctx.pick('Locks_MC.cfg', 'Locks_MC_big.cfg'), require_actions=False)
    # 2. spec -> code: every transition of the 2-number model
    r = ctx.tlc('Locks_MC', 'Locks_MC_emit.cfg', workers=1, tag='emit')
    if not r['ok']:
        raise core.MachineryError('emit run failed: ' + str(r['error']))
    trans = graph.parse_transitions(r['out'])
    init = {'locks': [[], []], 'mode': ['closed', 'closed'], 'name': ['X', 'X']}
    walks, cov, total = graph.covering_walks(trans, init, max_len=30, rng=ctx.rng)
    ctx.cov['model_transitions'] = total
    ctx.cov['model_transitions_replayed'] = cov
    if cov < total:
        raise core.MachineryError('edge cover incomplete: %d of %d' % (cov, total))
    d = Driver(ctx)
    for w in walks:
        d.fresh()
        for t in w:
            a = dict(t['a'])
            e = d.do(a)
            e['model_must'] = t['must']
    nwalk = len(walks)
    # 3. code -> spec: random histories on the larger configuration
    rng = ctx.rng
    nhist = ctx.pick(60, 1500)
    for h in range(nhist):
        d.fresh()
        shared = rng.random() < 0.3
        openm = {}
        held = {1: [], 2: [], 3: []}
        for step in range(rng.randint(10, 60)):
            closed = [n for n in (1, 2, 3) if n not in openm]
            rnd = [n for n in openm if openm[n] == 'R']
            c = rng.random()
            if closed and (c < 0.25 or not openm):
                n = rng.choice(closed)
                a = {'op': 'open', 'n': n, 'name': rng.choice('XXXY'), 'mode': rng.choice('RRRRIOA'), 'shared': shared}
            elif c < 0.32 and openm:
                a = {'op': 'close', 'n': rng.choice(list(openm))}
            elif rnd:
                n = rng.choice(rnd)
                k = rng.random()
                if k < 0.45:
                    lo = rng.randint(1, 8); hi = rng.randint(lo, 8)
                    r_ = [0, 0] if rng.random() < 0.08 else [lo, hi]
                    a = {'op': 'lock', 'n': n, 'r': r_, 'form': rng.randint(0, 1)}
                elif k < 0.7:
                    allh = [x for x in held[n]]
                    if allh and rng.random() < 0.6:
                        r_ = list(rng.choice(allh))
                        if rng.random() < 0.3 and r_ != [0, 0]:
                            r_ = [max(1, r_[0] + rng.choice([-1, 0, 1])), r_[1] + rng.choice([0, 1])]
                    else:
                        lo = rng.randint(1, 8); r_ = [lo, rng.randint(lo, 8)]
                    a = {'op': 'unlock', 'n': n, 'r': r_, 'form': rng.randint(0, 1)}
                else:
                    a = {'op': rng.choice(['get', 'put']), 'n': n, 'rec': rng.choice([0, 0, rng.randint(1, 8), rng.randint(1, 8), rng.randint(1, 8)])}
            else:
                continue
            foreign = [x for m in held if a['op'] in ('get', 'put') and m != a['n'] for x in held[m] if list(x) != [0, 0] and x[0] > 1]
            if foreign and rng.random() < 0.35:
                # step up to a range another number holds: explicit access to the record before it, then the implicit form
                d.do({'op': 'get', 'n': a['n'], 'rec': rng.choice(foreign)[0] - 1})
                a = {'op': a['op'], 'n': a['n'], 'rec': 0}
            e = d.do(a)
            ob = e['obs']
            openm = {i + 1: m for i, m in enumerate(ob['mode']) if m != 'closed'}
            held = {i + 1: ob['locks'][i] for i in range(3)}
    if d.s:
        d.s.close()
    events = d.events
    keep = ('op', 'n', 'name', 'mode', 'r', 'rec', 'ok', 'code', 'reset', 'obs')
    verdicts = ctx.validate('Locks_Trace', [{k: e[k] for k in keep if k in e} for e in events])
    ctx.cov['traces_validated_against_impl'] += nwalk + nhist
    nlock_ok = sum(1 for e in events if e['op'] == 'lock' and e['ok'])
    ctx.cov['lock_successes'] = nlock_ok
    ctx.cov['denials_70'] = sum(1 for e in events if e['code'] == 70)
    for e in events:
        ctx.count([e['op'], e['n'], e.get('r'), e.get('rec'), e.get('mode'), e['obs']],
                  nontrivial=(e['op'] in ('lock', 'unlock') or not e['ok']))
        if e['kind'] == 'internal':
            ctx.reject('C26 internal error on %s: %s' % (e['stmt'], e['kind']), key={'clause': 'internal'}, data=e)
    for e in (events[3], events[len(events) // 2], events[-1]):
        ctx.sample({k: e[k] for k in ('stmt', 'ok', 'code', 'obs')})
    for (i, clause) in verdicts:
        e = events[i - 1]
        hist = [x['stmt'] for x in events[max(0, i - 12):i]]
        ctx.reject('C26 %s at %r (ok=%s code=%s) after %s' % (clause, e['stmt'], e['ok'], e['code'], hist[:-1][-4:]),
                   key={'clause': clause, 'op': e['op'], 'mode': e.get('mode')}, data={'event': e, 'history': hist})
    if nlock_ok == 0:
        raise core.MachineryError('vacuous: no LOCK ever succeeded')
