"""C07 — decimal conversion accuracy. Spec: BigNat.tla, MBFBig.tla, DecimalBig.tla (the spec parses the digit strings),
trace spec C07_Trace (print / read clauses evaluated with exact arithmetic)."""
import io, os, re, json, time
from fractions import Fraction
from ..session import Sess, find_errors
from .. import core
from ..bigval import validate_parallel, mbf_bytes

LEVEL = 'exploration'
META = {
    'technique': 'TLA+ oracle with exact big-natural arithmetic (BigNat/MBFBig/DecimalBig/C07_Trace) evaluated by TLC on recorded '
                 'conversions of the real interpreter; BigNat self-checked against native integers by TLC (BigNat_MC)',
    'text': 'Printing: every recorded decimal text of a stored number (values.to_repr with the PRINT/STR$, WRITE and LIST flag '
            'combinations, and PRINT / WRITE / STR$ / LIST executed in a live Session; the lister also on hand-made number tokens) '
            'is parsed BY THE SPEC and compared with the exact stored value: error < one unit of the last digit shown, <= 7 / 16 '
            'significant digits, integers within 2^24 / 2^56 shown exactly. Reading: every recorded conversion of decimal text '
            '(Values.from_repr, VAL, tokenised program literals, keyboard INPUT, READ from DATA) is compared with the exact decimal '
            'value of the text as parsed by the spec: error < 1 ulp of the stored number, zero only below 2^-128, Overflow only above '
            'the range, type from sigil / exponent letter / digit count. Values: random bit patterns, boundary exponents, '
            'neighbourhoods of all powers of ten, integers around 10^7, 10^16, 2^24, 2^56, short decimal fractions; texts with '
            '1..20 significant digits, exponents over the whole range, leading/trailing zeros, embedded blanks, signs, sigils. '
            'Input-quantified property: sampled, not exhaustive.',
    'note': 'Trusted: TLC, JSON plumbing, byte-level projection of numbers, the projection of console output to the printed field, '
            'the Python-side location of the number token in a tokenised line. Interpretations (see notes/C07.md): blanks inside '
            'numbers are ignored; significant digits are counted from the first non-zero digit to the last digit written when a '
            'type must be single (<= 7) and to the last non-zero digit when it must be double (> 7), both types accepted in between; '
            'E with more than 7 digits accepts both types; a plain integer literal in -32768..32767 is an integer (single also '
            'accepted when it contains blanks).',
}


# ---------------------------------------------------------------------------------------------------------------
# generators (inputs only)

def nudge(b, d):
    """The number d units in the last place away (same exponent unless the mantissa wraps)."""
    n = len(b)
    w = 8 * (n - 1)
    m = (int.from_bytes(bytes(b[:n - 1]), 'little') & ((1 << (w - 1)) - 1)) | (1 << (w - 1))
    e = b[n - 1]
    m += d
    if m >= 1 << w:
        m >>= 1
        e += 1
    elif m < 1 << (w - 1):
        m = (m << 1) | 1
        e -= 1
    if not 1 <= e <= 255:
        return list(b)
    r = list((m & ((1 << (w - 1)) - 1)).to_bytes(n - 1, 'little'))
    r[n - 2] |= b[n - 2] & 0x80
    return r + [e]


def gen_values(rng, count):
    """(class, bytes) of numbers to print."""
    out = []

    def add(cls, b):
        if b is not None:
            out.append((cls, list(b)))

    while len(out) < count:
        n = 4 if rng.random() < 0.5 else 8
        w = 8 * (n - 1)
        c = rng.random()
        sign = rng.choice((1, 1, -1))
        if c < 0.16:
            add('random', [rng.randrange(256) for _ in range(n - 1)] + [rng.randint(1, 255)])
        elif c < 0.26:
            e = rng.choice((1, 2, 3, 4, 100, 104, 105, 125, 126, 127, 128, 129, 130, 131, 150, 151, 152, 153, 154, 180, 183,
                            184, 185, 186, 187, 252, 253, 254, 255))
            m = rng.choice(([0] * (n - 1), [255] * (n - 2) + [127], [rng.randrange(256) for _ in range(n - 1)]))
            b = list(m) + [e]
            if sign < 0:
                b[n - 2] |= 0x80
            add('boundary_exp', b)
        elif c < 0.50:
            k = rng.randint(-39, 38)
            mult = rng.choice((1, 1, 1, 1, 2, 5, 9, 99, 999, 9999999, 9999999999999999, 10 ** 7 - 1, 123, 15))
            b = mbf_bytes(sign * mult * Fraction(10) ** k, n)
            if b is not None:
                d = rng.choice((0, 0, 1, -1, 2, -2, 3, -3, rng.randint(-40, 40), rng.randint(-300, 300)))
                add('near_pow10', nudge(b, d))
        elif c < 0.66:
            lim = rng.choice((10, 100, 32768, 10 ** 6, 10 ** 7, 1 << 24, 10 ** 8, 10 ** 15, 10 ** 16, 1 << 56, 10 ** 17))
            v = rng.choice((rng.randrange(lim), lim - rng.randint(0, 12), lim + rng.randint(0, 12), 10 * rng.randrange(lim // 10 + 1),
                            (1 << w) - rng.randint(0, 30), 10 ** (7 if n == 4 else 16) + rng.randint(-12, 40)))
            add('integer', mbf_bytes(sign * v, n))
        elif c < 0.82:
            j = rng.randint(1, 18)
            add('decimal_fraction', mbf_bytes(Fraction(sign * rng.randrange(1, 10 ** rng.randint(1, 17)), 10 ** j), n))
        elif c < 0.90:
            # around the switch between fixed and scientific notation
            v = Fraction(rng.choice((1, 9, 99, 1234567, 9999999, 123456789)), 10 ** rng.randint(5, 24)) * 10 ** rng.randint(0, 12)
            add('notation_switch', mbf_bytes(sign * v, n))
        elif c < 0.94:
            add('zero', ([0] * n) if rng.random() < 0.5 else [rng.randrange(256) for _ in range(n - 1)] + [0])
        else:
            v = rng.choice((rng.randint(-32768, 32767), rng.randint(-300, 300), 32767, -32768, 0, 10000, -10000))
            add('int16', list((v & 0xffff).to_bytes(2, 'little')))
    return out


def blanks(rng, t, chars=' '):
    """Insert a few blanks into the text (also leading / trailing)."""
    t = list(t)
    for _ in range(rng.randint(1, 3)):
        t.insert(rng.randint(0, len(t)), rng.choice(chars))
    return ''.join(t)


def gen_texts(rng, count):
    """(class, text) decimal literals; unsigned/sign, blanks, sigils applied later per path."""
    out = []
    while len(out) < count:
        c = rng.random()
        nd = rng.choice((1, 2, 3, 4, 5, 6, 7, 7, 7, 8, 8, 8, 9, 10, 12, 15, 16, 16, 17, 18, 20))
        digits = str(rng.randint(1, 9)) + ''.join(rng.choice('0123456789') for _ in range(nd - 1))
        if rng.random() < 0.15:
            digits = digits[0] + rng.choice('09') * (nd - 1)                  # 1000.., 1999..
        if rng.random() < 0.1 and nd > 1:
            digits = digits[:-1] + rng.choice('05')                            # halves
        cls = 'digits%d' % min(nd, 9) if nd < 9 else 'digits9plus'
        # decimal point
        pc = rng.random()
        if pc < 0.3:
            mant = digits
        elif pc < 0.75:
            k = rng.randint(0, nd)
            mant = digits[:k] + '.' + digits[k:]
        elif pc < 0.9:
            mant = '.' + '0' * rng.randint(0, 8) + digits
        else:
            mant = digits + '0' * rng.randint(1, 8) + rng.choice(('', '.', '.0', '.000'))
        if rng.random() < 0.15:
            mant = '0' * rng.randint(1, 3) + mant                             # leading zeros
        if rng.random() < 0.15 and '.' in mant:
            mant = mant + '0' * rng.randint(1, 9)                             # trailing zeros after the point
        # exponent
        ec = rng.random()
        if ec < 0.45:
            expo = ''
        else:
            letter = rng.choice('EEDDed')
            if ec < 0.85:
                ev = rng.randint(-45, 40)
            elif ec < 0.93:
                ev = rng.choice((-39, -38, -37, 37, 38, 39)) - (len(mant.split('.')[0]) if rng.random() < 0.5 else 0)
            else:
                ev = rng.choice((0, 1, -1, 7, -7, 16, -16, 60, -60, 99, -99))
            expo = letter + rng.choice(('', '+', '-') if ev == 0 else (('', '+') if ev > 0 else ('-',))) + \
                ('%02d' % abs(ev) if rng.random() < 0.5 else '%d' % abs(ev))
        out.append((cls, mant + expo))
    # fixed interesting literals
    for t in ('0', '1', '10', '32767', '32768', '65535', '65536', '1234567', '12345678', '9999999', '10000000', '16777216', '16777217',
              '.1', '.5', '1.5', '1.0000000', '1.00000001', '0.1234567', '0.12345678', '100000000', '1E7', '1E+38', '1.701411E38',
              '1.701412E38', '1.7014118346046923D38', '1.70141183460469232D38', '2.938736E-39', '2.9E-39', '1E-39', '3E-40', '1D-38',
              '2.93873587705571877D-39', '2.93873587705571876D-39', '1D-40', '9.999999E-01', '99999999', '.000000123456789', '1E0',
              '1D0', '123456789E-20', '1.5E', '000', '0.0', '0E5', '0D0', '4.94065645841246544e-324', '1e39', '1d39', '9E38',
              '1.' + '0' * 38, '1.' + '0' * 39, '2809077966285803664500000000.000000000000', '5.000000000000000',
              '30000.0000000', '1' + '0' * 38, '1' + '0' * 39 + 'E-2'):
        out.append(('fixed', t))
    return out


# ---------------------------------------------------------------------------------------------------------------

NUM_TOKENS = {0x0f: 1, 0x1c: 2, 0x1d: 4, 0x1f: 8}


def token_number(code):
    """Project the number token that follows the first '=' operator token (0xE7) of a tokenised line -> bytes or None."""
    i = code.find(b'\xe7')
    if i < 0 or i + 1 >= len(code):
        return None
    lead = code[i + 1]
    if 0x11 <= lead <= 0x1b:
        return [lead - 0x11, 0]
    if lead in NUM_TOKENS:
        pay = list(bytearray(code[i + 2:i + 2 + NUM_TOKENS[lead]]))
        if len(pay) != NUM_TOKENS[lead]:
            return None
        return pay + [0] if lead == 0x0f else pay
    return None


FORMS = {(True, False): 'print', (False, False): 'write', (False, True): 'list', (True, True): 'print_sigil'}
FLAGS = {v: k for k, v in FORMS.items()}
SETVAR = {2: ('A%', 'CVI'), 4: ('A!', 'CVS'), 8: ('A#', 'CVD')}


class Driver(object):
    """Performs conversions on the real interpreter and records one event per conversion."""

    def __init__(self):
        self.s = s = Sess()
        from pcbasic.basic.values import values as V, numbers as N
        from pcbasic.basic.base import codestream
        self.V, self.N, self.codestream = V, N, codestream
        self.vals = s.impl.values
        self.handler = self.vals.error_handler
        self.events = []
        self.cnt = {}
        # watchdog for the keyboard INPUT path: an INPUT that asks again (?Redo from start) would wait for keys for ever;
        # the wait loop of the event queues is counted and broken off (the event is then reported as 'internal')
        self.guard = guard = {'n': 0}
        queues = s.impl.queues
        orig_wait = queues.wait

        def guarded_wait():
            guard['n'] += 1
            if guard['n'] > 300:
                guard['n'] = 0
                from pcbasic.basic.base import error
                raise error.Break()
            orig_wait()
        queues.wait = guarded_wait

    def close(self):
        self.s.close()

    def mk(self, b):
        N = self.N
        return {2: N.Integer, 4: N.Single, 8: N.Double}[len(b)](None, self.vals).from_bytes(bytearray(b))

    def ev_print(self, form, b, text, cls, **extra):
        e = {'dir': 'print', 'form': form, 'b': list(b), 'text': list(bytearray(text)), 'cls': cls}
        e.update(extra)
        self.events.append(e)
        self.cnt['print/' + form] = self.cnt.get('print/' + form, 0) + 1

    def ev_read(self, via, text, k, code, b, wid, cls, **extra):
        e = {'dir': 'read', 'via': via, 'text': list(bytearray(text)), 'k': k, 'code': code, 'b': list(b), 'wid': wid, 'cls': cls}
        e.update(extra)
        self.events.append(e)
        self.cnt['read/' + via] = self.cnt.get('read/' + via, 0) + 1

    def internal(self, what, detail, cls):
        self.events.append({'dir': 'internal', 'form': what, 'detail': detail, 'cls': cls, 'b': [], 'text': []})

    # ---- printing ---------------------------------------------------------------------------------------------
    def print_repr(self, b, form, cls):
        """values.to_repr with the flag combination of PRINT/STR$, WRITE, LIST."""
        ls, ts = FLAGS[form]
        try:
            self.ev_print(form, b, self.V.to_repr(self.mk(b), leading_space=ls, type_sign=ts), cls)
        except BaseException as ex:  # noqa
            self.internal('to_repr', '%s: %s' % (type(ex).__name__, ex), cls)

    def print_basic(self, b, cls):
        """PRINT, WRITE, STR$ executed in the Session on a variable holding exactly these bytes."""
        s = self.s
        var, cv = SETVAR[len(b)]
        s.s.set_variable('T$', bytes(bytearray(b)))
        r = s.ex('%s=%s(T$):PRINT %s:WRITE %s:PRINT STR$(%s);"|"' % (var, cv, var, var, var))
        lines = r[2].split(b'\r\n') if r[0] == 'ok' else []
        if r[0] != 'ok' or len(lines) < 3 or not lines[2].endswith(b'|'):
            self.internal('PRINT', repr(r[:3])[:300], cls)
        else:
            self.ev_print('PRINT', b, lines[0], cls)
            self.ev_print('WRITE', b, lines[1], cls)
            self.ev_print('STR$', b, lines[2][:-1], cls)

    def print_listtoken(self, b, cls):
        """LIST of a hand-made number token (binds lister + to_str with type sign)."""
        line = b'\x00\x01\x01\x0a\x00X\xe7' + (b'\x1d' if len(b) == 4 else b'\x1f') + bytes(bytearray(b)) + b'\x00'
        st = self.codestream.TokenisedStream()
        st.write(line)
        st.seek(1)
        try:
            num, text, _ = self.s.impl.lister.detokenise_line(st)
            text = bytes(text)
            if not text.startswith(b'10 X='):
                self.internal('LISTTOKEN', repr(text), cls)
            else:
                self.ev_print('LISTTOKEN', b, text[5:], cls)
        except BaseException as ex:  # noqa
            self.internal('LISTTOKEN', '%s: %s' % (type(ex).__name__, ex), cls)

    # ---- reading ----------------------------------------------------------------------------------------------
    def read_repr(self, t, nonnum, soft, cls):
        """Values.from_repr directly; float error handler raising or soft."""
        s, N = self.s, self.N
        self.handler.suspend(not soft)
        s.take()
        try:
            x = self.vals.from_repr(t, allow_nonnum=nonnum)
            out = s.take() if soft else b''
            errs = find_errors(out) if out else []
            if not isinstance(x, N.Number):
                self.internal('from_repr', repr(x), cls)
            elif errs:
                self.ev_read('repr', t, 'soft', errs[0][0], x.to_bytes(), False, cls, nonnum=nonnum, soft=soft)
            else:
                self.ev_read('repr', t, 'val', 0, x.to_bytes(), False, cls, nonnum=nonnum, soft=soft)
        except BaseException as ex:  # noqa
            if type(ex).__name__ == 'BASICError':
                self.ev_read('repr', t, 'err', int(ex.err), [], False, cls, nonnum=nonnum, soft=soft)
            else:
                self.internal('from_repr', '%s: %s on %r' % (type(ex).__name__, ex, t), cls)
        self.handler.suspend(False)

    def read_val(self, t, cls):
        """VAL through the expression evaluator, observed as a double (exact widening)."""
        s = self.s
        s.s.set_variable('T$', t)
        r = s.ev('MKD$(VAL(T$))')
        if r[0] == 'ok' and isinstance(r[1], bytes) and len(r[1]) == 8:
            self.ev_read('VAL', t, 'val', 0, bytearray(r[1]), True, cls)
        elif r[0] == 'soft' and isinstance(r[3], bytes):
            self.ev_read('VAL', t, 'soft', r[1], bytearray(r[3]), True, cls)
        elif r[0] == 'err':
            self.ev_read('VAL', t, 'err', r[1], [], True, cls)
        else:
            self.internal('VAL', repr(r[:2])[:300], cls)

    def read_literal(self, t, cls):
        """Program literal through the tokeniser (text t, unsigned), then LIST of the stored line."""
        s = self.s
        r = s.ex('10 X#=' + t)
        code = bytes(s.impl.program.bytecode.getvalue())
        tok = token_number(code) if r[0] == 'ok' else None
        tb = t.encode('latin-1')
        if r[0] == 'err' and r[1] == 6:
            self.ev_read('literal', tb, 'err', 6, [], False, cls)
        elif tok is None:
            self.internal('literal', repr((r[:3], code))[:300], cls)
        else:
            self.ev_read('literal', tb, 'val', 0, tok, False, cls)
            r2 = s.ex('LIST')
            m = re.match(br'10 X#=(.*?)\r\n', r2[2]) if r2[0] == 'ok' else None
            if not m:
                self.internal('LIST', repr(r2[:3])[:300], cls)
            else:
                self.ev_print('LIST', tok, m.group(1), cls, literal=t)
        s.ex('NEW')

    def read_input(self, t, cls):
        """Keyboard INPUT into a double variable."""
        s = self.s
        s.s.press_keys(t + '\r')
        self.guard['n'] = 0
        r = s.ex('INPUT A#')
        r2 = s.ev('MKD$(A#)')
        if r[0] != 'ok' or r2[0] != 'ok' or b'Redo' in r[2]:
            self.internal('INPUT', repr((t, r[:3], r2[:2]))[:300], cls)
        else:
            self.ev_read('INPUT', t.encode('latin-1'), 'val', 0, bytearray(r2[1]), True, cls)

    def read_data(self, t, cls):
        """READ from a DATA line into a double variable."""
        s = self.s
        r = s.ex('10 DATA ' + t)
        r1 = s.ex('RESTORE:READ A#')
        r2 = s.ev('MKD$(A#)')
        if r[0] != 'ok' or r1[0] != 'ok' or r2[0] != 'ok':
            self.internal('READ', repr((t, r[:3], r1[:3], r2[:2]))[:300], cls)
        else:
            self.ev_read('READ', t.encode('latin-1'), 'val', 0, bytearray(r2[1]), True, cls)
        s.ex('NEW')


def decorate(rng, t, sign=True, sigil=True, blank=' ', mantissa_only=False):
    """Add a type sign, a sign, blanks.  mantissa_only: blanks only before the exponent letter (program text and DATA
    items are cut into tokens by the tokeniser: a blank after the exponent letter ends the literal there)."""
    if sigil and not re.search('[EDed!#]', t) and rng.random() < 0.2:
        t += rng.choice('!#')
    if sign and t[:1] not in ('+', '-') and rng.random() < 0.3:
        t = rng.choice('+-') + t
    if blank and rng.random() < 0.25:
        if mantissa_only:
            m = re.search('[EDed!#]', t)
            k = m.start() if m else len(t)
            t = blanks(rng, t[:k], blank).lstrip(blank) + t[k:]
        else:
            t = blanks(rng, t, blank)
    return t


RULE = ('one event per conversion performed by the real interpreter, judged by TLC (C07_Trace) against the exact value; '
        'distinct = distinct (direction, path/form, value bytes or text); non-trivial = all except zero values')


def run(ctx):
    ctx.cov['rule'] = RULE
    if os.environ.get('VF_SKIP_ORACLE_SELFCHECK') == '1':
        # only for mutant testing of the implementation (the oracle itself is unchanged there)
        print('note: BigNat self-check skipped (VF_SKIP_ORACLE_SELFCHECK=1)')
        ctx.cov['bignat_selfcheck_states'] = 'skipped'
    else:
        r = ctx.model_check('BigNat_MC', ctx.pick('BigNat_MC.cfg', 'BigNat_MC_big.cfg'), workers=ctx.pick(4, 8),
                            require_actions=False)
        ctx.cov['bignat_selfcheck_states'] = r['distinct']
        if r['distinct'] < 1000:
            raise core.MachineryError('BigNat self-check explored only %d states' % r['distinct'])
    t0 = time.time()
    d = Driver()
    rng = ctx.rng
    # ---- printing
    values = gen_values(rng, ctx.pick(2600, 60000))
    for idx, (cls, b) in enumerate(values):
        for form in ('print', 'write', 'list', 'print_sigil'):
            if form == 'print_sigil' and idx % 4:
                continue
            d.print_repr(b, form, cls)
        if idx % ctx.pick(6, 12) == 0:
            d.print_basic(b, cls)
        if idx % 3 == 0 and len(b) in (4, 8):
            d.print_listtoken(b, cls)
    # ---- reading
    texts = gen_texts(rng, ctx.pick(4200, 90000))
    # round trip: printed forms are read back
    for e in list(d.events)[::9]:
        if e['dir'] == 'print' and e['form'] in ('write', 'list'):
            texts.append(('printed', bytes(bytearray(e['text'])).decode('latin-1')))
    for idx, (cls, t0_) in enumerate(texts):
        t = decorate(rng, t0_, blank=' \t\n' if idx % 3 == 0 else ' ').encode('latin-1')
        d.read_repr(t, nonnum=bool(idx % 2), soft=(idx % 5 == 0), cls=cls)
        sel = idx % ctx.pick(5, 8)
        if sel == 0:
            d.read_val(decorate(rng, t0_).encode('latin-1'), cls)
        elif sel == 1:
            d.read_literal(decorate(rng, t0_.lstrip('+-'), sign=False, mantissa_only=True).strip(' '), cls)
        elif sel == 2 and not in_danger(t0_):
            d.read_input(decorate(rng, t0_, blank=' '), cls)
        elif sel == 3 and not in_danger(t0_):
            d.read_data(decorate(rng, t0_, blank=' ', mantissa_only=True), cls)
    d.close()
    ctx.cov['impl_wall_s'] = round(time.time() - t0, 1)
    ctx.cov['events_by_path'] = d.cnt
    judge(ctx, d.events)


def judge(ctx, events):
    """TLC (C07_Trace) judges every event; rejected events are reported."""
    for e in events:
        ctx.count([e['dir'], e.get('form') or e.get('via'), e['b'] if e['dir'] == 'print' else e['text']],
                  nontrivial=not (e['dir'] == 'print' and (not e['b'] or e['b'][-1] == 0 and len(e['b']) != 2)))
    for i in sorted(set((0, 1, len(events) // 3, len(events) // 2, len(events) - 2, len(events) - 1))):
        if 0 <= i < len(events):
            ctx.sample(show(events[i]))
    clean = []
    for e in events:
        if e['dir'] == 'print':
            clean.append({'dir': 'print', 'form': e['form'], 'b': e['b'], 'text': e['text']})
        elif e['dir'] == 'read':
            clean.append({'dir': 'read', 'via': e['via'], 'text': e['text'], 'k': e['k'], 'code': e['code'], 'b': e['b'],
                          'wid': e['wid']})
        else:
            clean.append({'dir': 'internal'})
    verdicts = validate_parallel(ctx, 'C07_Trace', clean, jobs=ctx.pick(3, 8) if len(clean) > 2000 else 1)
    clauses = {}
    for (i, clause) in verdicts:
        e = events[i - 1]
        if clause == 'read_fragment':
            raise core.MachineryError('driver produced a text outside the modelled fragment: %r' % show(e))
        if e['dir'] == 'internal':
            clause = 'internal'
        clauses[clause] = clauses.get(clause, 0) + 1
        key = {'clause': clause, 'dir': e['dir'], 'path': e.get('form') or e.get('via'), 'len': len(e['b']), 'cls': e['cls'],
               'exp': e['b'][-1] if len(e['b']) in (4, 8) else None}
        ctx.reject('C07 %s: %s' % (clause, show(e)), key=key, data=show(e))
    ctx.cov['rejected_by_clause'] = clauses
    ctx.assumptions += ['TLC evaluates BigNat.tla correctly (self-checked against native integers by BigNat_MC, limb base 8)',
                        'numbers are observed through their byte buffers / MKD$ / the number token of the tokenised line',
                        'the printed field is the console line (PRINT, WRITE), the text before the "|" marker (STR$), the text '
                        'after "10 X#=" (LIST)']


def replay(ctx, path):
    """Re-execute the rejected conversions recorded in a replay file on the current tree and judge them again."""
    ctx.cov['rule'] = RULE
    with open(path) as f:
        doc = json.load(f)
    d = Driver()
    for v in doc.get('violations', []):
        e = v.get('data') or {}
        if not isinstance(e, dict) or e.get('dir') not in ('print', 'read'):
            continue
        cls = e.get('cls', 'replay')
        b = list(bytearray.fromhex(e.get('b', '')))
        text = e.get('text', '')
        if e['dir'] == 'print':
            form = e.get('form')
            if form in FLAGS:
                d.print_repr(b, form, cls)
            elif form in ('PRINT', 'WRITE', 'STR$'):
                d.print_basic(b, cls)
            elif form == 'LIST' and e.get('literal'):
                d.read_literal(e['literal'], cls)
            elif len(b) in (4, 8):
                d.print_listtoken(b, cls)
        else:
            via = e.get('via')
            if via == 'repr':
                d.read_repr(text.encode('latin-1'), bool(e.get('nonnum', True)), bool(e.get('soft', False)), cls)
            elif via == 'VAL':
                d.read_val(text.encode('latin-1'), cls)
            elif via == 'literal':
                d.read_literal(text, cls)
            elif via == 'INPUT':
                d.read_input(text, cls)
            elif via == 'READ':
                d.read_data(text, cls)
    d.close()
    if not d.events:
        raise core.MachineryError('nothing to replay in %s' % path)
    judge(ctx, d.events)


def in_danger(t):
    """Texts that may overflow are not typed into INPUT / DATA (a Redo prompt would wait for more keys)."""
    m = re.search(r'[EDed]([+-]?)(\d+)$', t)
    ex = int(m.group(1) + m.group(2)) if m and m.group(2) else 0
    return ex + len(t) > 30 or (m is not None and not m.group(2))


def show(e):
    d = {k: v for k, v in e.items() if k not in ('text', 'b')}
    d['text'] = bytes(bytearray(e.get('text', []))).decode('latin-1')
    d['b'] = ''.join('%02x' % x for x in e.get('b', []))
    return d
