"""C44 — TIME$, DATE$ and ENVIRON read back what was set. Spec ClockEnv.tla; self-check ClockEnv_MC; trace spec ClockEnv_Trace."""
import os, time, math, calendar
from ..session import Sess
from .. import core

LEVEL = 'exploration'
META = {
    'technique': 'TLA+ oracle (ClockEnv.tla: byte-level grammars of TIME$/DATE$ values, calendar arithmetic, clock-as-offset interval model, '
                 'case-insensitive environment map) evaluated by TLC on recorded interpreter calls; grammar and calendar self-checked exhaustively',
    'text': 'Every TIME$=/DATE$= assignment, TIME$/DATE$ reading, ENVIRON statement and ENVIRON$ call on a real Session is one event '
            '{op, bytes, outcome, monotonic window}; ClockEnv_Trace.tla classifies the assigned bytes by grammar (valid / invalid / open), demands '
            'success + read-back within the elapsed-time window for valid values, Illegal function call + unchanged clock for invalid ones, '
            'and value equality for ENVIRON$ of any case variant of a name that was set. Enumerated: all hh and hh:mm values, hh:mm:ss '
            '(sample quick / all 86400 thorough), dates 1980..2099 (sample + all month ends quick / all 43830 thorough) in all accepted '
            'formats, a mutation grammar of invalid values (out of range, negative, signed, blank, underscore, letters, empty/missing/extra '
            'components, 78/79, 1979, 2100, impossible days), random byte strings, midnight and year roll-over, real elapsed time; environment '
            'names over bytes 1..127 and values over bytes 1..255, NUL bytes, missing "=", empty names, non-ASCII names.',
    'note': 'Trusted: TLC; time.monotonic vs the host wall clock (0.1 % drift allowed; a wall-clock step or DST change during the run would be '
            'reported). Clock values are never compared with exact instants. Forms on which the GW-BASIC manual is silent are "open" '
            '(>2-digit components, 1/3/5+-digit years, "." separators, mixed date separators, NUL in ENVIRON, names above byte 127). '
            'os.environ is snapshotted and restored. Only the default codepage (437) is used for ENVIRON values.',
}


def bstr(b):
    """BASIC string expression for arbitrary bytes."""
    parts, cur = [], bytearray()
    for c in b:
        if 32 <= c < 127 and c != 34:
            cur.append(c)
        else:
            if cur:
                parts.append('"%s"' % cur.decode('ascii'))
                cur = bytearray()
            parts.append('CHR$(%d)' % c)
    if cur or not parts:
        parts.append('"%s"' % cur.decode('ascii'))
    return '+'.join(parts)


class Driver(object):
    def __init__(self, ctx):
        self.ctx = ctx
        self.s = None
        self.events = []
        self.base = time.monotonic()
        self.rng = ctx.rng

    def fresh(self):
        if self.s:
            self.s.close()
        self.s = Sess()
        if self.events:
            self.events.append({'op': 'reset', 'stmt': 'new Session'})

    def now0(self):
        return int(math.floor((time.monotonic() - self.base) * 1000.0))

    def now1(self):
        return int(math.ceil((time.monotonic() - self.base) * 1000.0)) + 1

    def _outcome(self, e, r):
        e['k'] = {'ok': 'ok', 'err': 'err', 'soft': 'err', 'internal': 'internal'}.get(r[0], 'internal')
        e['code'] = r[1] if r[0] in ('err', 'soft') and isinstance(r[1], int) else 0
        if r[0] == 'internal':
            e['detail'] = str(r[1])[:200]
        elif r[0] not in ('ok', 'err', 'soft'):
            e['detail'] = r[0]

    def assign(self, op, target, b):
        """TIME$= / DATE$= / ENVIRON with the byte string b."""
        b = bytes(b)
        lit = bstr(b)
        if len(lit) > 200 or self.rng.random() < 0.3:
            self.s.s.set_variable('E$', b)
            stmt = ('%s E$' if target == 'ENVIRON' else '%s=E$') % target
            shown = '%s   [E$=%r]' % (stmt, b)
        else:
            stmt = ('%s %s' if target == 'ENVIRON' else '%s=%s') % (target, lit)
            shown = stmt
        t0 = self.now0()
        r = self.s.ex(stmt)
        t1 = self.now1()
        e = {'op': op, 's': list(b), 't0': t0, 't1': t1, 'stmt': shown}
        self._outcome(e, r)
        self.events.append(e)
        return e

    def read(self, op, fn):
        t0 = self.now0()
        r = self.s.ev(fn)
        t1 = self.now1()
        e = {'op': op, 't0': t0, 't1': t1, 'stmt': fn}
        self._outcome(e, r)
        v = r[1] if r[0] == 'ok' else b''
        e['r'] = list(v) if isinstance(v, (bytes, bytearray)) else []
        if r[0] == 'ok' and not isinstance(v, (bytes, bytearray)):
            e['k'], e['detail'] = 'internal', 'non-string result %r' % (v,)
        self.events.append(e)
        return e

    def time_set(self, b): return self.assign('time_set', 'TIME$', b)
    def date_set(self, b): return self.assign('date_set', 'DATE$', b)
    def time_get(self): return self.read('time_get', 'TIME$')
    def date_get(self): return self.read('date_get', 'DATE$')
    def env_set(self, b): return self.assign('env_set', 'ENVIRON', b)

    def env_get(self, name):
        name = bytes(name)
        lit = bstr(name)
        if len(lit) > 200 or self.rng.random() < 0.3:
            self.s.s.set_variable('N$', name)
            expr = 'ENVIRON$(N$)'
            shown = 'ENVIRON$(N$)   [N$=%r]' % name
        else:
            expr = 'ENVIRON$(%s)' % lit
            shown = expr
        r = self.s.ev(expr)
        e = {'op': 'env_get', 's': list(name), 'stmt': shown, 't0': 0, 't1': 0}
        self._outcome(e, r)
        v = r[1] if r[0] == 'ok' else b''
        e['r'] = list(v) if isinstance(v, (bytes, bytearray)) else []
        self.events.append(e)
        return e


# ---- generators (they know how to produce interesting inputs; they judge nothing) --------------------------------

def fmt_time(rng, h, m=None, s=None):
    def c(v):
        return ('%02d' % v) if rng.random() < 0.6 else ('%d' % v)
    parts = [c(h)] + ([c(m)] if m is not None else []) + ([c(s)] if s is not None else [])
    return ':'.join(parts).encode()


def fmt_date(rng, y, m, d):
    sep = rng.choice('-/')
    def c(v):
        return ('%02d' % v) if rng.random() < 0.6 else ('%d' % v)
    if (1980 <= y <= 1999 or 2000 <= y <= 2077) and rng.random() < 0.4:
        ys = '%02d' % (y % 100)
    else:
        ys = '%04d' % y
    return sep.join([c(m), c(d), ys]).encode()


BAD_COMP = [b'-1', b'+5', b' 5', b'5 ', b'1_0', b'1_', b'_1', b'', b'ab', b'5a', b'a5', b'1e1', b'0x5', b' ', b'\t5', b'5\r',
            b'+0', b'-0', b'1 1', b'\xb2', b'5\x00', b'\x005', b'1,5', b'5;', b"5'", b'\xff', b'++1', b'1+', b'5-']


def mutate_time(rng):
    """An invalid-looking TIME$ value (the specification decides what it really is)."""
    h, m, s = rng.randint(0, 23), rng.randint(0, 59), rng.randint(0, 59)
    n = rng.choice([1, 2, 3, 3])
    comps = [b'%02d' % h, b'%02d' % m, b'%02d' % s][:n]
    k = rng.random()
    i = rng.randrange(n)
    if k < 0.25:
        comps[i] = b'%d' % rng.choice([24, 25, 29, 60, 61, 99] if i == 0 else [60, 61, 69, 70, 99])
    elif k < 0.65:
        comps[i] = rng.choice(BAD_COMP)
    elif k < 0.72:
        comps.append(b'00'); comps.append(b'00')
        comps = comps[:rng.randint(4, 5)]
    elif k < 0.78:
        comps[i] = b''
    elif k < 0.84:
        return b':'.join(comps) + rng.choice([b':', b' ', b'\x00', b'x', b'::'])
    elif k < 0.9:
        return rng.choice([b':', b' ', b'-', b'+']) + b':'.join(comps)
    elif k < 0.95:
        return b';'.join(comps) if n > 1 else b'2 3'
    else:
        comps[i] = rng.choice([b'005', b'000', b'0012', b'123', b'999'])          # open forms
    return b':'.join(comps)


def mutate_date(rng):
    y, m, d = rng.randint(1980, 2099), rng.randint(1, 12), rng.randint(1, 28)
    sep = rng.choice([b'-', b'/'])
    comps = [b'%02d' % m, b'%02d' % d, b'%04d' % y]
    k = rng.random()
    i = rng.randrange(3)
    if k < 0.2:
        comps[i] = [rng.choice([b'00', b'13', b'14', b'99', b'0']), rng.choice([b'00', b'32', b'33', b'99', b'0']),
                    rng.choice([b'1979', b'2100', b'78', b'79', b'1900', b'2101', b'9999', b'1000'])][i]
    elif k < 0.3:
        mm = rng.choice([2, 2, 4, 6, 9, 11])
        dd = {2: rng.choice([29, 30, 31]), 4: 31, 6: 31, 9: 31, 11: 31}[mm]
        yy = rng.choice([1981, 1999, 2001, 2099, 2000, 1980, 2096]) if mm == 2 and dd == 29 else y
        comps = [b'%02d' % mm, b'%02d' % dd, b'%04d' % yy]
    elif k < 0.65:
        comps[i] = rng.choice(BAD_COMP)
    elif k < 0.72:
        comps = comps[:2] if rng.random() < 0.5 else comps + [b'01']
    elif k < 0.78:
        comps[i] = b''
    elif k < 0.84:
        return sep.join(comps) + rng.choice([b'-', b' ', b'\x00', b'x', b'/'])
    elif k < 0.9:
        return rng.choice([b'/', b' ', b'-', b'+']) + sep.join(comps)
    elif k < 0.95:
        return rng.choice([b':', b'.', b' ', b'']).join(comps)
    else:
        comps[i] = [b'001', b'012', rng.choice([b'8', b'199', b'01990', b'0085', b'100'])][i]   # open forms
    return sep.join(comps)


def random_bytes(rng, seps):
    n = rng.randint(0, 10)
    alpha = b'0123456789' * 3 + seps * 4 + b' +-_.a'
    return bytes(rng.choice(alpha) if rng.random() < 0.93 else rng.randrange(256) for _ in range(n))


def run(ctx):
    ctx.cov['rule'] = ('events = TIME$/DATE$ assignments and readings, ENVIRON statements and ENVIRON$ calls on a real Session judged by TLC with '
                       'ClockEnv.tla; distinct by (operation, bytes, outcome); non-trivial = assignments and ENVIRON$ of names that were set')
    # oracle self-check: calendar arithmetic for every month 1980..2099, grammar laws for every string over a small alphabet
    ctx.model_check('ClockEnv_MC', cfg=ctx.pick('ClockEnv_MC.cfg', 'ClockEnv_MC_big.cfg'), workers=2, require_actions=False)
    snapshot = dict(os.environ)
    try:
        events = drive(ctx)
    finally:
        for k in list(os.environ):
            if k not in snapshot:
                del os.environ[k]
        for k, v in snapshot.items():
            if os.environ.get(k) != v:
                os.environ[k] = v
    judge(ctx, events)


def drive(ctx):
    rng = ctx.rng
    d = Driver(ctx)
    d.fresh()
    t_start = time.time()

    steps = [0]

    def check_clock(p_date=0.3):
        d.time_get()
        if rng.random() < p_date:
            d.date_get()
        steps[0] += 1
        if steps[0] % 6000 == 0:        # a new Session now and then (also gives the trace a point where it can be split)
            d.fresh()
            d.time_get(); d.date_get()

    d.time_get(); d.date_get()
    # ---- valid times -----------------------------------------------------------------------------------------
    for h in range(24):
        d.time_set(fmt_time(rng, h)); check_clock()
    hm = [(h, m) for h in range(24) for m in range(60)]
    rng.shuffle(hm)
    for (h, m) in hm:
        d.time_set(fmt_time(rng, h, m)); check_clock(0.05)
    if ctx.quick():
        hms = [(rng.randint(0, 23), rng.randint(0, 59), rng.randint(0, 59)) for _ in range(2500)]
        hms += [(23, 59, s) for s in range(50, 60)] + [(0, 0, 0), (23, 59, 59), (12, 0, 0), (0, 59, 59), (9, 9, 9)]
    else:
        hms = [(h, m, s) for h in range(24) for m in range(60) for s in range(60)]
        rng.shuffle(hms)
    for (h, m, s) in hms:
        d.time_set(fmt_time(rng, h, m, s)); check_clock(0.05)
    ctx.cov['valid_times'] = 24 + len(hm) + len(hms)
    # ---- valid dates -----------------------------------------------------------------------------------------
    days = []
    for y in range(1980, 2100):
        for m in range(1, 13):
            nd = calendar.monthrange(y, m)[1]      # input generation only; the calendar that JUDGES is ClockEnv!DaysIn
            if ctx.quick():
                days += [(y, m, 1), (y, m, nd)] + ([(y, m, 28)] if m == 2 else [])
            else:
                days += [(y, m, dd) for dd in range(1, nd + 1)]
    if ctx.quick():
        rng.shuffle(days)
        days = days[:1400] + [(rng.randint(1980, 2099), rng.randint(1, 12), rng.randint(1, 28)) for _ in range(1200)]
        days += [(1980, 1, 1), (2099, 12, 31), (2000, 2, 29), (1999, 12, 31), (2000, 1, 1), (2077, 12, 31), (1980, 2, 29), (2096, 2, 29)]
    rng.shuffle(days)
    for (y, m, dd) in days:
        d.date_set(fmt_date(rng, y, m, dd))
        d.date_get()
        check_clock(0.0) if rng.random() < 0.1 else None
    ctx.cov['valid_dates'] = len(days)
    # ---- roll-over at midnight / month / year / the end of the range, and real elapsed time ------------------------
    for (dt, tm) in [(b'02-28-1999', b'23:59:59'), (b'02-28-2000', b'23:59:59'), (b'12-31-1999', b'23:59:59'),
                     (b'12-31-2099', b'23:59:59'), (b'01-01-1980', b'00:00:00'), (b'06-15-2026', b'11:59:59')][:ctx.pick(3, 6)]:
        d.date_set(dt); d.time_set(tm); d.time_get(); d.date_get()
        time.sleep(1.15)
        d.time_get(); d.date_get()
        d.time_set(b'12:00:00'); d.time_get(); d.date_get()
    for _ in range(ctx.pick(2, 12)):
        d.time_set(fmt_time(rng, rng.randint(0, 22), rng.randint(0, 59), rng.randint(0, 59)))
        d.time_get()
        time.sleep(rng.choice([0.3, 0.7, 1.05, 2.1]))
        d.time_get()
    # ---- invalid / open values: the clock must not move -------------------------------------------------------
    d.date_set(b'07-04-1987'); d.time_set(b'10:20:30'); d.time_get(); d.date_get()
    ninv = ctx.pick(2500, 40000)
    for i in range(ninv):
        c = rng.random()
        if c < 0.4:
            d.time_set(mutate_time(rng))
        elif c < 0.8:
            d.date_set(mutate_date(rng))
        elif c < 0.9:
            d.time_set(random_bytes(rng, b':.'))
        else:
            d.date_set(random_bytes(rng, b'-/'))
        d.time_get()
        d.date_get()
        if i % 500 == 499:
            d.fresh()
            d.time_get(); d.date_get()
    for v in (b'-1:00:00', b'+5:06', b' 5:06', b'1_0:00', b'12:30 ', b'12 :30', b'24', b'23:60', b'23:59:60', b'', b':', b'12:', b'1:2:3:4',
              b'005:06', b'12.30.45', b'12.30'):
        d.time_set(v); d.time_get(); d.date_get()
    for v in (b'+1-02-1990', b' 1-02-1990', b'1_1-02-1990', b'01-02-78', b'01-02-79', b'01-02-1979', b'01-02-2100', b'02-30-2000',
              b'02-29-1999', b'13-01-2000', b'00-01-2000', b'01-00-2000', b'01-32-2000', b'06-31-1990', b'01-02', b'', b'01-02-1990-',
              b'01-02-8', b'01-02-199', b'01/02-1990', b'01-02-01990', b'001-02-1990'):
        d.date_set(v); d.time_get(); d.date_get()
    ctx.cov['clock_wall_s'] = round(time.time() - t_start, 1)
    # ---- ENVIRON ---------------------------------------------------------------------------------------------------
    t_env = time.time()
    d.fresh()
    names = []
    for i in range(28):
        n = bytearray(b'VF')
        for _ in range(rng.randint(1, 6)):
            n.append(rng.choice(b'ABCDEFGHIJKLMNOPQRSTUVWXYZabcdefghijklmnopqrstuvwxyz0123456789_.#$ ') if rng.random() < 0.85
                     else rng.choice([x for x in range(1, 128) if x != 61]))
        names.append(bytes(n))
    names += [b'vf_lower', b'VF_UPPER', b'Vf_MiXeD', b'VF Z', b'VF\x01\x1f', b'vf{|}~', b'VF`@[]^']

    def casevar(n):
        return bytes((c ^ 32) if (65 <= c <= 90 or 97 <= c <= 122) and rng.random() < 0.5 else c for c in n)

    nenv = ctx.pick(2500, 40000)
    for i in range(nenv):
        n = rng.choice(names)
        c = rng.random()
        if c < 0.55:
            k = rng.random()
            if k < 0.5:
                v = bytes(rng.choice(b'abcXYZ019 =;:/\\.-_') for _ in range(rng.randint(0, 12)))
            elif k < 0.9:
                v = bytes(rng.randint(1, 255) for _ in range(rng.randint(0, 24)))
            else:
                v = bytes(rng.randint(1, 255) for _ in range(rng.randint(100, 200)))
            d.env_set(casevar(n) + b'=' + v)
            d.env_get(casevar(n))
        elif c < 0.8:
            d.env_get(casevar(n))
        elif c < 0.86:       # NUL bytes
            v = bytearray(rng.choice(b'abc') for _ in range(rng.randint(0, 5)))
            v.insert(rng.randint(0, len(v)), 0)
            if rng.random() < 0.7:
                d.env_set(n + b'=' + bytes(v))
            else:
                d.env_set(n[:3] + b'\x00' + n[3:] + b'=x')
                d.env_get(n[:3] + b'\x00' + n[3:])
            d.env_get(n)
        elif c < 0.92:       # no "=", empty name
            d.env_set(rng.choice([b'', b'=', b'=x', b'==', n, n + b' ', b'VFNOEQ', b' ']))
            d.env_get(n)
        elif c < 0.97:       # names with bytes above 127
            nn = n + bytes([rng.randint(128, 255)])
            d.env_set(nn + b'=v%d' % i)
            d.env_get(nn)
            d.env_get(n)
        else:
            d.env_get(rng.choice([b'', b'VF_NEVER_SET', b'PATH', b'path', n + b'=', b' ' + n]))
        if i % 700 == 699:
            d.fresh()        # the environment belongs to the process: a new Session sees the same values
            for n2 in names:
                d.env_get(n2)
    for n2 in names:
        d.env_get(casevar(n2))
    ctx.cov['environ_wall_s'] = round(time.time() - t_env, 1)
    d.s.close()
    return d.events


def judge(ctx, events):
    keep = ('op', 's', 'r', 'k', 'code', 't0', 't1')
    # one TLC run per chunk; a chunk starts at a `reset` event (clock knowledge restarts there anyway; ENVIRON$ of names set
    # in an earlier chunk is then not judged until they are set again)
    verdicts, start = [], 0
    cuts = [i for i, e in enumerate(events) if e['op'] == 'reset']
    bounds = []
    for c in cuts:
        if c - start >= 100000:
            bounds.append((start, c)); start = c
    bounds.append((start, len(events)))
    for (a, b) in bounds:
        vs = ctx.validate('ClockEnv_Trace', [{k: e[k] for k in keep if k in e} for e in events[a:b]])
        verdicts += [(a + i, c) for (i, c) in vs]
        ctx.cov['traces_validated_against_impl'] += 1
    seen_set = set()
    for e in events:
        if e['op'] == 'reset':
            continue
        if e['op'] == 'env_set' and e['k'] == 'ok':
            eq = bytes(e['s']).find(b'=')
            seen_set.add(bytes(e['s'])[:eq].upper())
        nontrivial = e['op'] in ('time_set', 'date_set', 'env_set') or (e['op'] == 'env_get' and bytes(e['s']).upper() in seen_set)
        ctx.count([e['op'], e.get('s'), e['k'], e['code']], nontrivial=nontrivial)
    for op in ('time_set', 'date_set', 'env_set'):
        ctx.cov[op + '_ok'] = sum(1 for e in events if e['op'] == op and e['k'] == 'ok')
        ctx.cov[op + '_ifc'] = sum(1 for e in events if e['op'] == op and e['k'] == 'err' and e['code'] == 5)
    for e in (events[30], events[len(events) // 3], events[len(events) // 2], events[-5]):
        ctx.sample({k: e.get(k) for k in ('stmt', 'k', 'code', 'r', 't0', 't1')})
    for (i, clause) in verdicts:
        e = events[i - 1]
        b = bytes(e.get('s', []))
        key = {'clause': clause, 'op': e['op'], 'k': e['k'], 'code': e['code']}
        if e['op'] in ('time_set', 'date_set'):
            key['form'] = ('negative' if b[:1] == b'-' or b':-' in b else
                           'signed' if b'+' in b else 'blank' if (b' ' in b or b'\t' in b) else
                           'underscore' if b'_' in b else 'nul' if b'\x00' in b else 'other')
        if e['op'].startswith('env'):
            key['nul'] = 0 in e.get('s', [])
        ctx.reject('C44 %s at %s (outcome %s %s%s; result %r)' % (
            clause, e['stmt'], e['k'], e['code'], ' ' + e['detail'] if 'detail' in e else '', bytes(e.get('r', []))),
            key=key, data={'event': e, 'before': [x['stmt'] for x in events[max(0, i - 6):i - 1]]})
    if ctx.cov['time_set_ok'] < 1000 or ctx.cov['date_set_ok'] < 1000 or ctx.cov['env_set_ok'] < 500 or ctx.cov['time_set_ifc'] < 200:
        raise core.MachineryError('vacuous: too few successful / refused assignments')
    ctx.assumptions += ['TLC evaluates ClockEnv.tla correctly (calendar and grammar laws self-checked by ClockEnv_MC)',
                        'time.monotonic and the host wall clock advance at the same rate within 0.1 % + 3 ms',
                        'the host time zone has no DST transition during the run']
