"""C25 - random-access files. Spec RandFile.tla; models RandFile_MC*.cfg; trace spec RandFile_Trace."""
import os, json
from ..session import Sess
from .. import graph, core

LEVEL = 'model_checking'
META = {
    'technique': 'TLC exhaustive model check of RandFile.tla + replay of every transition of a bounded model into the real '
                 'interpreter + TLC trace validation of random OPEN/FIELD/LSET/RSET/PUT/GET/CLOSE histories',
    'text': 'RandFile.tla models a random file as the byte sequence on disk plus, per file number, record length, last record '
            'accessed and record buffer; the statement is written at record level over history variables (bytes last PUT to each '
            'record, highest record written) as invariants RecordsAsPut / LofIsReclenTimesHighest and action properties '
            'GetYieldsLastPut / LocIsLastAccessed / Isolation. TLC checks them on every reachable state of the bounded model '
            '(2 file numbers on 2 files, record lengths 1..3, records 1..5 explicit or implicit + invalid numbers, content ids, '
            '<= 5..8 operations incl. close/reopen with another record length), and must FIND the reproduced PUT-with-gap defect '
            'when the model uses the transition as coded (AsCoded). Every transition of a bounded model is emitted and replayed '
            'as BASIC statements on a real Session; these and random histories (record lengths 1..128, gaps, repeats, reopen, '
            'pre-existing files, two numbers, record-number bounds) are validated event by event by RandFile_Trace.tla on: FIELD '
            'variable contents, LOF, LOC, error codes and (after CLOSE/at OPEN) the host file bytes.',
    'note': 'Trusted: TLC, JSON plumbing, Session.get_variable/set_variable for moving byte strings. Host file bytes are compared '
            'only at OPEN/CLOSE (writes may be buffered in between). Not constrained (statement silent): buffer contents after OPEN, '
            'result of GET beyond the end / of a partial last record, LOC before the first access, FIELD overflow rules, EOF(), '
            'non-integer record numbers, one file under two numbers, PUT beyond record 2^20 (host file size). ext_ clauses (LSET/RSET '
            'justification, documented in the GW-BASIC manual) go beyond the literal statement.',
}

NF = 2
NAMES = ['A', 'B', 'C']
TWO25 = 1 << 25
KEEP = ('op', 'n', 'name', 'reclen', 'off', 'w', 's', 'imp', 'rec', 'ok', 'code', 'reset', 'init', 'obs')


class Driver(object):
    """Drives a real Session with spec-shaped actions and projects the observables."""

    def __init__(self, ctx):
        self.ctx = ctx
        self.s = None
        self.events = []
        self.starts = []        # index of the first event of each history
        self.nhist = 0

    def fresh(self, init=None):
        if self.s:
            self.s.close()
        self.s = Sess()
        self.init = []
        for nm, data in (init or {}).items():
            with open(os.path.join(self.s.mount, nm), 'wb') as f:
                f.write(bytes(data))
            self.init.append([nm, list(data)])
        self.reset = True
        self.open = {}          # n -> (name, reclen)       (the driver's own OPEN statements, not semantics)
        self.vars = {1: {}, 2: {}}   # n -> varname -> (off, w)
        self.starts.append(len(self.events))
        self.nhist += 1

    def host(self, name):
        p = os.path.join(self.s.mount, name)
        if not os.path.exists(p):
            return []
        with open(p, 'rb') as f:
            return list(f.read())

    def observe(self, hostnames):
        fs = []
        files = self.s.impl.files.files
        for k in range(1, NF + 1):
            if k not in files:
                # (evaluating LOF of a closed number takes the slow error path; the open-file table is read instead)
                fs.append({'open': False})
                continue
            r = self.s.ev('LOF(%d)' % k)
            if r[0] == 'ok' and k in self.open:
                nm, rl = self.open[k]
                loc = self.s.ev('LOC(%d)' % k)
                buf = self.s.s.get_variable('W%d$' % k)
                vs = []
                for v, (off, w) in sorted(self.vars[k].items()):
                    vs.append([off, w, list(self.s.s.get_variable(v))])
                fs.append({'open': True, 'name': nm, 'reclen': rl, 'lof': int(r[1]),
                           'loc': int(loc[1]) if loc[0] == 'ok' else -1, 'buf': list(buf), 'vars': vs})
            else:
                # open although the driver's OPEN statement failed, or LOF fails: let the trace spec report it
                fs.append({'open': True, 'name': 'A', 'reclen': 1, 'lof': int(r[1]) if r[0] == 'ok' else -1, 'loc': -1,
                           'buf': [], 'vars': []})
        return {'f': fs, 'host': [[nm, self.host(nm)] for nm in hostnames]}

    def stmt(self, a):
        op, n = a['op'], a['n']
        form = a.get('form', 0)
        if op == 'open':
            nm, rl = a['name'], a['reclen']
            if form == 1:
                st = 'OPEN "R",#%d,"%s",%d' % (n, nm, rl)
            elif form == 2:
                st = 'OPEN "%s" AS #%d LEN=%d' % (nm, n, rl)
            else:
                st = 'OPEN "%s" FOR RANDOM AS %d LEN=%d' % (nm, n, rl)
            # the whole-record FIELD variable through which the buffer is observed
            return st + ': FIELD #%d, %d AS W%d$' % (n, rl, n)
        if op == 'close':
            return ('CLOSE #%d' if form else 'CLOSE %d') % n
        if op == 'field':
            return 'FIELD #%d, ' % n + ', '.join('%d AS %s' % (w, v) for (v, w) in a['layout'])
        if op in ('lset', 'rset'):
            self.s.s.set_variable('S$', bytes(a['s']))
            return '%s %s = S$' % (op.upper(), a['var'])
        # put / get
        h = '#' if form % 2 == 0 else ''
        if a['imp']:
            return '%s %s%d' % (op.upper(), h, n)
        if form >= 2 and -32768 <= a['rec'] <= 32767:
            self.s.s.set_variable('N%', a['rec'])
            return '%s %s%d, N%%' % (op.upper(), h, n)
        return '%s %s%d, %d' % (op.upper(), h, n, a['rec'])

    def do(self, a):
        op, n = a['op'], a['n']
        if op in ('lset', 'rset') and 'var' not in a:
            a = dict(a, var='W%d$' % n)             # model transitions address the whole record
        st = self.stmt(a)
        r = self.s.ex(st)
        ok = r[0] == 'ok'
        if ok:
            if op == 'open':
                self.open[n] = (a['name'], a['reclen'])
                self.vars[n] = {}
            elif op == 'close':
                self.open.pop(n, None)
            elif op == 'field':
                off = 0
                for (v, w) in a['layout']:
                    self.vars[n][v] = (off, w)
                    off += w
        hostnames = []
        if op == 'open':
            hostnames = [a['name']]
        elif op == 'close' and a.get('_name'):
            hostnames = [a['_name']]
        e = {k: v for k, v in a.items() if not k.startswith('_')}
        e.update({'stmt': st, 'ok': ok, 'code': r[1] if r[0] == 'err' else 0, 'kind': r[0], 'reset': self.reset,
                  'obs': self.observe(hostnames)})
        if self.reset:
            e['init'] = self.init
        self.reset = False
        self.events.append(e)
        return e

    def act(self, a):
        """Complete an abstract action with what the driver knows (names for host observation, offsets of variables)."""
        a = dict(a)
        n = a['n']
        if a['op'] == 'close' and n in self.open:
            a['_name'] = self.open[n][0]
        return self.do(a)


def cover_walks(trans, max_len=60):
    """Edge cover of a TLC-emitted transition graph by walks from the initial state (linear time; vf.graph.covering_walks
    searches the graph again for every walk, which takes minutes on depth-bounded graphs with thousands of dead ends)."""
    import collections
    key = lambda st: json.dumps(st, sort_keys=True)
    out = collections.defaultdict(list)
    for t in trans:
        t['_from'], t['_to'] = key(t['from']), key(t['to'])
        out[t['_from']].append(t)
    init = trans[0]['_from']
    parent, order = {init: None}, [init]
    for u in order:
        for t in out.get(u, ()):
            if t['_to'] not in parent:
                parent[t['_to']] = t
                order.append(t['_to'])
    covered, ptr, walks = set(), collections.defaultdict(int), []

    def nxt(u):
        es = out.get(u, ())
        while ptr[u] < len(es) and id(es[ptr[u]]) in covered:
            ptr[u] += 1
        return es[ptr[u]] if ptr[u] < len(es) else None
    for u in order:
        while nxt(u) is not None:
            path, x = [], u
            while parent[x] is not None:
                path.append(parent[x])
                x = parent[x]['_from']
            path.reverse()
            walk, cur = path, u
            for t in path:
                covered.add(id(t))
            while len(walk) < max_len:
                t = nxt(cur)
                if t is None:
                    break
                covered.add(id(t))
                walk.append(t)
                cur = t['_to']
            walks.append(walk)
    total = sum(1 for t in trans if t['_from'] in parent)
    return walks, len(covered), total


def random_history(d, rng, ctx):
    """One random history; generators know what is interesting (gaps, repeats, bounds), not what is right."""
    init = {}
    if rng.random() < 0.25:
        for nm in rng.sample(NAMES, rng.randint(1, 2)):
            init[nm] = [rng.randrange(256) for _ in range(rng.choice([0, 1, 3, 7, 8, 16, 30, 64, rng.randint(0, 200)]))]
    d.fresh(init)
    uniform = rng.random() < 0.7

    def pick_reclen():
        c = rng.random()
        if c < 0.5:
            return rng.randint(1, 8)
        if c < 0.8:
            return rng.randint(9, 64)
        return rng.choice([65, 100, 127, 128, rng.randint(65, 128)])
    fixed = {nm: pick_reclen() for nm in NAMES}
    used = {nm: [] for nm in NAMES}     # record numbers used so far (to generate repeats)
    for step in range(rng.randint(15, 70)):
        closed = [n for n in (1, 2) if n not in d.open]
        free = [nm for nm in NAMES if nm not in [v[0] for v in d.open.values()]]
        c = rng.random()
        if closed and (not d.open or c < 0.12):
            nm = rng.choice(free)
            d.act({'op': 'open', 'n': rng.choice(closed), 'name': nm, 'reclen': fixed[nm] if uniform else pick_reclen(),
                   'form': rng.randint(0, 2)})
            continue
        if not d.open:
            continue
        n = rng.choice(sorted(d.open))
        nm, rl = d.open[n]
        e = d.events[-1]
        lof = None
        for ev in reversed(d.events[d.starts[-1]:]):
            o = ev['obs']['f'][n - 1]
            if o['open']:
                lof = o['lof']
                break
        hi = (lof or 0) // rl
        if c < 0.20:
            d.act({'op': 'close', 'n': n, 'form': rng.randint(0, 1)})
        elif c < 0.28:
            # FIELD: up to 3 variables, widths within the record length
            vs = rng.sample(['A%d$' % n, 'B%d$' % n, 'C%d$' % n], rng.randint(1, 3))
            left, lay = rl, []
            for v in vs:
                w = rng.choice([0, min(1, left), left, rng.randint(0, left), rng.randint(0, left // 2)])
                lay.append((v, w))
                left -= w
            d.act({'op': 'field', 'n': n, 'layout': lay})
        elif c < 0.50:
            cands = [('W%d$' % n, 0, rl)] + [(v, off, w) for v, (off, w) in sorted(d.vars[n].items())]
            v, off, w = rng.choice(cands)
            ln = rng.choice([0, 1, w, w, max(0, w - 1), w + 1, rng.randint(0, 255), rng.randint(0, w + 3)])
            k = rng.random()
            if k < 0.2:
                s = [rng.choice([0, 32, 255, 26, 13, 10, 34, 44])] * min(ln, 255)
            else:
                s = [rng.randrange(256) for _ in range(min(ln, 255))]
            d.act({'op': rng.choice(['lset', 'rset']), 'n': n, 'var': v, 'off': off, 'w': w, 's': s})
        else:
            op = 'put' if c < 0.76 else 'get'
            k = rng.random()
            a = {'op': op, 'n': n, 'imp': False, 'rec': 0, 'form': rng.randint(0, 3)}
            cap = max(1, min(1 << 20, (4096 if rng.random() < 0.97 else 30000) // rl))
            if k < 0.28:
                a['imp'] = True
                # never PUT at an implicit position beyond the cap (host file size)
                locv = d.events[-1]['obs']['f'][n - 1].get('loc', 0) if d.events[-1]['obs']['f'][n - 1]['open'] else 0
                if locv >= cap:
                    a['imp'] = False
                    a['rec'] = rng.randint(1, hi + 1)
            elif k < 0.50 and used[nm]:
                a['rec'] = rng.choice(used[nm])                     # repeat
            elif k < 0.70:
                a['rec'] = rng.randint(1, hi + 1)                   # inside / append
            elif k < 0.92:
                a['rec'] = min(cap, hi + rng.randint(2, 12))        # gap
            elif k < 0.95:
                a['rec'] = min(cap, hi + rng.randint(13, 300))      # wide gap
            else:
                # record-number bounds: invalid numbers for PUT and GET, the upper bound itself only for GET
                if op == 'get' and rng.random() < 0.4:
                    a['rec'] = rng.choice([TWO25, TWO25, TWO25 - 2, TWO25 - 4, 1 << 24, (1 << 24) + 1 - 1, 1 << 20])
                    if rng.random() < 0.5 and a['rec'] == TWO25:
                        a['_then_implicit'] = True
                else:
                    a['rec'] = rng.choice([0, -1, -2, -32768, TWO25 + 4, TWO25 + 8, 40000000, 2000000000, -40000])
            if a['rec'] > cap and op == 'put' and not a['imp'] and 1 <= a['rec'] <= TWO25:
                a['rec'] = cap
            if 1 <= a['rec'] <= cap:
                used[nm].append(a['rec'])
            then = a.pop('_then_implicit', False)
            d.act(a)
            if then:
                # GET #n (implicit) after record 2^25: the implicit number 2^25+1 lies outside 1..2^25
                d.act({'op': 'get', 'n': n, 'imp': True, 'rec': 0, 'form': 0})
                d.act({'op': 'get', 'n': n, 'imp': False, 'rec': rng.randint(1, hi + 1), 'form': 0})
    for n in sorted(d.open):
        d.act({'op': 'close', 'n': n, 'form': 0})


def bounds_history(d, rng):
    """Scripted history around the record-number bounds 1 and 2^25 (every run, so that detection does not depend on the seed)."""
    d.fresh()
    rl = rng.choice([1, 2, 7, 128])
    d.act({'op': 'open', 'n': 1, 'name': 'A', 'reclen': rl, 'form': 0})
    d.act({'op': 'lset', 'n': 1, 'var': 'W1$', 'off': 0, 'w': rl, 's': [rng.randrange(1, 256) for _ in range(rl)]})
    d.act({'op': 'put', 'n': 1, 'imp': False, 'rec': 1, 'form': 0})
    for rec in (0, -1, -32768, TWO25 + 4, 40000000):
        for op in ('put', 'get'):
            d.act({'op': op, 'n': 1, 'imp': False, 'rec': rec, 'form': rng.randint(0, 3)})
    for rec in (1, 1 << 24, TWO25 - 2, TWO25):
        d.act({'op': 'get', 'n': 1, 'imp': False, 'rec': rec, 'form': 0})
    d.act({'op': 'get', 'n': 1, 'imp': True, 'rec': 0, 'form': 0})      # implicit 2^25+1: open finding
    d.act({'op': 'get', 'n': 1, 'imp': False, 'rec': 1, 'form': 0})
    d.act({'op': 'put', 'n': 1, 'imp': True, 'rec': 0, 'form': 0})      # record 2
    d.act({'op': 'close', 'n': 1, 'form': 0})


def judge(ctx, d, verdicts):
    events = d.events
    for e in events:
        if e['kind'] not in ('ok', 'err'):
            ctx.reject('C25 %s on %r: %s' % (e['kind'], e['stmt'], e.get('code')), key={'clause': 'internal'}, data=e['stmt'])
    starts = d.starts
    import bisect
    for (i, clause) in verdicts:
        e = events[i - 1]
        h0 = starts[bisect.bisect_right(starts, i - 1) - 1]
        hist = events[h0:i]
        acts = [{k: v for k, v in x.items() if k not in ('obs', 'stmt', 'ok', 'code', 'kind', 'reset', 'init')} for x in hist]
        o = e['obs']['f'][e['n'] - 1]
        ctx.reject('C25 %s at %r (ok=%s code=%s lof=%s loc=%s) after %s' % (
            clause, e['stmt'], e['ok'], e['code'], o.get('lof'), o.get('loc'), [x['stmt'] for x in hist[:-1]][-5:]),
            key={'clause': clause, 'op': e['op'], 'imp': bool(e.get('imp')), 'rec': e.get('rec')},
            data={'init': hist[0].get('init', []), 'actions': acts, 'stmts': [x['stmt'] for x in hist], 'obs': e['obs']})


def chunks_at_resets(d, size):
    """Split event indices into runs of whole histories of about `size` events."""
    cuts, last = [0], 0
    for s in d.starts:
        if s - last >= size:
            cuts.append(s)
            last = s
    cuts.append(len(d.events))
    return [(cuts[i], cuts[i + 1]) for i in range(len(cuts) - 1) if cuts[i] < cuts[i + 1]]


def run_validation(ctx, d):
    verdicts = []
    for (lo, hi) in chunks_at_resets(d, 15000):
        evs = []
        for e in d.events[lo:hi]:
            x = {k: e[k] for k in KEEP if k in e}
            evs.append(x)
        verdicts += [(lo + j, c) for (j, c) in ctx.validate('RandFile_Trace', evs)]
    return verdicts


def run(ctx):
    ctx.cov['rule'] = ('events = BASIC statements (OPEN+FIELD, FIELD, LSET, RSET, PUT, GET, CLOSE) executed on a real Session and '
                       'judged by TLC; distinct by (statement, observation); non-trivial = PUT/GET/LSET/RSET events')
    # 1. design: exhaustive bounded model checks (record-level statement over history variables)
    ctx.model_check('RandFile_MC', cfg=ctx.pick('RandFile_MC_one.cfg', 'RandFile_MC_one_big.cfg'), require_actions=False, workers=4)
    ctx.model_check('RandFile_MC', cfg=ctx.pick('RandFile_MC.cfg', 'RandFile_MC_big.cfg'), require_actions=False, workers=4)
    # selftest: with PUT as coded before the repair TLC must find the gap defect (guards against vacuous invariants)
    r = ctx.tlc('RandFile_MC', 'RandFile_MC_ascoded.cfg', workers=1, tag='ascoded-selftest', expect_fail=True)
    if r['ok'] or 'invariant' not in str(r['error']):
        raise core.MachineryError('selftest: as-coded PUT not rejected by the model check (%s)' % r['error'])
    # 2. spec -> code: every transition of the emit model
    r = ctx.tlc('RandFile_MC', ctx.pick('RandFile_MC_emit.cfg', 'RandFile_MC_emit2.cfg'), workers=1, tag='emit')
    if not r['ok']:
        raise core.MachineryError('emit run failed: ' + str(r['error']) + r['out'][-2000:])
    trans = graph.parse_transitions(r['out'])
    if not trans:
        raise core.MachineryError('no transitions emitted')
    walks, cov, total = cover_walks(trans)
    ctx.cov['model_transitions'] = total
    ctx.cov['model_transitions_replayed'] = cov
    if cov < total:
        raise core.MachineryError('edge cover incomplete: %d of %d' % (cov, total))
    d = Driver(ctx)
    for w in walks:
        d.fresh()
        for t in w:
            a = dict(t['a'])
            if 'name' in a and a['op'] != 'open':
                del a['name']
            d.act(a)
    nwalk = len(walks)
    # 3. code -> spec: random histories
    nh = ctx.pick(150, 3000)
    bounds_history(d, ctx.rng)
    for h in range(nh):
        random_history(d, ctx.rng, ctx)
    if d.s:
        d.s.close()
    verdicts = run_validation(ctx, d)
    ctx.cov['traces_validated_against_impl'] += nwalk + nh + 1
    ev = d.events
    stats = {'events': len(ev), 'put': 0, 'get': 0, 'err63': 0, 'gap_puts': 0, 'closes_with_host_bytes': 0, 'reopen': 0}
    seen_names = set()
    for i, e in enumerate(ev):
        if e.get('reset'):
            seen_names = set()
        if e['op'] in ('put', 'get') and e['ok']:
            stats[e['op']] += 1
        if e['code'] == 63:
            stats['err63'] += 1
        if e['op'] == 'close' and e['obs']['host']:
            stats['closes_with_host_bytes'] += 1
        if e['op'] == 'open' and e['ok']:
            if e['name'] in seen_names:
                stats['reopen'] += 1
            seen_names.add(e['name'])
        if e['op'] == 'put' and e['ok'] and i and not e.get('reset'):
            po = ev[i - 1]['obs']['f'][e['n'] - 1]
            o = e['obs']['f'][e['n'] - 1]
            if po['open'] and o['open'] and o['lof'] > po['lof'] + o['reclen']:
                stats['gap_puts'] += 1
        o = e['obs']['f'][e['n'] - 1]
        ctx.count([e['stmt'], e.get('s'), e['ok'], e['code'], o], nontrivial=e['op'] in ('put', 'get', 'lset', 'rset'))
    ctx.cov.update(stats)
    for e in (ev[5], ev[len(ev) // 2], ev[-2]):
        ctx.sample({k: e[k] for k in ('stmt', 'ok', 'code')} | {'obs': e['obs']['f'][e['n'] - 1]})
    judge(ctx, d, verdicts)
    if not (stats['put'] and stats['get'] and stats['err63'] and stats['gap_puts'] and stats['reopen']) and not ctx.violations:
        raise core.MachineryError('vacuous run: %s' % stats)


def replay(ctx, path):
    """Re-execute the histories recorded in a replay file on the current tree and validate them again."""
    with open(path) as f:
        doc = json.load(f)
    d = Driver(ctx)
    for v in doc['violations']:
        data = v.get('data') or {}
        if not isinstance(data, dict) or 'actions' not in data:
            continue
        d.fresh({nm: b for nm, b in data.get('init', [])})
        for a in data['actions']:
            if 'layout' in a:
                a['layout'] = [tuple(x) for x in a['layout']]
            d.act(a)
    if d.s:
        d.s.close()
    if not d.events:
        raise core.MachineryError('nothing to replay in %s' % path)
    judge(ctx, d, run_validation(ctx, d))
    ctx.cov['traces_validated_against_impl'] += d.nhist
