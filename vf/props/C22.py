"""C22 — READ/DATA/RESTORE. Spec Interp.tla (Items in text order, ReadFrom, DoRestore); families Interp_MC_data."""
from .. import interp_check, core

LEVEL = 'model_checking'
META = {
    'technique': 'TLA+ abstract machine Interp.tla: TLC checks a declarative READ/DATA/RESTORE family, replays it on the real interpreter, and validates statement-boundary traces of random DATA-heavy programs',
    'text': 'Interp_MC_data declares, independently of the machine, which items a sequence of READs returns (program order across lines and mid-line DATA statements, RESTORE, RESTORE n to the first DATA at or '
            'after line n, Out of DATA at the exact READ, Syntax error on the DATA line for a non-numeric item); TLC checks Interp.tla against it, every family program runs on the real interpreter, and random '
            'programs mixing READ (1-3 variables, integer and single targets), DATA, RESTORE with loops, subroutines and error handlers are validated boundary by boundary.',
    'note': 'Trusted: TLC, hook H1, the program renderer. String items and quoted DATA are outside the fragment (numeric targets only); the value left in the target after a failed numeric READ is not constrained.',
}
META['text'] += ' A declarative family makes a READ of several variables fail part-way (Out of DATA, Overflow) under RESUME NEXT: delivered items are consumed, the failing one is not.'


def run(ctx):
    ctx.cov['rule'] = ('one case = one program run on the real interpreter; evaluations = statement boundaries validated by TLC; distinct = distinct program texts')
    interp_check.run_model_families(ctx, ['data', 'strread'])
    interp_check.run_family(ctx, {'ctl', 'data', 'err'}, ctx.pick(220, 5000), size=12,
                            focus={'data': 45, 'for': 8, 'while': 4, 'gosub': 4, 'on': 2, 'err': 4})
