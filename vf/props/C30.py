"""C30 - graphics stays in the viewport and the active page. Spec Viewport.tla; model Viewport_MC*.cfg; trace spec Viewport_Trace."""
import time, json, collections
from .. import gfx, core, graph

LEVEL = 'model_checking'
META = {
    'technique': 'TLC exhaustive model check of the viewport/page state machine (Viewport.tla) + replay of every model transition '
                 'into the real interpreter + TLC trace validation of random statement histories in every graphics mode of every adapter',
    'text': 'Viewport.tla states the property as Allowed(st, a) (the rectangle of the active page a statement may change: the viewport; for VIEW the '
            'new rectangle grown by its border, clipped to the screen; nothing in text modes; no other page) and Must(st, a) (text modes: Illegal '
            'function call). TLC checks the invariants of the state machine (viewport inside the screen after every SCREEN/VIEW/WINDOW/CLS history, pages exist) '
            'exhaustively, emits every transition of a reduced model (EGA modes 0/7/9) and an online edge cover replays ALL of them on a real Session; '
            'random histories of PSET/PRESET/LINE/B/BF/CIRCLE/PAINT/DRAW/PUT/VIEW/WINDOW/SCREEN/CLS with coordinates far inside, at and far outside the '
            'viewport are run in every graphics mode of 9 adapter configurations; after every statement the pixel buffers of ALL pages are diffed and '
            'Viewport_Trace.tla judges the per-page changed boxes. A whole-screen fill (probe) must change exactly the model viewport, which ties the '
            'model state to the real viewport using pixels only.',
    'note': 'Trusted: TLC, JSON plumbing, the per-page pixel diff (Display.pages[p].pixels, the accessor Session.get_pixels uses). Statements run inside a '
            'program line with ON ERROR so that error messages do not paint the screen. Pixel changes of SCREEN/CLS/WINDOW are not constrained (the statement does not list them). '
            'Sampled, not exhaustive, over coordinates.',
}

MC_MODES = {'T': 0, 'A': 7, 'B': 9}          # Viewport_MC mode ids -> SCREEN numbers on the ega64k configuration
MC_TABLE = {'T': (True, 640, 350, 4), 'A': (False, 320, 200, 8), 'B': (False, 640, 350, 2)}


class Runner(object):
    """Executes statements on a real session inside an error-trapping program line and records events."""

    def __init__(self, ctx, adapter, events):
        self.ctx, self.adapter, self.events = ctx, adapter, events
        self.g = None
        self.restarts = 0

    def fresh(self):
        if self.g:
            self.g.close()
        g = self.g = gfx.GSess(self.adapter)
        g.ex('KEY OFF')
        # line 15 = set-up of the statement (arrays: storing a program line clears all variables), errors there are skipped;
        # line 20 = the statement under observation, its error code goes to E%
        for line in ('10 ON ERROR GOTO 95', '15 REM', '17 ON ERROR GOTO 90', '20 REM', '30 ON ERROR GOTO 0:END',
                     '90 E%=ERR:RESUME 30', '95 RESUME 17'):
            r = g.ex(line)
            if r[0] != 'ok':
                raise core.MachineryError('cannot store trap program: %r' % (r,))
        self.setup_line = 'REM'
        self.reset = True
        self.lastobs = self.modeobs()
        self.snap = g.pages()
        self.dims = (g.W, g.H)
        self.restarts += 1

    def modeobs(self):
        g = self.g
        return {'mode': g.modename, 'text': g.text, 'w': g.W, 'h': g.H, 'np': g.npages, 'ap': g.apage, 'vp': g.vpage}

    def raw(self, stmt):
        """Untracked statement (GET, array set-up): executed, snapshot refreshed."""
        r = self.g.ex(stmt)
        self.g._refresh()
        self.snap = self.g.pages()
        self.dims = (self.g.W, self.g.H)
        return r

    def do(self, a, stmt, setup='REM'):
        g = self.g
        e = dict(a)
        e['stmt'] = stmt
        if setup != self.setup_line:
            g.ex('15 ' + setup)
            self.setup_line = setup
        if setup != 'REM':
            e['setup'] = setup
        if self.reset:
            e['reset'] = True
            e['pre'] = self.modeobs()
            self.reset = False
        r0 = g.ex('20 ' + stmt)
        r = g.ex('E%=0:GOTO 10', budget=200000)
        code = 0
        if r[0] == 'ok' and r0[0] == 'ok':
            try:
                code = int(g.s.get_variable('E%'))
            except BaseException as ex:  # noqa
                r = ('internal', 'get_variable: %r' % (ex,), b'')
        elif r[0] == 'err':
            code = r[1]
        elif r0[0] == 'err':
            code = r0[1]
        kind = 'internal' if 'internal' in (r[0], r0[0]) else ('cut' if r[0] == 'cut' else 'ok' if code == 0 else 'err')
        e['kind'] = kind
        e['ok'] = kind == 'ok'
        e['code'] = code
        if kind == 'internal':
            e['detail'] = str(r[1] if r[0] == 'internal' else r0[1])[:300]
            e['obs'] = e.get('pre') or self.lastobs
            e['ch'] = []
            self.events.append(e)
            self.fresh()
            return e
        g._refresh()
        try:
            cur = g.pages()
        except Exception as ex:  # noqa   (e.g. pixel rows of unequal length after a clipped sprite write)
            e['kind'], e['ok'] = 'internal', False
            e['detail'] = 'pixel buffer unreadable after the statement: %s: %s' % (type(ex).__name__, ex)
            e['obs'] = e.get('pre') or self.lastobs
            e['ch'] = []
            self.events.append(e)
            self.fresh()
            return e
        obs = self.modeobs()
        if a['op'] == 'screen' or len(cur) != len(self.snap) or (g.W, g.H) != self.dims:
            ch = []
        else:
            ch = []
            for p in range(len(cur)):
                b = gfx.bbox(self.snap[p], cur[p], g.W)
                ch.append(list(b) if b else [])
        self.snap = cur
        self.dims = (g.W, g.H)
        e['obs'] = obs
        e['ch'] = ch
        self.lastobs = obs
        self.events.append(e)
        return e

    def close(self):
        if self.g:
            self.g.close()
            self.g = None


# ------------------------------------------------------------------------------------------------------------------
# spec -> code: replay of every transition of the reduced model

def replay_model(ctx, events):
    cfg = ctx.pick('Viewport_MC_emit.cfg', 'Viewport_MC_emit_big.cfg')
    if not ctx.quick():
        # every page selection under a VIEW crashes on a tree with the set_page defect (known finding C30-set-page-assert) and costs a
        # session restart: there the thorough tier replays the reduced graph too (4 264 instead of 57 456 transitions)
        probe = gfx.GSess('ega64k')
        probe.ex('SCREEN 7:VIEW (10,10)-(100,100)')
        crashed = probe.ex('SCREEN 7,,1,1')[0] == 'internal'
        probe.close()
        if crashed:
            cfg = 'Viewport_MC_emit.cfg'
            ctx.cov['replay_graph_reduced_because_page_selection_under_view_crashes'] = True
    r = ctx.tlc('Viewport_MC', cfg, workers=1, tag='emit')
    if not r['ok']:
        raise core.MachineryError('emit run failed: %s' % r['error'])
    trans = graph.parse_transitions(r['out'])
    key = lambda s: json.dumps(s, sort_keys=True)
    out = collections.defaultdict(list)
    for t in trans:
        out[key(t['from'])].append(t)
    for k in out:
        ctx.rng.shuffle(out[k])
    total = len(trans)
    ru = Runner(ctx, 'ega64k', events)
    ru.fresh()
    g = ru.g
    # the model's mode table must be the real one
    for mid, nr in MC_MODES.items():
        g.screen(nr)
        if (g.text, g.W, g.H, g.npages) != MC_TABLE[mid]:
            raise core.MachineryError('mode table of Viewport_MC differs from the adapter: %s -> %r' % (mid, (g.text, g.W, g.H, g.npages)))
    ru.fresh()
    init = [t['from'] for t in trans if t['from']['mode'] == 'T' and t['from']['ap'] == 0 and t['from']['vp'] == 0 and not t['from']['win']][0]
    covered = set()
    diverged = 0
    cur = key(init)
    colour = [1]

    def next_colour():
        colour[0] = colour[0] % 3 + 1
        return colour[0]

    def path_to_uncovered(src):
        seen = {src: None}
        dq = collections.deque([src])
        while dq:
            u = dq.popleft()
            for i, t in enumerate(out.get(u, ())):
                if (u, i) not in covered:
                    path = []
                    x = u
                    while seen[x] is not None:
                        path.append(seen[x]); x = seen[x][0]
                    path.reverse()
                    return path + [(u, i)]
            for i, t in enumerate(out.get(u, ())):
                v = key(t['to'])
                if v not in seen:
                    seen[v] = (u, i)
                    dq.append(v)
        return None

    def stmt_for(st, a):
        op = a['op']
        nr = {v: k for k, v in MC_MODES.items()}
        if op == 'screen':
            n = '' if a['n'] == 'same' else str(MC_MODES[a['n']])
            ap = '' if a['ap'] == -1 else str(a['ap'])
            vp = '' if a['vp'] == -1 else str(a['vp'])
            if not n and not ap and not vp:
                n = str(MC_MODES[st['mode']])
            elif not n and ctx.rng.random() < 0.5:
                n = str(MC_MODES[st['mode']])
            s = 'SCREEN %s,,%s,%s' % (n, ap, vp)
            return s.rstrip(',')
        if op == 'view':
            deco = {'none': '', 'fill': ',%d' % next_colour(), 'both': ',%d,%d' % (next_colour(), next_colour())}[a['deco']]
            return 'VIEW %s(%d,%d)-(%d,%d)%s' % ('SCREEN ' if a['abs'] else '', a['x0'], a['y0'], a['x1'], a['y1'], deco)
        if op == 'viewoff':
            return 'VIEW'
        if op == 'window':
            return 'WINDOW SCREEN (0,0)-(1000,1000)'
        if op == 'windowoff':
            return 'WINDOW'
        if op == 'cls':
            return 'CLS'
        if op == 'probe':
            return 'LINE (-5000,-5000)-(6000,6000),%d,BF'
        # boxf requests relative to the model viewport
        vx0, vy0, vx1, vy1 = st['view']
        vw, vh = vx1 - vx0, vy1 - vy0
        if a['req'] == 'inside':
            rx0, ry0, rx1, ry1 = vx0 + vw // 4, vy0 + vh // 4, vx1 - vw // 4, vy1 - vh // 4
        elif a['req'] == 'cross':
            rx0, ry0, rx1, ry1 = vx0 - 7, vy0 + vh // 2, vx1 + 9, vy1 + 11
        else:
            rx0, ry0, rx1, ry1 = vx1 + 2, vy1 + 2, vx1 + 40, vy1 + 30
        if not st['vabs'] or st['win']:
            rx0, rx1, ry0, ry1 = rx0 - vx0, rx1 - vx0, ry0 - vy0, ry1 - vy0
        if st['win']:
            rx0, rx1 = rx0 * 1000 // max(1, vw), rx1 * 1000 // max(1, vw)
            ry0, ry1 = ry0 * 1000 // max(1, vh), ry1 * 1000 // max(1, vh)
        return 'LINE (%d,%d)-(%d,%d),%d,BF' % (rx0, ry0, rx1, ry1, next_colour())

    nsteps = 0
    while len(covered) < total:
        p = path_to_uncovered(cur)
        if p is None:
            if cur == key(init):
                break
            ru.fresh(); cur = key(init)
            continue
        for (u, i) in p:
            t = out[u][i]
            covered.add((u, i))
            a = dict(t['a'])
            st = t['from']
            s = stmt_for(st, a)
            if a['op'] == 'probe':
                c1 = next_colour()
                ru.do({'op': 'boxf'}, s % c1)
                e = ru.do(a, s % (c1 % 3 + 1))
            else:
                e = ru.do(a, s)
            nsteps += 1
            e['ref'] = t['ref']
            to = t['to']
            if e['kind'] == 'internal':
                cur = key(init)      # Runner restarted the session
                break
            ob = e['obs']
            # (the size and page count of the text mode depend on the width of the mode it is entered from: not compared)
            if e['ok'] != t['ref'] or (ob['ap'], ob['vp'], ob['text']) != (to['ap'], to['vp'], to['text']) or (
                    not ob['text'] and (ob['w'], ob['h'], ob['np']) != (to['w'], to['h'], to['np'])):
                diverged += 1
                ctx.sample({'replay_divergence': s, 'model_ref_ok': t['ref'], 'observed': [e['ok'], e['code']], 'model_to': to, 'obs': ob}, limit=9)
                ru.fresh(); cur = key(init)
                break
            cur = key(to)
    ru.close()
    ctx.cov['model_transitions'] = total
    ctx.cov['model_transitions_replayed'] = len(covered)
    ctx.cov['replay_reference_divergences'] = diverged
    ctx.cov['replay_sessions'] = ru.restarts
    if len(covered) < total:
        raise core.MachineryError('edge cover incomplete: %d of %d' % (len(covered), total))
    if diverged > total // 10:
        raise core.MachineryError('reference model of Viewport_MC diverges from the implementation on %d transitions' % diverged)
    if diverged:
        print('note: %d replayed transitions had an outcome/page selection other than the reference model (not a verdict)' % diverged)


# ------------------------------------------------------------------------------------------------------------------
# code -> spec: random histories

class Gen(object):
    """Random statement generator; tracks its own BELIEF of viewport/window only to aim coordinates."""

    def __init__(self, ctx, ru, modes):
        self.ctx, self.ru, self.rng, self.modes = ctx, ru, ctx.rng, modes
        self.forget()

    def forget(self):
        self.view = None      # (x0, y0, x1, y1, abs)
        self.win = None       # (x0, y0, x1, y1)

    def vrect(self):
        g = self.ru.g
        return self.view[:4] if self.view else (0, 0, g.W - 1, g.H - 1)

    def c1(self, lo, hi, off):
        """One coordinate around the interval [lo, hi] (absolute), returned in the viewport's coordinate system."""
        rng = self.rng
        k = rng.random()
        if k < 0.40:
            v = rng.randint(lo, hi)
        elif k < 0.62:
            v = rng.choice([lo, hi, lo - 1, hi + 1, lo + 1, hi - 1])
        elif k < 0.80:
            v = rng.choice([lo - rng.randint(2, 60), hi + rng.randint(2, 60)])
        elif k < 0.97:
            v = rng.choice([-1, 1]) * rng.choice([rng.randint(300, 2000), rng.randint(2000, 32000), 32767, 32766, 16384])
        else:
            v = rng.choice([-1, 1]) * rng.choice([32768, 40000, 70000])
        return v - off

    def pt(self):
        """A coordinate pair as text, aimed at the believed viewport (or window)."""
        rng = self.rng
        x0, y0, x1, y1 = self.vrect()
        if self.win:
            wx0, wy0, wx1, wy1 = self.win
            f = lambda a, b: a + (b - a) * rng.choice([rng.random(), rng.random(), 0.0, 1.0, -0.01, 1.01, rng.uniform(-2, 3), rng.uniform(-50, 50)])
            return '%.6g,%.6g' % (f(wx0, wx1), f(wy0, wy1))
        ox, oy = (0, 0) if (self.view is None or self.view[4]) else (x0, y0)
        x, y = self.c1(x0, x1, ox), self.c1(y0, y1, oy)
        if rng.random() < 0.06:
            return '%d.%d,%d.5' % (x, rng.randint(0, 9), y)
        return '%d,%d' % (x, y)

    def attr(self):
        n = max(2, self.ru.g.nattr)
        return self.rng.choice([self.rng.randint(0, n - 1)] * 6 + [n, 255, 16])

    def small(self):
        return self.rng.choice([0, 1, 2, 5, self.rng.randint(1, 40), self.rng.randint(1, 400)])

    def gml(self):
        rng = self.rng
        parts = []
        for _ in range(rng.randint(1, 7)):
            k = rng.random()
            pre = rng.choice(['', '', '', 'B', 'N'])
            if k < 0.5:
                parts.append(pre + rng.choice('UDLREFGH') + rng.choice(['', str(self.small()), str(rng.randint(100, 9000))]))
            elif k < 0.7:
                x0, y0, x1, y1 = self.vrect()
                parts.append(pre + 'M%d,%d' % (self.c1(x0, x1, 0) % 9999, self.c1(y0, y1, 0) % 9999))
            elif k < 0.8:
                parts.append(pre + 'M%s%d,%s%d' % (rng.choice('+-'), self.small(), rng.choice('+-'), self.small()))
            elif k < 0.87:
                parts.append('C%d' % rng.randint(0, max(1, self.ru.g.nattr - 1)))
            elif k < 0.92:
                parts.append('S%d' % rng.choice([1, 4, 8, 40, 255]))
            elif k < 0.96:
                parts.append(rng.choice(['A0', 'A1', 'A2', 'A3', 'TA45', 'TA-90', 'TA200']))
            else:
                parts.append('P%d,%d' % (rng.randint(0, 3), rng.randint(0, 3)))
        return rng.choice(['', ' ', ';']).join(parts)

    def drawing(self):
        """(op, statement) of a random drawing statement of the property's list."""
        rng = self.rng
        k = rng.random()
        g = self.ru.g
        if k < 0.16:
            kw = rng.choice(['PSET', 'PSET', 'PRESET'])
            step = 'STEP ' if rng.random() < 0.1 else ''
            col = '' if rng.random() < 0.3 else ',%d' % self.attr()
            return kw.lower(), '%s %s(%s)%s' % (kw, step, self.pt(), col)
        if k < 0.50:
            shape = rng.choice(['', '', 'B', 'BF'])
            op = {'': 'line', 'B': 'box', 'BF': 'boxf'}[shape]
            first = '' if rng.random() < 0.08 else '(%s)' % self.pt()
            col = '' if rng.random() < 0.25 else '%d' % self.attr()
            style = ',&H%X' % rng.choice([0xAAAA, 0xF0F0, 0x8001, 0, 0xFFFF]) if shape != 'BF' and rng.random() < 0.15 else ''
            tail = ',%s,%s%s' % (col, shape, style) if (shape or style) else (',' + col if col else '')
            return op, 'LINE %s-%s(%s)%s' % (first, 'STEP ' if rng.random() < 0.07 else '', self.pt(), tail)
        if k < 0.66:
            x0, y0, x1, y1 = self.vrect()
            r = rng.choice([0, 1, 2, rng.randint(1, 30), rng.randint(1, max(2, (x1 - x0))), rng.randint(100, 1500), 5000])
            if self.win:
                r = abs(self.win[2] - self.win[0]) * rng.choice([0.01, 0.1, 0.5, 1.5])
            s = 'CIRCLE (%s),%.6g' % (self.pt(), r)
            if rng.random() < 0.7:
                s += ',%d' % self.attr()
                if rng.random() < 0.4:
                    s += ',%.3f,%.3f' % (rng.uniform(-6.28, 6.28), rng.uniform(-6.28, 6.28))
                    if rng.random() < 0.5:
                        s += ',%.3g' % rng.choice([0.2, 0.5, 1, 2, 7, rng.uniform(0.05, 10)])
                elif rng.random() < 0.3:
                    s += ',,,%.3g' % rng.choice([0.2, 0.5, 1, 2, 7, rng.uniform(0.05, 10)])
            return 'circle', s
        if k < 0.72:
            s = 'PAINT (%s)' % self.pt()
            kk = rng.random()
            if kk < 0.5:
                s += ',%d,%d' % (self.attr(), self.attr())
            elif kk < 0.7:
                s += ',%d' % self.attr()
            elif kk < 0.8:
                s += ',CHR$(%d)+CHR$(%d)' % (rng.randint(0, 255), rng.randint(0, 255))
            return 'paint', s
        if k < 0.86:
            return 'draw', 'DRAW "%s"' % self.gml()
        # PUT: the sprite array is built in the set-up line of the same program run (line edits clear variables):
        # either GOT from the screen inside the viewport, or a synthetic size record + random words (e.g. a sprite of another mode)
        x0, y0, x1, y1 = self.vrect()
        ox, oy = (0, 0) if (self.view is None or self.view[4]) else (x0, y0)
        w = rng.randint(1, max(1, min(40, x1 - x0)))
        h = rng.randint(1, max(1, min(30, y1 - y0)))
        if rng.random() < 0.75 and not self.win:
            sx = rng.randint(x0, max(x0, x1 - 2 * w)) - ox
            sy = rng.randint(y0, max(y0, y1 - h)) - oy
            setup = 'DIM A%%(1200):GET (%d,%d)-(%d,%d),A%%' % (sx, sy, sx + w - 1, sy + h - 1)
        else:
            # size record small enough for every sprite layout of every mode (<= 64 x 20 in the widest reading)
            setup = 'DIM A%%(1200):A%%(0)=%d:A%%(1)=%d:FOR I=2 TO 400:A%%(I)=%d+I*%d:NEXT' % (
                rng.randint(1, 64), rng.randint(1, 20), rng.randint(-32768, 0), rng.randint(0, 80))
        verb = rng.choice(['', ',PSET', ',PRESET', ',AND', ',OR', ',XOR'])
        if rng.random() < 0.75 and not self.win:
            # around the positions where the sprite just fits / just does not fit
            fx = lambda lo, hi, n: rng.choice([rng.randint(lo, max(lo, hi - n + 1))] * 4 + [hi - n + 1] * 3 + [hi - n + 2, lo, lo, lo - 1, hi])
            where = '%d,%d' % (fx(x0, x1, w) - ox, fx(y0, y1, h) - oy)
        else:
            where = self.pt()
        return 'put', 'PUT (%s),A%%%s' % (where, verb), setup

    def view_stmt(self):
        rng, g = self.rng, self.ru.g
        if rng.random() < 0.12:
            return {'op': 'viewoff'}, 'VIEW'
        cx = lambda m: rng.choice([rng.randint(0, m - 1)] * 8 + [0, m - 1, m, -1, m + rng.randint(1, 500)])
        x0, x1, y0, y1 = cx(g.W), cx(g.W), cx(g.H), cx(g.H)
        if rng.random() < 0.05:
            x1 = x0
        ab = rng.random() < 0.4
        deco = rng.choice(['', '', ',%d' % self.attr(), ',%d,%d' % (self.attr(), self.attr()), ',,%d' % self.attr()])
        return ({'op': 'view', 'x0': x0, 'y0': y0, 'x1': x1, 'y1': y1, 'abs': ab},
                'VIEW %s(%d,%d)-(%d,%d)%s' % ('SCREEN ' if ab else '', x0, y0, x1, y1, deco))

    def step(self):
        """Issue one random statement."""
        rng, ru = self.rng, self.ru
        g = ru.g
        k = rng.random()
        if g.text:
            if k < 0.25:
                return self.screen_stmt()
            if k < 0.35:
                a, s = self.view_stmt()
                return ru.do(a, s)
            if k < 0.40:
                return ru.do({'op': 'cls'}, 'CLS')
            d = self.drawing()
            return ru.do({'op': d[0]}, d[1], *d[2:])
        if k < 0.03:
            return self.screen_stmt()
        if k < 0.11:
            a, s = self.view_stmt()
            e = ru.do(a, s)
            if e['ok']:
                self.view = None if a['op'] == 'viewoff' else (min(a['x0'], a['x1']), min(a['y0'], a['y1']), max(a['x0'], a['x1']), max(a['y0'], a['y1']), a['abs'])
            return e
        if k < 0.15:
            if rng.random() < 0.3:
                e = ru.do({'op': 'windowoff'}, 'WINDOW')
                if e['ok']:
                    self.win = None
                return e
            w = [rng.choice([0, -100, rng.uniform(-1000, 1000)]) for _ in range(2)]
            w += [w[0] + rng.choice([1, 10, 100, 1000, 0.01, 32000]), w[1] + rng.choice([1, 10, 100, 1000, 0.01, 32000])]
            e = ru.do({'op': 'window'}, 'WINDOW %s(%.6g,%.6g)-(%.6g,%.6g)' % (rng.choice(['', 'SCREEN ']), w[0], w[1], w[2], w[3]))
            if e['ok']:
                self.win = tuple(w)
            return e
        if k < 0.17:
            return ru.do({'op': 'cls'}, rng.choice(['CLS', 'CLS', 'CLS 0', 'CLS 1', 'CLS 2']))
        if k < 0.21 and not self.win:
            c = rng.randint(0, g.nattr - 1)
            s = 'LINE (-9000,-9000)-(9000,9000),%d,BF'
            ru.do({'op': 'boxf'}, s % c)
            return ru.do({'op': 'probe'}, s % ((c + 1) % g.nattr))
        d = self.drawing()
        return ru.do({'op': d[0]}, d[1], *d[2:])

    def screen_stmt(self, nr=None):
        rng, ru = self.rng, self.ru
        g = ru.g
        if nr is None:
            nr = rng.choice(self.modes + [0, 0, None, None, None])
        np_ = g.npages
        pg = lambda: rng.choice([rng.randint(0, max(0, np_ - 1))] * 5 + [np_, 0, 1])
        k = rng.random()
        if nr is None or k < 0.45:
            if k < 0.2:
                tail = ',,%d' % pg()
            elif k < 0.4:
                tail = ',,%d,%d' % (pg(), pg())
            elif k < 0.45:
                tail = ',,,%d' % pg()
            else:
                tail = ',,%d,%d' % (pg(), pg()) if nr is None else ''
        else:
            tail = ''
        e = ru.do({'op': 'screen'}, 'SCREEN %s%s' % ('' if nr is None else nr, tail))
        if e['kind'] == 'internal' or e['obs']['mode'] != getattr(self, 'lastmode', None):
            self.forget()
        self.lastmode = e['obs']['mode']
        return e


def run(ctx):
    ctx.cov['rule'] = ('events = BASIC statements executed on a real Session (error-trapped program line), all pages diffed; distinct by '
                       '(adapter, mode, statement text, changed boxes); non-trivial = drawing/VIEW statements that changed pixels or ran in a text mode')
    # 1. design: exhaustive bounded model check of the state machine
    ctx.model_check('Viewport_MC', cfg='Viewport_MC.cfg', require_actions=False, workers=4)
    t0 = time.time()
    events = []
    # 2. spec -> code
    replay_model(ctx, events)
    nreplay = len(events)
    tags = ['ega64k/replay'] * nreplay
    # 3. code -> spec
    per_mode = ctx.pick(90, 800)
    traces = 0
    for adapter, kw, modes in gfx.ADAPTERS:
        ru = Runner(ctx, adapter, events)
        ru.fresh()
        gen = Gen(ctx, ru, modes)
        for nr in modes:
            e = gen.screen_stmt(nr)
            if not e['ok']:
                e = gen.screen_stmt(nr)
            for _ in range(per_mode):
                gen.step()
            traces += 1
        # a visit to the text mode with graphics statements
        gen.screen_stmt(0)
        for _ in range(ctx.pick(25, 200)):
            gen.step()
        ru.close()
        tags += ['%s' % adapter] * (len(events) - len(tags))
    ctx.cov['impl_wall_s'] = round(time.time() - t0, 1)
    ops = collections.Counter()
    chg = text_ev = probes = outside_attempts = 0
    for e, tg in zip(events, tags):
        ops[e['op']] += 1
        changed = any(e['ch'])
        chg += changed
        text_ev += bool(e['obs']['text']) and e['op'] not in ('screen', 'cls')
        probes += e['op'] == 'probe' and e['ok']
        ctx.count([tg, e['obs']['mode'], e['stmt'], e['ch']], nontrivial=(changed and e['op'] not in ('screen', 'cls')) or (e['obs']['text'] and e['op'] not in ('screen', 'cls')))
    ctx.cov['events_by_op'] = dict(ops)
    ctx.cov['events_changing_pixels'] = chg
    ctx.cov['text_mode_events'] = text_ev
    ctx.cov['exact_probes'] = probes
    for e in (events[5], events[nreplay + 40], events[-30]):
        ctx.sample({k: e[k] for k in ('stmt', 'ok', 'code', 'ch', 'obs')})
    keep = ('op', 'x0', 'y0', 'x1', 'y1', 'abs', 'ok', 'code', 'kind', 'reset', 'pre', 'ch', 'obs')
    verdicts = ctx.validate('Viewport_Trace', [{k: e[k] for k in keep if k in e} for e in events])
    ctx.cov['traces_validated_against_impl'] += traces + 1
    # for the keys of rejections: was a VIEW rectangle in force (as far as the statements issued tell)?
    vact, prevmode, view_in_force = False, None, []
    for e in events:
        if e.get('reset') or e['obs']['mode'] != prevmode and e['kind'] != 'internal':
            vact = False
        view_in_force.append(vact)
        if e['ok'] and e['op'] == 'view':
            vact = True
        elif e['ok'] and e['op'] == 'viewoff':
            vact = False
        if e['kind'] != 'internal':
            prevmode = e['obs']['mode']
    for (i, clause) in verdicts:
        e = events[i - 1]
        hist = [x['stmt'] for x in events[max(0, i - 8):i]]
        key = {'clause': clause, 'op': e['op'], 'adapter': tags[i - 1]}
        if clause == 'internal_error':
            d = e.get('detail', '')
            key['exception'] = d.split(':')[0]
            key['view_active'] = view_in_force[i - 1]
        ctx.reject('C30 %s [%s %s] at %r (ok=%s code=%s ch=%s) %s' % (clause, tags[i - 1], e['obs']['mode'], e['stmt'], e['ok'], e['code'], e['ch'], e.get('detail', '')),
                   key=key, data={'event': {k: v for k, v in e.items()}, 'history': hist})
    if chg < 300 or text_ev < 50 or probes < 20:
        raise core.MachineryError('vacuous: %d changing events, %d text-mode events, %d probes' % (chg, text_ev, probes))
    ctx.assumptions += ['the per-page pixel buffers Display.pages[p].pixels are the pages the property speaks about',
                        'running a statement as program line 20 under ON ERROR GOTO is equivalent to running it directly, minus the printed error message']
