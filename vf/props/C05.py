"""C05 — arithmetic identities. Spec: MBF.tla (decode, exact order, Neg/Abs/Sign, Wider); oracle self-check MBF_MC;
trace spec C05_Trace."""
import os
import time
from ..mbfdrv import (Drv, Pipeline, Sink, typ, int_bytes, flt_of_int, neighbour, negated, rand_float, rand_value, rand_int, CVFN, SIZE)

LEVEL = 'exploration'
META = {
    'technique': 'TLA+ predicates over decoded MBF values (MBF.tla) evaluated by TLC on recorded results of the real interpreter; '
                 'MBF.tla is model-checked against native arithmetic on a reduced format',
    'text': 'For operands of every type pairing (integer/single/double) the real interpreter computes x+y / y+x, x*y / y*x, x+0, 0+x, '
            'x*1, 1*x, x/1, x-x, -x, -(-x), ABS(x), SGN(x) and mixed-type operations both directly and on operands converted to the '
            'wider type first (pcbasic.basic.values functions called directly, and BASIC text through the real tokeniser/parser); '
            'operand and result bytes + result type are recorded and TLC judges every record: commutativity bit for bit (including '
            'equal error outcomes), value identities by the exact order Cmp of decoded values, result type = wider operand type for '
            'mixed pairings. All 65536 integers are enumerated for the unary identities; float operands are boundary-dense '
            '(extreme exponents, non-canonical zeros, all-ones/one-bit mantissas, neighbours, opposite signs) plus random.',
    'note': 'Input-quantified: exploration. Result type of same-type pairings is not constrained (the statement speaks of mixed-type '
            'operations; integer op integer is C18). Trusted: TLC, JSON plumbing, console-message parsing on the text path.',
}
UNIT_LIT = {('i', 0): '0', ('s', 0): '0!', ('d', 0): '0#', ('i', 1): '1', ('s', 1): '1!', ('d', 1): '1#'}
OPSYM = {'add': '+', 'sub': '-', 'mul': '*', 'div': '/'}


def run(ctx):
    ctx.cov['rule'] = ('recorded identity instances of the real interpreter judged by TLC with MBF.tla predicates; distinct = '
                       'distinct (identity, operand types and bytes, route) tuples; non-trivial = all')
    quick = ctx.quick()
    rng = ctx.rng
    # development knob only (smoke-testing the thorough code paths quickly); evidence records it when used
    scale = float(os.environ.get('VF_MBF_SCALE', '1'))
    if scale != 1:
        ctx.cov['volume_scale'] = scale
    ctx.model_check('MBF_MC', 'MBF_MC_quick.cfg' if quick else 'MBF_MC.cfg', require_actions=False, workers=4)
    t0 = time.time()
    d = Drv()
    bv = d.bv
    fns = {'add': bv.add, 'sub': bv.sub, 'mul': bv.mul, 'div': bv.div}

    def on_reject(clause, e):
        tx, ty = e['tx'], e['ty']
        wt = ty if ty in 'isd' and 'isd'.index(ty) > 'isd'.index(tx) else tx
        res = e.get('b', e.get('b1'))
        key = {'clause': clause, 'id': e['id'], 'op': e['op'], 'tx': tx, 'ty': ty, 'wt': wt,
               'xexp': e['x'][-1] if tx != 'i' else -1, 'yexp': e['y'][-1] if ty in 'sd' else -1,
               'k': e.get('k', e.get('k1')), 'result_is_zero': bool(res) and len(res) > 2 and res[-1] == 0,
               'via': e['via']}
        ctx.reject('C05 %s: %s %s x=%s%s y=%s%s -> %s' % (
            clause, e['id'], e['op'], tx, e['x'], ty, e['y'],
            [e.get(f) for f in ('k', 't', 'b', 'c', 'k1', 't1', 'b1', 'c1', 'k2', 't2', 'b2', 'c2', 'detail') if f in e]),
            key=key, data=e)

    pipe = Pipeline(ctx, 'C05_Trace', on_reject, lambda e: [e['id'], e['op'], e['x'], e['y'], e['via']],
                    parallel=2 if quick else 4)
    events = Sink(ctx, pipe, lambda e: e['id'] + ':' + e['op'], ['comm:mul', 'ident:mul1', 'promo:add', 'ident:sgn', 'ident:subself'], drv=d)
    ptext = 0.05 if quick else 0.03
    unit = {}
    for (t, n), lit in UNIT_LIT.items():
        o = d.evalv(lit)            # the literal as the interpreter itself encodes it
        unit[(t, n)] = (o['t'], o['b'])

    def outcome(prefix, o, e):
        e['k' + prefix], e['t' + prefix], e['b' + prefix], e['c' + prefix] = o['k'], o['t'], o['b'], o['c']
        if 'detail' in o:
            e.setdefault('detail', o['detail'])

    def binop(op, x, y, text, xtext=None, ytext=None):
        if text:
            return d.evalv('%s%s%s' % (xtext or d.operand_text('A', x), OPSYM[op], ytext or d.operand_text('B', y)))
        return d.call(fns[op], d.val(x), d.val(y))

    def ident_unary(x, text):
        tx = typ(x)
        xt = None
        for op in ('neg', 'negneg', 'abs', 'sgn'):
            if text:
                xt = xt or d.operand_text('A', x)
                o = d.evalv({'neg': '-%s', 'negneg': '-(-%s)', 'abs': 'ABS(%s)', 'sgn': 'SGN(%s)'}[op] % xt)
            elif op == 'neg':
                o = d.call(bv.neg, d.val(x))
            elif op == 'negneg':
                o = d.call(lambda v: bv.neg(bv.neg(v)), d.val(x))
            elif op == 'abs':
                o = d.call(bv.abs_, [d.val(x)])
            else:
                o = d.call(bv.sgn_, [d.val(x)])
            e = {'id': 'ident', 'op': op, 'tx': tx, 'x': x, 'ty': '-', 'y': [], 'via': 'text' if text else 'direct'}
            outcome('', o, e)
            events.append(e)

    def ident_binary(x, uts, text):
        tx = typ(x)
        for ut in uts:
            for op in ('add0', '0add', 'mul1', '1mul', 'div1'):
                n = 0 if op in ('add0', '0add') else 1
                yt, y = unit[(ut, n)]
                lit = UNIT_LIT[(ut, n)] if text and rng.random() < 0.5 else None
                base = {'add0': 'add', '0add': 'add', 'mul1': 'mul', '1mul': 'mul', 'div1': 'div'}[op]
                if op in ('0add', '1mul'):
                    o = binop(base, y, x, text, xtext=lit)
                else:
                    o = binop(base, x, y, text, ytext=lit)
                e = {'id': 'ident', 'op': op, 'tx': tx, 'x': x, 'ty': yt, 'y': y, 'via': 'text' if text else 'direct'}
                outcome('', o, e)
                events.append(e)
        if text:
            xt = d.operand_text('A', x)
            o = d.evalv('%s-%s' % (xt, xt))
        else:
            o = d.call(bv.sub, d.val(x), d.val(x))
        e = {'id': 'ident', 'op': 'subself', 'tx': tx, 'x': x, 'ty': tx, 'y': x, 'via': 'text' if text else 'direct'}
        outcome('', o, e)
        events.append(e)

    # ---- all 65536 integers: unary identities; unit identities on a stride -----
    for v in range(-32768, 32768):
        x = int_bytes(v)
        text = (v % 97 == 0) if quick else (v % 31 == 0)
        ident_unary(x, text)
        if v % (7 if quick else 1) == 0 or abs(v) > 32760 or abs(v) < 20:
            ident_binary(x, [rng.choice('isd')] if quick else ['i', 's', 'd'], text)

    # ---- float operands ----------------------------------------------------------
    nflt = max(10, int(ctx.pick(5000, 150000) * scale))
    for t in ('s', 'd'):
        for i in range(nflt):
            x = rand_float(rng, t)
            text = rng.random() < ptext
            ident_unary(x, text)
            ident_binary(x, [t, rng.choice('isd')] if quick else ['i', 's', 'd'], text)
        # every exponent byte with a few mantissas (sweeps the underflow/overflow ends of x*1, x/1, x+0)
        for eb in range(0, 256):
            for mant in (([0, 0, 0], [255, 255, 127]) if quick else ([0, 0, 0], [255, 255, 127], [1, 0, 0])):
                for sign in (0, 128):
                    m = list(mant) if t == 's' else [mant[0]] * 5 + list(mant[1:])
                    m[-1] |= sign
                    x = m + [eb]
                    ident_binary(x, ['i', 's', 'd'], False)
                    ident_unary(x, False)

    # ---- commutativity and promotion over all type pairings ------------------------
    def pair(tx, ty):
        x = rand_value(rng, tx)
        r = rng.random()
        if r < 0.45 or ty == 'i':
            y = rand_value(rng, ty)
            if ty != 'i' and tx != 'i' and rng.random() < 0.6 and x[-1]:
                # exponent close to x's: additions with real alignment work, products near the range ends
                y[-1] = max(0, min(255, x[-1] + rng.randint(-30, 30))) if rng.random() < 0.7 else max(0, min(255, 257 - x[-1] + rng.randint(-3, 3)))
            return x, y
        if tx == ty:
            if r < 0.6:
                return x, (neighbour(x, rng.choice([1, -1, 2, -2])) or x)
            if r < 0.75:
                return x, negated(x)
            if r < 0.85:
                return x, negated(neighbour(x, rng.choice([1, -1])) or x)
            return x, list(x)
        # mixed float types: same leading bytes (the single's value embedded in the double), maybe perturbed
        if tx == 'i':
            v = x[0] | x[1] << 8
            v = v - 65536 if v >= 32768 else v
            y = flt_of_int(ty, v if rng.random() < 0.6 else -v)
            if rng.random() < 0.3:
                y = neighbour(y, rng.choice([1, -1])) or y
            return x, y
        if tx == 's':
            y = [rng.choice([0, 0, 1, 255, 128])] * 4 + list(x)
        else:
            y = list(x[4:])
        if rng.random() < 0.3:
            y = negated(y)
        return x, y

    ncomm = max(10, int(ctx.pick(4000, 100000) * scale))
    for tx in 'isd':
        for ty in 'isd':
            for _ in range(ncomm):
                x, y = pair(tx, ty)
                text = rng.random() < ptext
                for op in ('add', 'mul'):
                    e = {'id': 'comm', 'op': op, 'tx': tx, 'x': x, 'ty': ty, 'y': y, 'via': 'text' if text else 'direct'}
                    outcome('1', binop(op, x, y, text), e)
                    outcome('2', binop(op, y, x, text), e)
                    events.append(e)
                if tx != ty:
                    w = tx if 'isd'.index(tx) > 'isd'.index(ty) else ty
                    conv = bv.to_double if w == 'd' else bv.to_single
                    ox, oy = d.call(conv, d.val(x)), d.call(conv, d.val(y))
                    if ox['k'] != 'val' or oy['k'] != 'val':
                        continue
                    op = rng.choice(['add', 'sub', 'mul', 'div'])
                    e = {'id': 'promo', 'op': op, 'tx': tx, 'x': x, 'ty': ty, 'y': y, 'xw': ox['b'], 'yw': oy['b'],
                         'via': 'text' if text else 'direct'}
                    outcome('1', binop(op, x, y, text), e)
                    outcome('2', binop(op, ox['b'], oy['b'], text), e)
                    events.append(e)
    d.close()
    ctx.cov['impl_wall_s'] = round(time.time() - t0, 1)
    pipe.finish()
    ctx.cov['calls_direct'] = d.ndirect
    ctx.cov['calls_via_basic_text'] = d.ntext
    ctx.cov['events_by_identity'] = pipe.by
    ctx.assumptions += ['TLC evaluates MBF.tla correctly (self-checked against native arithmetic on the reduced format by MBF_MC)',
                        'direct calls run with the floating-point error handler in raising mode (as under ON ERROR GOTO); on the '
                        'BASIC-text path errors are read from the console message']
