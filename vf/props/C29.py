"""C29 — cassette images. Spec Cassette.tla; model Cassette_MC*.cfg; trace spec Cassette_Trace."""
import os, re, json, random, shutil, tempfile
from ..session import Sess
from .. import core

LEVEL = 'model_checking'
META = {
    'technique': 'TLC exhaustive model check of Cassette.tla (record framing vs reference tape) + replay of every tape session of the model '
                 'on real CAS and WAV images reopened between writing and reading + TLC trace validation of random tape sessions',
    'text': 'Cassette.tla: reference layer = tape as a sequence of files, reading by name gives the file\'s type and exactly its own bytes and leaves '
            'the tape at the next file; record layer = header / 255-byte data records with count byte / multi-block records written by '
            'OpenWrite, Write, Flush, Close and read by Search, ReadFile. TLC checks RoundTrip (every file read back from every earlier tape position), '
            'independence from write splitting and record well-formedness for all sessions of 1..3 files with lengths in '
            '{0,1,253,254,255,256,509,510,511}; every such session is emitted and replayed as data files on a real CAS image (WAV: all 1-2 file sessions '
            'in the thorough tier, a sample in quick); random sessions mix data files, ASCII / tokenised / protected programs and BSAVE images with '
            'boundary-dense lengths on both formats. Contents are pseudo-random printable bytes per file; the read-back bytes are projected to runs '
            '<<file id, offset, n>> and judged by Cassette_Trace.tla (found, type, own bytes only, skipped files, next file found).',
    'note': 'Trusted: TLC; the projection of read-back bytes to runs (longest match against the bytes written on this tape, at least 6 bytes per run). '
            'Names are 1..8 characters (longer names are truncated on the tape and then not found by their full name); contents avoid CR, LF, NUL, ^Z '
            '(text files are read with LINE INPUT#; BLOAD drops a final ^Z); files are read in tape order after the reopen (a search that '
            'runs off the end of the tape is not part of the statement); WAV images use the writer\'s own 22050 Hz 8-bit format.',
}
META['text'] += ' The reference read carries the type filter of the reading statement and the nameless form (next file of a wanted type); mixed-kind tapes are read back with nameless OPEN / LOAD / BLOAD.'

MCLENS = [0, 1, 253, 254, 255, 256, 509, 510, 511]
# file types the reading statement of each kind accepts (OPEN FOR INPUT / LOAD / BLOAD)
WANT = {'D': ['D'], 'A': ['A', 'B', 'P'], 'B': ['A', 'B', 'P'], 'P': ['A', 'B', 'P'], 'M': ['M']}
_FOUND = re.compile(br'^(.{8})\.(.) (Found|Skipped)\.\s*$')


def content(fid, n, salt):
    """Position-dependent printable bytes, different for every file."""
    r = random.Random(fid * 1000003 + salt)
    return bytes(r.randrange(33, 127) for _ in range(n))


def runs(got, refs, prefer=None):
    """Project read-back bytes to maximal runs [id, off, n] of the contents written on this tape (id -1: none of them).
    Ambiguous matches (equally long) are resolved towards the file `prefer` (the one asked for), then the lowest offset."""
    out = []
    p = 0
    MIN = 6
    while p < len(got):
        best = None
        for fid, ref in refs.items():
            window = got[p:p + MIN]
            start = 0
            while True:
                o = ref.find(window, start)
                if o < 0:
                    break
                if len(window) == MIN or o + len(window) == len(ref) or p + len(window) == len(got):
                    n = 0
                    while p + n < len(got) and o + n < len(ref) and got[p + n] == ref[o + n]:
                        n += 1
                    # prefer the continuation of the previous run, then the longest match
                    cont = bool(out) and out[-1][0] == fid and out[-1][1] + out[-1][2] == o
                    cand = (cont, n, fid == prefer, -o, fid, o)
                    if n >= min(MIN, len(got) - p) and (best is None or cand > best):
                        best = cand
                start = o + 1
        if best:
            _, n, _, _, fid, o = best
            out.append([fid, o, n])
            p += n
        else:
            if out and out[-1][0] == -1:
                out[-1][2] += 1
            else:
                out.append([-1, 0, 1])
            p += 1
    return out


class Tape(object):
    """One tape image driven through real Sessions."""

    def __init__(self, ctx, fmt, events):
        self.ctx = ctx
        self.rng = ctx.rng
        self.fmt = fmt
        self.dir = tempfile.mkdtemp(prefix='tape_', dir=ctx.tmp)
        self.image = os.path.join(self.dir, 'tape.' + fmt)
        self.spec = ('CAS:' if fmt == 'cas' else 'WAV:') + self.image
        self.mnt = os.path.join(self.dir, 'c')
        os.makedirs(self.mnt)
        self.events = events
        self.refs = {}
        self.s = None
        self.nm = 0
        events.append({'op': 'newtape', 'fmt': fmt})
        self.attach()

    def attach(self):
        if self.s:
            self.s.close()
        self.s = Sess(mount=self.mnt, peek_values={}, devices={b'C': self.mnt, b'CAS1:': self.spec})

    def reopen(self):
        self.attach()
        self.nm = 0
        self.events.append({'op': 'reopen'})

    def close(self):
        if self.s:
            self.s.close()
        shutil.rmtree(self.dir, ignore_errors=True)

    def _all_ok(self, stmts):
        bad = None
        for st in stmts:
            r = self.s.ex(st)
            if r[0] != 'ok' and bad is None:
                bad = (st, r[0], r[1])
        return bad

    def _program(self, data):
        """Enter a program whose REM lines carry `data`; returns its ASCII listing as saved to disk (the reference content)."""
        bad = self._all_ok(['NEW'])
        ln = 10
        p = 0
        first = True
        while first or p < len(data):
            first = False
            chunk = data[p:p + 200]
            p += 200
            r = self.s.ex('%d REM %s' % (ln, chunk.decode('latin-1')))
            if r[0] != 'ok' and bad is None:
                bad = ('line', r[0], r[1])
            ln += 10
        return bad

    def write(self, fid, name, kind, n, chunking, salt):
        """Write file `fid`; n is the number of content bytes (data/memory image) or of REM payload bytes (programs)."""
        e = {'op': 'write', 'name': name, 'type': kind, 'id': fid, 'chunks': chunking}
        data = content(fid, n, salt)
        bad = None
        if kind == 'D':
            bad = self._all_ok(['OPEN "CAS1:%s" FOR OUTPUT AS 1' % name])
            p = 0
            for c in chunking:
                self.s.s.set_variable('A$', data[p:p + c])
                p += c
                bad = bad or self._all_ok(['PRINT#1,A$;'])
            bad = bad or self._all_ok(['CLOSE 1'])
            ref = data
        elif kind in ('A', 'B', 'P'):
            bad = self._program(data)
            bad = bad or self._all_ok(['SAVE "C:REF%d",A' % fid])
            with open(os.path.join(self.mnt, 'REF%d.BAS' % fid), 'rb') as f:
                ref = f.read()
            bad = bad or self._all_ok(['SAVE "CAS1:%s"%s' % (name, {'A': ',A', 'B': '', 'P': ',P'}[kind])])
        else:
            off = 1400 * self.nm
            self.s.s.set_variable('A$', b'')
            stmts = ['DEF SEG=&HB900']
            for p in range(0, n, 200):
                self.s.s.set_variable('A$', data[p:p + 200])
                stmts = ['DEF SEG=&HB900', 'FOR I%%=1 TO LEN(A$):POKE %d+I%%-1,ASC(MID$(A$,I%%,1)):NEXT' % (off + p)]
                bad = bad or self._all_ok(stmts)
            bad = bad or self._all_ok(['DEF SEG=&HB900', 'BSAVE "CAS1:%s",%d,%d' % (name, off, n)])
            self.nm += 1
            ref = data
        self.refs[fid] = ref
        e['len'] = len(ref)
        e['ok'] = bad is None
        e['err'] = repr(bad)
        self.events.append(e)
        return e

    def read(self, name, kind, nbytes, fid=None):
        """Open `name` ('' = the nameless form: next file of a wanted type) for reading with the statement of its kind, read to
        the end; record messages and content runs."""
        e = {'op': 'read', 'name': name, 'kind': kind, 'found': False, 'type': '', 'skipped': [], 'pieces': [], 'err': 0,
             'want': WANT[kind]}
        got = b''
        if kind == 'D':
            r = self.s.ex('OPEN "CAS1:%s" FOR INPUT AS 1' % name)
        elif kind == 'M':
            off = 1400 * self.nm
            self.nm += 1
            # sentinel bytes (value 1, never part of a content) behind the place the image is expected to end
            self.s.ex('DEF SEG=&HB900:FOR I%%=%d TO %d:POKE I%%,1:NEXT' % (off + nbytes, off + nbytes + 7))
            r = self.s.ex('DEF SEG=&HB900:BLOAD "CAS1:%s",%d' % (name, off))
        else:
            self.s.ex('NEW')
            r = self.s.ex('LOAD "CAS1:%s"' % name)
        out = r[2]
        for line in out.split(b'\r\n'):
            m = _FOUND.match(line)
            if m:
                nm = m.group(1).rstrip().decode('latin-1')
                if m.group(3) == b'Found':
                    e['found'] = True
                    e['type'] = m.group(2).decode('latin-1')
                else:
                    e['skipped'].append(nm)
        if r[0] != 'ok':
            e['err'] = r[1] if r[0] == 'err' else -1
            e['kind_out'] = r[0]
            e['msg'] = repr(r[1])
            if r[0] != 'err':
                e['internal'] = True
            e['found'] = False if r[0] == 'err' and r[1] == 24 else e['found']
        if r[0] == 'ok':
            if kind == 'D' and nbytes > 0 and self.rng.random() < 0.4:
                # read with INPUT$(k,#1) in chunks that do not divide the 255-byte tape record: a read that crosses a record
                # boundary must deliver the bytes of both records and lose none (round-3 seeded change C29c)
                k = self.rng.choice([2, 17, 85, 100, 100, 128, 200, 254, 255])
                e['chunk'] = k
                left = nbytes
                while left > 0:
                    q = self.s.ex('L$=INPUT$(%d,#1)' % min(k, left))
                    if q[0] != 'ok':
                        e['readerr'] = q[1] if q[0] == 'err' else -1
                        e['internal'] = q[0] == 'internal'
                        break
                    got += bytes(self.s.s.get_variable('L$'))
                    left -= min(k, left)
                self.s.ex('CLOSE 1')
            elif kind == 'D':
                for _ in range(400):
                    q = self.s.ev('EOF(1)')
                    if q[0] != 'ok':
                        e['internal'] = q[0] == 'internal'
                        e['msg'] = repr(q[1])
                        break
                    if q[1] != 0:
                        break
                    q = self.s.ex('LINE INPUT#1,L$')
                    if q[0] != 'ok':
                        e['readerr'] = q[1] if q[0] == 'err' else -1
                        e['internal'] = q[0] == 'internal'
                        break
                    got += bytes(self.s.s.get_variable('L$'))
                self.s.ex('CLOSE 1')
            elif kind == 'M':
                off = 1400 * (self.nm - 1)
                vals = [self.s.ev('PEEK(%d)' % (off + i)) for i in range(nbytes + 8)]
                got = bytes(v[1] if v[0] == 'ok' else 0 for v in vals)
                got = got.rstrip(b'\x01')
            else:
                q = self.s.ex('SAVE "C:CHK",A')
                if q[0] == 'ok':
                    with open(os.path.join(self.mnt, 'CHK.BAS'), 'rb') as f:
                        got = f.read()
                    os.remove(os.path.join(self.mnt, 'CHK.BAS'))
                else:
                    e['readerr'] = q[1] if q[0] == 'err' else -1
        e['nread'] = len(got)
        e['pieces'] = runs(got, self.refs, fid)
        e['tail'] = list(got[-12:])
        self.events.append(e)
        return e


def chunks_for(rng, n, mode):
    if n == 0:
        return []
    if mode == 'one' or n <= 255 and rng.random() < 0.5:
        cs, left = [], n
        while left:
            c = min(255, left)
            cs.append(c)
            left -= c
        return cs
    cs, left = [], n
    while left:
        c = min(left, rng.choice([1, 2, 100, 127, 128, 200, 254, 255]))
        cs.append(c)
        left -= c
    return cs


def session(ctx, fmt, files, events, rng, read_plan=None, nameless=0):
    """files: list of (name, kind, n). Writes them, reopens the image, reads them back in tape order (read_plan: indices)."""
    t = Tape(ctx, fmt, events)
    try:
        salt = rng.randrange(1 << 30)
        written = []
        for i, (name, kind, n) in enumerate(files):
            e = t.write(i + 1, name, kind, n, chunks_for(rng, n, rng.choice(['one', 'split'])) if kind == 'D' else [], salt)
            written.append(e)
        t.reopen()
        plan = read_plan if read_plan is not None else range(len(files))
        pos = 0
        for i in plan:
            name, kind, n = files[i]
            # the nameless form (next file of a wanted type) when this file is the first such file ahead on the tape
            first = next((j for j in range(pos, len(files)) if files[j][1] in WANT[kind]), None)
            if nameless and first == i and rng.random() < nameless:
                name = ''
            t.read(name, kind, written[i]['len'], i + 1)
            pos = i + 1
    finally:
        t.close()


def run(ctx):
    ctx.cov['rule'] = ('events = whole files written to / read back from a real tape image through BASIC statements; distinct by '
                       '(format, kind, length, position on tape, lengths of the files before it); non-trivial = reads')
    # 1. design: exhaustive model check of the record layer against the reference layer
    ctx.model_check('Cassette_MC', ctx.pick('Cassette_MC.cfg', 'Cassette_MC_big.cfg'), workers=4, require_actions=False)
    # the writer as coded before the repair must be refuted by TLC (selftest of the model)
    r = ctx.tlc('Cassette_MC', 'Cassette_MC_ascoded.cfg', workers=2, expect_fail=True, tag='ascoded-selftest')
    if r['ok'] or 'RoundTripInv' not in (r['error'] or ''):
        raise core.MachineryError('the AsCoded writer was not refuted by TLC: %s' % r['error'])
    # 2. spec -> code: every session of the data-file model
    r = ctx.tlc('Cassette_MC', 'Cassette_MC_emit.cfg', workers=1, tag='emit')
    if not r['ok']:
        raise core.MachineryError('emit run failed: %s\n%s' % (r['error'], r['out'][-2000:]))
    sessions = []
    for line in r['out'].splitlines():
        m = re.match(r'^<<"SESSION", "(.*)">>\s*$', line)
        if m:
            sessions.append(json.loads(m.group(1).encode().decode('unicode_escape')))
    nmodel = len(sessions)
    if nmodel != 9 + 81 + 729:
        raise core.MachineryError('expected 819 model sessions, got %d' % nmodel)
    rng = ctx.rng
    events = []
    marks = []          # (event index of the newtape event, description)

    def play(fmt, files, plan=None, nameless=0):
        marks.append((len(events), fmt, files))
        session(ctx, fmt, files, events, rng, plan, nameless)

    def model_files(sn):
        return [('F%d' % f['id'], 'D', f['len']) for f in sn['files']]

    short = [sn for sn in sessions if len(sn['files']) <= 2]
    three = [sn for sn in sessions if len(sn['files']) == 3]
    if ctx.quick():
        cas = short + rng.sample(three, 30)
        wav = [sn for sn in sessions if len(sn['files']) == 1] + rng.sample([sn for sn in short if len(sn['files']) == 2], 6)
    else:
        cas = sessions
        wav = short + rng.sample(three, 100)
    for sn in cas:
        play('cas', model_files(sn))
    for sn in wav:
        play('wav', model_files(sn))
    ctx.cov['model_sessions'] = nmodel
    ctx.cov['model_sessions_replayed_cas'] = len(cas)
    ctx.cov['model_sessions_replayed_wav'] = len(wav)
    nreplay = len(marks)

    # 3. code -> spec: random sessions, all kinds, boundary-dense lengths, 1..4 files, random names, both formats
    alphabet = 'ABCDEFGHIJKLMNOPQRSTUVWXYZabcdefghijklmnopqrstuvwxyz0123456789_-$#'
    def rname(used):
        while True:
            nm = ''.join(rng.choice(alphabet) for _ in range(rng.randint(1, 8)))
            if rng.random() < 0.15 and len(nm) >= 3:
                nm = nm[:1] + ' ' + nm[2:]
            if nm not in used and not nm.endswith(' '):
                return nm
    def rlen(kind):
        k = rng.random()
        if k < 0.55:
            n = 255 * rng.randint(1, 4) + rng.randint(-3, 2)
        elif k < 0.7:
            n = rng.choice([0, 1, 2, 164, 165, 253, 254, 255, 256])
        else:
            n = rng.randint(0, 1100)
        return max(0, n)
    def ascii_len(n):
        # length of the ASCII listing of the REM program carrying n bytes (generator knowledge only: to aim at record boundaries)
        lines = max(1, -(-n // 200))
        return n + sum(9 + (1 if 10 * (i + 1) >= 100 else 0) for i in range(lines)) + 1
    def a_boundary(k, delta):
        # REM payload whose ASCII listing is 255*k + 2 + delta bytes long (the tape stream is then 255*k + delta bytes with its NUL)
        n = 255 * k
        while ascii_len(n) > 255 * k + 2 + delta:
            n -= 1
        return n
    # ASCII programs around the record boundary, followed by another file
    for k in (1, 2):
        for delta in (-1, 0, 1):
            play('cas', [('PROG', 'A', a_boundary(k, delta)), ('NEXT', rng.choice('DBM'), rng.randint(1, 300))])
    play('wav', [('PROG', 'A', a_boundary(1, 0)), ('NEXT', 'D', 7)])
    nrand = ctx.pick(30, 300)
    for h in range(nrand):
        fmt = 'wav' if rng.random() < ctx.pick(0.2, 0.25) else 'cas'
        nf = rng.randint(1, 4)
        used, files = [], []
        nmem = 0
        base = rng.choice(['D', 'A', 'A', 'mix', 'mix', 'mix', 'B', 'P', 'M'])
        for i in range(nf):
            kind = rng.choice('DDABPM') if base == 'mix' else base
            if kind == 'M':
                nmem += 1
                if nmem > 2:
                    kind = 'D'
            nm = rname(used)
            if rng.random() < 0.1 and used:
                nm = rng.choice(used)          # the same name twice: the first one ahead on the tape is found
            used.append(nm)
            n = rlen(kind)
            if kind == 'A' and rng.random() < 0.5:
                n = a_boundary(rng.randint(1, 4), rng.choice([-1, 0, 0, 1]))
            if kind == 'M':
                n = min(max(n, 1), 1300)
            files.append((nm, kind, n))
        # read in tape order, sometimes skipping files; a duplicated name is read once per occurrence
        plan = [i for i in range(nf) if rng.random() < 0.8] or [nf - 1]
        # skipping over a file whose name equals a later requested name would find the earlier one: drop such skips
        plan2, pos = [], 0
        for i in plan:
            first = next(j for j in range(pos, nf) if files[j][0] == files[i][0])
            if first == i:
                plan2.append(i)
                pos = i + 1
        play(fmt, files, plan2 or [0], nameless=0.35)
    ctx.cov['random_sessions'] = nrand
    # nameless reads on tapes of mixed kinds: each read asks for "the next file" with the statement of one kind class; the
    # files of other kinds ahead of it must be skipped (round-2 seeded change C29b dropped the type filter of the nameless form)
    nnl = ctx.pick(14, 160)
    for h in range(nnl):
        fmt = 'wav' if rng.random() < 0.2 else 'cas'
        nf = rng.randint(2, 4)
        used, files, nmem = [], [], 0
        for i in range(nf):
            kind = rng.choice('DDABPM')
            if kind == 'M':
                nmem += 1
                if nmem > 2:
                    kind = 'D'
            nm = rname(used)
            used.append(nm)
            n = rlen(kind)
            if kind == 'M':
                n = min(max(n, 1), 1300)
            files.append((nm, kind, n))
        plan, pos = [], 0
        while pos < nf:
            classes = set(tuple(WANT[files[j][1]]) for j in range(pos, nf))
            cl = rng.choice(sorted(classes))
            if rng.random() < 0.6:       # prefer the class whose next file lies farthest ahead: other kinds are passed over
                cl = max(sorted(classes), key=lambda c: next(j for j in range(pos, nf) if files[j][1] in c))
            i = next(j for j in range(pos, nf) if files[j][1] in cl)
            plan.append(i)
            pos = i + 1
        play(fmt, files, plan, nameless=1.0)
    ctx.cov['nameless_sessions'] = nnl

    keep = ('op', 'name', 'want', 'type', 'len', 'id', 'ok', 'found', 'skipped', 'pieces')
    verdicts = ctx.validate('Cassette_Trace', [{k: e[k] for k in keep if k in e} for e in events])
    ctx.cov['traces_validated_against_impl'] += len(marks)
    reads = [e for e in events if e['op'] == 'read']
    ctx.cov['files_read_back'] = len(reads)
    ctx.cov['nameless_reads'] = sum(1 for e in reads if e['name'] == '')
    ctx.cov['nameless_reads_skipping_other_types'] = sum(1 for e in reads if e['name'] == '' and e['skipped'])
    ctx.cov['files_by_kind'] = {k: sum(1 for e in reads if e['kind'] == k) for k in 'DABPM'}
    ctx.cov['boundary_files_read'] = sum(1 for e in events if e['op'] == 'write' and ((e['type'] == 'D' and (e['len'] + 1) % 255 == 0) or (e['type'] == 'A' and e['len'] % 255 == 2)))
    ctx.cov['boundary_ascii_programs'] = sum(1 for e in events if e['op'] == 'write' and e['type'] == 'A' and e['len'] % 255 == 2)

    def locate(i):
        j = max(k for k in range(len(marks)) if marks[k][0] <= i)
        return marks[j]
    pos = 0
    for idx, e in enumerate(events):
        if e['op'] == 'newtape':
            cur = locate(idx)
            before = []
        if e['op'] == 'write':
            before.append(e['len'])
        if e['op'] == 'read':
            ctx.count([cur[1], e['kind'], e['nread'], e['name'] and len(e['skipped']), [f[2] for f in cur[2]]], nontrivial=True)
            if e.get('internal'):
                ctx.reject('C29 internal error reading %s: %s' % (e['name'], e.get('msg')), key={'clause': 'internal'}, data=e)
        elif e['op'] == 'write':
            ctx.count([cur[1], 'w', e['type'], e['len']], nontrivial=False)
    for e in reads[:2] + reads[-2:]:
        ctx.sample({k: e[k] for k in ('name', 'kind', 'found', 'type', 'skipped', 'pieces', 'nread')})
    for (i, clause) in verdicts:
        e = events[i - 1]
        _, fmt, files = locate(i - 1)
        f = [x for x in files if x[0] == e['name']]
        wl = None
        j = i - 1
        while j >= 0 and events[j]['op'] != 'newtape':
            if events[j]['op'] == 'write' and events[j]['name'] == e['name']:
                wl = events[j]
            j -= 1
        ln = wl['len'] if wl else -1
        ctx.reject('C29 %s: %s image, tape %r, reading %r (kind %s, %d bytes written): found=%s type=%r skipped=%r err=%s read %d bytes as runs %r' % (
            clause, fmt, [(x[1], x[2]) for x in files], e['name'], e.get('kind', e.get('type')), ln, e.get('found'), e.get('type'),
            e.get('skipped'), e.get('err'), e.get('nread', 0), e.get('pieces', [])[:6]),
            key={'clause': clause, 'kind': e.get('kind', e.get('type')), 'fmt': fmt, 'len_mod_255': ln % 255 if ln >= 0 else -1},
            data={'event': e, 'tape': files, 'fmt': fmt})
    if not ctx.cov['boundary_files_read']:
        raise core.MachineryError('vacuous: no file with length = 254 mod 255 was written')
