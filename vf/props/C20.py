"""C20 — DEF FN never disturbs the caller's variables. Spec Interp.tla (EvalFn is a pure function of the machine state);
family Interp_MC_fn."""
from .. import interp_check, core

LEVEL = 'model_checking'
META = {
    'technique': 'TLA+ abstract machine Interp.tla with user functions as pure evaluation; TLC checks a declarative DEF FN family, replays it on the real interpreter, and validates statement-boundary traces '
                 '(all variables logged after every statement) of random programs that call functions whose parameters shadow live variables',
    'text': 'Interp_MC_fn declares for 8 function shapes x 4 arguments (identity on a parameter, parameter and global, two shadowing parameters with a failing integer conversion, integer-typed result that overflows, '
            'self-recursion, undefined function, nested functions, argument mentioning the shadowed variable) the value or error code AND that the shadowed variables A and K% still hold their values, both on the '
            'success path and inside the error handler. TLC checks Interp.tla against it, every program runs on the real interpreter, and random programs with 1-4 functions (0-2 parameters named like live variables, '
            'bodies calling other functions, overflowing conversions, recursion, undefined functions) are validated boundary by boundary: every variable is compared after every statement.',
    'note': 'Trusted: TLC, hook H1, the program renderer. Numeric functions/parameters only (string parameters are exercised under memory pressure by C10); wrong argument counts are outside the fragment.',
}
META['text'] += ' String parameters are covered by running a share of the string-space histories of C10 (DEF FN with string parameters under garbage collection) judged by StringSpace_Trace.tla.'
META['text'] += " Interp.tla models DEFINT/DEFSNG (a name without type sign is resolved when it is used); a family changes the type of the parameter's name between DEF FN and the call (argument converting or overflowing, parameter variable existing or not), and random programs mix DEFINT/DEFSNG statements with bare parameter names."


def run(ctx):
    ctx.cov['rule'] = ('one case = one program run on the real interpreter; evaluations = statement boundaries validated by TLC (each compares all 10 variables); distinct = distinct program texts')
    interp_check.run_model_families(ctx, ['fn', 'fndt'])
    interp_check.run_family(ctx, {'ctl', 'fn', 'err'}, ctx.pick(220, 5000), size=10,
                            focus={'simple': 45, 'for': 8, 'gosub': 6, 'err': 6, 'if': 10})
    # string parameters: Interp.tla has numeric variables only; DEF FN with string parameters (FNA$(P$), FNB$(P$,Q$), identity and
    # concatenating bodies) is part of the statement pool of the string-space histories of C10, where a garbage collection can fall
    # inside a function body. A share of those histories is run here and judged by StringSpace_Trace.tla: the caller's string
    # variables must read the reference values after every call (round-3 seeded change C20c left the caller's variable detached
    # after a collection inside the body).
    from . import C10
    C10.code_to_spec(ctx, nhist=ctx.pick(24, 120))
