"""C24 - sequential files. Spec SeqFile.tla; models SeqFile_MC*.cfg; trace spec SeqFile_Trace."""
import os, json, bisect, collections
from ..session import Sess
from .. import graph, core

LEVEL = 'model_checking'
META = {
    'technique': 'TLC exhaustive model check of SeqFile.tla (reference item FIFO + byte-level INPUT#/LINE INPUT# scanning rules) '
                 '+ replay of every transition of a bounded model into the real interpreter + TLC trace validation of random '
                 'WRITE#/PRINT#/INPUT#/LINE INPUT#/EOF/LOF/APPEND histories incl. host file bytes',
    'text': 'SeqFile.tla: a file is the sequence of lines written (WRITE # item lists, PRINT # lines); INPUT # pops items, LINE INPUT # '
            'pops lines, EOF is true exactly when nothing is left, LOF is the byte count of the written text, OUTPUT starts empty, '
            'APPEND extends. TLC checks on every reachable state of the bounded model (alphabet: empty string, leading/trailing blanks, '
            'commas, CR inside quotes, maximal-length strings and lines, numbers; <= 3/4 items per file; write, append and read sessions) '
            'the invariants ReadsInOrder, EofExact, LofIsBytes, AppendExtends and FormatRoundTrips (the written text scanned by the '
            'manual\'s INPUT#/LINE INPUT# rules yields the same items and end-of-file exactly after the last), and must find the '
            '255-character desynchronisation when the scanner stops at the length limit like the pinned code (AsCoded). Every transition '
            'of a bounded model is replayed on a real Session; these and random histories (all legal bytes, lengths 0..255, numbers of '
            'all types, two file numbers, several sessions with APPEND, soft_linefeed on/off) are validated event by event by '
            'SeqFile_Trace.tla on: values read back (numbers via MKI$/MKS$/MKD$ bytes against VAL of the written representation), '
            'EOF, LOF, error codes, host file bytes after CLOSE.',
    'note': 'Trusted: TLC, JSON plumbing, Session.get_variable/set_variable for moving byte strings, the interpreter\'s own VAL as the '
            'value of a written representation (decimal conversion is C07\'s subject), WRITE to the screen as the channel that reveals '
            'the written representation of a number (verified against the host bytes at CLOSE). Not covered: textfile_encoding, '
            'PRINT # with ; or , or several expressions, reading past the end, type-mismatched reads, pre-existing host files, WIDTH. '
            'Open findings: strings/lines of exactly 255 characters desynchronise the following reads; strings containing LF read back '
            'with CR under the default newline replacement; with soft_linefeed=True a string starting with CR LF loses the LF.',
}
META['text'] += ' Random histories attempt a second OPEN FOR OUTPUT/APPEND of the file the other number holds: it is refused and must change nothing (LOF, EOF, host bytes).'

NF = 2
NAMES = ['A', 'B']
KEEP = ('op', 'n', 'name', 'mode', 'items', 's', 'k', 'vars', 'got', 'ok', 'code', 'reset', 'obs')
MK = {'%': 'MKI$', '!': 'MKS$', '#': 'MKD$'}


class Driver(object):
    def __init__(self, ctx):
        self.ctx = ctx
        self.s = None
        self.events = []
        self.starts = []
        self.soft = []          # soft_linefeed of each history
        self.nhist = 0
        self.reprs = {}         # literal -> written representation (observed from WRITE to the screen)

    def fresh(self, soft=False):
        if self.s:
            self.s.close()
        self.s = Sess(soft_linefeed=soft)
        self.reset = True
        self.open = {}          # n -> (name, mode)
        self.content = {nm: [] for nm in NAMES}     # what the driver wrote (generator knowledge): list of lines
        self.pos = {}           # n -> [line index, item index] of the driver's reading plan
        self.starts.append(len(self.events))
        self.soft.append(soft)
        self.nhist += 1

    def host(self, name):
        p = os.path.join(self.s.mount, name)
        if not os.path.exists(p):
            return []
        with open(p, 'rb') as f:
            return list(f.read())

    def written_repr(self, lit):
        """The representation WRITE gives a numeric literal (same statement, screen instead of file)."""
        if lit not in self.reprs:
            r = self.s.ex('WRITE ' + lit)
            if r[0] != 'ok' or not r[2].endswith(b'\r\n'):
                raise core.MachineryError('cannot obtain written representation of %s: %r' % (lit, r))
            self.reprs[lit] = list(r[2][:-2])
        return self.reprs[lit]

    def observe(self, hostnames):
        fs = []
        files = self.s.impl.files.files
        for k in range(1, NF + 1):
            if k not in files or k not in self.open:
                fs.append({'open': k in files})
                continue
            o = {'open': True}
            r = self.s.ev('LOF(%d)' % k)
            o['lof'] = int(r[1]) if r[0] == 'ok' else -1
            if self.open[k][1] == 'I':
                r = self.s.ev('EOF(%d)' % k)
                o['eof'] = bool(r[1]) if r[0] == 'ok' else 'error'
            fs.append(o)
        return {'f': fs, 'host': [[nm, self.host(nm)] for nm in hostnames]}

    def do(self, a):
        """a: spec-shaped action; numbers in WRITE are given as {'k':'n','lit':..,'t':..}."""
        op, n = a['op'], a['n']
        e = {'op': op, 'n': n}
        hostnames = []
        post = None
        if op == 'open':
            word = {'O': 'OUTPUT', 'A': 'APPEND', 'I': 'INPUT'}[a['mode']]
            if a.get('form', 0) == 1:
                st = 'OPEN "%s",#%d,"%s"' % (a['mode'], n, a['name'])
            else:
                st = 'OPEN "%s" FOR %s AS %d' % (a['name'], word, n)
            e.update(name=a['name'], mode=a['mode'])
            if a.get('busy'):
                # an OPEN FOR OUTPUT/APPEND of a file that is open under the other number: it is refused and must change nothing;
                # the host file is looked at only when its holder is reading (a writer's stream need not be flushed)
                hostnames = [a['name']] if a['busy'] == 'I' else []
            elif a['mode'] in ('I', 'A'):
                # nobody is writing the file: the host file is stable and LOF can be compared with its size
                hostnames = [a['name']]
        elif op == 'close':
            st = 'CLOSE %d' % n
            if n in self.open:
                hostnames = [self.open[n][0]]
        elif op == 'write':
            parts, items = [], []
            for j, it in enumerate(a['items']):
                if it['k'] == 's':
                    self.s.s.set_variable('S%d$' % (j + 1), bytes(it['b']))
                    parts.append('S%d$' % (j + 1))
                    items.append({'k': 's', 'b': list(it['b'])})
                else:
                    parts.append(it['lit'])
                    items.append({'k': 'n', 'r': self.written_repr(it['lit'])})
            st = 'WRITE #%d, %s' % (n, ', '.join(parts))
            e['items'] = items
            typed = [dict(x, t=it.get('t', '!')) if x['k'] == 'n' else x for x, it in zip(items, a['items'])]
        elif op == 'print':
            self.s.s.set_variable('S1$', bytes(a['s']))
            st = 'PRINT #%d, S1$' % n
            e['s'] = list(a['s'])
        elif op == 'input':
            # a['types']: '$', '%', '!', '#' per variable; a['reprs']: the representation the driver expects for numbers
            names = ['V%d%s' % (j + 1, t) for j, t in enumerate(a['types'])]
            st = 'INPUT #%d, %s' % (n, ', '.join(names))
            e['k'] = len(names)
            post = ('input', names, a['types'], a.get('reprs'))
        else:
            st = 'LINE INPUT #%d, V1$' % n
            post = ('lineinput',)
        if post:
            # make sure stale values cannot be mistaken for values read
            for j in range(4):
                self.s.s.set_variable('V%d$' % (j + 1), b'\xee')
        r = self.s.ex(st)
        ok = r[0] == 'ok'
        if post and post[0] == 'input':
            vs = []
            for j, (nm, t) in enumerate(zip(post[1], post[2])):
                if t == '$':
                    vs.append({'t': 's', 'got': list(self.s.s.get_variable(nm))})
                else:
                    rep = post[3][j]
                    g = self.s.ev('%s(%s)' % (MK[t], nm))
                    self.s.s.set_variable('R$', bytes(rep))
                    w = self.s.ev('%s(VAL(R$))' % MK[t])
                    vs.append({'t': 'n', 'got': list(g[1]) if g[0] == 'ok' else [], 'r': list(rep),
                               'want': list(w[1]) if w[0] == 'ok' else [-1]})
            e['vars'] = vs
        elif post:
            e['got'] = list(self.s.s.get_variable('V1$'))
        if ok:
            if op == 'open':
                self.open[n] = (a['name'], a['mode'])
                self.pos[n] = [0, 0]
                if a['mode'] == 'O':
                    self.content[a['name']] = []
            elif op == 'close':
                self.open.pop(n, None)
            elif op == 'write':
                self.content[self.open[n][0]].append(('w', typed))
            elif op == 'print':
                self.content[self.open[n][0]].append(('p', e['s']))
        e.update({'stmt': st, 'ok': ok, 'code': r[1] if r[0] == 'err' else 0, 'kind': r[0], 'reset': self.reset,
                  'obs': self.observe(hostnames), '_a': a})
        self.reset = False
        self.events.append(e)
        return e

    # ---- reading plans (generator knowledge: what this driver wrote) ----
    def remaining(self, n):
        """Kinds of what is left to read for file number n: list of ('w', [items]) / ('p', s) from the plan position."""
        nm = self.open[n][0]
        li, ii = self.pos[n]
        return self.content[nm], li, ii

    def read_some(self, n, rng, kmax=3):
        """Issue one INPUT # / LINE INPUT # matching what comes next; returns False when nothing is left."""
        lines, li, ii = self.remaining(n)
        if li >= len(lines):
            return False
        kind, body = lines[li]
        if kind == 'p':
            self.do({'op': 'lineinput', 'n': n})
            self.pos[n] = [li + 1, 0]
            return True
        k = rng.randint(1, kmax) if kmax > 1 else 1
        types, reprs = [], []
        while k and li < len(lines) and lines[li][0] == 'w':
            it = lines[li][1][ii]
            if it['k'] == 's':
                types.append('$'); reprs.append(None)
            else:
                types.append(it.get('t', '!')); reprs.append(it['r'])
            ii += 1
            k -= 1
            if ii >= len(lines[li][1]):
                li, ii = li + 1, 0
        self.do({'op': 'input', 'n': n, 'types': types, 'reprs': reprs})
        self.pos[n] = [li, ii]
        return True


# ---- generators -----------------------------------------------------------------------------------------------------
INTS = ['0', '1', '-1', '7', '255', '-255', '32767', '-32768', '100', '-12345']
SINGLES = ['1.5', '-2.5', '.1', '1E-38', '1.701411E+38', '-1.701411E+38', '1234567', '1E+10', '16777216', '.3333333', '32768',
           '-32769', '1E+7', '9999999', '.0000001', '2.5E-5', '1.5E+38', '100000', '.5', '-.001']
DOUBLES = ['1D+20', '.1#', '123456789#', '1.23456789012345D-30', '1.70141183460469D+38', '-2.5#', '3.141592653589793#',
           '1D-38', '65536#', '.3333333333333333#', '9999999999999999#', '1D+16', '-1.000000000000001#']


def rand_number(rng):
    c = rng.random()
    if c < 0.35:
        lit = rng.choice(INTS) if rng.random() < 0.6 else str(rng.randint(-32768, 32767))
        return {'k': 'n', 'lit': lit, 't': '%'}
    if c < 0.75:
        if rng.random() < 0.6:
            lit = rng.choice(SINGLES)
        else:
            lit = '%s%d.%dE%+d' % (rng.choice(['', '-']), rng.randint(1, 9), rng.randint(0, 99999), rng.randint(-37, 37))
        return {'k': 'n', 'lit': lit, 't': '!'}
    if rng.random() < 0.6:
        lit = rng.choice(DOUBLES)
    else:
        lit = '%s%d.%dD%+d' % (rng.choice(['', '-']), rng.randint(1, 9), rng.randint(0, 10 ** 14), rng.randint(-37, 37))
    return {'k': 'n', 'lit': lit, 't': '#'}


def rand_bytes(rng, n, excl):
    alpha = [b for b in range(256) if b not in excl]
    c = rng.random()
    if c < 0.35:
        pool = [32, 44, 13, 9, 65, 97, 48, 59, 58, 39, 255, 1, 127, 11, 12, 27]       # separators and oddities
        pool = [b for b in pool if b not in excl]
        return [rng.choice(pool) for _ in range(n)]
    if c < 0.6:
        return [rng.choice(b'abcdefghij XYZ,.;0123456789-+E') for _ in range(n)]
    return [rng.choice(alpha) for _ in range(n)]


def rand_len(rng, allow255):
    c = rng.random()
    if allow255 and c < 0.25:
        return 255
    if c < 0.25:
        return rng.choice([0, 0, 1, 1, 2, 3])
    if c < 0.35:
        return rng.choice([253, 254, 254, 128, 200])
    if c < 0.8:
        return rng.randint(0, 40)
    return rng.randint(0, 254)


def rand_string(rng, allow255, allow_lf):
    # legal strings of the statement: no quote, NUL, end-of-file byte.  LF only in histories of the LF class.
    excl = {34, 0, 26} | (set() if allow_lf else {10})
    n = rand_len(rng, allow255)
    b = rand_bytes(rng, n, excl)
    if allow_lf and n and rng.random() < 0.7:
        for _ in range(rng.randint(1, 2)):
            b[rng.randrange(n)] = 10
    c = rng.random()
    if n >= 2 and c < 0.15:
        b[0] = 32
    elif n >= 2 and c < 0.3:
        b[-1] = 32
    elif n >= 3 and c < 0.4:
        b[0] = b[-1] = 32
    return {'k': 's', 'b': b}


def rand_line(rng, allow255):
    excl = {13, 10, 26}
    return rand_bytes(rng, rand_len(rng, allow255), excl)


def write_session(d, n, nm, rng, allow255, allow_lf, mode):
    """Plan of one write session: list of actions."""
    plan = [{'op': 'open', 'n': n, 'name': nm, 'mode': mode, 'form': rng.randint(0, 1)}]
    for _ in range(rng.randint(0, 5)):
        if rng.random() < 0.7:
            items = [rand_string(rng, allow255, allow_lf) if rng.random() < 0.55 else rand_number(rng)
                     for _ in range(rng.choice([1, 1, 2, 2, 3, 4]))]
            plan.append({'op': 'write', 'n': n, 'items': items})
        else:
            plan.append({'op': 'print', 'n': n, 's': rand_line(rng, allow255)})
    plan.append({'op': 'close', 'n': n})
    return plan


def random_history(d, rng):
    soft = rng.random() < 0.3
    d.fresh(soft)
    cls = rng.random()
    allow255 = cls < 0.12
    allow_lf = 0.12 <= cls < 0.3
    plans = {1: [], 2: []}
    written = set()
    budget = rng.randint(20, 70)
    while budget > 0:
        n = rng.choice([1, 2])
        if n not in d.open and (3 - n) in d.open and rng.random() < 0.08:
            # a second OPEN FOR OUTPUT / APPEND of the file the other number holds: refused (File already open), nothing changes
            # (round-2 seeded change C24b opened - and truncated - the host file before the refusal)
            hn, hm = d.open[3 - n]
            e = d.do({'op': 'open', 'n': n, 'name': hn, 'mode': rng.choice('OOA'), 'form': rng.randint(0, 1), 'busy': hm})
            d.refused_opens = getattr(d, 'refused_opens', 0) + (not e['ok'])
            budget -= 1
            if e['ok']:
                break           # accepted: judged by the trace spec (open files differ from the model); the plans no longer apply
            continue
        if not plans[n] and n not in d.open:
            busy = [v[0] for v in d.open.values()] + [p[0]['name'] for k, p in plans.items() if p and p[0]['op'] == 'open']
            free = [nm for nm in NAMES if nm not in busy]
            if not free:
                n = 3 - n
                if not plans[n] and n not in d.open:
                    break
            else:
                nm = rng.choice(free)
                if nm in written and rng.random() < 0.55:
                    plans[n] = [{'op': 'open', 'n': n, 'name': nm, 'mode': 'I', 'form': rng.randint(0, 1)}, {'op': 'READ'}]
                else:
                    mode = 'A' if rng.random() < 0.45 else 'O'
                    plans[n] = write_session(d, n, nm, rng, allow255, allow_lf, mode)
                    written.add(nm)
        if not plans[n]:
            continue
        a = plans[n][0]
        budget -= 1
        if a['op'] == 'READ':
            stop_early = rng.random() < 0.03
            if stop_early or not d.read_some(n, rng):
                plans[n] = [{'op': 'close', 'n': n}]
            continue
        plans[n].pop(0)
        d.do(a)
    for n in sorted(d.open):
        if d.open[n][1] == 'I':
            while d.read_some(n, rng):
                pass
        d.do({'op': 'close', 'n': n})


def edge_history(d, rng, soft):
    """Scripted sessions for the input classes with open findings and their neighbours (every run, independent of the seed):
    strings / lines of 254 and 255 characters, LF inside a string, CR LF at the start of a string."""
    d.fresh(soft)
    S = lambda b: {'k': 's', 'b': list(b)}
    N = lambda lit, t: {'k': 'n', 'lit': lit, 't': t}
    cases = [
        [('w', [S(b'y' * 254), N('7', '%'), S(b'k')])],
        [('w', [S(b'z' * 255), N('7', '%'), S(b'k')])],
        [('p', b'r' * 254), ('p', b'tail')],
        [('p', b'q' * 255), ('p', b'tail')],
        [('w', [S(b'a\nb'), N('5', '%')]), ('w', [S(b' x,\ry '), N('-2.5', '!')])],
        [('w', [S(b'\r\nA'), N('1D+20', '#')])],
        [('w', [S(b'A\r\n'), S(b'x\r\ny'), N('1.5', '!')])],
    ]
    for i, lines in enumerate(cases):
        n, nm = 1 + i % 2, NAMES[i % 2]
        d.do({'op': 'open', 'n': n, 'name': nm, 'mode': 'O'})
        for kind, body in lines:
            if kind == 'w':
                d.do({'op': 'write', 'n': n, 'items': body})
            else:
                d.do({'op': 'print', 'n': n, 's': list(body)})
        d.do({'op': 'close', 'n': n})
        d.do({'op': 'open', 'n': n, 'name': nm, 'mode': 'I'})
        while d.read_some(n, rng, kmax=1 if i % 3 else 3):
            pass
        d.do({'op': 'close', 'n': n})


# ---- verdicts -------------------------------------------------------------------------------------------------------
def chunks_at_resets(d, size):
    cuts, last = [0], 0
    for s in d.starts:
        if s - last >= size:
            cuts.append(s)
            last = s
    cuts.append(len(d.events))
    return [(cuts[i], cuts[i + 1]) for i in range(len(cuts) - 1) if cuts[i] < cuts[i + 1]]


def run_validation(ctx, d):
    verdicts = []
    for (lo, hi) in chunks_at_resets(d, 12000):
        evs = [{k: e[k] for k in KEEP if k in e} for e in d.events[lo:hi]]
        verdicts += [(lo + j, c) for (j, c) in ctx.validate('SeqFile_Trace', evs)]
    return verdicts


def judge(ctx, d, verdicts):
    events = d.events
    for e in events:
        if e['kind'] not in ('ok', 'err'):
            ctx.reject('C24 %s on %r' % (e['kind'], e['stmt']), key={'clause': 'internal'}, data=e['stmt'])
    for (i, clause) in verdicts:
        if clause.startswith('harness'):
            raise core.MachineryError('trace spec reports harness inconsistency %s at event %d' % (clause, i))
        e = events[i - 1]
        hi = bisect.bisect_right(d.starts, i - 1) - 1
        hist = events[d.starts[hi]:i]
        soft = d.soft[hi]
        o = e['obs']['f'][e['n'] - 1]
        short = {k: (v if k != 'vars' else [{kk: (vv if len(str(vv)) < 80 else str(vv)[:80] + '..') for kk, vv in x.items()} for x in v])
                 for k, v in e.items() if k in ('vars', 'got', 'k')}
        ctx.reject('C24 %s at %r (ok=%s code=%s lof=%s eof=%s soft_linefeed=%s) %s after %s' % (
            clause, e['stmt'], e['ok'], e['code'], o.get('lof'), o.get('eof'), soft, str(short)[:300], [x['stmt'] for x in hist[:-1]][-5:]),
            key={'clause': clause, 'op': e['op'], 'soft_linefeed': soft},
            data={'soft': soft, 'actions': [x['_a'] for x in hist], 'stmts': [x['stmt'] for x in hist], 'event': {k: e[k] for k in KEEP if k in e}})


def run(ctx):
    ctx.cov['rule'] = ('events = BASIC statements (OPEN, WRITE #, PRINT #, INPUT #, LINE INPUT #, CLOSE) executed on a real Session and '
                       'judged by TLC; distinct by (statement, values, observation); non-trivial = WRITE/PRINT/INPUT/LINE INPUT events')
    # 1. design: exhaustive bounded model checks
    ctx.model_check('SeqFile_MC', cfg=ctx.pick('SeqFile_MC.cfg', 'SeqFile_MC_big.cfg'), require_actions=False, workers=4)
    ctx.model_check('SeqFile_MC', cfg='SeqFile_MC_two.cfg', require_actions=False, workers=4)
    r = ctx.tlc('SeqFile_MC', 'SeqFile_MC_ascoded.cfg', workers=1, tag='ascoded-selftest', expect_fail=True)
    if r['ok'] or 'FormatRoundTrips' not in str(r['error']):
        raise core.MachineryError('selftest: scanner stopping at the length limit not rejected by the model check (%s)' % r['error'])
    # 2. spec -> code: every transition of the emit model
    r = ctx.tlc('SeqFile_MC', 'SeqFile_MC_emit.cfg', workers=1, tag='emit')
    if not r['ok']:
        raise core.MachineryError('emit run failed: ' + str(r['error']) + r['out'][-2000:])
    trans = graph.parse_transitions(r['out'])
    if not trans:
        raise core.MachineryError('no transitions emitted')
    from .C25 import cover_walks
    walks, cov, total = cover_walks(trans)
    ctx.cov['model_transitions'] = total
    ctx.cov['model_transitions_replayed'] = cov
    if cov < total:
        raise core.MachineryError('edge cover incomplete: %d of %d' % (cov, total))
    d = Driver(ctx)
    for w in walks:
        d.fresh(False)
        for t in w:
            replay_model_action(d, t['a'])
    nwalk = len(walks)
    # 3. code -> spec: random histories
    nh = ctx.pick(220, 4000)
    edge_history(d, ctx.rng, False)
    edge_history(d, ctx.rng, True)
    for h in range(nh):
        random_history(d, ctx.rng)
    if d.s:
        d.s.close()
    verdicts = run_validation(ctx, d)
    ctx.cov['traces_validated_against_impl'] += nwalk + nh + 2
    ctx.cov['refused_second_opens'] = getattr(d, 'refused_opens', 0)
    ev = d.events
    stats = collections.Counter()
    for e in ev:
        stats[e['op']] += 1
        if e['op'] == 'input':
            for v in e['vars']:
                stats['items_read_' + v['t']] += 1
        if e['op'] == 'close' and e['obs']['host']:
            stats['closes_with_host_bytes'] += 1
        if e['op'] == 'open' and e.get('mode') == 'A' and e['obs']['f'][e['n'] - 1].get('lof', 0) > 0:
            stats['append_to_nonempty'] += 1
        o = e['obs']['f'][e['n'] - 1]
        if o.get('eof') is True:
            stats['eof_true'] += 1
        ctx.count([e['stmt'], e.get('items'), e.get('s'), e.get('vars'), e.get('got'), e['ok'], e['code'], o],
                  nontrivial=e['op'] in ('write', 'print', 'input', 'lineinput'))
    ctx.cov.update({'events': len(ev)})
    ctx.cov.update(stats)
    for e in [x for x in ev if x['op'] == 'input'][:2] + [x for x in ev if x['op'] == 'write'][:2]:
        ctx.sample({k: (v if len(str(v)) < 400 else str(v)[:400] + '..') for k, v in e.items() if k in ('stmt', 'items', 'vars', 'ok', 'code')})
    judge(ctx, d, verdicts)
    need = ('write', 'print', 'input', 'lineinput', 'items_read_s', 'items_read_n', 'closes_with_host_bytes', 'append_to_nonempty', 'eof_true')
    if not all(stats[k] for k in need) and not ctx.violations:
        raise core.MachineryError('vacuous run: %s' % dict(stats))


LITS = {'1': ('1', '%'), '-2.5': ('-2.5', '!')}


def replay_model_action(d, a):
    """An action of SeqFile_MC (items carry representations) -> the driver's action (numbers as literals)."""
    a = dict(a)
    if a['op'] == 'write':
        items = []
        for it in a['items']:
            if it['k'] == 's':
                items.append({'k': 's', 'b': list(it['b'])})
            else:
                lit, t = LITS[bytes(it['r']).decode()]
                items.append({'k': 'n', 'lit': lit, 't': t})
        d.do({'op': 'write', 'n': a['n'], 'items': items})
    elif a['op'] == 'input':
        # read exactly k items
        n, k = a['n'], a['k']
        lines, li, ii = d.remaining(n)
        types, reprs = [], []
        for _ in range(k):
            it = lines[li][1][ii]
            if it['k'] == 's':
                types.append('$'); reprs.append(None)
            else:
                types.append(LITS[bytes(it['r']).decode()][1]); reprs.append(it['r'])
            ii += 1
            if ii >= len(lines[li][1]):
                li, ii = li + 1, 0
        d.do({'op': 'input', 'n': n, 'types': types, 'reprs': reprs})
        d.pos[n] = [li, ii]
    elif a['op'] == 'lineinput':
        d.do({'op': 'lineinput', 'n': a['n']})
        d.pos[a['n']][0] += 1
        d.pos[a['n']][1] = 0
    elif a['op'] == 'print':
        d.do({'op': 'print', 'n': a['n'], 's': list(a['s'])})
    else:
        d.do(a)


def replay(ctx, path):
    """Re-execute the histories recorded in a replay file on the current tree and validate them again."""
    with open(path) as f:
        doc = json.load(f)
    d = Driver(ctx)
    for v in doc['violations']:
        data = v.get('data') or {}
        if not isinstance(data, dict) or 'actions' not in data:
            continue
        d.fresh(data.get('soft', False))
        for a in data['actions']:
            d.do(a)
            if a['op'] in ('input', 'lineinput'):
                pass
    if d.s:
        d.s.close()
    if not d.events:
        raise core.MachineryError('nothing to replay in %s' % path)
    judge(ctx, d, run_validation(ctx, d))
    ctx.cov['traces_validated_against_impl'] += d.nhist
