"""C17 - tokenise/list consistency.
Spec TokenList.tla (grammar automaton, token encoding, canonical separators); generator TokenList_MC; trace spec C17_Trace.tla."""
import re, json, time
from .. import core

LEVEL = 'exploration'
META = {
    'technique': 'TLC enumerates the language of the statement grammar of TokenList.tla (all complete lines of <= N token classes, simulation beyond); '
                 'the replayer instantiates each shape on the real Tokeniser/Lister of every dialect; TLC (C17_Trace) judges every recorded line and the '
                 'complete keyword tables',
    'text': 'TokenList.tla defines abstract token sequences, the statement grammar (position automaton), the canonical separator relation and Encode, the '
            'tokenised form of an abstract line given the dialect\'s keyword table (observed) - integer literals by class and value, single/double literals '
            'in Microsoft binary format from n*2^e. TLC emits every complete shape up to the bound; each is rendered with concrete keywords of every class, '
            'numbers of all seven token classes, names, strings, comments, DATA, random capitalisation (also ? for PRINT, GO TO), optional blanks where the '
            'spec allows them, for advanced/pcjr/tandy. TLC checks tokenise_line(text) = Encode(line) and tokenise_line(detokenise_line(.)) = the same bytes. '
            'Exhaustive: all keywords x 3 dialects (token and back, upper/lower/mixed case, listing), table bijectivity. Free-form exactly representable '
            'literals with up to 7/16 digits are checked for class and re-entry.',
    'note': 'Trusted: TLC, JSON plumbing. Only canonical separators are generated (the statement\'s fragment); lines needing the lister to INSERT blanks are '
            'not fixed points and are outside the property. The decimal spelling of a literal is chosen by the generator; its class and value are judged by TLC.',
}
DIALECTS = ['advanced', 'pcjr', 'tandy']
NUMCLASSES = ['digit', 'byte', 'int', 'hex', 'oct', 'single', 'double']


# ------------------------------------------------------------------------------------------ spelling (input generator)
def caps(rng, b):
    m = rng.randrange(4)
    if m == 0:
        return b
    if m == 1:
        return b.lower()
    return bytes((c | 32) if (65 <= c <= 90 and rng.random() < 0.5) else c for c in b)


def dyadic_text(n, e):
    """Exact decimal expansion of n * 2^e (no exponent), e.g. (3, -1) -> '1.5'."""
    if e >= 0:
        return b'%d' % (n << e)
    k = -e
    digits = b'%d' % (n * 5 ** k)
    digits = digits.rjust(k + 1, b'0')
    ip, fp = digits[:-k], digits[-k:].rstrip(b'0')
    ip = ip.lstrip(b'0')
    return ip + (b'.' + fp if fp else b'')


def sigdigits(txt):
    return len(txt.replace(b'.', b'').lstrip(b'0')) or 1


def shift_point(txt, s):
    """txt * 10^s as a plain decimal string (s may be negative)."""
    ip, _, fp = txt.partition(b'.')
    if s >= 0:
        fp = fp.ljust(s, b'0')
        ip, fp = ip + fp[:s], fp[s:]
    else:
        ip = ip.rjust(-s, b'0')
        ip, fp = ip[:s], ip[s:] + fp
    ip = ip.lstrip(b'0')
    fp = fp.rstrip(b'0')
    return (ip or (b'' if fp else b'0')) + (b'.' + fp if fp else b'')


def pick_float(rng, cls):
    """(n, e) with an exact decimal expansion of at most 7 (single) / 16 (double) significant digits."""
    lim = 7 if cls == 'single' else 16
    while True:
        k = rng.randrange(6)
        if k == 0:
            n, e = rng.choice([1, 3, 5, 7, 9, 11, 13, 15, 25, 75, 125, 255, 1023]), rng.randint(-6, 3)
        elif k == 1:
            n, e = rng.randint(1, 9999), rng.randint(-4, 8)
        elif k == 2:
            n, e = rng.randint(32768, 9999999), 0
        elif k == 3:
            n, e = rng.randint(1, (1 << 24) - 1), rng.randint(-3, 3)
        elif k == 4:
            n, e = 1, rng.randint(-20, 23)
        else:
            n, e = 0, 0
        if n >= (1 << 24):
            continue
        txt = dyadic_text(n, e) if n else b'0'
        if sigdigits(txt) <= lim and len(txt) <= 20:
            return n, e, txt


def spell_float(rng, cls, n, e, txt):
    """One of the spellings whose token class is unambiguous: suffix, exponent letter, or (where the digits decide) plain."""
    isint = b'.' not in txt
    sd = sigdigits(txt)
    if cls == 'single':
        forms = ['suffix', 'exp']
        if sd <= 7 and (not isint or int(txt) > 32767):
            forms.append('plain')
        letter, suffix = b'E', b'!'
    else:
        forms = ['suffix', 'exp']
        if sd >= 8:
            forms.append('plain')
        letter, suffix = b'D', b'#'
    f = rng.choice(forms)
    if f == 'plain':
        return (b'0' + txt) if (txt[:1] == b'.' and rng.random() < 0.3) else txt
    if f == 'suffix':
        return txt + suffix
    lim = 7 if cls == 'single' else 16
    while True:
        s = rng.randint(-3, 3)
        m = shift_point(txt, s)
        # the digits as written (also zeros gained by moving the point) count towards the 7 / 16 digit limit
        if len(m.replace(b'.', b'').lstrip(b'0')) <= lim:
            break
    ex = -s
    return m + caps(rng, letter) + (rng.choice([b'', b'+']) + b'%d' % ex if ex >= 0 else b'-%d' % (-ex))


GOOD_NAMES = [b'A', b'B', b'I', b'J', b'X', b'Y', b'Z', b'A1', b'X2', b'COUNT', b'TOTAL', b'N.1', b'ZZ9', b'INDEX', b'VALUE', b'P.Q.R', b'ANDY',
              b'TOP', b'IFF', b'ONE', b'FORK', b'NOTE', b'LETTER', b'PRINTER', b'ELSEWHERE', b'THENCE', b'STEPS', b'DIMS', b'REMARK', b'DATUM',
              b'ERLKING', b'BASE', b'NOISE', b'TERM', b'ABSOLUTE', b'E', b'D', b'E1', b'D2', b'H', b'O']


class Gen(object):
    def __init__(self, rng, tables, classes):
        self.rng = rng
        self.tables = tables          # dialect -> {id: (spelling, token)}
        self.classes = classes        # dialect -> class -> [ids]
        self.ncls = 0

    def name(self, d, string):
        rng = self.rng
        kws = set(v[0] for v in self.tables[d].values())
        while True:
            if rng.random() < 0.7:
                st = rng.choice(GOOD_NAMES)
            else:
                st = bytes([rng.randint(65, 90)]) + bytes(rng.choice(b'ABCDEFGHIJKLMNOPQRSTUVWXYZ0123456789.') for _ in range(rng.randint(0, 7)))
            s = st + (b'$' if string else rng.choice([b'', b'', b'', b'%', b'!', b'#']))
            if st[:2] in (b'FN', b'GO') or st[:3] == b'USR':
                continue
            if s in kws or st in kws or st + b'(' in kws or st + b'$' in kws:
                continue
            return s

    def plain(self, n, quote):
        rng = self.rng
        out = bytearray()
        for _ in range(n):
            c = rng.randint(128, 255) if rng.random() < 0.15 else rng.randint(32, 126)
            if c == 34 and not quote:
                c = 39
            out.append(c)
        return bytes(out)

    def token(self, d, k, prevk):
        """Concrete abstract token + its spelling for class k."""
        rng = self.rng
        if k in self.classes[d]:
            kid = rng.choice(self.classes[d][k])
            sp = caps(rng, self.tables[d][kid][0])
            if kid == 'PRINT' and rng.random() < 0.25:
                sp = b'?'
            elif kid == 'GOTO' and rng.random() < 0.15:
                sp = caps(rng, b'GO TO')
            elif kid == 'GOSUB' and rng.random() < 0.15:
                sp = caps(rng, b'GO SUB')
            return ['kw', kid], sp
        if k in ('OP', 'OPEQ', 'OPMINUS'):
            oid = '=' if k == 'OPEQ' else '-' if k == 'OPMINUS' else rng.choice(['+', '*', '/', '\\', '^', '<', '>', '<=', '>=', '<>'])
            return ['op', oid], oid.encode()
        if k == 'NUM':
            cls = NUMCLASSES[self.ncls % 7] if rng.random() < 0.6 else rng.choice(NUMCLASSES)
            self.ncls += 1
            if cls == 'digit':
                v = rng.randint(0, 9)
                return ['num', cls, v], b'%d' % v + (b'%' if rng.random() < 0.1 else b'')
            if cls == 'byte':
                v = rng.choice([10, 11, 99, 100, 127, 128, 254, 255, rng.randint(10, 255)])
                return ['num', cls, v], b'%d' % v + (b'%' if rng.random() < 0.1 else b'')
            if cls == 'int':
                v = rng.choice([256, 257, 999, 1000, 32766, 32767, rng.randint(256, 32767)])
                return ['num', cls, v], b'%d' % v + (b'%' if rng.random() < 0.1 else b'')
            if cls == 'hex':
                v = rng.choice([0, 1, 255, 256, 32767, 32768, 65535, rng.randint(0, 65535)])
                return ['num', cls, v], caps(rng, b'&H%X' % v)
            if cls == 'oct':
                v = rng.choice([0, 7, 8, 32767, 32768, 65535, rng.randint(0, 65535)])
                return ['num', cls, v], rng.choice([caps(rng, b'&O%o' % v), b'&%o' % v])
            n, e, txt = pick_float(rng, cls)
            return ['flt', cls, n, e], spell_float(rng, cls, n, e, txt)
        if k == 'VAR':
            s = self.name(d, False)
            return ['name', list(s)], caps(rng, s)
        if k == 'SVAR':
            s = self.name(d, True)
            return ['sname', list(s)], caps(rng, s)
        if k == 'STR':
            s = self.plain(rng.choice([0, 1, 3, 8, 20]), False)
            return ['str', list(s)], b'"' + s + b'"'
        if k == 'JUMP':
            v = rng.choice([0, 1, 9, 10, 100, 255, 256, 6552, 6553, 32767, 32768, 65528, 65529, rng.randint(0, 65529)])
            return ['jump', v], b'%d' % v
        if k == 'ADIGIT':
            v = rng.randint(0, 9)
            return ['adigit', v], b'%d' % v
        if k == 'BASE':
            return ['word', list(b'BASE')], caps(rng, b'BASE')
        if k in ('LP', 'RP', 'COMMA', 'SEMI', 'COLON'):
            c = {'LP': 40, 'RP': 41, 'COMMA': 44, 'SEMI': 59, 'COLON': 58}[k]
            return ['p', c], bytes([c])
        if k == 'TAIL':
            s = self.plain(rng.choice([0, 1, 5, 25]), True)
            if prevk == 'REM' and s and s[:1] != b' ':
                s = b' ' + s
            return ['tail', list(s)], s
        if k == 'DTAIL':
            s = bytes(c for c in self.plain(rng.choice([0, 2, 6, 18]), False) if 32 <= c <= 126 and c not in (34, 58))
            if s and s[:1] != b' ':
                s = b' ' + s
            return ['dtail', list(s)], s
        raise core.MachineryError('no generator for class %r' % k)

    def line(self, d, shape, seprule):
        rng = self.rng
        n = rng.choice([1, 10, 100, 255, 256, 6552, 6553, 32767, 32768, 65529, rng.randint(1, 65529)])
        toks, seps, text = [], [], b'%d ' % n
        prev = ''
        for k, sr in zip(shape, seprule):
            t, sp = self.token(d, k, prev)
            s = 1 if sr == 'req' else 0 if sr == 'no' else (1 if rng.random() < 0.3 else 0)
            toks.append(t)
            seps.append(s)
            text += (b' ' if s else b'') + sp
            prev = k
        return {'k': 'line', 'd': d, 'n': n, 'toks': toks, 'seps': seps, 'text': text, 'shape': shape}


def parse_shapes(out):
    res = []
    for m in re.finditer(r'^<<"SHAPE", "(.*)">>\s*$', out, re.M):
        res.append(json.loads(m.group(1).encode().decode('unicode_escape')))
    return res


def run(ctx):
    core.import_repo()
    from pcbasic.basic import Session
    from pcbasic.basic.base import tokens as tk, codestream
    rng = ctx.rng
    ctx.cov['rule'] = ('evaluations = recorded lines / keywords / literals judged by TLC; distinct by rendered text and dialect; non-trivial = all '
                       '(every line exercises tokeniser, lister and re-tokeniser)')
    t0 = time.time()
    # ---- keyword tables observed from the code, tokeniser and lister of every dialect ----
    header = {'kw': {}, 'rev': {}}
    tables, tool = {}, {}
    for d in DIALECTS:
        kd = tk.TokenKeywordDict(d)
        tab = {}
        for tok, kw in kd.to_keyword.items():
            tab[kw.decode('latin1')] = (bytes(kw), bytes(tok))
        rev = {}
        for kid, (kw, tok) in tab.items():
            t2 = kd.to_token.get(kw)
            rev[kid] = list(kd.to_keyword.get(t2, b'')) if t2 is not None else []
        for comp in ('<=', '>=', '<>'):
            tab[comp] = (comp.encode(), b''.join(kd.to_token[c.encode()] for c in comp))
            rev[comp] = list(comp.encode())
        tables[d] = tab
        header['kw'][d] = {kid: {'b': list(v[0]), 't': list(v[1])} for kid, v in tab.items()}
        header['rev'][d] = rev
        s = Session(syntax=d)
        s.start()
        tool[d] = (s._impl.tokeniser, s._impl.lister, s)

    def tokenise(d, text):
        return bytes(tool[d][0].tokenise_line(text).getvalue())

    def relist(d, t1):
        st = codestream.TokenisedStream()
        st.write(t1)
        st.seek(1)
        _, text, _ = tool[d][1].detokenise_line(st)
        return bytes(text)

    # ---- shapes from the specification ----
    r = ctx.tlc('TokenList_MC', ctx.pick('TokenList_MC.cfg', 'TokenList_MC_6.cfg'), workers=ctx.pick(2, 4), tag='grammar language (exhaustive)')
    if not r['ok']:
        raise core.MachineryError('grammar enumeration failed: %s\n%s' % (r['error'], r['out'][-1500:]))
    ctx.cov['states'] += r['distinct']
    ctx.cov['transitions'] += r['generated']
    shapes = parse_shapes(r['out'])
    m = re.search(r'^<<"KWCLASSES", "(.*)">>\s*$', r['out'], re.M)
    if not m or len(shapes) < 500:
        raise core.MachineryError('grammar enumeration produced %d shapes' % len(shapes))
    ctab = json.loads(m.group(1).encode().decode('unicode_escape'))
    classes = {d: {} for d in DIALECTS}
    for d in DIALECTS:
        for kid, k in ctab[d].items():
            # (a keyword of the grammar that the dialect's table lacks is reported by the `table` event; do not generate it)
            if kid in tables[d]:
                classes[d].setdefault(k, []).append(kid)
    nexh = len(shapes)
    rs = ctx.tlc('TokenList_MC', 'TokenList_MC_sim.cfg', workers=1, simulate='num=%d' % ctx.pick(400, 6000), extra=['-depth', '14', '-seed', str(ctx.seed + 7)],
                 tag='longer shapes (simulation)')
    long_shapes = [s for s in parse_shapes(rs['out']) if len(s[0]) > ctx.pick(5, 6)]
    seen = set()
    uniq = []
    for s in long_shapes:
        key = tuple(s[0])
        if key not in seen:
            seen.add(key)
            uniq.append(s)
    long_shapes = uniq[:ctx.pick(2500, 25000)]
    ctx.cov['shapes_exhaustive'] = nexh
    ctx.cov['shapes_exhaustive_max_tokens'] = ctx.pick(5, 6)
    ctx.cov['shapes_simulated_longer'] = len(long_shapes)
    gen = Gen(rng, tables, classes)
    events = []
    # ---- keyword tables: every keyword of every dialect, both ways, three capitalisations, listed ----
    for d in DIALECTS:
        events.append({'k': 'table', 'd': d})
        for kid, (kw, tok) in sorted(tables[d].items()):
            if kid in ('<=', '>=', '<>'):
                continue
            mix = bytes((c | 32) if (65 <= c <= 90 and i % 2) else c for i, c in enumerate(kw))
            events.append({'k': 'kw', 'd': d, 'id': kid, 'up': list(tokenise(d, kw)), 'low': list(tokenise(d, kw.lower())), 'mix': list(tokenise(d, mix)),
                           'listed': list(relist(d, b'\x00\xc0\xde\x0a\x00:' + tok)), 'text': kw})
    nkw = len(events)
    # ---- lines ----
    per = ctx.pick(3, 5)
    for (shape, seprule) in shapes + long_shapes:
        kset = set(shape)
        for i in range(per if len(shape) <= ctx.pick(5, 6) else 1):
            d = DIALECTS[(i + len(events)) % 3]
            e = gen.line(d, shape, seprule)
            events.append(e)
    # ---- free-form literals ----
    nlit = ctx.pick(1500, 20000)
    for i in range(nlit):
        d = DIALECTS[i % 3]
        cls = rng.choice(['single', 'double', 'single', 'double', 'digit', 'byte', 'int', 'hex', 'oct'])
        if cls == 'single':
            k = rng.randrange(4)
            if k == 0:
                txt = b'%d' % rng.randint(32768, 9999999)
            elif k == 1:
                txt = b'%d!' % rng.randint(0, 9999999)
            elif k == 2:
                txt = b'%dE+%d' % (rng.randint(1, 9), rng.randint(0, 10))
            else:
                n, e, t = pick_float(rng, 'single')
                txt = spell_float(rng, 'single', n, e, t)
        elif cls == 'double':
            k = rng.randrange(4)
            if k == 0:
                txt = b'%d' % rng.randint(10000000, 9007199254740992)
            elif k == 1:
                txt = b'%d#' % rng.randint(0, 9007199254740992)
            elif k == 2:
                txt = b'%dD+%d' % (rng.randint(1, 9), rng.randint(0, 22))
            else:
                n, e, t = pick_float(rng, 'double')
                txt = spell_float(rng, 'double', n, e, t)
        elif cls == 'digit':
            txt = b'%d' % rng.randint(0, 9)
        elif cls == 'byte':
            txt = b'%d' % rng.randint(10, 255)
        elif cls == 'int':
            txt = b'%d' % rng.randint(256, 32767)
        elif cls == 'hex':
            txt = caps(rng, b'&H%X' % rng.randint(0, 65535))
        else:
            txt = caps(rng, b'&O%o' % rng.randint(0, 65535))
        events.append({'k': 'numlit', 'd': d, 'cls': cls, 'text': b'10 A=' + txt})
    # ---- run the real tokeniser / lister ----
    internal = []
    for e in events:
        if e['k'] not in ('line', 'numlit'):
            continue
        d = e['d']
        try:
            t1 = tokenise(d, e['text'])
            txt = relist(d, t1)
            t2 = tokenise(d, txt)
        except BaseException as ex:  # noqa
            internal.append((e, '%s: %s' % (type(ex).__name__, ex)))
            t1, txt, t2 = b'', b'', b'x'
        e['t1'], e['t2'], e['listed'] = list(t1), list(t2), txt
    for d in DIALECTS:
        tool[d][2].close()
    ctx.cov['impl_wall_s'] = round(time.time() - t0, 1)
    # ---- TLC judges ----
    drop = ('text', 'shape', 'listed')
    verdicts = []
    chunk = 20000
    for lo in range(0, len(events), chunk):
        part = events[lo:lo + chunk]
        vs = ctx.validate('C17_Trace', [{k: v for k, v in e.items() if k not in drop or (k == 'listed' and e['k'] == 'kw')} for e in part], header=header)
        verdicts += [(lo + i, c) for (i, c) in vs]
    ctx.cov['traces_validated_against_impl'] += 1
    kinds, bycls = {}, {}
    for e in events:
        kinds[e['k']] = kinds.get(e['k'], 0) + 1
        ctx.count([e['k'], e['d'], e.get('text', b'').hex() if isinstance(e.get('text'), bytes) else e.get('id')])
        if e['k'] == 'line':
            for t in e['toks']:
                if t[0] in ('num', 'flt'):
                    bycls[t[1]] = bycls.get(t[1], 0) + 1
    ctx.cov['events_by_kind'] = kinds
    ctx.cov['number_tokens_by_class'] = bycls
    ctx.cov['keywords_checked'] = {d: len(tables[d]) - 3 for d in DIALECTS}
    ctx.cov['exhaustive'] = False
    ctx.cov['exhaustive_parts'] = {'keywords x dialects (token and back, case, listing, bijectivity)': True,
                             'statement shapes up to %d token classes' % ctx.pick(5, 6): True, 'operand values / longer lines': False}
    for e in (events[nkw + 5], events[nkw + len(shapes)], events[-1]):
        ctx.sample({'d': e['d'], 'text': repr(e['text']), 't1': bytes(e['t1']).hex(), 'listed': repr(e['listed'])})
    if min(bycls.get(c, 0) for c in NUMCLASSES) < 50:
        raise core.MachineryError('vacuous: number classes %r' % bycls)
    for e, exc in internal[:20]:
        ctx.reject('C17 internal error (escaping Python exception) on %r [%s]: %s' % (e['text'], e['d'], exc),
                   key={'clause': 'internal', 'exc': exc.split(':')[0]}, data={'text': repr(e['text'])})
    nharness = 0
    for (i, clause) in verdicts:
        e = events[i - 1]
        if clause.startswith('harness_'):
            nharness += 1
            if nharness <= 3:
                print('harness event outside the fragment: %s %r %r' % (clause, e.get('text'), e.get('toks')))
            continue
        ctx.reject('C17 %s [%s]: %r -> %s -> listed %r -> %s' % (clause, e['d'], e.get('text'), bytes(e.get('t1', e.get('up', []))).hex(),
                                                              bytes(e['listed']) if isinstance(e.get('listed'), (list, bytes)) else None,
                                                              bytes(e.get('t2', [])).hex()),
                   key={'clause': clause, 'k': e['k'], 'd': e['d'], 'cls': e.get('cls'), 'id': e.get('id')},
                   data={k: (repr(v) if isinstance(v, bytes) else v) for k, v in e.items()})
    if nharness:
        raise core.MachineryError('%d generated lines were outside the fragment of the specification (generator defect)' % nharness)
    ctx.assumptions += ['the decimal spelling of a literal is produced by the generator (exact expansion of n*2^e); TLC derives the expected token from (class, n, e)',
                        'keyword spellings/tokens are read from TokenKeywordDict and held fixed; only bijectivity and consistent use are demanded']
