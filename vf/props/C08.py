"""C08 — PRINT USING. Spec: PrintUsing.tla (field parser, admitted texts, digit judgement); self-check and field
enumeration PrintUsing_MC; trace spec C08_Trace.

The driver generates (field, value) pairs, runs `PRINT USING` on the real interpreter and records the text written together
with the EXACT decimal expansion of the value (decoded from the MBF bytes the interpreter reports for the variable).
Whether the text is right is decided by TLC alone."""
import os, json, time
from concurrent.futures import ThreadPoolExecutor
from ..session import Sess
from .. import core

LEVEL = 'exploration'
META = {
    'technique': 'TLA+ oracle (PrintUsing.tla: field parser, rebuilt admitted texts, exact digit-sequence rounding judgement) '
                 'evaluated by TLC on recorded PRINT USING outputs; field shapes enumerated by the specification (PrintUsing_MC)',
    'text': 'All well-formed numeric fields with up to 5 (quick) / 6 (thorough) digit positions as enumerated by TLC from the '
            'specification grammar, plus random fields up to 24 positions, are combined with boundary values of the field '
            '(10^b, 10^b - half a unit of the last decimal, ties, values rounding to zero), powers of ten over the whole '
            'exponent range, random singles/doubles/integers of all magnitudes and exact dyadic ties; the text written by the '
            'real interpreter is compared by TLC with the texts PrintUsing.tla admits for the digits shown, and the digits are '
            'judged against the exact decimal expansion of the stored value. String fields ! & \\ \\ with strings of length '
            '0..255 over all byte values (through a file) and printable strings (through the console).',
    'note': 'Trusted: TLC, JSON plumbing, MKS$/MKD$ bytes as the stored value (C03), the MBF->decimal expansion done with '
            'Python integers (input encoding, cross-checked in PrintUsing_MC style laws only for the TLA+ side). Shape-only '
            '(width rule) for: ^^^^ combined with $ or **, ^^^^ fields without a mantissa digit, zero in ^^^^ fields. '
            'Format strings with literal text, escapes, several fields and cycling values are covered for numbers that '
            'fit their fields and literal characters a-z ( ) : = only.',
}
META['text'] += ' Every numeric field is printed twice from the same variable and both lines must be the same text (formatting must not change the variable).'

PCT = 37


# ---- exact values ---------------------------------------------------------------------------------------------------
def mbf_exact(b):
    """MBF single (4 bytes) / double (8 bytes) -> (neg, mantissa, exp2) with value = mantissa * 2**exp2 (exact)."""
    n = len(b)
    e = b[-1]
    if e == 0:
        return False, 0, 0
    neg = bool(b[-2] & 0x80)
    man = 0
    for i in range(n - 2, -1, -1):
        man = (man << 8) | (b[i] | 0x80 if i == n - 2 else b[i])
    return neg, man, e - 128 - 8 * (n - 1)


def expansion(man, exp2):
    """|x| = man * 2**exp2 -> (xd, xe): |x| = 0.d1d2...dn * 10**xe, no trailing zeros; ([], 0) for zero."""
    if man == 0:
        return [], 0
    if exp2 >= 0:
        s = str(man << exp2)
        xe = len(s)
    else:
        s = str(man * 5 ** (-exp2))
        xe = len(s) + exp2
    s = s.rstrip('0')
    return [int(c) for c in s], xe


# ---- field shapes ---------------------------------------------------------------------------------------------------
def random_field(rng, maxpos=24):
    """A well-formed numeric field with up to maxpos digit positions (same grammar as PrintUsing_MC.Shapes)."""
    while True:
        plus = rng.random() < 0.2
        pre = rng.choice(['', '', '', '**', '**$', '$$'])
        prepos = {'': 0, '**': 2, '**$': 2, '$$': 1}[pre]
        total = rng.choice([rng.randint(1, maxpos), rng.randint(6, 12), rng.randint(18, maxpos)])
        total = max(total, prepos + (0 if prepos else 1))
        rest = total - prepos
        nd = rng.choice([0, 0, rng.randint(0, rest), min(rest, rng.randint(0, 4))])
        nb = rest - nd
        dot = nd > 0 or rng.random() < 0.15
        run = ''
        if nb:
            run = '#' + ''.join(rng.choice('###,') if rng.random() < 0.5 else '#' for _ in range(nb - 1))
        sci = rng.random() < 0.25
        trail = '' if plus else rng.choice(['', '', '', '+', '-'])
        f = ('+' if plus else '') + pre + run + ('.' + '#' * nd if dot else '') + ('^^^^' if sci else '') + trail
        if prepos + nb + nd >= 1:
            return f


def shape_of(f):
    """(digit positions before the point, decimals, scientific) read off the field text (only to aim the values)."""
    core_ = f.split('^')[0]
    if '.' in core_:
        a, b = core_.split('.', 1)
    else:
        a, b = core_, ''
    before = a.count('#') + a.count(',') + (2 if '**' in a else 0) + (1 if a.startswith('$$') or a.startswith('+$$') else 0)
    return before, b.count('#'), '^' in f


# ---- values ---------------------------------------------------------------------------------------------------------
GENERIC = ['0', '1', '.5', '.25', '.125', '.375', '2.5', '3.5', '.05', '.005', '.0005', '9.5', '99.5', '999.5', '9.995',
           '99.995', '.995', '9.999999', '999999.9', '9999999', '10000000', '16777215', '16777216', '123456789', '12345.678',
           '1.5', '1234.5', '32767', '100', '1000', '999', '1E10', '1E-10', '1E38', '1.5E-38', '1.701411E38', '2.9387E-39',
           '1E7', '9.999995E6', '1E-7', '4.5', '5.5', '.45', '.55', '.445', '.555', '12.345', '0.1', '0.3', '0.7', '0.9']


def aimed_literals(rng, before, dec):
    """Decimal literals aimed at the boundaries of a field with `before` integer positions and `dec` decimals."""
    b = max(0, min(before, 30))
    nines = '9' * b
    res = []
    d9 = '9' * dec
    res.append('%s.%s5' % (nines, d9))            # tie at the last decimal below 10^b: rounds up out of the field
    res.append('%s.%s4' % (nines, d9))
    res.append('%s.%s6' % (nines, d9))
    res.append('1' + '0' * b)                      # 10^b
    res.append('1' + '0' * max(b - 1, 0))          # 10^(b-1): fills the field (with the sign position)
    res.append((nines[:-1] or '0') + '.' + d9)
    res.append('.' + '0' * dec + '5')              # half a unit of the last place: rounds to zero or one unit
    res.append('.' + '0' * dec + '4')
    res.append('.' + '0' * max(dec - 1, 0) + '1')
    ip = str(rng.randint(0, 10 ** min(b, 6))) if b else ''
    res.append('%s.%s5' % (ip, ''.join(rng.choice('0123456789') for _ in range(dec))))      # decimal tie
    res.append('%s.%s' % (ip, ''.join(rng.choice('0123456789') for _ in range(dec + 2))))
    res.append('%s.%s' % (ip or '0', ''.join(rng.choice('0123456789') for _ in range(max(dec - 1, 0)))))
    return [r if r not in ('.', '') else '0' for r in res]


def literal_type(rng, lit):
    """Type sigil for a variable holding the literal; text of the literal of that type."""
    digits = sum(c.isdigit() for c in lit.split('E')[0].lstrip('0.') or '0')
    x = rng.random()
    if digits > 7 and 'E' not in lit:
        return '#', lit + '#' if x < 0.8 else lit
    if 'E' in lit:
        if x < 0.7:
            return '!', lit
        return '#', lit.replace('E', 'D')
    if x < 0.6:
        return '!', lit + ('!' if '.' not in lit and rng.random() < 0.5 else '')
    return '#', lit + '#'


class Values(object):
    """Assigns values to X% / X! / X# on the interpreter and knows their exact stored value."""

    def __init__(self, drv):
        self.drv = drv
        self.cache = {}

    def literal(self, sig, text, neg):
        """-> (BASIC prefix statement, neg, xd, xe, P) for X<sig> = [-]text."""
        key = (sig, text, neg)
        if neg and not text.strip('0.#!ED+-'):
            neg = False                     # -0 keeps a sign bit on a zero: not a value of the property's domain
        stmt = 'X%s=%s%s' % (sig, '-' if neg else '', text)
        if key not in self.cache:
            d = self.drv
            r = d.ex(stmt)
            if r[0] != 'ok':
                self.cache[key] = None       # e.g. overflow of the literal: not a value
            else:
                b = d.evb('MKS$(X!)' if sig == '!' else 'MKD$(X#)')
                n, man, e2 = mbf_exact(b)
                xd, xe = expansion(man, e2)
                self.cache[key] = (n, xd, xe)
        c = self.cache[key]
        if c is None:
            return None
        if neg and not c[1]:
            return self.literal(sig, text, False)      # underflow to zero: no "negative zero" (sign bit on a zero)
        return stmt, c[0], c[1], c[2], (7 if sig == '!' else 16)

    def from_bytes(self, b):
        """-> (prefix statement, neg, xd, xe, P) for X! = CVS(bytes) / X# = CVD(bytes)."""
        self.drv.setv('B$', bytes(b))
        n, man, e2 = mbf_exact(b)
        xd, xe = expansion(man, e2)
        if len(b) == 4:
            return 'X!=CVS(B$)', n, xd, xe, 7, 'X!'
        return 'X#=CVD(B$)', n, xd, xe, 16, 'X#'

    def integer(self, v):
        xd, xe = expansion(abs(v), 0)
        return 'X%%=%d' % v, v < 0, xd, xe, 7, 'X%'



# ---- whole format strings (literal text, escapes, several fields, cycling) ------------------------------------------
LIT = 'abcxyzpq():='


def random_line(rng):
    """-> (format string, [value source text], [value as the spec sees it]) ; every numeric value fits its field."""
    nf = rng.choice([1, 1, 2, 2, 3])
    fields = []
    fmt = ''
    for i in range(nf):
        lit = ''.join(rng.choice(LIT) for _ in range(rng.choice([0, 1, 1, 2, 3]) if i == 0 else rng.choice([1, 1, 2, 3])))
        if rng.random() < 0.2:
            lit += '_' + rng.choice('#!&_%+-.$*^\\,x')      # escaped character: literal
            if rng.random() < 0.5:
                lit += rng.choice(LIT)
        fmt += lit
        if rng.random() < 0.3:
            f = rng.choice(['!', '&', '\\' + ' ' * rng.randint(0, 4) + '\\'])
            fields.append(('s', f))
        else:
            before = rng.randint(2, 5)
            dec = rng.choice([0, 0, 1, 2])
            f = rng.choice(['', '', '+', '**', '$$']) + '#' * before + ('.' + '#' * dec if dec else '')
            if f[0] not in '+' and rng.random() < 0.2:
                f += rng.choice('+-')
            fields.append(('n', f, before, dec))
        fmt += f
    tail = ''.join(rng.choice(LIT) for _ in range(rng.choice([0, 0, 1, 2])))
    if rng.random() < 0.1:
        tail += '_'                                          # a final underscore stands for itself
    fmt += tail
    k = rng.randint(1, 2 * nf + 1)
    # keep the whole text on one console line (no wrapping at column 80): generous estimate of its length
    percycle = len(fmt) + 5 * sum(1 for f in fields if f[1] == '&')     # upper bound of the text of one pass
    while k > 1 and -(-k // nf) * percycle > 76:
        k -= 1
    if -(-k // nf) * percycle > 76:
        return random_line(rng)
    src, vals = [], []
    for j in range(k):
        fld = fields[j % nf]
        if fld[0] == 's':
            n = rng.choice([0, 1, 2, 3, 6])
            v = ''.join(rng.choice('abcdefXYZ 019.,-') for _ in range(n))
            src.append('"%s"' % v)
            vals.append({'t': 's', 'v': list(v.encode('ascii'))})
        else:
            before, dec = fld[2], fld[3]
            q = rng.randint(0, 10 ** (before - 1) * 4 - 1)    # quarters: exact in binary, value < 10^(before-1)
            neg = rng.random() < 0.25 and before >= 3
            if neg:
                q = q % (10 ** (before - 2) * 4)
            num, den = q, 4
            if dec == 0 or rng.random() < 0.5:
                num, den = q // 4, 1
            text = ('%d' % num) if den == 1 else ('%d.%s' % (num // 4, {0: '0', 1: '25', 2: '5', 3: '75'}[num % 4]))
            if num == 0:
                neg = False
            xd, xe = expansion(num * (25 if den == 4 else 1), 0)
            if den == 4:
                xe -= 2
            while xd and xd[-1] == 0:
                xd.pop()
            src.append(('-' if neg else '') + text)
            vals.append({'t': 'n', 'neg': neg, 'xd': xd, 'xe': xe, 'p': 7})
    return fmt, src, vals


class Internal(Exception):
    pass


class Driver(object):
    def __init__(self, ctx):
        self.ctx = ctx
        self.s = None
        self.restart()

    def restart(self):
        if self.s is not None:
            self.s.close()
        self.s = Sess()

    def setv(self, name, v):
        try:
            self.s.s.set_variable(name, v)
        except BaseException as ex:
            raise Internal('%s: %s' % (type(ex).__name__, ex))

    def ex(self, text):
        r = self.s.ex(text)
        if r[0] == 'internal':
            raise Internal(r[1])
        return r

    def evb(self, expr):
        r = self.s.ev(expr)
        if r[0] == 'internal':
            raise Internal(r[1])
        if r[0] != 'ok' or not isinstance(r[1], bytes):
            raise core.MachineryError('cannot evaluate %s: %r' % (expr, r[:2]))
        return r[1]


def random_float_bytes(rng, n):
    """Random MBF bytes: any exponent, or moderate magnitudes, or few mantissa bits (exact ties)."""
    m = rng.random()
    b = bytearray(rng.getrandbits(8) for _ in range(n))
    if m < 0.25:
        pass
    elif m < 0.75:
        b[-1] = rng.randint(128 - 24, 128 + 34)
    else:
        b[-1] = rng.randint(128 - 8, 128 + 20)
        keep = rng.randint(1, 12)          # only the top `keep` mantissa bits: dyadic numbers, exact ties
        bits = (n - 1) * 8 - 1
        man = rng.getrandbits(keep) << (bits - keep)
        for i in range(n - 1):
            b[i] = (man >> (8 * i)) & 0xff
        b[-2] = (b[-2] & 0x7f) | (0x80 if rng.random() < 0.4 else 0)
    if b[-1] == 0 and rng.random() < 0.8:
        b[-1] = 129
    if b[-1] == 0:
        b[-2] &= 0x7f          # a zero carries no sign
    return bytes(b)


def run(ctx):
    ctx.cov['rule'] = ('PRINT USING statements executed by the real interpreter (one numeric or string field, one value), '
                       'the text written judged by TLC with PrintUsing.tla; distinct = distinct (field, type, exact value) / '
                       '(field, string); non-trivial = all')
    rng = ctx.rng
    t0 = time.time()
    # ---- the specification enumerates the fields (and checks its own parser / digit operators) ----
    shapes_file = ctx.path('shapes.json')
    cfg = 'PrintUsing_MC.cfg' if ctx.quick() else 'PrintUsing_MC_big.cfg'
    r = ctx.tlc('PrintUsing_MC', cfg, workers=4, env={'SHAPES_FILE': shapes_file}, tag='selfcheck+shapes')
    ctx.cov['states'] += r['distinct']
    ctx.cov['transitions'] += r['generated']
    if not r['ok']:
        ctx.reject('TLC model check of PrintUsing_MC failed: %s' % r['error'], key={'clause': 'model_check'},
                   data=r['out'][-3000:])
    if not os.path.exists(shapes_file):
        raise core.MachineryError('PrintUsing_MC did not write the field shapes\n' + r['out'][-2000:])
    with open(shapes_file) as f:
        shapes = [bytes(x).decode('ascii') for x in json.load(f)['shapes']]
    if len(shapes) < 1000:
        raise core.MachineryError('only %d field shapes enumerated' % len(shapes))
    shapes.sort()
    ctx.cov['field_shapes_from_spec'] = len(shapes)

    events, info = [], []
    scale = float(os.environ.get('VERIF_C08_SCALE', '1'))
    per_shape = ctx.pick(10, 30)
    n_long = int(ctx.pick(7000, 80000) * scale)
    n_str = int(ctx.pick(2500, 20000) * scale)
    n_line = int(ctx.pick(2500, 20000) * scale)
    chunk = 8000
    d = Driver(ctx)
    vals = Values(d)
    cur = ['']
    internal = [0]
    classes = {}

    pool = ThreadPoolExecutor(max_workers=2)
    pending = []

    def judge(evs, infs, no):
        return evs, infs, ctx.validate('C08_Trace', evs, name='c08_%d' % no)

    def flush():
        """Hand the recorded events to TLC (runs beside the driver); verdicts are collected by settle()."""
        if not events:
            return
        pending.append(pool.submit(judge, list(events), list(info), len(pending)))
        del events[:]
        del info[:]

    def settle():
        for fut in pending:
            evs, infs, verdicts = fut.result()
            ctx.cov['traces_validated_against_impl'] += 1
            for (i, clause) in verdicts:
                e, inf = evs[i - 1], infs[i - 1]
                key = {'clause': clause, 'op': e['op'], 'k': e['k'], 'field': inf['field']}
                key.update(inf['key'])
                ctx.reject('C08 %s: PRINT USING "%s"; %s -> %r' % (clause, inf['field'], inf['value'], bytes(e['out'])),
                           key=key, data={'event': e})
        del pending[:]
        pool.shutdown()

    def guarded(body):
        try:
            return body()
        except Internal as ex:
            internal[0] += 1
            ctx.reject('C08 internal error escaping the Session API during %s: %s' % (cur[0], ex),
                       key={'clause': 'internal', 'exc': str(ex)[:60]}, data={'text': cur[0]})
            d.restart()
            vals.cache.clear()
            return None

    def num_event(field, v):
        """v = (prefix statement, neg, xd, xe, P, variable)"""
        stmt, neg, xd, xe, P, var = v
        d.setv('F$', field.encode('ascii'))
        # the field is printed twice from the same variable: the first line is judged by the specification, the second
        # must be the same text (the output is a function of field and value; formatting must not change the variable)
        text = '%s:PRINT USING F$;%s:PRINT USING F$;%s' % (stmt, var, var)
        cur[0] = 'F$="%s":%s' % (field, text)
        r = d.ex(text)
        out = r[2]
        if r[0] == 'ok' and out.endswith(b'\r\n') and out.count(b'\r\n') == 2:
            first, second = out[:-2].split(b'\r\n')
            if first != second:
                ctx.reject('C08 repeat: %s -> %r then %r' % (cur[0], first, second),
                           key={'clause': 'repeat', 'type': var[-1]}, data={'text': cur[0], 'first': list(first), 'second': list(second)})
            out = first + b'\r\n'
            classes['printed_twice_same_text'] = classes.get('printed_twice_same_text', 0) + (first == second)
        e = {'op': 'num', 'f': list(field.encode('ascii')), 'neg': neg, 'xd': xd, 'xe': xe, 'p': P}
        if r[0] == 'ok' and out.endswith(b'\r\n'):
            e['k'], e['out'] = 'ok', list(out[:-2])
        elif r[0] == 'err':
            e['k'], e['out'], e['code'] = 'err', list(out[:40]), r[1]
        else:
            e['k'], e['out'] = 'other', list(out[:80])
        before, dec, sci = shape_of(field)
        key = {'type': var[-1], 'before': before, 'dec': dec, 'sci': sci, 'neg': neg, 'zero': not xd, 'xe': xe}
        # output class "flagged with % although every digit shown is zero" (see known finding percent-zero-fraction-field)
        key['pct'] = e['out'][:1] == [PCT]
        key['out_all_zero'] = bool(e['out']) and all(c == 48 for c in e['out'] if 48 <= c <= 57) and any(48 <= c <= 57 for c in e['out'])
        if not sci:
            # input class "the first significant digit lies just below the last decimal shown" (see known finding)
            key['below_last'] = bool(dec > 0 and xd and xe == -dec and xd[0] >= 4)
        if sci:
            # input class "the mantissa digits of the value are all nines and round up" (see known finding)
            w = min(P, max(0, before - (0 if field[0] == '+' or field[-1] in '+-' else 1)) + dec)
            key['carry'] = bool(w >= 1 and len(xd) > w and all(x == 9 for x in xd[:w]) and xd[w] >= 4)
        events.append(e)
        info.append({'field': field, 'value': '%s  (exact %s0.%se%d)' % (stmt, '-' if neg else '', ''.join(map(str, xd[:20])), xe),
                     'key': key})
        ctx.count([field, var[-1], neg, xd, xe])
        cls = ('sci' if sci else 'fix') + var[-1] + ('_overflow' if e['out'][:1] == [PCT] else '')
        classes[cls] = classes.get(cls, 0) + 1
        for mark, name in (('$', 'with_dollar'), ('*', 'with_asterisk_fill'), (',', 'with_comma')):
            if mark in field:
                classes[name] = classes.get(name, 0) + 1
        if field[0] == '+':
            classes['leading_plus'] = classes.get('leading_plus', 0) + 1
        elif field[-1] in '+-':
            classes['trailing_sign'] = classes.get('trailing_sign', 0) + 1
        if not xd:
            classes['zero'] = classes.get('zero', 0) + 1
        if len(ctx.cov['samples']) < 5 and rng.random() < 0.001:
            ctx.sample({'text': cur[0], 'event': e})

    def pick_value(field):
        before, dec, sci = shape_of(field)
        x = rng.random()
        if x < 0.40:
            lit = rng.choice(aimed_literals(rng, before, dec))
            if sci and rng.random() < 0.5:
                lit += 'E%d' % rng.randint(-30, 30)
            sig, text = literal_type(rng, lit)
            if 'E' in text and sig == '#':
                text = text.replace('E', 'D')
            v = vals.literal(sig, text, rng.random() < 0.35)
            return None if v is None else v + ('X' + sig,)
        if x < 0.55:
            lit = rng.choice(GENERIC)
            sig, text = literal_type(rng, lit)
            v = vals.literal(sig, text, rng.random() < 0.35)
            return None if v is None else v + ('X' + sig,)
        if x < 0.65:
            e10 = rng.randint(-38, 38)
            sig = rng.choice('!#')
            text = '%s%s%d' % (rng.choice(['1', '9.999999', '9.9999995', '1.000001', '5', '4.9999995']), 'E' if sig == '!' else 'D', e10)
            v = vals.literal(sig, text, rng.random() < 0.35)
            return None if v is None else v + ('X' + sig,)
        if x < 0.73:
            iv = rng.choice([0, 1, -1, 9, 10, 99, 100, 999, 1000, 9999, 10000, 32767, -32768, -32767,
                             rng.randint(-32768, 32767), rng.randint(-1100, 1100)])
            return vals.integer(iv)
        return vals.from_bytes(random_float_bytes(rng, rng.choice([4, 4, 8])))

    # ---- every field of the specification's enumeration x aimed / generic / random values ----
    todo = [(f, j) for f in shapes for j in range(max(1, int(per_shape * scale)))]
    if scale < 1:
        todo = [t for t in todo if rng.random() < scale * 3] or todo[:50]
    for (field, j) in todo:
        def body():
            v = pick_value(field)
            if v is not None:
                num_event(field, v)
        guarded(body)
        if len(events) >= chunk:
            flush()
    ctx.cov['enumerated_field_events'] = len(todo)
    # ---- random fields up to 24 positions ----
    for i in range(n_long):
        def body():
            field = random_field(rng)
            v = pick_value(field)
            if v is not None:
                num_event(field, v)
        guarded(body)
        if len(events) >= chunk:
            flush()
    flush()
    ctx.cov['random_field_events'] = n_long
    # ---- string fields ----
    d.restart()
    path = os.path.join(d.s.mount, 'C08.TXT')

    def str_event(i):
        kind = rng.choice(['!', '&', 'w', 'w', 'w'])
        n = rng.choice([0, 0, 1, 2, 3, 5, 17, 80, 127, 254, 255, rng.randint(0, 255), rng.randint(0, 12)])
        via_file = rng.random() < 0.7
        if via_file:
            sv = bytes(rng.choice([rng.randrange(256), rng.choice(b'ab \x00\xff')]) for _ in range(n)).replace(b'\x1a', b'z')
            w = rng.choice([2, 3, 4, 5, n, n + 1, max(2, n - 1), 254, 255, rng.randint(2, 255)])
        else:
            n = min(n, 60)
            sv = bytes(rng.choice(b'abcdefgh XYZ0123456789.,;-+#$%&!') for _ in range(n))
            w = rng.choice([2, 3, 4, 5, max(2, n), n + 1, max(2, n - 1), rng.randint(2, 70)])
        w = max(2, min(w, 255))
        field = {'!': '!', '&': '&'}.get(kind) or ('\\' + ' ' * (w - 2) + '\\')
        d.setv('F$', field.encode('ascii'))
        d.setv('S$', sv)
        cur[0] = 'PRINT USING "%s";S$ with S$=%r' % (field if len(field) < 12 else '\\..%d..\\' % len(field), sv[:40])
        e = {'op': 'str', 'f': list(field.encode('ascii')), 's': list(sv)}
        if via_file:
            r = d.ex('OPEN "C08.TXT" FOR OUTPUT AS 1:WIDTH #1,255:PRINT#1,USING F$;S$;:CLOSE 1')
            out = b''
            if r[0] == 'ok':
                with open(path, 'rb') as fh:
                    out = fh.read()
                if out.endswith(b'\x1a'):      # end-of-file mark written on CLOSE (strings never contain it)
                    out = out[:-1]
        else:
            r = d.ex('PRINT USING F$;S$')
            out = r[2]
            if r[0] == 'ok' and out.endswith(b'\r\n'):
                out = out[:-2]
            elif r[0] == 'ok':
                r = ('other',) + r[1:]
        e['k'] = 'ok' if r[0] == 'ok' else ('err' if r[0] == 'err' else 'other')
        e['out'] = list(out)
        events.append(e)
        info.append({'field': field if len(field) < 12 else '\\..%d..\\' % len(field), 'value': repr(sv[:60]),
                     'key': {'kind': kind, 'len': len(sv), 'width': len(field), 'via_file': via_file}})
        ctx.count([field, list(sv)])
        classes['str' + kind] = classes.get('str' + kind, 0) + 1

    for i in range(n_str):
        guarded(lambda: str_event(i))
        if len(events) >= chunk:
            flush()
    flush()
    ctx.cov['string_field_events'] = n_str
    # ---- whole format strings: literals, escapes, several fields, values cycling through the fields ----
    def line_event(i):
        fmt, src, lvals = random_line(rng)
        d.setv('F$', fmt.encode('ascii'))
        text = 'PRINT USING F$;' + ''.join(x + rng.choice(';,') for x in src)[:-1]
        cur[0] = 'F$="%s":%s' % (fmt, text)
        r = d.ex(text)
        out = r[2]
        e = {'op': 'line', 'f': list(fmt.encode('ascii')), 'vals': lvals}
        if r[0] == 'ok' and out.endswith(b'\r\n'):
            e['k'], e['out'] = 'ok', list(out[:-2])
        else:
            e['k'], e['out'] = ('err' if r[0] == 'err' else 'other'), list(out[:80])
        events.append(e)
        info.append({'field': fmt, 'value': ' ; '.join(src), 'key': {'nvals': len(src)}})
        ctx.count([fmt, src])
        classes['line'] = classes.get('line', 0) + 1

    for i in range(n_line):
        guarded(lambda: line_event(i))
        if len(events) >= chunk:
            flush()
    flush()
    ctx.cov['format_string_events'] = n_line
    d.s.close()
    settle()

    ctx.cov['event_classes'] = dict(sorted(classes.items()))
    ctx.cov['internal_errors'] = internal[0]
    ctx.cov['impl_and_tlc_wall_s'] = round(time.time() - t0, 1)
    ctx.assumptions += ['TLC evaluates PrintUsing.tla correctly (parser and digit operators cross-checked by PrintUsing_MC)',
                        'MKS$/MKD$ return the stored bytes of the value (C03); their exact decimal expansion is computed with '
                        'Python integers', 'the console output stream shows the characters PRINT wrote (numeric texts are ASCII)']
