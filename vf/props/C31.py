"""C31 - primitive geometry. Spec Geometry.tla; oracle self-check Geometry_MC; trace spec C31_Trace."""
import time
from .. import gfx, core

LEVEL = 'exploration'
META = {
    'technique': 'TLA+ predicates (Geometry.tla) evaluated by TLC on the changed-pixel sets of real drawing statements; '
                 'predicates self-checked exhaustively on a small grid (Geometry_MC)',
    'text': 'In every graphics mode of every adapter (CGA, EGA, EGA-64k, EGA-mono, VGA, Hercules, Olivetti, PCjr, Tandy) PSET/PRESET, '
            'solid LINE, LINE ,B, LINE ,BF, GET/PUT PSET, PUT with every verb and PUT XOR twice are executed on a real Session on '
            'random screen contents that differ from the drawing attribute everywhere; the screen is read back through '
            'Session.get_pixels() before/after and the set of changed pixels (with their new attributes) is judged by TLC with '
            'PsetOK / LineOK / BoxOK / BoxFillOK / PutOK of Geometry.tla. Geometry_MC proves on every pixel set of a 4x4 grid that '
            'the linear path form used for recorded lines equals the literal statement (cardinality, endpoints, 8-connected).',
    'note': 'Trusted: TLC, JSON plumbing, the pixel diff. Input-quantified property: sampled (boundary-dense + random), not exhaustive. '
            'Line patterns (styles), STEP forms, float coordinates, WINDOW and clipping are outside this property (clipping: C30).',
}
META['text'] += ' Graphics statements that are refused (degenerate or out-of-range VIEW, degenerate WINDOW, invalid DRAW, oversized GET) are interleaved; the primitives after them are judged as on any unclipped screen.'


def line_order(px, x0, y0, x1, y1):
    """Witness ordering for LinePathOK: along the major axis from (x0,y0) to (x1,y1)."""
    if abs(x1 - x0) >= abs(y1 - y0):
        s = 1 if x1 >= x0 else -1
        return sorted(px, key=lambda p: (s * p[0], p[1]))
    s = 1 if y1 >= y0 else -1
    return sorted(px, key=lambda p: (s * p[1], p[0]))


class ModeRun(object):
    def __init__(self, ctx, adapter, nr, events):
        self.ctx, self.events = ctx, events
        self.rng = ctx.rng
        self.g = gfx.GSess(adapter)
        self.ok = self.g.screen(nr)[0] == 'ok' and not self.g.text
        self.tag = '%s/%d' % (adapter, nr)
        if self.ok:
            self.g.ex('DIM A%(2200)')
        self.noise = {}

    # ---- background --------------------------------------------------------
    def background(self):
        """Random content avoiding the reserved drawing attributes; returns them."""
        g, rng = self.g, self.rng
        n = g.nattr
        if n == 2:
            c = rng.randint(0, 1)
            self.draw, self.bgs = [c], [1 - c]
        else:
            cols = list(range(n))
            rng.shuffle(cols)
            k = 1 if n == 4 else rng.randint(1, 3)
            self.draw, self.bgs = cols[:k], cols[k:]
        self.b = self.bgs[0]
        g.ex('LINE (0,0)-(%d,%d),%d,BF' % (g.W - 1, g.H - 1, self.b))
        if len(self.bgs) > 1:
            for _ in range(rng.randint(2, 7)):
                x0, x1 = sorted(rng.randint(0, g.W - 1) for _ in range(2))
                y0, y1 = sorted(rng.randint(0, g.H - 1) for _ in range(2))
                g.ex('LINE (%d,%d)-(%d,%d),%d,%s' % (x0, y0, x1, y1, rng.choice(self.bgs), rng.choice(['BF', 'BF', 'B'])))
            for _ in range(rng.randint(0, 6)):
                g.ex('LINE (%d,%d)-(%d,%d),%d' % (rng.randint(0, g.W - 1), rng.randint(0, g.H - 1), rng.randint(0, g.W - 1),
                                                 rng.randint(0, g.H - 1), rng.choice(self.bgs)))
        self.img = g.visible()

    def restore(self, x0, y0, x1, y1):
        g = self.g
        g.ex('LINE (%d,%d)-(%d,%d),%d,BF' % (max(0, x0), max(0, y0), min(g.W - 1, x1), min(g.H - 1, y1), self.b))
        self.img = g.visible()

    def coord(self, m):
        r = self.rng.random()
        if r < 0.12:
            return self.rng.choice([0, m - 1, 1, m - 2])
        return self.rng.randint(0, m - 1)

    def stmt(self, text):
        r = self.g.ex(text)
        after = self.g.visible()
        d = gfx.diff(self.img, after, self.g.W)
        self.img = after
        return r, d

    def emit(self, e, stmt, r):
        e['stmt'] = stmt
        e['mode'] = self.tag
        if r[0] != 'ok':
            e['fail'] = [r[0], r[1]]
        self.events.append(e)

    # ---- refused statements (history) --------------------------------------
    def refused(self):
        """A graphics statement that is refused (Illegal function call) must leave the screen unclipped and untransformed: the
        primitives after it are judged like all others (round-2 seeded change C31b kept the clip rectangle of a refused VIEW)."""
        g, rng = self.g, self.rng
        x, y = rng.randint(1, g.W - 2), rng.randint(1, g.H - 2)
        x2, y2 = rng.randint(1, g.W - 2), rng.randint(1, g.H - 2)
        st = rng.choice(['VIEW (%d,%d)-(%d,%d)' % (x, y, x, y2), 'VIEW (%d,%d)-(%d,%d)' % (x, y, x2, y),
                         'VIEW SCREEN (%d,%d)-(%d,%d)' % (x, y, x, y2), 'VIEW (%d,%d)-(%d,%d),%d,%d' % (x, y, x2, y, self.draw[0], self.draw[0]),
                         'VIEW (%d,5)-(%d,50)' % (g.W + 10, g.W + 50), 'VIEW SCREEN (5,%d)-(50,%d)' % (g.H + 10, g.H + 70),
                         'WINDOW (1,1)-(1,5)', 'WINDOW SCREEN (2,3)-(7,3)', 'DRAW "S0"', 'DRAW "S256"', 'DRAW "A4"',
                         'GET (0,0)-(%d,%d),A%%' % (g.W - 1, g.H - 1)])
        r = g.ex(st)
        self.noise[r[0]] = self.noise.get(r[0], 0) + 1
        if r[0] != 'err':
            raise core.MachineryError('the statement %r was expected to be refused in %s but gave %r' % (st, self.tag, r[:2]))
        # the error message was written over the graphics screen: repaint
        self.background()

    # ---- primitives --------------------------------------------------------
    def pset(self):
        g, rng = self.g, self.rng
        x, y = self.coord(g.W), self.coord(g.H)
        k = rng.random()
        if k < 0.7:
            c = rng.choice(self.draw)
            st = 'PSET (%d,%d),%d' % (x, y, c)
        elif k < 0.85:
            c = rng.choice(self.draw)
            st = 'PRESET (%d,%d),%d' % (x, y, c)
        else:
            # default attribute (foreground for PSET, 0 for PRESET): only usable where it differs from the screen
            st = rng.choice(['PSET', 'PRESET']) + ' (%d,%d)' % (x, y)
            c = -1
        old = self.img[y * g.W + x]
        r, d = self.stmt(st)
        pv = g.ev('POINT(%d,%d)' % (x, y))
        if c == -1 and not d and pv[0] == 'ok' and pv[1] == old:
            return      # default attribute equals the pixel already there: not a case of the property
        e = {'op': 'pset', 'x': x, 'y': y, 'c': c, 'px': [list(p) for p in d[:50]],
             'point': pv[1] if pv[0] == 'ok' else -99}
        self.emit(e, st, r)
        self.restore(x, y, x, y)

    def line(self, maxlen):
        g, rng = self.g, self.rng
        x0, y0 = self.coord(g.W), self.coord(g.H)
        k = rng.random()
        if k < 0.15:
            x1, y1 = x0 + rng.randint(-3, 3), y0 + rng.randint(-3, 3)
        elif k < 0.3:
            # exactly / nearly diagonal, horizontal, vertical
            n = rng.randint(1, 120)
            sx, sy = rng.choice([(1, 1), (1, -1), (-1, 1), (-1, -1), (1, 0), (0, 1), (-1, 0), (0, -1)])
            x1, y1 = x0 + sx * n + rng.choice([0, 0, 1, -1]), y0 + sy * n + rng.choice([0, 0, 1, -1])
        else:
            x1, y1 = self.coord(g.W), self.coord(g.H)
        x1 = min(g.W - 1, max(0, x1)); y1 = min(g.H - 1, max(0, y1))
        if max(abs(x1 - x0), abs(y1 - y0)) + 1 > maxlen:
            return
        c = rng.choice(self.draw)
        st = 'LINE (%d,%d)-(%d,%d),%d' % (x0, y0, x1, y1, c)
        r, d = self.stmt(st)
        e = {'op': 'line', 'x0': x0, 'y0': y0, 'x1': x1, 'y1': y1, 'c': c,
             'px': [list(p) for p in line_order(d, x0, y0, x1, y1)[:1500]]}
        self.emit(e, st, r)
        self.restore(min(x0, x1), min(y0, y1), max(x0, x1), max(y0, y1))

    def box(self, fill):
        g, rng = self.g, self.rng
        x0, y0 = self.coord(g.W), self.coord(g.H)
        w, h = rng.choice([0, 1, 2, rng.randint(0, 63), rng.randint(0, 20)]), rng.choice([0, 1, 2, rng.randint(0, 63), rng.randint(0, 20)])
        x1 = x0 + rng.choice([-1, 1]) * w
        y1 = y0 + rng.choice([-1, 1]) * h
        x1 = min(g.W - 1, max(0, x1)); y1 = min(g.H - 1, max(0, y1))
        c = rng.choice(self.draw)
        st = 'LINE (%d,%d)-(%d,%d),%d,%s' % (x0, y0, x1, y1, c, 'BF' if fill else 'B')
        r, d = self.stmt(st)
        e = {'op': 'boxf' if fill else 'box', 'x0': x0, 'y0': y0, 'x1': x1, 'y1': y1, 'c': c,
             'px': [list(p) for p in d[:5000]]}
        self.emit(e, st, r)
        self.restore(min(x0, x1), min(y0, y1), max(x0, x1), max(y0, y1))

    def sprite_rect(self, maxw, maxh):
        g, rng = self.g, self.rng
        wf = 2 if g.modename == '640x200x4' else 1        # Tandy/PCjr SCREEN 6 GETs twice the stated width
        w = rng.choice([1, 2, 7, 8, 9, 15, 16, 17, rng.randint(1, maxw)])
        w = max(1, min(w, maxw) // wf)
        h = rng.choice([1, 2, 3, rng.randint(1, maxh)])
        x0 = rng.randint(0, g.W - w * wf)
        y0 = rng.randint(0, g.H - h)
        return x0, y0, w, h, wf

    def getput(self):
        """GET then PUT ,PSET at the same place; then PUT with a random verb somewhere else; then XOR twice."""
        g, rng = self.g, self.rng
        W = g.W
        # make the source interesting: draw a few things in any attribute inside it
        x0, y0, w, h, wf = self.sprite_rect(64, 64 if not self.ctx.quick() else 40)
        for _ in range(rng.randint(1, 4)):
            g.ex('LINE (%d,%d)-(%d,%d),%d%s' % (rng.randint(x0, x0 + w * wf - 1), rng.randint(y0, y0 + h - 1),
                                                 rng.randint(x0, x0 + w * wf - 1), rng.randint(y0, y0 + h - 1),
                                                 rng.randint(0, g.nattr - 1), rng.choice(['', '', ',BF', ',B'])))
        if rng.random() < 0.5:
            g.ex('CIRCLE (%d,%d),%d,%d' % (x0 + w * wf // 2, y0 + h // 2, rng.randint(1, 1 + max(w * wf, h) // 2), rng.randint(0, g.nattr - 1)))
        self.img = g.visible()
        x1, y1 = x0 + w - 1, y0 + h - 1
        if rng.random() < 0.5:
            get = 'GET (%d,%d)-(%d,%d),A%%' % (x0, y0, x1, y1)
        else:
            get = 'GET (%d,%d)-(%d,%d),A%%' % (x1, y1, x0, y0)
        r1 = g.ex(get)
        put = 'PUT (%d,%d),A%%,PSET' % (x0, y0)
        r2, d = self.stmt(put)
        e = {'op': 'getput', 'n': len(d), 'rect': [x0, y0, x0 + w * wf - 1, y1]}
        self.emit(e, get + ':' + put, r1 if r1[0] != 'ok' else r2)
        if r1[0] != 'ok' or r2[0] != 'ok':
            return
        sw = w * wf
        sprite = gfx.rect(self.img, W, x0, y0, x0 + sw - 1, y1)
        # PUT elsewhere with a verb
        for verb in (['PSET', 'PRESET', 'AND', 'OR', 'XOR', ''] if not self.ctx.quick() else [rng.choice(['PSET', 'PRESET', 'AND', 'OR', 'XOR', ''])]):
            dx, dy = rng.randint(0, W - sw), rng.randint(0, g.H - h)
            before = gfx.rect(self.img, W, dx, dy, dx + sw - 1, dy + h - 1)
            st = 'PUT (%d,%d),A%%%s' % (dx, dy, ',' + verb if verb else '')
            r, d = self.stmt(st)
            after = gfx.rect(self.img, W, dx, dy, dx + sw - 1, dy + h - 1)
            outside = sum(1 for (x, y, v) in d if not (dx <= x < dx + sw and dy <= y < dy + h))
            e = {'op': 'put', 'verb': (verb or 'XOR').lower(), 'before': before, 'sprite': sprite, 'after': after,
                 'bpp': g.bpp, 'outside': outside}
            self.emit(e, get + ':' + st, r)
            # sprite source may have been overwritten: it stays what GET captured
        # XOR twice
        dx, dy = rng.randint(0, W - sw), rng.randint(0, g.H - h)
        orig = self.img
        before = gfx.rect(orig, W, dx, dy, dx + sw - 1, dy + h - 1)
        st = 'PUT (%d,%d),A%%%s' % (dx, dy, rng.choice(['', ',XOR']))
        r, d = self.stmt(st)
        mid = gfx.rect(self.img, W, dx, dy, dx + sw - 1, dy + h - 1)
        outside = sum(1 for (x, y, v) in d if not (dx <= x < dx + sw and dy <= y < dy + h))
        rb, d2 = self.stmt(st)
        e = {'op': 'xor2', 'before': before, 'sprite': sprite, 'mid': mid, 'bpp': g.bpp,
             'n': len(gfx.diff(orig, self.img, W)), 'outside': outside}
        self.emit(e, get + ':' + st + ':' + st, r if r[0] != 'ok' else rb)

    def close(self):
        self.g.close()


def run(ctx):
    ctx.cov['rule'] = ('one event per drawing statement (or GET/PUT group) executed on a real Session, judged by TLC with '
                       'Geometry.tla; distinct by (mode, statement text); non-trivial = all (each evaluates a predicate on an observed pixel set)')
    ctx.model_check('Geometry_MC', cfg=ctx.pick('Geometry_MC.cfg', 'Geometry_MC_big.cfg'), require_actions=False, workers=4)
    t0 = time.time()
    events = []
    rounds = ctx.pick(2, 8)
    per = ctx.pick(dict(pset=6, line=9, box=3, boxf=3, gp=2, refused=2), dict(pset=20, line=40, box=10, boxf=10, gp=5, refused=5))
    modes_done = []
    nrefused = 0
    for adapter, nr in gfx.ALL_MODES:
        m = ModeRun(ctx, adapter, nr, events)
        if not m.ok:
            m.close()
            raise core.MachineryError('cannot enter SCREEN %d on %s' % (nr, adapter))
        modes_done.append(m.tag + ':' + m.g.modename)
        for _ in range(rounds):
            m.background()
            todo = (['pset'] * per['pset'] + ['line'] * per['line'] + ['box'] * per['box'] + ['boxf'] * per['boxf'] + ['gp'] * per['gp']
                    + ['refused'] * per['refused'])
            ctx.rng.shuffle(todo)
            for t in todo:
                if t == 'pset':
                    m.pset()
                elif t == 'line':
                    m.line(800)
                elif t == 'box':
                    m.box(False)
                elif t == 'boxf':
                    m.box(True)
                elif t == 'refused':
                    m.refused()
                else:
                    m.getput()
                    m.background()      # GET/PUT cases paint with every attribute: start over
        nrefused += m.noise.get('err', 0)
        m.close()
    ctx.cov['refused_statements_interleaved'] = nrefused
    ctx.cov['impl_wall_s'] = round(time.time() - t0, 1)
    ctx.cov['modes'] = modes_done
    ops = {}
    for e in events:
        ops[e['op']] = ops.get(e['op'], 0) + 1
        ctx.count([e['mode'], e['stmt']])
    ctx.cov['events_by_op'] = ops
    for e in (events[0], events[len(events) // 3], events[-1]):
        ctx.sample({k: (v if not isinstance(v, list) or len(v) < 12 else '%d items' % len(v)) for k, v in e.items()})
    # statements of the fragment must succeed
    for e in events:
        if 'fail' in e:
            ctx.reject('C31 %s: %s failed with %s' % (e['mode'], e['stmt'], e['fail']),
                       key={'clause': 'statement_failed', 'op': e['op'], 'kind': e['fail'][0], 'mode': e['mode']}, data=e['stmt'])
    keep = [{k: v for k, v in e.items() if k not in ('stmt', 'mode', 'fail', 'rect')} for e in events]
    verdicts = []
    CH = 4000
    for i in range(0, len(keep), CH):
        verdicts += [(i + j, c) for (j, c) in ctx.validate('C31_Trace', keep[i:i + CH])]
    ctx.cov['traces_validated_against_impl'] += len(modes_done)
    for (i, clause) in verdicts:
        e = events[i - 1]
        small = {k: (v if not isinstance(v, list) or len(v) < 40 else v[:40] + ['...']) for k, v in e.items()}
        ctx.reject('C31 %s in %s: %s' % (clause, e['mode'], e['stmt']),
                   key={'clause': clause, 'op': e['op'], 'mode': e['mode'], 'modename': e['mode'].split('/')[0]}, data=small)
    if len(events) < 500:
        raise core.MachineryError('vacuous: only %d events' % len(events))
    ctx.assumptions += ['TLC evaluates Geometry.tla correctly (witness form self-checked against the literal statement by Geometry_MC)',
                        'the screen content before each statement differs from the drawing attribute (constructed by the driver; '
                        'a violation of this assumption could only cause a rejection, never an acceptance)']
