"""Shared driver for the Interp.tla family (C19, C21, C22, C38, C40): generate programs in the fragment, run them
on the real interpreter with statement-boundary logging, validate the traces with Interp_Trace.tla."""
import json
from . import core
from . import interp_gen as G


def family_programs(ctx, f, workers=2):
    """Model-check the declarative family f and return the programs TLC printed."""
    import re
    r = ctx.model_check('Interp_MC_' + f, cfg='Interp_MC_' + f + '.cfg', workers=workers, require_actions=False)
    progs = []
    for m in re.finditer(r'^<<"PROGRAM", "(.*)">>\s*$', r['out'], re.M):
        progs.append(json.loads(m.group(1).encode().decode('unicode_escape')))
    if not progs:
        raise core.MachineryError('family %s printed no programs' % f)
    return progs


def run_model_families(ctx, families, workers=2):
    """Spec -> code: model-check each declarative family (Interp_MC_<f>), take the programs TLC printed and run every
    one of them on the real interpreter; the traces are validated by Interp_Trace like any other."""
    import re
    progs = []
    for f in families:
        r = ctx.model_check('Interp_MC_' + f, cfg='Interp_MC_' + f + '.cfg', workers=workers, require_actions=False)
        n0 = len(progs)
        for m in re.finditer(r'^<<"PROGRAM", "(.*)">>\s*$', r['out'], re.M):
            progs.append(json.loads(m.group(1).encode().decode('unicode_escape')))
        if len(progs) == n0:
            raise core.MachineryError('family %s printed no programs' % f)
        ctx.cov.setdefault('model_family_programs', {})[f] = len(progs) - n0
    runner = G.Runner()
    events, texts, owner = [], [], []
    for i, prog in enumerate(progs):
        prog.pop('tag', None)
        text = G.render(prog)
        texts.append(text)
        r = runner.load(text)
        if r[0] != 'ok':
            raise core.MachineryError('family program rejected at entry: %r %r' % (r, text))
        ev = runner.run(i + 1, prog['vars'])
        owner += [i] * len(ev)
        events += ev
        if runner.count % 80 == 0:
            runner.close()
            runner = G.Runner()
    runner.close()
    slim = [{k: v for k, v in e.items() if k not in ('raw', 'detail')} for e in events]
    verdicts = ctx.validate('Interp_Trace', slim, header={'progs': progs}, timeout=3000)
    ctx.cov['traces_validated_against_impl'] += len(progs)
    seen = set()
    for (i, clause) in verdicts:
        pi = owner[i - 1]
        if pi in seen:
            continue
        seen.add(pi)
        e = events[i - 1]
        first = max(j for j in range(i) if events[j]['a'] == 'run')
        ctx.reject('%s model-family program: %s at event %s' % (ctx.pid, clause, {k: e[k] for k in e if k != 'vars'}),
                   key={'clause': clause, 'arm': 'family'}, data={'program': texts[pi], 'events': events[first:i + 1][-14:]})
    for t in texts:
        ctx.count(t)
    return len(progs)


def run_family(ctx, profile, nprog, size=14, schedules=None, batch=250, clause_props=None, tag='', focus=None, direct=0.0):
    """Returns dict of statistics. profile: set of statement families."""
    rng = ctx.rng
    stats = {'programs': 0, 'boundaries': 0, 'ended': {}, 'fragment_discards': 0, 'cut': 0}
    done = 0
    while done < nprog:
        n = min(batch, nprog - done)
        runner = G.Runner()
        progs, texts, events, owner = [], [], [], []
        for i in range(n):
            g = G.Gen(rng, profile, focus=focus)
            prog, text = g.program(size=size)
            r = runner.load(text)
            if r[0] != 'ok':
                ctx.reject('%s program text rejected at entry: %r' % (ctx.pid, r), key={'clause': 'entry'}, data=text)
                continue
            progs.append(prog)
            texts.append(text)
            sched = schedules(rng, prog) if schedules else None
            ev = runner.run(len(progs), prog['vars'], schedule=sched)
            if direct and ev[-1].get('k') in ('end', 'error', 'break') and rng.random() < direct:
                # a line typed at the prompt after the run: error trap and event traps are still armed
                dl = G.direct_line(rng)
                ds = {}
                for _ in range(rng.randint(0, 3)):
                    ds.setdefault(rng.randint(1, 8), []).append(rng.choice([1, 2, 3, 4]))
                ev += runner.run_direct(dl, prog['vars'], schedule=ds if 'trap' in profile else None)
                stats['direct_lines'] = stats.get('direct_lines', 0) + 1
            for e in ev:
                owner.append(len(progs) - 1)
            events += ev
            if runner.count % 60 == 0:
                runner.close()
                runner = G.Runner()
        runner.close()
        done += n
        slim = [{k: v for k, v in e.items() if k not in ('raw', 'detail')} for e in events]
        verdicts = ctx.validate('Interp_Trace', slim, header={'progs': progs}, timeout=3000)
        ctx.cov['traces_validated_against_impl'] += len(progs)
        stats['programs'] += len(progs)
        stats['programs_with_deftype_changes'] = stats.get('programs_with_deftype_changes', 0) + sum(
            1 for q in progs if any(st.get('op') == 'DEFTYPE' for ln in q['lines'] for st in ln['s']))
        bad = {}
        for (i, clause) in verdicts:
            bad[owner[i - 1]] = (i, clause)
        for e in events:
            if e['a'] == 'b':
                stats['boundaries'] += 1
            elif e['a'] == 'end':
                kk = e['k'] + (str(e['code']) if e['k'] == 'error' else '')
                stats['ended'][kk] = stats['ended'].get(kk, 0) + 1
                if e['k'] == 'cut':
                    stats['cut'] += 1
                if e['k'] == 'internal':
                    ctx.reject('%s internal error: %s' % (ctx.pid, e.get('detail')), key={'clause': 'internal'},
                               data={'program': texts[owner[events.index(e)]]})
        for pi, (i, clause) in sorted(bad.items()):
            if clause == 'outside_fragment':
                stats['fragment_discards'] += 1
                continue
            e = events[i - 1]
            first = max(j for j in range(i) if events[j]['a'] == 'run')
            ctx.reject('%s %s at event %s' % (ctx.pid, clause, {k: e[k] for k in e if k not in ('vars',)}),
                       key={'clause': clause, 'end_kind': e.get('k'), 'code': e.get('code')},
                       data={'program': texts[pi], 'events': events[first:i + 1][-14:], 'vars': progs[pi]['vars']})
        for pi in range(min(2, len(texts))):
            ctx.sample({'program': texts[pi][:12], 'n_events': sum(1 for o in owner if o == pi)}, limit=3)
        for pi, prog in enumerate(progs):
            ctx.count(texts[pi], nontrivial=True)
    ctx.cov['evaluations'] = stats['boundaries']
    ctx.cov['interp_stats' + tag] = stats
    return stats
