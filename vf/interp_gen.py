"""Program generator / renderer / runner for the Interp.tla fragment (C19, C21, C22, C38, C40).

Programs are generated as the structured records Interp.tla executes ([lines, vars, ints]) and rendered to
BASIC text for the real interpreter.  Nothing here evaluates a program: the expected behaviour comes only from
TLC running Interp.tla."""
import re
from .session import Sess, _MSG_RE

SVARS = ['A', 'B', 'C', 'D', 'I', 'J']
IVARS = ['K%', 'L%', 'M%', 'N%']
ALLVARS = SVARS + IVARS
BARE = [{'n': 'X', 'i': 'X%', 'f': 'X!'}, {'n': 'Y', 'i': 'Y%', 'f': 'Y!'}]
DTNAMES = ['X', 'Y', 'X', 'Y', 'X!', 'X%', 'Y!', 'Y%']
STRISH = ('S', 'T', 'S$', 'T$')        # names that are, or may be (DEFSTR), string variables
STRBASE = 500000
STRNAMES = ['S', 'S', 'S$', 'T$']


def abstract_value(v):
    """Value of a variable as Interp.tla sees it: numbers as integers, a string as 0 (empty) or STRBASE + the number its text carries."""
    if isinstance(v, bytes):
        m = re.search(br'-?\d+', v)
        return 0 if not v else STRBASE + (int(m.group(0)) if m else 0)
    if isinstance(v, float):
        return int(v) if v == int(v) and abs(v) < 2 ** 30 else 999999999
    return v


def C(v):
    return {'k': 'c', 'v': v}


def V(n):
    return {'k': 'v', 'n': n}


def B(o, a, b):
    return {'k': 'b', 'o': o, 'a': a, 'b': b}


def U(o, a):
    return {'k': 'u', 'o': o, 'a': a}


def rexpr(e):
    k = e['k']
    if k == 'c':
        return '(%d)' % e['v'] if e['v'] < 0 else '%d' % e['v']
    if k == 'v':
        return e['n']
    if k == 'err':
        return 'ERR'
    if k == 'erl':
        return 'ERL'
    if k == 'u':
        return '(%s%s)' % ('-' if e['o'] == '-' else 'NOT ', rexpr(e['a']))
    if k == 'fn':
        return e['f'] + ('(%s)' % ','.join(rexpr(a) for a in e['args']) if e['args'] else '')
    o = e['o']
    return '(%s%s%s)' % (rexpr(e['a']), ' %s ' % o if o in ('MOD', 'AND', 'OR') else o, rexpr(e['b']))


TRAPSTMT = {1: 'KEY(1)', 2: 'KEY(2)', 3: 'PEN', 4: 'STRIG(0)'}
ONTRAP = {1: 'ON KEY(1) GOSUB %d', 2: 'ON KEY(2) GOSUB %d', 3: 'ON PEN GOSUB %d', 4: 'ON STRIG(0) GOSUB %d'}


def rstmt(st, rest=None):
    op = st['op']
    if op == 'LET':
        return '%s=%s' % (st['v'], rexpr(st['e']))
    if op == 'PRINT':
        if st['e'].get('k') == 'v' and st['e']['n'] in STRISH:
            return 'PRINT %s;" ";' % rexpr(st['e'])      # a string has no blanks of its own around it
        return 'PRINT %s;' % rexpr(st['e'])
    if op == 'FOR':
        s = 'FOR %s=%s TO %s' % (st['v'], rexpr(st['a']), rexpr(st['b']))
        if st.get('hasstep', True):
            s += ' STEP %s' % rexpr(st['c'])
        return s
    if op == 'NEXT':
        return 'NEXT ' + ','.join(st['vs']) if st['vs'] else 'NEXT'
    if op == 'WHILE':
        return 'WHILE %s' % rexpr(st['e'])
    if op in ('WEND', 'END', 'STOP'):
        return op
    if op in ('GOTO', 'GOSUB'):
        return '%s %d' % (op, st['n'])
    if op == 'RETURN':
        return 'RETURN %d' % st['n'] if st['n'] else 'RETURN'
    if op == 'ON':
        return 'ON %s %s %s' % (rexpr(st['e']), st['t'], ','.join(str(n) for n in st['ns']))
    if op == 'ONERR':
        return 'ON ERROR GOTO %d' % st['n']
    if op == 'RESUME':
        return {'0': 'RESUME', 'NEXT': 'RESUME NEXT', 'LINE': 'RESUME %d' % st['n']}[st['w']]
    if op == 'ERROR':
        return 'ERROR %s' % rexpr(st['e'])
    if op == 'READ':
        return 'READ ' + ','.join(st['vs'])
    if op == 'DATA':
        # (a non-numeric item is a text that carries its number: read into a string variable it is shown as that number)
        return 'DATA ' + ','.join(str(it['v']) if it['num'] else ('X%dY' % it['v'] if it['v'] > 0 else 'XY') for it in st['items'])
    if op == 'RESTORE':
        return 'RESTORE %d' % st['n'] if st['n'] else 'RESTORE'
    if op == 'TRAP':
        return '%s %s' % (TRAPSTMT[st['k']], st['c'])
    if op == 'ONTRAP':
        return ONTRAP[st['k']] % st['n']
    if op == 'CLEAR':
        return 'CLEAR'
    if op == 'RUN':
        return 'RUN %d' % st['n'] if st['n'] else 'RUN'
    if op == 'DEFFN':
        return 'DEF %s%s=%s' % (st['f'], '(%s)' % ','.join(st['ps']) if st['ps'] else '', rexpr(st['e']))
    if op == 'DEFTYPE':
        # DEFINT / DEFSNG for the first letters of the listed bare names (no other name of a program starts with them)
        return '%s %s' % ({'%': 'DEFINT', '!': 'DEFSNG', '$': 'DEFSTR'}[st['t']], ','.join(sorted(set(n[0] for n in st['ns']))))
    if op == 'REM':
        return "REM x:PRINT 99"
    raise ValueError(op)


def rline(line):
    """Render one program line; sets the 'col' flags."""
    out = ''
    stmts = line['s']
    i = 0
    first = True
    while i < len(stmts):
        st = stmts[i]
        if st['op'] == 'IF':
            st['col'] = True if 'col' not in st else st['col']
            txt = 'IF %s THEN ' % rexpr(st['e'])
            if st['tn']:
                txt += '%d' % st['tn']
            out += ('' if first else ':') + txt
            first = False
            # inline then-part: following statements up to ELSE marker (index ei) or end of line
            j = i + 1
            nocolon = not st['tn']
            while j < len(stmts):
                sj = stmts[j]
                if sj['op'] == 'ELSE':
                    sj['col'] = True
                    out += ' ELSE '
                    en = sj['n'] if 'n' in sj else st['en']       # ELSE <line>: on the ELSE itself (nested IFs) or on the only IF
                    if en:
                        out += '%d' % en
                    nocolon = not en
                    j += 1
                    continue
                if sj['op'] == 'IF':
                    # an IF nested in the THEN / ELSE part of the line
                    sj['col'] = not nocolon
                    out += ('' if nocolon else ':') + 'IF %s THEN ' % rexpr(sj['e']) + ('%d' % sj['tn'] if sj['tn'] else '')
                    nocolon = not sj['tn']
                    j += 1
                    continue
                sj['col'] = not nocolon
                out += ('' if nocolon else ':') + rstmt(sj)
                nocolon = False
                j += 1
            return out
        st['col'] = True
        out += ('' if first else ':') + rstmt(st)
        first = False
        i += 1
    return out


def render(prog):
    return ['%d %s' % (ln['n'], rline(ln)) for ln in prog['lines']]


def direct_line(rng):
    """A direct line (structured statements) for the Interp.tla fragment: typically raises an error."""
    pool = [
        lambda: {'op': 'ERROR', 'e': C(rng.choice([5, 6, 11, 53, 200]))},
        lambda: {'op': 'LET', 'v': rng.choice(IVARS), 'e': B('+', C(32767), V(rng.choice(ALLVARS)))},
        lambda: {'op': 'LET', 'v': rng.choice(SVARS), 'e': C(rng.choice([7, -1, 3]))},
        lambda: {'op': 'PRINT', 'e': V(rng.choice(ALLVARS))},
        lambda: {'op': 'PRINT', 'e': C(rng.choice([41, 42]))},
    ]
    n = rng.randint(1, 3)
    stmts = [rng.choice(pool)() for _ in range(n)]
    if rng.random() < 0.7:
        stmts.insert(rng.randint(0, len(stmts) - 1) if len(stmts) > 1 else 0, pool[0]())
    return stmts


class Gen(object):
    """Random structured programs inside the Interp.tla fragment."""

    def __init__(self, rng, profile, focus=None):
        self.r = rng
        self.focus = focus or {}
        self.p = profile          # set of families: 'ctl', 'err', 'data', 'trap', 'stray'
        self.lines = []
        self.n = 0
        self.subs = []            # line numbers of subroutines (filled when laid out)
        self.budget = 0
        self.fnsig = {}           # function name -> number of parameters (known to the generator so far)
        self.fndepth = 0
        # DEFINT / DEFSNG mode: bare names X, Y whose type changes while the program runs (with their twins X!, X%, Y!, Y%)
        self.dt = bool({'fn', 'reset'} & set(profile)) and rng.random() < 0.5
        self.names = ALLVARS + (DTNAMES if self.dt else [])
        # string mode: READ targets S (string under DEFSTR, single otherwise), S$, T$
        self.ds = 'data' in set(profile) and rng.random() < 0.4

    # ---- expressions ----
    def small(self):
        return self.r.choice([0, 1, 2, 3, -1, -2, 5, 7, 10])

    def atom(self):
        if 'fn' in self.p and self.fnsig and self.r.random() < 0.3 and self.fndepth < 2:
            f = self.r.choice(sorted(self.fnsig))
            self.fndepth += 1
            e = {'k': 'fn', 'f': f, 'args': [self.r.choice([self.atom(), C(self.r.choice([0, 1, 5, -3, 32767, 40000]))])
                                              for _ in range(self.fnsig[f])]}
            self.fndepth -= 1
            return e
        if self.r.random() < 0.55:
            return V(self.r.choice(self.names))
        return C(self.small())

    def expr(self, depth=2):
        r = self.r.random()
        if depth == 0 or r < 0.35:
            return self.atom()
        if r < 0.85:
            o = self.r.choice(['+', '-', '+', '-', '*', '=', '<', '>', '<>', '<=', '>=', 'AND', 'OR', 'MOD', '\\'])
            a, b = self.expr(depth - 1), self.expr(depth - 1)
            if o in ('MOD', '\\'):
                # divisor: a non-zero constant unless the error family is on
                if 'err' not in self.p or self.r.random() < 0.8:
                    b = C(self.r.choice([1, 2, 3, -2, 7]))
            if o == '*':
                b = C(self.r.choice([0, 1, 2, -1, 3]))
            return B(o, a, b)
        return U(self.r.choice(['-', 'NOT']), self.expr(depth - 1))

    def cond(self):
        return B(self.r.choice(['=', '<', '>', '<>', '<=', '>=']), self.atom(), self.atom())

    # ---- layout ----
    def line(self, stmts):
        self.n += self.r.choice([1, 2, 5, 10])
        ln = {'n': self.n, 's': stmts}
        self.lines.append(ln)
        return ln

    def simple(self):
        r = self.r.random()
        if self.dt and r < 0.12:
            return {'op': 'DEFTYPE', 't': self.r.choice('%%!'), 'ns': [self.r.choice(['X', 'Y'])]}
        if r < 0.45:
            v = self.r.choice(self.names)
            return {'op': 'LET', 'v': v, 'e': self.expr()}
        return {'op': 'PRINT', 'e': self.expr(1)}

    def block(self, depth, targets):
        """Emit a sequence of lines; targets: line numbers that may be jumped to (placeholders resolved later)."""
        n = self.r.randint(1, 4 if depth else 6)
        for _ in range(n):
            self.budget -= 1
            if self.budget < 0:
                return
            fam = self.pick_family(depth)
            if fam == 'simple':
                k = self.r.randint(1, 3)
                self.line([self.simple() for _ in range(k)])
            elif fam == 'for':
                self.for_block(depth, targets)
            elif fam == 'while':
                self.while_block(depth, targets)
            elif fam == 'if':
                self.if_stmt(depth, targets)
            elif fam == 'gosub':
                self.line([{'op': 'GOSUB', 'n': ('sub', self.r.randint(0, 2))}] + ([self.simple()] if self.r.random() < 0.5 else []))
            elif fam == 'on':
                k = self.r.randint(1, 3)
                self.line([{'op': 'ON', 'e': self.r.choice([self.atom(), C(self.r.randint(0, 4))]),
                            't': self.r.choice(['GOTO', 'GOSUB']),
                            'ns': [('sub', self.r.randint(0, 2)) for _ in range(k)], 'fix_on': True}])
            elif fam == 'err':
                self.err_stmt()
            elif fam == 'data':
                self.data_stmt()
            elif fam == 'trap':
                self.trap_stmt()
            elif fam == 'reset':
                pre = [self.simple()] if self.r.random() < 0.4 else []
                post = [self.simple()] if self.r.random() < 0.4 else []
                if self.r.random() < 0.75:
                    self.line(pre + [{'op': 'CLEAR'}] + post)
                else:
                    self.line(pre + [{'op': 'RUN', 'n': self.r.choice([('tail', 0), ('tail', 0), 64000])}])
            elif fam == 'stray':
                self.line([self.r.choice([{'op': 'NEXT', 'vs': []}, {'op': 'WEND'}, {'op': 'RETURN', 'n': 0},
                                          {'op': 'NEXT', 'vs': ['I']}, {'op': 'GOTO', 'n': 64000},
                                          {'op': 'GOSUB', 'n': 64000},      # fails: must leave no return record behind
                                          {'op': 'ON', 'e': C(1), 't': 'GOSUB', 'ns': [64000]}])])

    WEIGHTS = {'reset': 0, 'simple': 30, 'for': 20, 'while': 8, 'if': 12, 'gosub': 8, 'on': 6, 'err': 0, 'data': 0, 'trap': 0, 'stray': 0}

    def pick_family(self, depth):
        if depth >= 3:
            return 'simple'
        w = dict(self.WEIGHTS)
        for f in ('err', 'data', 'trap', 'reset'):
            if f in self.p:
                w[f] = 8
        if 'stray' in self.p:
            w['stray'] = 2
        for f, x in self.focus.items():
            w[f] = x
        tot = sum(w.values())
        x = self.r.random() * tot
        for f, v in w.items():
            x -= v
            if x < 0:
                return f
        return 'simple'

    def for_block(self, depth, targets):
        cv = self.r.choice(['I', 'J', 'K%', 'L%'])
        step = self.r.choice([1, 1, 1, 2, 3, -1, -2, 1])
        a = self.r.choice([C(self.r.randint(-3, 4)), self.atom()])
        n = self.r.randint(-1, 4)
        if a['k'] == 'c':
            b = C(a['v'] + step * n + self.r.choice([0, 0, 1, -1]))
        else:
            b = self.r.choice([C(self.r.randint(-3, 6)), self.atom()])
        if 'err' in self.p and self.r.random() < 0.06 and cv.endswith('%'):
            a, b, step = C(32760), C(32767), self.r.choice([3, 5])      # integer counter overflow at NEXT
        hasstep = step != 1 or self.r.random() < 0.3
        head = {'op': 'FOR', 'v': cv, 'a': a, 'b': b, 'c': C(step), 'hasstep': hasstep}
        if self.r.random() < 0.25 and depth < 2:
            # single-line loop
            self.line([head, self.simple(), {'op': 'NEXT', 'vs': self.r.choice([[], [cv]])}])
            return
        self.line([head] + ([self.simple()] if self.r.random() < 0.3 else []))
        self.block(depth + 1, targets)
        if self.r.random() < 0.12 and 'stray' in self.p:
            # jump out of the loop over the NEXT
            self.line([{'op': 'IF', 'e': self.cond(), 'tn': ('after', 0), 'en': 0, 'ei': 0}])
        self.line([{'op': 'NEXT', 'vs': self.r.choice([[], [cv], [cv]])}])

    def while_block(self, depth, targets):
        cv = self.r.choice(['C', 'D', 'M%'])
        lim = self.r.randint(0, 4)
        self.line([{'op': 'LET', 'v': cv, 'e': C(0)}])
        self.line([{'op': 'WHILE', 'e': B('<', V(cv), C(lim))}])
        self.line([{'op': 'LET', 'v': cv, 'e': B('+', V(cv), C(1))}])
        self.block(depth + 1, targets)
        if self.r.random() < 0.15 and 'stray' in self.p:
            # jump out of the loop over the WEND: its record stays behind until an enclosing WEND (or nothing) drops it
            self.line([{'op': 'IF', 'e': self.cond(), 'tn': ('after', 0), 'en': 0, 'ei': 0}])
        self.line([{'op': 'WEND'}])

    def if_stmt(self, depth, targets):
        r = self.r.random()
        c = self.cond()
        if self.r.random() < 0.18:
            # IFs nested on one line, with one ELSE per IF or a dangling one (it belongs to the inner IF)
            inner = [{'op': 'IF', 'e': self.cond(), 'tn': 0, 'en': 0, 'ei': 0}, self.simple(), {'op': 'ELSE', 'n': 0}, self.simple()]
            line = [{'op': 'IF', 'e': c, 'tn': 0, 'en': 0, 'ei': 0}] + inner
            if self.r.random() < 0.6:
                line += [{'op': 'ELSE', 'n': self.r.choice([0, 0, ('after', 1)])}]
                if not line[-1]['n']:
                    line.append(self.simple())
            self.line(line)
            return
        if r < 0.3:
            self.line([{'op': 'IF', 'e': c, 'tn': ('after', 0), 'en': 0, 'ei': 0}])
        elif r < 0.45:
            self.line([{'op': 'IF', 'e': c, 'tn': ('after', 0), 'en': ('after', 1), 'ei': 2}, {'op': 'ELSE'}])
        elif r < 0.75:
            k = self.r.randint(1, 2)
            self.line([{'op': 'IF', 'e': c, 'tn': 0, 'en': 0, 'ei': 0}] + [self.simple() for _ in range(k)])
        else:
            k1, k2 = self.r.randint(1, 2), self.r.randint(1, 2)
            th = [self.simple() for _ in range(k1)]
            if self.r.random() < 0.3:
                th[-1] = {'op': 'GOSUB', 'n': ('sub', 0)}
            self.line([{'op': 'IF', 'e': c, 'tn': 0, 'en': 0, 'ei': 1 + k1 + 1}] + th + [{'op': 'ELSE'}] +
                      [self.simple() for _ in range(k2)])

    def err_stmt(self):
        r = self.r.random()
        if r < 0.35:
            self.line([{'op': 'ERROR', 'e': C(self.r.choice([1, 2, 5, 6, 11, 50, 53, 200, 255, 0, 256]))}]
                      + ([self.simple()] if self.r.random() < 0.4 else []))
        elif r < 0.55:
            self.line([self.simple(), {'op': 'LET', 'v': self.r.choice(IVARS), 'e': B('+', C(32767), self.atom())}, self.simple()])
        elif r < 0.7:
            self.line([{'op': 'LET', 'v': self.r.choice(ALLVARS), 'e': B(self.r.choice(['\\', 'MOD']), self.atom(), self.atom())}])
        elif r < 0.76:
            self.line([{'op': 'ONERR', 'n': self.r.choice([('handler', 0), ('handler', 0), 0, 64000])}])
        elif r < 0.8:
            # the trap switched off and on again, then a fault raised inside an expression (division by zero / integer overflow)
            self.line([{'op': 'ONERR', 'n': 0}, {'op': 'ONERR', 'n': ('handler', 0)}])
            self.line([{'op': 'LET', 'v': self.r.choice(ALLVARS), 'e': self.r.choice([B('\\', self.atom(), C(0)), B('+', C(32767), C(self.r.randint(1, 9)))])}])
        elif r < 0.9:
            self.line([{'op': 'PRINT', 'e': {'k': 'err'}}, {'op': 'PRINT', 'e': {'k': 'erl'}}])
        else:
            self.line([{'op': 'RESUME', 'w': self.r.choice(['0', 'NEXT']), 'n': 0}])

    def data_stmt(self):
        r = self.r.random()
        if r < 0.45:
            k = self.r.randint(1, 3)
            self.line([{'op': 'READ', 'vs': [self.r.choice(ALLVARS + (STRNAMES if self.ds else [])) for _ in range(k)]}] +
                      ([self.simple()] if self.r.random() < 0.3 else []))
            if self.ds and self.r.random() < 0.5:
                # strings: shown, copied, and the type of the bare name S switched between string and single
                self.line([self.r.choice([{'op': 'PRINT', 'e': V(self.r.choice(STRNAMES))},
                                          {'op': 'LET', 'v': self.r.choice(['S$', 'T$']), 'e': V(self.r.choice(['S$', 'T$']))},
                                          {'op': 'DEFTYPE', 't': self.r.choice('$$!'), 'ns': ['S']}])])
        elif r < 0.8:
            k = self.r.randint(1, 4)
            items = [{'num': self.r.random() > (0.12 if 'err' in self.p else 0.04),
                      'v': self.r.choice([self.r.randint(-9, 99), 40000, -32768, 32767])} for _ in range(k)]
            for it in items:
                if not it['num']:
                    it['v'] = self.r.randint(1, 99)      # the number a non-numeric text carries (see render)
            pre = [self.simple()] if self.r.random() < 0.3 else []
            self.line(pre + [{'op': 'DATA', 'items': items}])
        else:
            self.line([{'op': 'RESTORE', 'n': self.r.choice([0, 0, ('anyline', 0), ('anyline', 1), 64000])}])

    def trap_stmt(self):
        k = self.r.choice([1, 2, 3, 4])
        self.line([{'op': 'TRAP', 'k': k, 'c': self.r.choice(['ON', 'ON', 'OFF', 'STOP', 'ON'])}])

    def handler_body(self, kind):
        # error handler lines
        self.line([{'op': 'PRINT', 'e': {'k': 'err'}}, {'op': 'PRINT', 'e': {'k': 'erl'}}])
        r = self.r.random()
        if r < 0.1:
            self.line([{'op': 'ERROR', 'e': C(self.r.choice([5, 77]))}])
        elif r < 0.18:
            self.line([{'op': 'ONERR', 'n': 0}])
        if self.r.random() < 0.3:
            self.line([self.simple()])
        r = self.r.random()
        if r < 0.4:
            self.line([{'op': 'RESUME', 'w': 'NEXT', 'n': 0}])
        elif r < 0.55:
            # RESUME (retry) only after repairing: risk of endless loop is bounded by the statement budget
            self.line([{'op': 'LET', 'v': self.r.choice(ALLVARS), 'e': C(1)}])
            self.line([{'op': 'RESUME', 'w': '0', 'n': 0}])
        elif r < 0.8:
            self.line([{'op': 'RESUME', 'w': 'LINE', 'n': ('anyline', self.r.randint(0, 3))}])
        elif r < 0.9:
            self.line([{'op': 'END'}])
        # else: fall off the end of the program inside the handler (No RESUME)

    def program(self, size=14):
        self.lines = []
        self.n = 0
        self.budget = size
        main_first = None
        if 'trap' in self.p:
            for k in (1, 2, 3, 4):
                if self.r.random() < 0.8:
                    self.line([{'op': 'ONTRAP', 'k': k, 'n': ('trap', k)}])
                if self.r.random() < 0.7:
                    self.line([{'op': 'TRAP', 'k': k, 'c': self.r.choice(['ON', 'ON', 'ON', 'STOP'])}])
        if 'err' in self.p and self.r.random() < 0.75:
            self.line([{'op': 'ONERR', 'n': ('handler', 0)}])
        self.fnsig = {}
        if 'fn' in self.p:
            if self.r.random() < 0.3:
                self.fnsig['FNZ'] = 1            # called but (maybe) never defined: Undefined user function
            for f in self.r.sample(['FNA', 'FNB', 'FNK%', 'FNR'], self.r.randint(1, 4)):
                np_ = self.r.randint(0, 2)
                ps = self.r.sample(ALLVARS + (['X', 'Y', 'X', 'Y'] if self.dt else []), np_)
                if len(set(ps)) < len(ps):
                    ps = ps[:1]
                    np_ = 1
                if np_ == 2 and self.r.random() < 0.2:
                    ps = [ps[0], ps[0]]           # the same variable twice in the parameter list
                known = dict(self.fnsig)
                if f == 'FNR' and self.r.random() < 0.5:
                    known[f] = np_               # a function that calls itself
                old, self.fnsig = self.fnsig, known
                body = self.expr(2)
                if ps and self.r.random() < 0.4:
                    body = B(self.r.choice(['+', '-', '*']), V(ps[0]), body if self.r.random() < 0.7 else C(2))
                if ps and self.r.random() < 0.15:
                    body = V(ps[0])
                self.fnsig = old
                self.line([{'op': 'DEFFN', 'f': f, 'ps': ps, 'e': body}])
                self.fnsig[f] = np_
                if self.r.random() < 0.3:
                    self.line([self.simple()])
                if self.dt and self.r.random() < 0.5:
                    # the type of the bare names changes between the definition and the calls
                    self.line([{'op': 'DEFTYPE', 't': self.r.choice('%%!'), 'ns': [self.r.choice(['X', 'Y'])]}])
        if 'data' in self.p and self.r.random() < 0.5:
            self.line([{'op': 'DATA', 'items': [{'num': True, 'v': self.r.randint(0, 50)} for _ in range(self.r.randint(1, 3))]}])
        self.block(0, None)
        self.line([{'op': 'PRINT', 'e': C(77)}])
        self.line([self.r.choice([{'op': 'END'}, {'op': 'END'}, {'op': 'STOP'}])])
        marks = {}
        for i in range(3):
            self.n += 10
            marks[('sub', i)] = self.n + 1
            self.line([{'op': 'PRINT', 'e': C(100 + i)}])
            if self.r.random() < 0.4:
                self.line([self.simple()])
            if self.r.random() < 0.2 and i < 2:
                self.line([{'op': 'GOSUB', 'n': ('sub', i + 1)}])
            if 'err' in self.p and self.r.random() < 0.15:
                self.err_stmt()
            self.line([{'op': 'RETURN', 'n': 0 if self.r.random() < 0.9 else ('anyline', 2)}])
        # fix first sub line marks: the mark is the number of the first line of the sub
        if 'trap' in self.p:
            for k in (1, 2, 3, 4):
                self.n += 10
                marks[('trap', k)] = self.n + 1
                self.line([{'op': 'PRINT', 'e': C(200 + k)}])
                r = self.r.random()
                if r < 0.25:
                    self.line([{'op': 'TRAP', 'k': k, 'c': self.r.choice(['ON', 'OFF', 'STOP'])}])
                elif r < 0.4:
                    self.line([{'op': 'TRAP', 'k': self.r.choice([1, 2, 3, 4]), 'c': self.r.choice(['ON', 'OFF', 'STOP'])}])
                if self.r.random() < 0.5:
                    self.line([self.simple(), self.simple()])
                if 'err' in self.p and self.r.random() < 0.2:
                    self.line([{'op': 'ERROR', 'e': C(55)}])
                self.line([{'op': 'RETURN', 'n': 0}])
        if 'err' in self.p:
            self.n += 10
            marks[('handler', 0)] = self.n + 1
            self.handler_body(0)
        if 'reset' in self.p:
            # tail section entered by RUN n: shows that nothing survived, then ends
            self.line([{'op': 'END'}])
            self.n += 10
            marks[('tail', 0)] = self.n + 1
            self.line([{'op': 'PRINT', 'e': C(55)}] + [{'op': 'PRINT', 'e': V(v)} for v in self.r.sample(ALLVARS, 2)])
            r = self.r.random()
            if r < 0.3:
                self.line([{'op': 'RETURN', 'n': 0}])
            elif r < 0.5:
                self.line([{'op': 'NEXT', 'vs': []}])
            elif r < 0.65:
                self.line([{'op': 'READ', 'vs': [self.r.choice(ALLVARS)]}, {'op': 'PRINT', 'e': V('A')}])
            elif r < 0.8:
                self.line([{'op': 'ERROR', 'e': C(9)}])
            self.line([{'op': 'END'}])
        if 'data' in self.p and self.r.random() < 0.6:
            self.line([{'op': 'DATA', 'items': [{'num': True, 'v': self.r.randint(0, 50)} for _ in range(self.r.randint(1, 3))]}])
        return self.resolve(marks)

    def resolve(self, marks):
        nums = [ln['n'] for ln in self.lines]
        # marks hold "n+1" of the first line of a unit: translate to the actual number of the next line >= mark-1
        def first_at_or_after(m):
            c = [x for x in nums if x >= m]
            return c[0] if c else nums[-1]
        fixed = {k: first_at_or_after(v) for k, v in marks.items()}

        def fix(t, idx):
            if not isinstance(t, tuple):
                return t
            kind, arg = t
            if kind == 'after':
                j = min(len(nums) - 1, idx + 1 + arg + self.r.randint(0, 2))
                return nums[j]
            if kind == 'anyline':
                return self.r.choice(nums)
            return fixed.get(t, nums[-1])
        for idx, ln in enumerate(self.lines):
            for st in ln['s']:
                for f in ('n', 'tn', 'en'):
                    if f in st:
                        st[f] = fix(st[f], idx)
                if 'ns' in st:
                    st['ns'] = [fix(t, idx) for t in st['ns']]
                st.pop('fix_on', None)
        prog = {'lines': self.lines, 'vars': list(ALLVARS), 'ints': list(IVARS) + ['FNK%']}
        if self.ds:
            prog['vars'] += ['S!', 'S$', 'T$']
            prog['strs'] = ['S$', 'T$']
            prog['bare'] = [{'n': 'S', 'i': 'S%', 'f': 'S!', 's': 'S$'}]
        if self.dt:
            prog.setdefault('bare', [])
            prog['vars'] += ['X!', 'X%', 'Y!', 'Y%']
            prog['ints'] += ['X%', 'Y%']
            prog['bare'] += [dict(b) for b in BARE]
        text = render(prog)      # also sets the col flags
        return prog, text


# --------------------------------------------------------------------------------------------------------
# running a program on the real interpreter with statement-boundary logging (hook H1)

KEYSIG = {1: (u'\0\x3b', 0x3b), 2: (u'\0\x3c', 0x3c)}


class Runner(object):
    def __init__(self, **kw):
        self.sess = Sess(**kw)
        self.count = 0

    def close(self):
        self.sess.close()

    def load(self, text):
        r = self.sess.ex('NEW')
        for ln in text:
            r = self.sess.ex(ln)
            if r[0] != 'ok':
                return r
        return ('ok',)

    def inject(self, k):
        from pcbasic.basic.base import signals
        q = self.sess.impl.queues.inputs
        if k in KEYSIG:
            q.put(signals.Event(signals.KEYB_DOWN, (KEYSIG[k][0], KEYSIG[k][1], [])))
        elif k == 3:
            q.put(signals.Event(signals.PEN_DOWN, (1, 1)))
        elif k == 4:
            q.put(signals.Event(signals.STICK_DOWN, (0, 0)))

    def run(self, pi, varnames, schedule=None, budget=600, on_boundary=None):
        """RUN the loaded program. schedule: {boundary index (1-based): [trap ids]}. Returns the event list."""
        return [{'a': 'run', 'pi': pi}] + self._exec('RUN', varnames, schedule, budget, on_boundary, direct=False)

    def run_direct(self, stmts, varnames, schedule=None, budget=300):
        """Execute a direct line (structured statements `stmts`) in the session as the last RUN left it."""
        text = ':'.join(rstmt(dict(st)) for st in stmts)
        for st in stmts:
            st['col'] = True
        return [{'a': 'direct', 'stmts': stmts}] + self._exec(text, varnames, schedule, budget, None, direct=True)

    def _exec(self, command, varnames, schedule, budget, on_boundary, direct):
        sess = self.sess
        events = []
        state = {'n': 0, 'mark': 0}
        sess.take()
        sess.autocls = False
        program = sess.impl.program
        schedule = schedule or {}

        def getvars():
            vs = []
            for nm in varnames:
                vs.append(abstract_value(sess.s.get_variable(nm if nm[-1] in '%!#$' else nm + '!')))
            return vs

        def hook(it):
            if not it.run_mode:
                if not direct:
                    return
                # the end of the direct line is not a statement boundary of interest (the interpreter passes it once
                # more after END / when the line is finished)
                cs = it.get_codestream()
                here = cs.tell()
                end = cs.seek(0, 2)
                cs.seek(here)
                if here >= end:
                    return
            state['n'] += 1
            raw = sess.out.getvalue()
            delta = raw[state['mark']:]
            state['mark'] = len(raw)
            pos = it.get_codestream().tell()
            occ = list(schedule.get(state['n'], []))
            events.append({'a': 'b', 'line': program.get_line_number(pos) if it.run_mode else 65535, 'vars': getvars(),
                           'out': _outnums(delta), 'occ': occ})
            for k in occ:
                self.inject(k)
            if on_boundary:
                on_boundary(state['n'], it)
        sess.hooks.append(hook)
        try:
            r = sess.ex(command, budget=budget)
        finally:
            sess.hooks.remove(hook)
            sess.autocls = True
        raw = r[2] if len(r) > 2 else b''
        delta = raw[state['mark']:]
        end = {'a': 'end', 'vars': getvars(), 'out': _outnums(delta), 'code': 0, 'line': 0}
        if r[0] == 'cut':
            end['k'] = 'cut'
        elif r[0] == 'internal':
            end['k'] = 'internal'
            end['detail'] = r[1]
        elif r[0] == 'err':
            end['k'] = 'error'
            end['code'] = r[1]
            if r[1] == 21:
                # "Unprintable error": the number is not in the message; ERR still holds it
                q = sess.ev('ERR')
                if q[0] == 'ok' and isinstance(q[1], int):
                    end['code'] = q[1]
            end['line'] = r[3] if r[3] is not None else -2
        else:
            m = re.search(br'Break(?: in (\d+))?', delta)
            if m:
                end['k'] = 'break'
                end['line'] = int(m.group(1)) if m.group(1) else -2
            else:
                end['k'] = 'end'
        end['raw'] = delta[-200:].decode('latin1')
        events.append(end)
        self.count += 1
        return events


# --------------------------------------------------------------------------------------------------------
# C40: run with a suspend/resume cycle at statement boundary k

def _outnums(raw):
    raw = _MSG_RE.sub(b'', raw)
    raw = re.sub(br'Break(?: in \d+)?', b'', raw)
    return [int(x) for x in re.findall(br'-?\d+', raw)]


class Stuck(Exception):
    """The resumed session did not come back within the watchdog time."""


def run_suspended(text, pi, varnames, k, statefile, mount, budget=600, alter=None):
    """Load `text` in a fresh session, RUN, suspend at boundary k (QUIT signal injected by hook H1), resume from the
    state file in a new Session object and let it finish.  Returns (events, reached) where reached=False if the
    program ended before boundary k."""
    import io
    from . import core
    core.import_repo()
    from pcbasic.basic import Session
    from pcbasic.basic.base import signals, error
    out = io.BytesIO()
    s = Session(devices={b'C': mount}, current_device=b'C', output_streams=out, input_streams=None)
    try:
        for ln in text:
            s.execute(ln)
        events = [{'a': 'run', 'pi': pi}]
        st = {'n': 0, 'mark': len(out.getvalue()), 'cut': False}

        def mk_hook(sess, stream, phase):
            prog = sess._impl.program

            def getvars():
                vs = []
                for nm in varnames:
                    vs.append(abstract_value(sess.get_variable(nm if nm[-1] in '%!#$' else nm + '!')))
                return vs

            def hook(it):
                if not it.run_mode:
                    return
                st['n'] += 1
                if st['n'] > budget:
                    st['cut'] = True
                    raise error.Break()
                if phase == 1 and st['n'] == k:
                    st['n'] -= 1          # this boundary is logged again (once) after the resume
                    sess._impl.queues.inputs.put(signals.Event(signals.QUIT))
                    return
                raw = stream.getvalue()
                delta = raw[st['mark']:]
                st['mark'] = len(raw)
                pos = it.get_codestream().tell()
                events.append({'a': 'b', 'line': prog.get_line_number(pos), 'vars': getvars(), 'out': _outnums(delta), 'occ': []})
            return hook, getvars
        hook, getvars = mk_hook(s, out, 1)
        s._impl.interpreter.verif_hook = hook
        reached = True
        try:
            s.execute('RUN')
            reached = False
            fin, stream = s, out
        except error.Exit:
            s.suspend(statefile)
            if alter:
                alter(statefile)
            s2 = Session.resume(statefile)
            events.append({'a': 'sr'})
            stream = s2._impl.io_streams._output_streams[0]
            hook2, getvars = mk_hook(s2, stream, 2)
            s2._impl.interpreter.verif_hook = hook2
            # (Esc first: after an untrapped Syntax error the interpreter offers the line for editing, and keys typed there would
            #  be edited into the program line instead of being executed)
            s2.press_keys(u'\x1bSYSTEM\r')
            import signal as _signal

            def _stuck(signum, frame):
                raise Stuck()
            old_handler = _signal.signal(_signal.SIGALRM, _stuck)
            _signal.alarm(90)
            try:
                s2.interact()
            except error.Exit:
                pass
            except Stuck:
                # the resumed session waits for input the harness cannot give: not judged (counted by the caller)
                st['cut'] = True
                st['stuck'] = True
            finally:
                _signal.alarm(0)
                _signal.signal(_signal.SIGALRM, old_handler)
            fin = s2
        raw = stream.getvalue()
        delta = raw[st['mark']:]
        delta = delta.split(b'Ok\xff')[0]
        end = {'a': 'end', 'vars': getvars(), 'out': _outnums(delta), 'code': 0, 'line': 0}
        from .session import find_errors
        errs = find_errors(delta)
        m = re.search(br'Break(?: in (\d+))?', delta)
        if st['cut']:
            end['k'] = 'cut'
        elif errs:
            end['k'] = 'error'
            end['code'] = errs[-1][0]
            end['line'] = errs[-1][1] if errs[-1][1] is not None else -2
            if end['code'] == 21:
                try:
                    end['code'] = int(fin.evaluate('ERR'))
                except Exception:
                    pass
        elif m:
            end['k'] = 'break'
            end['line'] = int(m.group(1)) if m.group(1) else -2
        else:
            end['k'] = 'end'
        end['raw'] = delta[-200:].decode('latin1')
        events.append(end)
        return events, reached
    finally:
        try:
            s.close()
        except Exception:
            pass
        if 's2' in locals():
            try:
                s2.close()
            except Exception:
                pass
