"""Driver around pcbasic.basic.Session: explicit arguments, captured output, outcome classification."""
import io, os, re, tempfile, shutil
from . import core

# GW-BASIC error messages (GW-BASIC user's guide, appendix A) -> error number
MESSAGES = {
    b'NEXT without FOR': 1, b'Syntax error': 2, b'RETURN without GOSUB': 3, b'Out of DATA': 4,
    b'Illegal function call': 5, b'Overflow': 6, b'Out of memory': 7, b'Undefined line number': 8,
    b'Subscript out of range': 9, b'Duplicate Definition': 10, b'Division by zero': 11,
    b'Illegal direct': 12, b'Type mismatch': 13, b'Out of string space': 14, b'String too long': 15,
    b'String formula too complex': 16, b"Can't continue": 17, b'Undefined user function': 18,
    b'No RESUME': 19, b'RESUME without error': 20, b'Unprintable error': 21, b'Missing operand': 22,
    b'Line buffer overflow': 23, b'Device Timeout': 24, b'Device Fault': 25, b'FOR without NEXT': 26,
    b'Out of Paper': 27, b'WHILE without WEND': 29, b'WEND without WHILE': 30, b'FIELD overflow': 50,
    b'Internal error': 51, b'Bad file number': 52, b'File not found': 53, b'Bad file mode': 54,
    b'File already open': 55, b'Device I/O error': 57, b'File already exists': 58, b'Disk full': 61,
    b'Input past end': 62, b'Bad record number': 63, b'Bad file name': 64,
    b'Direct statement in file': 66, b'Too many files': 67, b'Device Unavailable': 68,
    b'Communication buffer overflow': 69, b'Permission Denied': 70, b'Disk not Ready': 71,
    b'Disk media error': 72, b'Advanced Feature': 73, b'Rename across disks': 74,
    b'Path/File access error': 75, b'Path not found': 76, b'Deadlock': 77,
}
_MSG_RE = re.compile(b'(' + b'|'.join(re.escape(m) for m in sorted(MESSAGES, key=len, reverse=True)) +
                     br')(?: in (\d+))?\xff?\r', re.I)
_LOWER = {k.lower(): v for k, v in MESSAGES.items()}


def find_errors(out):
    """All (code, line or None) error messages in console output bytes."""
    res = []
    for m in _MSG_RE.finditer(out):
        res.append((_LOWER[m.group(1).lower()], int(m.group(2)) if m.group(2) else None))
    return res


class Sess(object):
    """A real pcbasic Session with a private mount dir and a captured output stream."""

    def __init__(self, mount=None, tmpbase=None, **kw):
        core.import_repo()
        from pcbasic.basic import Session
        self._own = None
        if mount is None:
            self._own = tempfile.mkdtemp(prefix='vfm_', dir=tmpbase or core.SCRATCH_BASE)
            mount = self._own
        self.mount = mount
        self.out = io.BytesIO()
        args = dict(devices={b'C': mount}, current_device=b'C',
                    output_streams=self.out, input_streams=None)
        args.update(kw)
        self.s = Session(**args)
        self.s.start()
        self.impl = self.s._impl
        self.budget = 0
        self.hooks = []         # extra statement-boundary callbacks f(interpreter)
        self.impl.interpreter.verif_hook = self._hook
        self.autocls = True     # clear the screen before it scrolls (scrolling costs ~2 ms per line)
        self._lines = 0

    def _hook(self, interp):
        for h in self.hooks:
            h(interp)
        if self.budget:
            self.budget -= 1
            if not self.budget:
                self.cut = True
                from pcbasic.basic.base import error
                raise error.Break()

    def take(self):
        v = self.out.getvalue()
        self.out.seek(0)
        self.out.truncate()
        if self.autocls and v:
            self._lines += v.count(b'\r') + len(v) // 80 + 1
            if self._lines >= 18:
                self._lines = 0
                try:
                    self.s.execute('CLS')
                except BaseException:
                    pass
                self.out.seek(0)
                self.out.truncate()
        return v

    def ev(self, expr):
        """Evaluate an expression: ('ok', value, out) | ('err', code, out) | ('internal', repr, out)."""
        self.take()
        try:
            v = self.s.evaluate(expr)
        except BaseException as e:  # noqa
            if type(e).__name__ in ('Exit',):
                return ('exit', None, self.take())
            return ('internal', '%s: %s' % (type(e).__name__, e), self.take())
        out = self.take()
        errs = find_errors(out)
        if errs:
            return ('err', errs[0][0], out) if v is None else ('soft', errs[0][0], out, v)
        return ('ok', v, out)

    def ex(self, cmd, budget=100000):
        """Execute statement(s): ('ok', None, out) | ('err', code, out, line) | ('internal', repr, out)
        | ('cut', None, out) when the statement budget (watchdog, via hook H1) ran out."""
        self.take()
        self.budget = budget
        self.cut = False
        try:
            self.s.execute(cmd)
        except BaseException as e:  # noqa
            if type(e).__name__ in ('Exit',):
                return ('exit', None, self.take())
            return ('internal', '%s: %s' % (type(e).__name__, e), self.take())
        self.budget = 0
        out = self.take()
        if self.cut:
            return ('cut', None, out)
        errs = find_errors(out)
        if errs:
            return ('err', errs[-1][0], out, errs[-1][1])
        return ('ok', None, out)

    def close(self):
        try:
            self.s.close()
        except BaseException:
            pass
        if self._own:
            shutil.rmtree(self._own, ignore_errors=True)

    def __enter__(self):
        return self

    def __exit__(self, *a):
        self.close()
