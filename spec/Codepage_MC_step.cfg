SPECIFICATION Spec
CONSTANTS
  Alphabet <- AlphaStep
  MaxLen = 0
  History = FALSE
VIEW View
INVARIANT Shape
PROPERTY StepLaw
CHECK_DEADLOCK FALSE
