SPECIFICATION Spec
CONSTANTS
  AlphaName = "step"
  MaxLen = 0
  History = FALSE
VIEW View
INVARIANT Shape
PROPERTY StepLaw
CHECK_DEADLOCK FALSE
