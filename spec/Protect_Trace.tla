---------------------------- MODULE Protect_Trace ----------------------------
(* Total trace specification for C16.  One event per direct-mode command line
   executed on a real Session that enforces protection:
     {a: {op, arg, chain}, kind, code, same, leak, where, reset,
      obs: {prog, intact, prot, trap}}
   kind/code: observed outcome ("ok" | "err" | "trapped" | "internal", ERR);
   same: for RUN, output and variables equal those of the unprotected original;
   leak: a fragment (>= 3 bytes) of a canary string embedded in the secret
   program was found in the output stream, a written file, the printer, the text
   screen or a variable after the action (or PEEK delivered a program byte).
   The demanded outcome comes from Protect!Must in the MODEL state; the state
   advances by Protect!Effect on the observed outcome, is compared with the
   observed protection flag and re-synchronised from the observation.        *)
EXTENDS Protect, TraceBase
VARIABLES st, l, viol
tvars == <<st, l, viol>>

ObsSt(e) == [prog |-> e.obs.prog, intact |-> e.obs.intact, prot |-> e.obs.prot, trap |-> e.obs.trap]

Clause(a, must) == CASE must = "ifc"  -> "listed_operation_did_not_fail_with_illegal_function_call"
                     [] must = "ok"   -> "save_p_of_protected_program_failed"
                     [] must = "same" -> "protected_program_runs_differently_from_original"
                     [] OTHER -> "?"

Step(e) ==
    LET s0   == IF Has(e, "reset") /\ e.reset THEN InitSt ELSE st
        must == Must(s0, e.a)
        s1   == Effect(s0, e.a, Failed(e.kind))
        obs  == ObsSt(e)
        v    == IF ~IsAction(e.a) THEN "not_an_action_of_the_model"
                ELSE IF e.kind = "internal" THEN "internal_error"
                ELSE IF ~Accepts(must, e.kind, e.code, e.same) THEN Clause(e.a, must)
                ELSE IF e.leak THEN (IF s0.prot THEN "canary_of_protected_program_disclosed"
                                     ELSE "canary_of_protected_program_disclosed_after_unloading")
                ELSE IF obs.prot # s1.prot THEN "protection_flag_differs_from_model"
                ELSE IF ~ProtIffSecret(obs) THEN "protection_flag_inconsistent_with_resident_program"
                ELSE "ok"
    IN  /\ st' = obs
        /\ viol' = IF v = "ok" THEN viol ELSE Append(viol, <<l, v>>)

TInit == st = InitSt /\ l = 1 /\ viol = <<>>
TNext == l <= NEvents /\ l' = l + 1 /\ Step(Events[l])
TSpec == TInit /\ [][TNext]_tvars
TDone == (l = NEvents + 1) => WriteVerdict(l - 1, viol)
=============================================================================
