----------------------------- MODULE DosPath_MC -----------------------------
(* Bounded design check of path resolution (C27) + transition emitter for
   behaviour replay.

   Sandbox (host paths from its top):   S/            the directory above the mounts
                                        S/M/          mounted as C:   (A/, A/A/, A/B/, B/, F, A/F)
                                        S/M2/         mounted as D: in the two-drive configuration (A/, F)
                                        S/SIB/, S/SIB/A/, S/SIB/F, S/X   sentinels next to the mounts
                                        T             sentinel above
   Every statement form of StmtSet is applied to every path string built from
   an optional drive prefix, an optional leading backslash and up to MaxElems
   elements of Elems joined by backslashes, from every reachable state.
   Dynamic = FALSE freezes the host file system (only the current directories
   evolve), which keeps the state space at the set of reachable cwd's while
   the touched sets of ALL statements are still checked; Dynamic = TRUE lets
   the file system evolve too (smaller path bound).                          *)
EXTENDS DosPath, TLC, Json

CONSTANTS MaxElems,      \* path strings have at most this many elements
          NameElems,     \* NAME old-paths have at most this many elements
          StmtSet,       \* statement forms explored
          Dynamic,       \* file system evolves
          MaxNodes       \* (Dynamic) bound on the number of directories + files

nS == <<83>>   nM == <<77>>   nM2 == <<77, 50>>   nA == <<65>>   nB == <<66>>   nF == <<70>>
nSIB == <<83, 73, 66>>   nX == <<88>>   nT == <<84>>   nN == <<78>>
eAsp == <<65, 32>>   eDDsp == <<46, 46, 32>>   eDsp == <<46, 32>>   eLa == <<97>>

MCRoots1 == (67 :> <<nS, nM>>)
MCRoots2 == (67 :> <<nS, nM>>) @@ (68 :> <<nS, nM2>>)
\* a mount nested inside another mount
MCRoots3 == (67 :> <<nS, nM>>) @@ (68 :> <<nS, nM, nA>>)

Elems9  == {D2, D1, <<>>, nA, nB, nF, eAsp, eDDsp, eDsp}
Elems10 == Elems9 \cup {eLa}
Elems4  == {D2, nA, nN, eDDsp}
CONSTANTS Elems, Prefixes

Pre0 == {<<>>}
Pre2 == {<<>>, <<67, 58>>, <<100, 58>>, <<69, 58>>}            \* none, "C:", "d:", "E:" (not mounted)
Pre3 == {<<>>, <<100, 58>>, <<69, 58>>}

InitFs == [dirs  |-> {<<nS>>, <<nS, nM>>, <<nS, nM, nA>>, <<nS, nM, nB>>, <<nS, nM, nA, nA>>, <<nS, nM, nA, nB>>,
                      <<nS, nM2>>, <<nS, nM2, nA>>, <<nS, nSIB>>, <<nS, nSIB, nA>>},
           files |-> {<<nS, nM, nF>>, <<nS, nM, nA, nF>>, <<nS, nM2, nF>>, <<nS, nSIB, nF>>, <<nS, nX>>, <<nT>>}]
InitSt == [fs |-> InitFs, cwd |-> [d \in DOMAIN Roots |-> <<>>]]

VARIABLES st, last
vars == <<st, last>>

RECURSIVE JoinB(_, _)
JoinB(es, i) == IF i > Len(es) THEN <<>> ELSE (IF i > 1 THEN <<BSL>> ELSE <<>>) \o es[i] \o JoinB(es, i + 1)
PathStr(pre, abs, es) == pre \o (IF abs THEN <<BSL>> ELSE <<>>) \o JoinB(es, 1)

\* the closed fragment of path strings: no empty first element (a doubled leading backslash is a UNC prefix for ntpath)
ElemSeqs(n) == UNION {{es \in [1..k -> Elems] : k = 0 \/ es[1] # <<>>} : k \in 0..n}
NameTargets == {nN, <<46, 46, 92, 78>>, <<46, 46, 32, 92, 78>>, <<65, 92, 78>>, nF}    \* N  ..\N  ".. \N"  A\N  F

Init == st = InitSt /\ last = [a |-> [stmt |-> "init", path |-> <<>>], ok |-> TRUE, code |-> 0, touched |-> {},
                                cwd |-> InitSt.cwd, fs |-> <<>>]
\* (the result is computed once, in `last`, which keeps only what the successor state and the invariants need)
Do(a) == /\ last' = LET r == Apply(st, a)
                    IN [a |-> a, ok |-> r.ok, code |-> r.code, touched |-> r.touched, cwd |-> r.st.cwd,
                        fs |-> IF Dynamic THEN r.st.fs ELSE <<>>]
         /\ st' = [fs |-> IF Dynamic THEN last'.fs ELSE st.fs, cwd |-> last'.cwd]
Next == \/ \E s \in StmtSet \ {"NAME"}, pre \in Prefixes, abs \in BOOLEAN, es \in ElemSeqs(MaxElems) :
              Do([stmt |-> s, path |-> PathStr(pre, abs, es)])
        \/ /\ "NAME" \in StmtSet
           /\ \E pre \in Prefixes, abs \in BOOLEAN, es \in ElemSeqs(NameElems), q \in NameTargets :
              Do([stmt |-> "NAME", path |-> PathStr(pre, abs, es), path2 |-> q])
Spec == Init /\ [][Next]_vars

View == st
Nodes == Cardinality(st.fs.dirs) + Cardinality(st.fs.files)
Bound == ~Dynamic \/ (Nodes <= MaxNodes /\ Nodes >= MaxNodes - 3)

\* the property
\* (a predicate on the history variable `last` must be an ACTION property: with a VIEW, TLC evaluates state invariants
\*  only on states whose view is new, but implied actions on every generated transition)
TouchedInside == [][TouchedOK(last'.touched)]_vars
CwdInside == CwdInsideSt(st)
OutsideSame == OutsideOf(st.fs) = OutsideOf(InitFs)
\* sanity of the model: a failed statement changes nothing; the current directory always is a list of plain names
FailNoEffect == [][~last'.ok => st' = st]_vars
CwdPlain == AsCodedDots \/ \A d \in DOMAIN Roots : \A i \in 1..Len(st.cwd[d]) : st.cwd[d][i] \notin {<<>>, D1, D2}

FlatCwd(s) == LET ds == DOMAIN Roots IN {<<d, s.cwd[d]>> : d \in ds}
Emit == PrintT(<<"TRANSITION", ToJson([cwd |-> FlatCwd(st), a |-> last'.a, ok |-> last'.ok, code |-> last'.code,
                                        tocwd |-> FlatCwd(st'), touched |-> last'.touched])>>)
ASSUME PrintT(<<"SANDBOX", ToJson([dirs |-> InitFs.dirs, files |-> InitFs.files,
                                   roots |-> {<<d, Roots[d]>> : d \in DOMAIN Roots}, cur |-> CurDrive])>>)
=============================================================================
