----------------------------- MODULE Draw_Trace -----------------------------
(* Total trace specification for C33, used in two passes over the same event
   list (Header.compile):
   compile: the pen state is threaded by Draw!Run alone; for every draw event
            the model's segments and final position are printed (one SEGS line
            per event) - the harness renders these segments with LINE
            statements as the reference picture;
   judge:   every draw event carries the observations of the real interpreter
            and gets a verdict.
   Events:
     reset  {pos [x,y], scale, col}                  new mode/session
     setpos {x, y, col}                              PSET (x,y),col
     draw   {cmds, ok, kind, code, p0, p1,           outcome; POINT(0), POINT(1) after the DRAW (also after a refused one)
             lines [[x0,y0,x1,y1,c],..],             the LINE statements drawn as reference
             marks [[x,y],..] (optional),            pixels holding the marker attribute after PSET STEP(0,0),marker
             diff  [[x,y],..],                       pixels where DRAW picture and LINE picture differ
             clip  [x0,y0,x1,y1],                    the screen cell observed
             noref (optional)}                       no LINE reference was drawn (attribute beyond LINE's 0..255)  *)
EXTENDS Draw, TraceBase
VARIABLES st, l, viol
tvars == <<st, l, viol>>

Compile == Has(Header, "compile") /\ Header.compile
SeqSet(s) == {s[i] : i \in 1..Len(s)}
InClip(p, c) == c[1] <= p[1] /\ p[1] <= c[3] /\ c[2] <= p[2] /\ p[2] <= c[4]

Judge(e, r) ==
    IF e.kind = "internal" THEN "internal_error"
    ELSE IF r.err /\ e.ok THEN "scale_outside_1_255_accepted"
    ELSE IF ~r.err /\ ~e.ok THEN "draw_statement_failed"
    ELSE IF r.err /\ e.code # 5 THEN "scale_outside_1_255_refused_with_another_error"
    ELSE IF <<e.p0, e.p1>> # r.st.pos THEN "pen_position_POINT_0_1"
    ELSE IF Has(e, "noref") THEN "ok"        \* attribute > 255: LINE cannot render the reference; pen position only
    ELSE IF e.lines # r.segs THEN "reference_lines_are_not_the_model_segments"
    ELSE IF Has(e, "marks") /\ SeqSet(e.marks) # (IF InClip(r.st.pos, e.clip) THEN {r.st.pos} ELSE {}) THEN "pen_position_STEP_0_0"
    ELSE IF SeqSet(e.diff) \ (IF Has(e, "marks") THEN {r.st.pos} ELSE {}) # {} THEN "segments_differ_from_LINE"
    ELSE "ok"

Step1(e) ==
    CASE e.op = "reset"  -> /\ st' = [pos |-> <<e.pos[1], e.pos[2]>>, scale |-> e.scale, col |-> e.col]
                            /\ viol' = viol
      [] e.op = "setpos" -> /\ st' = [st EXCEPT !.pos = <<e.x, e.y>>, !.col = e.col]
                            /\ viol' = viol
      [] e.op = "draw"   ->
           LET r == Run(st, e.cmds)
           IN  IF Compile
               THEN /\ st' = r.st
                    /\ viol' = viol
                    /\ PrintT(<<"SEGS", ToJson([i |-> l, segs |-> r.segs, pos |-> r.st.pos])>>)
               ELSE LET v == Judge(e, r)
                    IN  /\ st' = IF (e.ok \/ r.err) /\ e.kind # "internal" THEN [r.st EXCEPT !.pos = <<e.p0, e.p1>>] ELSE st
                        /\ viol' = IF v = "ok" THEN viol ELSE Append(viol, <<l, v>>)

TInit == st = [pos |-> <<0, 0>>, scale |-> 4, col |-> 0] /\ l = 1 /\ viol = <<>>
TNext == l <= NEvents /\ l' = l + 1 /\ Step1(Events[l])
TSpec == TInit /\ [][TNext]_tvars
TDone == (l = NEvents + 1) => WriteVerdict(l - 1, viol)
=============================================================================
