----------------------------- MODULE MBFConv_MC -----------------------------
(* Self-check of the C03 conversion operators (MBFConv.tla) against native
   integer arithmetic on the reduced format BB = 2 (integers 4 bits: -8..7,
   single mantissa 6 bits, double mantissa 14 bits).  TLC enumerates EVERY
   normalised 14-bit mantissa with every binary exponent -3..16 and both
   signs (CINT/FIX/INT: below one half .. beyond the last fraction bit), and
   every non-zero double against the single-rounding rule.                   *)
EXTENDS MBFConv, TLC
McBB == 2
VARIABLES m, e, n
vars == <<m, e, n>>

MantSet == {x \in [1..NM -> 0..(Radix - 1)] : x[1] >= Half}                 \* all 8192 normalised mantissas
MantSetQuick == {x \in [1..NM -> 0..(Radix - 1)] : x[1] >= Half /\ x[6] = 0 /\ x[7] \in {0, 1}}   \* quick tier: 1024 of them
Init == /\ m = [i \in 1..NM |-> 0]
        /\ e = 0
        /\ n = FALSE
\* every value is produced in one step from the single initial state by the workers
Next == /\ m = [i \in 1..NM |-> 0]
        /\ m' \in MantSet
        /\ e' \in (Bias - 3)..(Bias + W + 2)
        /\ n' \in BOOLEAN
Spec == Init /\ [][Next]_vars

V == [neg |-> n, mant |-> m, exp |-> e]

RECURSIVE MIrec(_, _)
MIrec(x, i) == IF i = 0 THEN 0 ELSE x[i] + Radix * MIrec(x, i - 1)
MI(v) == MIrec(v.mant, NM)
\* native: |V| = MI * 2^(E - W)
IntPart(v) == IF E(v) <= 0 THEN 0
              ELSE IF E(v) <= W THEN MI(v) \div 2 ^ (W - E(v)) ELSE MI(v) * 2 ^ (E(v) - W)
FracNum(v) == IF E(v) >= W THEN 0                              \* fraction * 2^(W-E)
              ELSE IF E(v) <= 0 THEN MI(v) ELSE MI(v) % 2 ^ (W - E(v))
FracDen(v) == IF E(v) <= 0 THEN 2 ^ (W - E(v)) ELSE IF E(v) >= W THEN 1 ELSE 2 ^ (W - E(v))
\* decoded value of a native natural < 2^(W+3)
FromNat(k, neg) == IF k = 0 THEN Zero
                   ELSE LET L == BitLen(k)
                            s == IF L <= W THEN k * 2 ^ (W - L) ELSE k \div 2 ^ (L - W)
                        IN [neg |-> neg,
                            mant |-> [i \in 1..NM |-> (s \div Radix ^ (NM - i)) % Radix],
                            exp |-> Bias + L]
Live == m[1] # 0

FixIsTrunc == Live => Cmp(Fix(V), FromNat(IntPart(V), n)) = 0
IntIsFloor == Live => Cmp(IntF(V), FromNat(IF n /\ FracNum(V) # 0 THEN IntPart(V) + 1 ELSE IntPart(V), n)) = 0
HasFracOK  == Live => (HasFrac(V) <=> FracNum(V) # 0)
\* round half away from zero: floor(|V| + 1/2)
Rounded == IntPart(V) + (IF 2 * FracNum(V) >= FracDen(V) /\ FracNum(V) # 0 THEN 1 ELSE 0)
CintIsRound == Live => LET r == IF n THEN -Rounded ELSE Rounded
                       IN CintOut(V) = IF r < IntMin \/ r > IntMax THEN <<"err", Overflow>> ELSE <<"val", r>>
\* orderings of the results (INT <= FIX-ish laws)
ConvLaws == Live => /\ Cmp(IntF(V), V) <= 0
                    /\ Cmp(AbsV(Fix(V)), AbsV(V)) <= 0
                    /\ Cmp(IntF(V), Fix(V)) <= 0
                    /\ (~HasFrac(V) => Cmp(Fix(V), V) = 0 /\ Cmp(IntF(V), V) = 0)

\* double -> single: Lo <= |d| <= Hi are adjacent singles; the rule's MustLo/MustHi agree with the
\* native distance test |f - 1/2| > 1/Radix on the dropped fraction f = FN / 2^(4*BB)
FN == ((m[4] * Radix + m[5]) * Radix + m[6]) * Radix + m[7]
FD == Radix ^ 4
D2SLaws == (Live /\ e \in 1..(Radix - 1)) =>
    LET lo == D2SLo(V)
        hi == D2SHi(V)
    IN /\ Cmp(AbsV(lo), AbsV(V)) <= 0 /\ Cmp(AbsV(V), AbsV(hi)) < 0
       /\ Representable("s", lo)
       /\ \A i \in 4..NM : hi.mant[i] = 0
       /\ (D2SExact(V) <=> FN = 0)
       /\ (D2SMustLo(V) <=> (FD - 2 * FN) * Radix > 2 * FD)       \* 1/2 - f > 1/Radix
       /\ (D2SMustHi(V) <=> (2 * FN - FD) * Radix > 2 * FD)       \* f - 1/2 > 1/Radix
       /\ ~(D2SMustLo(V) /\ D2SMustHi(V))
       /\ DoubleToSingleOK(V, <<"val", IF 2 * FN < FD THEN lo ELSE hi>>) \/ ~Representable("s", hi)
=============================================================================
