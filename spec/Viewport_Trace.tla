--------------------------- MODULE Viewport_Trace ---------------------------
(* Total trace specification for C30.  One event per BASIC statement executed
   on the real interpreter (inside a program line with an error trap, so that
   no error message is printed on the screen):
     {op, x0, y0, x1, y1, abs (view only), ok, code, kind, reset, pre,
      ch:  per page [] or [count, x0, y0, x1, y1] of the pixels the statement changed ([] list for screen),
      obs: {mode, text, w, h, np, ap, vp} after the statement}
   Verdict per event: demanded outcome (Must), where pixels changed (Allowed),
   exactness of the viewport probe.  The state advances by Viewport!Effect on
   the OBSERVED outcome and mode/pages; after a failed probe the viewport is
   re-synchronised from the pixels the probe changed.                       *)
EXTENDS Viewport, TraceBase
VARIABLES st, l, viol
tvars == <<st, l, viol>>

Dummy == Fresh([mode |-> "?", text |-> TRUE, w |-> 1, h |-> 1, np |-> 1, ap |-> 0, vp |-> 0])

Verdict(s0, s1, e) ==
    IF e.kind = "internal" THEN "internal_error"
    ELSE IF ~Accepts(Must(s0, e), e.ok, e.code) THEN "text_mode_statement_not_illegal_function_call"
    ELSE IF OtherPageTouched(s0, e, e.ch) THEN "changed_page_other_than_active"
    ELSE IF OutsideAllowed(s0, e, e.ch)
         THEN (IF s0.text THEN "text_mode_statement_changed_pixels"
               ELSE IF e.op = "view" THEN "view_drew_outside_new_viewport_and_border"
               ELSE "changed_outside_viewport")
    ELSE IF e.op = "probe" /\ e.ok /\ ~s0.text /\ ~ProbeExact(s0, e.ch) THEN "viewport_differs_from_model"
    ELSE IF ~PagesExist(s1) THEN "page_does_not_exist"
    ELSE "ok"

Step(e) ==
    LET s0 == IF Has(e, "reset") /\ e.reset THEN Fresh(e.pre) ELSE st
        s1 == Effect(s0, e, e.ok, e.obs)
        v  == Verdict(s0, s1, e)
        \* resynchronise the viewport from what a failed probe actually filled
        s2 == IF v = "viewport_differs_from_model" /\ s1.ap + 1 \in 1..Len(e.ch) /\ e.ch[s1.ap + 1] # <<>>
              THEN [s1 EXCEPT !.view = Box(e.ch[s1.ap + 1])] ELSE s1
    IN  /\ st' = s2
        /\ viol' = IF v = "ok" THEN viol ELSE Append(viol, <<l, v>>)

TInit == st = Dummy /\ l = 1 /\ viol = <<>>
TNext == l <= NEvents /\ l' = l + 1 /\ Step(Events[l])
TSpec == TInit /\ [][TNext]_tvars
TDone == (l = NEvents + 1) => WriteVerdict(l - 1, viol)
=============================================================================
