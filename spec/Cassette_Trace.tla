--------------------------- MODULE Cassette_Trace ---------------------------
(* Total trace specification for C29, judged by the reference layer of Cassette.tla.
   Events (one per operation on the real interpreter):
     {op: "newtape"}                                   a new, empty tape image
     {op: "write", name, type, len, id, ok}            a whole file written (OPEN..PRINT#..CLOSE, SAVE, BSAVE)
     {op: "reopen"}                                    the image is closed and attached again: tape at the start
     {op: "read", name, want: [types], found, type, skipped: [names], pieces: [[id, off, n], ...]}
         the file is opened by name (name "": the next file of a type the statement wants) and read to its end;
         want = the types the reading statement accepts; `pieces` is the read-back content as maximal runs
         "n bytes from offset off of the content written as file id" (id -1: bytes that are none of this tape's data)
   The driver reads only files that lie at or after the current tape position (closed fragment), so the reference
   demands: found, with the written type, exactly the file's own bytes, the files passed over reported as skipped in
   tape order, and the tape left at the following file.                                                   *)
EXTENDS Cassette, TraceBase
VARIABLES files, fpos, l, viol
tvars == <<files, fpos, l, viol>>

Piece(p) == <<p[1], p[2], p[3]>>
ObsPieces(e) == [i \in 1..Len(e.pieces) |-> Piece(e.pieces[i])]
\* ref.skipped is a subsequence of the observed Skipped messages (the statement does not exclude further messages)
RECURSIVE SubSeqOf(_, _)
SubSeqOf(a, b) == IF a = <<>> THEN TRUE ELSE IF b = <<>> THEN FALSE
                  ELSE IF Head(a) = Head(b) THEN SubSeqOf(Tail(a), Tail(b)) ELSE SubSeqOf(a, Tail(b))
Total(ps) == LET F[i \in 0..Len(ps)] == IF i = 0 THEN 0 ELSE F[i - 1] + ps[i][3] IN F[Len(ps)]

Verdict(e, ref) ==
    IF ~ref.found THEN "harness_read_file_not_ahead_on_tape"
    ELSE IF ~e.found THEN "file_not_found"
    ELSE IF e.type # ref.type THEN "found_with_wrong_type"
    ELSE IF Norm(ObsPieces(e)) # ref.pieces THEN
        (IF \E i \in 1..Len(e.pieces) : e.pieces[i][1] # ref.id THEN "data_of_another_file_or_foreign_bytes_mixed_in"
         ELSE IF Total(ObsPieces(e)) < ref.len THEN "contents_truncated"
         ELSE "contents_differ")
    ELSE IF ~SubSeqOf(ref.skipped, e.skipped) THEN "skipped_files_not_reported"
    ELSE "ok"

Step(e) ==
    CASE e.op = "newtape" -> /\ files' = <<>> /\ fpos' = 1 /\ viol' = viol
      [] e.op = "write" ->
           /\ files' = Append(files, [name |-> e.name, type |-> e.type, len |-> e.len, id |-> e.id])
           /\ fpos' = fpos
           /\ viol' = IF e.ok THEN viol ELSE Append(viol, <<l, "write_failed">>)
      [] e.op = "reopen" -> /\ files' = files /\ fpos' = 1 /\ viol' = viol
      [] e.op = "read" ->
           LET r0  == RefReadW(files, fpos, e.name, {e.want[i] : i \in 1..Len(e.want)})
               ref == IF r0.found THEN r0 @@ [id |-> files[r0.next - 1].id, len |-> files[r0.next - 1].len]
                      ELSE r0
               v   == Verdict(e, ref)
           IN  /\ files' = files
               /\ fpos' = IF ref.found THEN ref.next ELSE fpos
               /\ viol' = IF v = "ok" THEN viol ELSE Append(viol, <<l, v>>)

TInit == files = <<>> /\ fpos = 1 /\ l = 1 /\ viol = <<>>
TNext == l <= NEvents /\ l' = l + 1 /\ Step(Events[l])
TSpec == TInit /\ [][TNext]_tvars
TDone == (l = NEvents + 1) => WriteVerdict(l - 1, viol)
=============================================================================
