------------------------------- MODULE Int16 -------------------------------
(* 16-bit two's-complement integers as GW-BASIC sees them (property C02).
   Everything is defined arithmetically on mathematical integers; the bitwise
   operators are ALSO defined bit-recursively, and Int16_MC checks that both
   definitions and the stated algebraic laws agree on a reduced width W.    *)
EXTENDS Integers

W16 == 16
Pow2(n) == 2 ^ n
MinS(w) == -Pow2(w - 1)
MaxS(w) == Pow2(w - 1) - 1
MaxU(w) == Pow2(w) - 1
InS(w, x) == x >= MinS(w) /\ x <= MaxS(w)
InBit(w, x) == x >= MinS(w) /\ x <= MaxU(w)      \* operand range of bitwise operators

Abs(x) == IF x < 0 THEN -x ELSE x
Sgn(x) == IF x < 0 THEN -1 ELSE IF x = 0 THEN 0 ELSE 1

\* bit pattern (unsigned) of an accepted operand, and signed reading of a pattern
U(w, x) == IF x < 0 THEN x + Pow2(w) ELSE x
S(w, u) == IF u > MaxS(w) THEN u - Pow2(w) ELSE u

\* truncating division / remainder with the sign of the dividend
TDiv(a, b) == Sgn(a) * Sgn(b) * (Abs(a) \div Abs(b))
TMod(a, b) == Sgn(a) * (Abs(a) % Abs(b))

\* bit-recursive definition from a truth table f[x][y]
RECURSIVE BitRec(_, _, _, _)
BitRec(f, a, b, n) == IF n = 0 THEN 0
                      ELSE f[a % 2][b % 2] + 2 * BitRec(f, a \div 2, b \div 2, n - 1)
TT(s) == [x \in 0..1 |-> [y \in 0..1 |-> s[2 * x + y + 1]]]
TAnd == TT(<<0, 0, 0, 1>>)
TOr  == TT(<<0, 1, 1, 1>>)
TXor == TT(<<0, 1, 1, 0>>)
TEqv == TT(<<1, 0, 0, 1>>)
TImp == TT(<<1, 1, 0, 1>>)
Table(op) == CASE op = "and" -> TAnd [] op = "or" -> TOr [] op = "xor" -> TXor
               [] op = "eqv" -> TEqv [] op = "imp" -> TImp
BitOp(w, op, a, b) == S(w, BitRec(Table(op), U(w, a), U(w, b), w))
BitNot(w, a) == S(w, MaxU(w) - U(w, a))

\* arithmetic characterisation of the same operators (on patterns)
RECURSIVE AndA(_, _, _)
AndA(a, b, n) == IF n = 0 THEN 0 ELSE (IF a % 2 = 1 /\ b % 2 = 1 THEN 1 ELSE 0) + 2 * AndA(a \div 2, b \div 2, n - 1)
OrA(w, a, b)  == a + b - AndA(a, b, w)
XorA(w, a, b) == a + b - 2 * AndA(a, b, w)

(* ---- the property, as outcome relations --------------------------------- *)
\* outcomes: <<"val", v>> | <<"err", code>>
DivZero == 11
Overflow == 6

IntDivOut(w, a, b) == IF b = 0 THEN <<"err", DivZero>>
                      ELSE IF ~InS(w, TDiv(a, b)) THEN <<"err", Overflow>>
                      ELSE <<"val", TDiv(a, b)>>
ModOut(w, a, b)    == IF b = 0 THEN <<"err", DivZero>>
                      ELSE IF ~InS(w, TDiv(a, b)) THEN <<"err", Overflow>>
                      ELSE <<"val", TMod(a, b)>>
BitOut(w, op, a, b) == IF ~InBit(w, a) \/ ~InBit(w, b) THEN <<"err", Overflow>>
                       ELSE <<"val", BitOp(w, op, a, b)>>
NotOut(w, a)       == IF ~InBit(w, a) THEN <<"err", Overflow>> ELSE <<"val", BitNot(w, a)>>

\* FOR counter: the sequence of counter values seen by the body is start, start+step, ...
\* and the statement fails with Overflow exactly when the next value leaves the range
ForNext(w, c, step) == IF InS(w, c + step) THEN <<"val", c + step>> ELSE <<"err", Overflow>>
=============================================================================
