------------------------------ MODULE Play_Gen ------------------------------
(* Generator of PLAY statements (spec -> code): NStmts random command
   sequences of up to MaxCmds commands (notes with accidentals, length
   suffixes and dots, N, L, T, O with literal or variable arguments, < >,
   MN ML MS MF MB, pauses, X substrings, malformed commands with
   probability 1/BadOdds), each printed with its text, separator style and
   the variables the harness has to set.  Only statements of at most
   MaxTones tones are emitted.                                              *)
EXTENDS Play, Json
CONSTANTS NStmts, MaxCmds, MaxTones, BadOdds
VARIABLES i, cs, sep
vars == <<i, cs, sep>>

Pick(Set) == RandomElement(Set)
Names == {"C", "D", "E", "F", "G", "A", "B"}
Legal == {<<nm, ac>> \in Names \X {"", "", "#", "+", "-"} : AccOK(nm, ac)}
RandLen(k) == IF Pick(1..2) = 1 THEN -1 ELSE Pick({0, 1, 2, 3, 4, 6, 8, 12, 16, 32, 64} \cup 1..64)
RandDots(k) == <<0, 0, 0, 1, 1, 2, 3>>[Pick(1..7)]
Via(k) == IF Pick(1..4) = 1 THEN "V" \o ToString(k) \o "%" ELSE "lit"
RandGood(k) ==
    LET r == Pick(1..20)
    IN  CASE r \in 1..7 -> LET na == Pick(Legal) IN [c |-> "note", name |-> na[1], acc |-> na[2], len |-> RandLen(k), dots |-> RandDots(k)]
          [] r = 8  -> [c |-> "P", len |-> Pick(0..64), dots |-> 0]
          [] r = 9  -> [c |-> "P", len |-> Pick(1..64), dots |-> RandDots(k)]
          [] r \in 10..11 -> [c |-> "N", n |-> Pick(0..84), dots |-> RandDots(k), via |-> Via(k)]
          [] r = 12 -> [c |-> "L", n |-> Pick(1..64), via |-> Via(k)]
          [] r = 13 -> [c |-> "T", n |-> Pick(32..255), via |-> Via(k)]
          [] r = 14 -> [c |-> "O", n |-> Pick(0..6), via |-> Via(k)]
          [] r \in 15..16 -> [c |-> Pick({"<", ">"})]
          [] r \in 17..19 -> [c |-> "M", m |-> <<"N", "L", "S", "B", "B", "F">>[Pick(1..6)]]
          [] r = 20 -> [c |-> "O", n |-> Pick({0, 6}), via |-> "lit"]
RandBad(k) ==
    Pick({ [c |-> "note", name |-> "E", acc |-> "#", len |-> -1, dots |-> 0], [c |-> "note", name |-> "B", acc |-> "+", len |-> 4, dots |-> 0],
           [c |-> "note", name |-> "C", acc |-> "-", len |-> -1, dots |-> 0], [c |-> "note", name |-> "F", acc |-> "-", len |-> -1, dots |-> 1],
           [c |-> "note", name |-> "G", acc |-> "", len |-> Pick(65..99), dots |-> 0],
           [c |-> "P", len |-> -1, dots |-> 0], [c |-> "P", len |-> Pick(65..200), dots |-> 0], [c |-> "P", len |-> 0, dots |-> 1],
           [c |-> "N", n |-> Pick(85..300), dots |-> 0, via |-> Via(k)], [c |-> "L", n |-> Pick({0, 65, 100, 255}), via |-> Via(k)],
           [c |-> "T", n |-> Pick({0, 1, 31, 256, 1000}), via |-> Via(k)], [c |-> "O", n |-> Pick({7, 8, 10}), via |-> Via(k)],
           [c |-> "M", m |-> Pick({"X", "M", "A", "1"})], [c |-> "bad", x |-> Pick({"H", "I", "J", "K", "Q", "R", "S", "U", "V5", "W", "Y", "Z", "!", "?", "="})] })
RandCmd(k) == IF Pick(1..BadOdds) = 1 THEN RandBad(k) ELSE RandGood(k)
RECURSIVE RandSeq(_, _)
RandSeq(k, n) == IF n = 0 THEN <<>> ELSE <<RandCmd(k)>> \o RandSeq(k + 1, n - 1)
\* an X substring (no variables, no nested X inside) in place of one command
RandStmt(k) == LET n  == Pick(1..MaxCmds)
                s  == RandSeq(1, n)
            IN  IF Pick(1..4) = 1
                THEN LET p == Pick(1..n) IN [j \in 1..n |-> IF j = p THEN [c |-> "X", sub |-> RandSeq(50, Pick(0..3)), var |-> "S" \o ToString(j) \o "$"] ELSE s[j]]
                ELSE s
\* variables inside substrings are not used (the substring text is a literal value of the string variable)
RECURSIVE Lit(_)
Lit(s) == IF s = <<>> THEN <<>> ELSE <<IF "via" \in DOMAIN Head(s) THEN [Head(s) EXCEPT !.via = "lit"] ELSE Head(s)>> \o Lit(Tail(s))
Clean(s) == [j \in 1..Len(s) |-> IF s[j].c = "X" THEN [s[j] EXCEPT !.sub = Lit(s[j].sub)] ELSE s[j]]

Keep(s) == LET r == Run([Voice0 EXCEPT !.fg = FALSE], s) IN Len(r.tones) <= MaxTones
Emit == PrintT(<<"STMT", ToJson([cmds |-> cs, sep |-> sep, text |-> Render(cs, sep), vars |-> VarsOf(cs)])>>)

Init == /\ i \in 1..NStmts
        /\ cs = Clean(RandStmt(i))
        /\ sep = <<"", "", " ", ";">>[Pick(1..4)]
        /\ Keep(cs)
        /\ Emit
Next == UNCHANGED vars
Spec == Init /\ [][Next]_vars
=============================================================================
